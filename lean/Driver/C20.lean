import Driver.Frame
import KrakenModel.Model.AnnounceQueue
import KrakenModel.Model.SchedQueue
/- Driver for C20: replays announce-queue transcripts on the model and monitors the property
   predicates on what the implementation returned. -/
open Driver KrakenModel.AnnounceQueue

namespace C20

/-- monitor over implementation observations only (independent of the model's state) -/
structure Mon where
  out : List Nat := []      -- returned by Next and neither Ready'd, ejected nor re-added since
  gone : List Nat := []     -- ejected and not re-added since
  everAdded : List Nat := []
  order : List Nat := []    -- arrival order in the ready list as implied by the API calls so far

structure St where
  m : State := {}
  mon : Mon := {}
  wf : Bool := true   -- history so far respects the documented precondition of Add

def hash? (t : String) : Option Nat :=
  match t.toList with
  | 'h' :: ds => (String.ofList ds).toNat?
  | _ => none

def hashTok (h : Nat) : String := s!"h{h}"

def step (s : St) (kind : String) (args impl : List String) : Option (St × StepOut) :=
  if kind ≠ "op" then none else
  match args with
  | ["add", t] => do
    let h ← hash? t
    -- inside Add's precondition? judged from the API-level ghost (added and neither served-and-forgotten nor ejected)
    let dup := h ∈ s.mon.order ∨ h ∈ s.mon.out
    let mon := { s.mon with out := s.mon.out.filter (· ≠ h), gone := s.mon.gone.filter (· ≠ h), everAdded := h :: s.mon.everAdded, order := s.mon.order ++ [h] }
    pure ({ m := add s.m h, mon, wf := s.wf && !dup }, { obs := ["ok"], branch := if dup then "add.dup" else "add.fresh" })
  | ["next"] =>
    let (m', r) := next s.m
    -- outside the documented precondition of Add (a duplicate Add happened) nothing is promised: the
    -- implementation's answer is not compared any more, only counted as a branch
    let obs := if !s.wf then impl else match r with | some h => ["some", hashTok h] | none => ["none"]
    -- predicates on the implementation's answer
    let pf : List String := if !s.wf then [] else match impl with
      | ["some", t] => match hash? t with
        | some h =>
          (if h ∈ s.mon.out then [s!"side=impl key=served-twice next returned {t} again without Ready/Add"] else []) ++
          (if h ∈ s.mon.gone then [s!"side=impl key=served-after-eject next returned ejected {t}"] else []) ++
          (if h ∉ s.mon.everAdded then [s!"side=impl key=served-unknown next returned {t} never added"] else []) ++
          (if s.mon.order.head? ≠ some h then [s!"side=impl key=out-of-order next returned {t}, oldest ready is {s.mon.order.head?.map hashTok}"] else [])
        | none => []
      | ["none"] => if s.mon.order ≠ [] then [s!"side=impl key=lost next returned none while {s.mon.order.map hashTok} are ready"] else []
      | _ => []
    let mon := match impl with
      | ["some", t] => match hash? t with
        | some h => { s.mon with out := h :: s.mon.out, order := s.mon.order.erase h }
        | none => s.mon
      | _ => s.mon
    some ({ s with m := m', mon }, { obs, branch := if !s.wf then "next.outside-precondition" else if r.isSome then "next.some" else "next.none", propfails := pf })
  | ["ready", t] => do
    let h ← hash? t
    let isP := h ∈ s.m.pending
    let mon := { s.mon with out := s.mon.out.filter (· ≠ h), order := if h ∈ s.mon.out then s.mon.order ++ [h] else s.mon.order }
    pure ({ s with m := ready s.m h, mon }, { obs := ["ok"], branch := if isP then "ready.pending" else "ready.noop" })
  | ["eject", t] => do
    let h ← hash? t
    let br := if h ∈ s.m.ready then "eject.ready" else if h ∈ s.m.pending then "eject.pending" else "eject.absent"
    let mon := { s.mon with out := s.mon.out.filter (· ≠ h), gone := h :: s.mon.gone, order := s.mon.order.erase h }
    pure ({ s with m := eject s.m h, mon }, { obs := ["ok"], branch := br })
  | _ => none

def machine : Machine := { σ := St, name := "aq", init := fun _ => some {}, step := step }

end C20

/- Second machine, `aqs`: scheduler-level use of the announce queue. Replays schedules of scheduler
   events on Model.SchedQueue (the repaired code) and compares, per event, the exact sequence of calls the
   real scheduler made on the real queue (with what Next returned), the torrent controls afterwards and the
   final drain of the queue. -/
namespace C20S
open KrakenModel.SchedQueue

def ntor : Nat := 3

structure St where
  m : KrakenModel.SchedQueue.State := {}
  sat : List Nat := []
  cached : List Nat := []
  implCtrl : List Nat := []     -- torrents that have a control according to the implementation's last `st`
  implReady : List String := [] -- the ready list according to the implementation's last `q=`

def hashTok (h : Nat) : String := s!"h{h}"

def insSorted (x : String) : List String → List String
  | [] => [x]
  | y :: ys => if x < y then x :: y :: ys else y :: insSorted x ys

/-- the queue content, rendered like the harness renders its shadow of the real queue -/
def qTok (q : KrakenModel.AnnounceQueue.State) : String :=
  "q=" ++ listTok (q.ready.map hashTok) ++ "|" ++ listTok ((q.pending.map hashTok).foldl (fun acc x => insSorted x acc) [])

def flTok (m : KrakenModel.SchedQueue.State) : String :=
  "fl=" ++ String.join ((List.range ntor).map fun h => toString (m.inflight h))

def stObs (s : St) : List String :=
  ((List.range ntor).map fun h => match s.m.ctrl h with
    | some (g, c) => s!"h{h}=g{g}:c{boolTok c}"
    | none => s!"h{h}=-") ++
  ["sat=" ++ String.join ((List.range ntor).map fun h => boolTok (h ∈ s.sat))]

/-- the clause "ready again only after its in-flight announce finished", judged on the implementation's
answer (`q=ready|pending`, `fl=` in-flight announce requests per torrent) -/
def inflightMon (impl : List String) : List String :=
  match kv? impl "q", kv? impl "fl" with
  | some qt, some fl =>
    let ready := list? ((qt.splitOn "|").headD "-")
    (List.range ntor).filterMap fun h =>
      if (fl.toList.getD h '0') ≠ '0' ∧ hashTok h ∈ ready then
        some s!"side=impl key=ready-while-announce-in-flight {hashTok h} waits in the ready list while an announce request for it is in flight"
      else none
  | _, _ => []

/-- `xs` is a subsequence of `ys` (same relative order) -/
def subseq : List String → List String → Bool
  | [], _ => true
  | _ :: _, [] => false
  | x :: xs, y :: ys => if x = y then subseq xs ys else subseq (x :: xs) ys

/-- first come first served across an announce tick, judged on the implementation's ready list before and after:
the tick takes a prefix off the list (saturated torrents it passes over, then at most one it announces or finds
unknown) and re-queues the passed-over ones — so for some k the list afterwards is `before.drop k` followed by a
subsequence of `before.take k`: those it did not reach stay in front, those it passed over come back in their
arrival order (this is `Spec.C20.fifo_history` read on one tick). -/
def tickFifo (before after : List String) : Bool :=
  (List.range (before.length + 1)).any fun k =>
    let rest := before.drop k
    after.take rest.length = rest && subseq (after.drop rest.length) (before.take k)

def implReadyOf (impl : List String) : Option (List String) :=
  (kv? impl "q").map fun qt => list? ((qt.splitOn "|").headD "-")

def act (s : St) (a : Action) (first : List String) (br : String) (impl : List String) : Option (St × StepOut) :=
  let m' := KrakenModel.SchedQueue.step true s.m a
  some ({ s with m := m' }, { obs := first ++ [qTok m'.q, flTok m'], branch := br, propfails := inflightMon impl })

def step (s : St) (kind : String) (args impl : List String) : Option (St × StepOut) :=
  if kind = "st" then
    let ic := (List.range ntor).filter fun h => match kv? impl s!"h{h}" with | some v => v ≠ "-" | none => false
    some ({ s with implCtrl := ic }, { obs := stObs s, branch := "st" })
  else if kind = "calls" then
    -- evidence only (which calls the scheduler made on the queue); nothing is compared
    let n := match args with | [t] => (list? t).length | _ => 0
    some (s, { obs := [], branch := s!"calls.{min n 4}" })
  else if kind ≠ "op" then none else
  (fun (r : Option (St × StepOut)) => r.map fun (s', o) =>
    ({ s' with implReady := (implReadyOf impl).getD s'.implReady }, o)) <|
  match args with
  | ["adv", d] => do let _ ← d.toNat?; pure (s, { obs := [qTok s.m.q, flTok s.m], branch := "adv", propfails := inflightMon impl })
  | ["req", ht] => do
    let h ← C20.hash? ht
    let c := decide (h ∈ s.cached)
    let br := match s.m.ctrl h with
      | some (_, comp) => if comp && !c then "req.evicted" else if comp then "req.complete" else "req.join"
      | none => if c then "req.add.cached" else "req.add"
    act s (.request h c) [] br impl
  | ["inc", ht] => do
    let h ← C20.hash? ht
    if h ∈ s.sat then pure (s, { obs := ["rejected", qTok s.m.q, flTok s.m], branch := "inc.rejected", propfails := inflightMon impl })
    else act s (.incoming h (decide (h ∈ s.cached))) ["active"] (if (s.m.ctrl h).isSome then "inc.existing" else "inc.add") impl
  | ["incbad", ht] => do
    -- the conn is rejected by the dispatcher after addIncomingConn has created the control: for the queue this is
    -- the same as an accepted conn (the control stays, queued once)
    let h ← C20.hash? ht
    if h ∈ s.sat then pure (s, { obs := ["rejected", qTok s.m.q, flTok s.m], branch := "incbad.rejected", propfails := inflightMon impl })
    else act s (.incoming h (decide (h ∈ s.cached))) ["connrejected"] (if (s.m.ctrl h).isSome then "incbad.existing" else "incbad.add") impl
  | ["evict", ht] => do
    let h ← C20.hash? ht
    let r := if h ∈ s.cached then "evicted" else "none"
    pure ({ s with cached := s.cached.filter (· ≠ h) }, { obs := [r, qTok s.m.q, flTok s.m], branch := "evict." ++ r, propfails := inflightMon impl })
  | ["finish", ht] => do
    let h ← C20.hash? ht
    let r := match s.m.ctrl h with | some (_, false) => "ok" | some (_, true) => "dup" | none => "absent"
    act { s with cached := if r = "ok" then h :: s.cached else s.cached } (.finish h) [r] ("finish." ++ r) impl
  | ["notice", ht, gt] => do
    let h ← C20.hash? ht
    let g ← (match gt.toList with | 'g' :: ds => (String.ofList ds).toNat? | _ => none)
    let r := if (h, g) ∈ s.m.notices then "applied" else "none"
    let br := if r = "none" then "notice.none" else match s.m.ctrl h with
      | some (g', _) => if g' = g then "notice.own" else "notice.stale"
      | none => "notice.orphan"
    act s (.notice h g) [r] br impl
  | ["rm", ht] => do
    let h ← C20.hash? ht
    let br := match s.m.ctrl h with
      | some (_, c) => (if c then "rm.complete" else "rm.incomplete") ++ (if h ∈ s.m.q.ready ∨ h ∈ s.m.q.pending then ".queued" else "")
      | none => "rm.absent"
    act { s with cached := s.cached.filter (· ≠ h) } (.remove h) [] br impl
  | ["tick"] =>
    let chosen := match kv? impl "dropped" with | some t => (list? t).filterMap C20.hash? | none => []
    let adm := chosen.filter fun h => (s.m.ctrl h).isSome
    let m' := adm.foldl (fun m h => KrakenModel.SchedQueue.step true m (.remove h)) s.m
    some ({ s with m := m' }, { obs := ["dropped=" ++ listTok (adm.map hashTok), qTok m'.q, flTok m'],
                                branch := if adm.isEmpty then "tick.none" else "tick.drop", propfails := inflightMon impl })
  | ["sat", ht] => do
    let h ← C20.hash? ht
    pure ({ s with sat := if h ∈ s.sat then s.sat else h :: s.sat }, { obs := [qTok s.m.q, flTok s.m], branch := "sat", propfails := inflightMon impl })
  | ["unsat", ht] => do
    let h ← C20.hash? ht
    pure ({ s with sat := s.sat.filter (· ≠ h) }, { obs := [qTok s.m.q, flTok s.m], branch := "unsat", propfails := inflightMon impl })
  | ["atick"] =>
    let ops := queueOps true s.m (.announceTick s.sat)
    let nskip := (ops.filter fun o => match o with | .ready _ => true | _ => false).length
    let ann := (KrakenModel.SchedQueue.step true s.m (.announceTick s.sat)).inflight ≠ s.m.inflight
    let _ := ann
    let pf := match implReadyOf impl with
      | some after => if tickFifo s.implReady after then [] else
          [s!"side=impl key=tick-requeue-not-fifo the announce tick turned the ready list {listTok s.implReady} into {listTok after}: torrents it passed over did not re-enter in arrival order"]
      | none => []
    (act s (.announceTick s.sat) [] s!"atick.skip{min nskip 3}" impl).map fun (s', o) => (s', { o with propfails := o.propfails ++ pf })
  | ["ares", ht] => do
    let h ← C20.hash? ht
    let r := if s.m.inflight h = 0 then "none" else "answered"
    act s (.announceResult h) [r] (if r = "none" then "ares.none" else if (s.m.ctrl h).isSome then (if h ∈ s.m.q.pending then "ares.requeue" else "ares.noop") else "ares.unknown") impl
  | ["aerr", ht] => do
    let h ← C20.hash? ht
    let r := if s.m.inflight h = 0 then "none" else "answered"
    act s (.announceErr h) [r] (if r = "none" then "aerr.none" else if h ∈ s.m.q.pending then "aerr.requeue" else "aerr.noop") impl
  | ["drain"] =>
    -- the harness Ready()s every torrent and drains the real queue; the implementation's answer is checked
    let q := (List.range ntor).foldl (fun q h => KrakenModel.AnnounceQueue.ready q h) s.m.q
    let implOrder := match kv? impl "order" with | some t => (list? t).filterMap C20.hash? | none => []
    let dup := implOrder.filter fun h => implOrder.count h > 1
    let pf := (if dup.isEmpty then [] else [s!"side=impl key=queued-twice {hashTok (dup.headD 0)} is in the announce queue more than once"]) ++
      (implOrder.filter (fun h => h ∉ s.implCtrl)).eraseDups.map fun h =>
        s!"side=impl key=queued-after-removal {hashTok h} is still in the announce queue but has no torrent control"
    some (s, { obs := ["order=" ++ listTok (q.ready.map hashTok)], branch := s!"drain.{min q.ready.length 2}", propfails := pf })
  | _ => none

def machine : Machine := { σ := St, name := "aqs", init := fun _ => some {}, step := step }

end C20S

/- machine `aqr`: the reloadable scheduler (NewAgentScheduler … Reload). The model is the scheduler-level model;
   a reload starts from its initial state: no torrents, a fresh empty queue, nothing in flight. Compared after every
   operation: the ready list as a probe event reads it through Next (and puts it back), and the set of controls. -/
namespace C20R
open KrakenModel.SchedQueue

def ntor : Nat := 2

def stObs (m : KrakenModel.SchedQueue.State) : List String :=
  ["q=" ++ listTok (m.q.ready.map C20S.hashTok),
   "ctrl=" ++ listTok (((List.range ntor).filter fun h => (m.ctrl h).isSome).map C20S.hashTok)]

def step (m : KrakenModel.SchedQueue.State) (kind : String) (args impl : List String) :
    Option (KrakenModel.SchedQueue.State × StepOut) :=
  if kind = "st" then
    -- the C20 queue invariant on the implementation's own answer
    let q := match kv? impl "q" with | some t => list? t | none => []
    let ctrls := match kv? impl "ctrl" with | some t => list? t | none => []
    let dup := q.filter fun h => q.count h > 1
    let pf := (if dup.isEmpty then [] else [s!"side=impl key=queued-twice {dup.headD ""} was handed out more than once by Next with no Ready in between"]) ++
      ((q.filter fun h => !ctrls.contains h).eraseDups.map fun h =>
        s!"side=impl key=queued-after-removal {h} is in the announce queue but the scheduler holds no control for it")
    some (m, { obs := stObs m, branch := "st", propfails := pf })
  else if kind ≠ "op" then none else
  match args with
  | ["add", ht] => do
    let h ← C20.hash? ht
    let br := if (m.ctrl h).isSome then "add.join" else "add.new"
    pure (KrakenModel.SchedQueue.step true m (.request h false), { obs := [], branch := br })
  | ["tick"] =>
    let m' := KrakenModel.SchedQueue.step true m (.announceTick [])
    some (m', { obs := [], branch := if m'.q.ready.length < m.q.ready.length then "tick.announce" else "tick.none" })
  | ["ares", ht] => do
    let h ← C20.hash? ht
    let r := if m.inflight h = 0 then "none" else "answered"
    pure (KrakenModel.SchedQueue.step true m (.announceResult h),
          { obs := [r], branch := if r = "none" then "ares.none" else if h ∈ m.q.pending then "ares.requeue" else "ares.noop" })
  | ["rm", ht] => do
    let h ← C20.hash? ht
    pure (KrakenModel.SchedQueue.step true m (.remove h), { obs := impl.take 1, branch := if (m.ctrl h).isSome then "rm.held" else "rm.absent" })
  | ["reload"] =>
    let nonempty := !m.q.ready.isEmpty || !m.q.pending.isEmpty
    some ({}, { obs := [if nonempty then "nonempty" else "empty"], branch := if nonempty then "reload-with-nonempty-queue" else "reload.empty" })
  | _ => none

def machine : Machine := { σ := KrakenModel.SchedQueue.State, name := "aqr", init := fun _ => some {}, step := step }
end C20R

def main (args : List String) : IO UInt32 := runMachines [C20.machine, C20S.machine, C20R.machine] args
