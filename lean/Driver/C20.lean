import Driver.Frame
import KrakenModel.Model.AnnounceQueue
/- Driver for C20: replays announce-queue transcripts on the model and monitors the property
   predicates on what the implementation returned. -/
open Driver KrakenModel.AnnounceQueue

namespace C20

/-- monitor over implementation observations only (independent of the model's state) -/
structure Mon where
  out : List Nat := []      -- returned by Next and neither Ready'd, ejected nor re-added since
  gone : List Nat := []     -- ejected and not re-added since
  everAdded : List Nat := []
  order : List Nat := []    -- arrival order in the ready list as implied by the API calls so far

structure St where
  m : State := {}
  mon : Mon := {}
  wf : Bool := true   -- history so far respects the documented precondition of Add

def hash? (t : String) : Option Nat :=
  match t.toList with
  | 'h' :: ds => (String.ofList ds).toNat?
  | _ => none

def hashTok (h : Nat) : String := s!"h{h}"

def step (s : St) (kind : String) (args impl : List String) : Option (St × StepOut) :=
  if kind ≠ "op" then none else
  match args with
  | ["add", t] => do
    let h ← hash? t
    let dup := h ∈ s.m.ready ∨ h ∈ s.m.pending
    let mon := { s.mon with out := s.mon.out.filter (· ≠ h), gone := s.mon.gone.filter (· ≠ h), everAdded := h :: s.mon.everAdded, order := s.mon.order ++ [h] }
    pure ({ m := add s.m h, mon, wf := s.wf && !dup }, { obs := ["ok"], branch := if dup then "add.dup" else "add.fresh" })
  | ["next"] =>
    let (m', r) := next s.m
    let obs := match r with | some h => ["some", hashTok h] | none => ["none"]
    -- predicates on the implementation's answer
    let pf : List String := if !s.wf then [] else match impl with
      | ["some", t] => match hash? t with
        | some h =>
          (if h ∈ s.mon.out then [s!"side=impl key=served-twice next returned {t} again without Ready/Add"] else []) ++
          (if h ∈ s.mon.gone then [s!"side=impl key=served-after-eject next returned ejected {t}"] else []) ++
          (if h ∉ s.mon.everAdded then [s!"side=impl key=served-unknown next returned {t} never added"] else []) ++
          (if s.mon.order.head? ≠ some h then [s!"side=impl key=out-of-order next returned {t}, oldest ready is {s.mon.order.head?.map hashTok}"] else [])
        | none => []
      | ["none"] => if s.mon.order ≠ [] then [s!"side=impl key=lost next returned none while {s.mon.order.map hashTok} are ready"] else []
      | _ => []
    let mon := match impl with
      | ["some", t] => match hash? t with
        | some h => { s.mon with out := h :: s.mon.out, order := s.mon.order.erase h }
        | none => s.mon
      | _ => s.mon
    some ({ s with m := m', mon }, { obs, branch := if r.isSome then "next.some" else "next.none", propfails := pf })
  | ["ready", t] => do
    let h ← hash? t
    let isP := h ∈ s.m.pending
    let mon := { s.mon with out := s.mon.out.filter (· ≠ h), order := if h ∈ s.mon.out then s.mon.order ++ [h] else s.mon.order }
    pure ({ s with m := ready s.m h, mon }, { obs := ["ok"], branch := if isP then "ready.pending" else "ready.noop" })
  | ["eject", t] => do
    let h ← hash? t
    let br := if h ∈ s.m.ready then "eject.ready" else if h ∈ s.m.pending then "eject.pending" else "eject.absent"
    let mon := { s.mon with out := s.mon.out.filter (· ≠ h), gone := h :: s.mon.gone, order := s.mon.order.erase h }
    pure ({ s with m := eject s.m h, mon }, { obs := ["ok"], branch := br })
  | _ => none

def machine : Machine := { σ := St, name := "aq", init := fun _ => some {}, step := step }

end C20

def main (args : List String) : IO UInt32 := runMachines [C20.machine] args
