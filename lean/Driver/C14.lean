import Driver.Frame
import KrakenModel.Model.PeerInput
/- Driver for C14: three machines.
   `wire`: one-line cases for Conn.readMessage;  `hs`: one-line cases for handshakeFromP2PMessage;
   `disp`: cases of addPeer / dispatch operations on a dispatcher, with `st` records after each.
   The model replayed is the repaired code (`rep = true`); monitors flag panics, unbounded allocation and
   out-of-range state on what the implementation did. -/
open Driver KrakenModel.PeerInput

namespace C14

def intList? (tok : String) : Option (List Int) := (list? tok).mapM (·.toInt?)
def natList? (tok : String) : Option (List Nat) := (list? tok).mapM (·.toNat?)

def triple? (tok : String) : Option (Option (Int × Int × Int)) :=
  if tok = "nil" then some none else
  match tok.splitOn ":" with
  | [a, b, c] => do pure (some (← a.toInt?, ← b.toInt?, ← c.toInt?))
  | _ => none

def pair? (tok : String) : Option (Option (Int × Int)) :=
  if tok = "nil" then some none else
  match tok.splitOn ":" with
  | [a, b] => do pure (some (← a.toInt?, ← b.toInt?))
  | _ => none

def single? (tok : String) : Option (Option Int) :=
  if tok = "nil" then some none else tok.toInt?.map some

/-- impl-side monitor shared by the one-line machines -/
def implMon (what : String) (impl : List String) : List String :=
  (if impl.head? = some "panic" then [s!"side=impl key=panic {what} panicked"] else []) ++
  (if kv? impl "alloc" = some "big" then [s!"side=impl key=alloc-unbounded {what} allocated beyond the bound"] else [])

-- ------------------------------------------------------------------ wire

def wireObs (r : WireRes) (bound : Nat) : List String × String :=
  let alloc := if r.allocs.all (· ≤ bound) then "alloc=small" else "alloc=big"
  match r.out with
  | .closeTooLarge => (["close", "toolarge", alloc], "close.toolarge")
  | .closeShortBody => (["close", "shortbody", alloc], "close.shortbody")
  | .closeUnmarshal => (["close", "unmarshal", alloc], "close.unmarshal")
  | .closeBadPayload => (["close", "badpayload", alloc], "close.badpayload")
  | .closeShortPayload => (["close", "shortpayload", alloc], "close.shortpayload")
  | .panicNilBody => (["panic", alloc], "panic")
  | .panicNegLen => (["panic", alloc], "panic")
  | .msg t none => (["msg", s!"typ={t}", "payload=-", alloc], if 0 ≤ t ∧ t ≤ 6 then s!"msg.{t}" else "msg.othertype")
  | .msg t (some n) => (["msg", s!"typ={t}", s!"payload={n}", alloc], "msg.payload")

def wireStep (_ : Unit) (kind : String) (args impl : List String) : Option (Unit × StepOut) :=
  if kind ≠ "one" then none else do
  let dlen ← (kv? args "dlen").bind (·.toNat?)
  let avail ← (kv? args "avail").bind (·.toNat?)
  let maxpl ← (kv? args "maxpl").bind (·.toNat?)
  let parse ← kv? args "parse"
  let dec : Option Decoded ←
    if parse = "ok" then do
      let typ ← (kv? args "typ").bind (·.toInt?)
      let pp ← (kv? args "pp").bind triple?
      pure (some { typ := typ, pp := pp })
    else if parse = "err" ∨ parse = "na" then pure none else none
  let r := readMessage true maxpl { dlen := dlen, avail := avail, parse := dec }
  let (obs, br) := wireObs r (maxMessageSize + maxpl)
  pure ((), { obs := obs, branch := "wire." ++ br, propfails := implMon "Conn.readMessage" impl })

def wire : Machine := { σ := Unit, name := "wire", init := fun _ => some (), step := wireStep }

-- ------------------------------------------------------------------ handshake

/-- positions of the set bits of `nwords` 64-bit words that all consist of the byte `fill` -/
def fillBits (fill : Nat) (nwords : Nat) : List Nat :=
  (List.range (64 * nwords)).filter fun p => (fill >>> (p % 8)) % 2 = 1

def bf? (bitsTok bytesTok : String) (fill : Nat) : Option BfBytes := do
  let bits ← bitsTok.toNat?
  let n ← bytesTok.toInt?
  pure (if n < 0 then { short := true, bits := bits, bytes := 0 }
        else { short := false, bits := bits, bytes := n.toNat,
               setBits := if 8 * words bits ≤ n.toNat ∧ bits ≤ 1048576 then fillBits fill (words bits) else [] })

def hsStep (_ : Unit) (kind : String) (args impl : List String) : Option (Unit × StepOut) :=
  if kind ≠ "one" then none else do
  let g (k d : String) := (kv? args k).getD d
  let fill ← (g "fill" "85").toNat?
  let bf ← bf? (g "bits" "0") (g "bytes" "0") fill
  let rbf ← (if g "rbits" "-" = "-" then some none else (bf? (g "rbits" "0") (g "rbytes" "0") fill).map some)
  let i : HsIn := { isBitfieldType := g "typ" "0" = "0", body := g "body" "1" = "1", pidOk := g "pid" "ok" = "ok",
                    ihOk := g "ih" "ok" = "ok", nameOk := g "name" "ok" = "ok", bf := bf, rbf := rbf }
  let r := handshake true i
  let alloc := if r.allocs.all (· ≤ maxMessageSize + 8) then "alloc=small" else "alloc=big"
  let (obs, br) := match r.out with
    | none => (["err", alloc], "hs.err")
    | some (n, sb) => (["ok", s!"len={n}", s!"cnt={sb.length}", alloc],
        if sb.any (· ≥ n) then "hs.ok.dirty" else "hs.ok")
  pure ((), { obs := obs, branch := br, propfails := implMon "handshake" impl })

def hs : Machine := { σ := Unit, name := "hs", init := fun _ => some (), step := hsStep }

-- ------------------------------------------------------------------ dispatcher

structure DSt where
  m : DState
  order : List Nat := []   -- peers in the order they were first added

def peer? (t : String) : Option Nat :=
  match t.toList with
  | 'p' :: ds => (String.ofList ds).toNat?
  | _ => none

def pieceLenC : Nat := 4

def dispInit (toks : List String) : Option DSt := do
  let kind := (kv? toks "kind").getD "agent"
  let np ← ((kv? toks "np").getD "3").toNat?
  let hv ← natList? ((kv? toks "have").getD "-")
  if np = 0 then none else
  pure { m := { origin := kind = "origin", np := np, pieceLen := pieceLenC, lastLen := pieceLenC - (np - 1) % 2,
                pieces := hv.foldl (fun acc x => insertSorted x acc) [] } }

def natsTok (xs : List Nat) : String := listTok (xs.map toString)

def dispStObs (s : DSt) : List String :=
  [s!"have={s.m.np}/{natsTok s.m.pieces}"] ++
  (s.order.filterMap fun k => (s.m.peers k).map fun p => s!"p{k}={p.len}/{natsTok p.bits}") ++
  ["cnt=" ++ listTok ((List.range s.m.np).map fun i => toString (s.m.cnt i))]

def sentTok : Sent → String
  | .none => "sent=none"
  | .payload i n => s!"sent=payload:{i}:{n}"
  | .error i => s!"sent=error:{i}"

/-- clamp an int32 index the way the dispatcher echoes it (`int32(int(i))`): identity on int32 values -/
def dispStep (s : DSt) (kind : String) (args impl : List String) : Option (DSt × StepOut) :=
  if kind = "st" then
    -- range predicates on the implementation's state
    let pf := impl.filterMap fun t =>
      match t.splitOn "=" with
      | [k, v] =>
        if k.startsWith "p" then
          match (v.splitOn "/").head?.bind (·.toNat?) with
          | some n =>
            if n > s.m.np then some s!"side=impl key=peer-bitfield-beyond-torrent {k} has {n} bits, the torrent {s.m.np} pieces"
            else match (v.splitOn "/").getD 1 "-" |> natList? with
              | some bs => if bs.any (· ≥ n) then some s!"side=impl key=peer-bit-beyond-length {k} has a bit set at or beyond its length {n}" else none
              | none => none
          | none => none
        else none
      | _ => none
    some (s, { obs := dispStObs s, branch := "st", propfails := pf })
  else if kind ≠ "op" then none else
  let pan := if impl.head? = some "panic" then [s!"side=impl key=panic dispatcher panicked on {sp args}"] else []
  match args with
  | ["addpeer", pt, lt, bt] => do
    let k ← peer? pt
    let len ← lt.toNat?
    let bits ← natList? bt
    let r := addPeer true s.m k len (bits.foldl (fun acc x => insertSorted x acc) [])
    let obs := match r.out with | .ok _ => "ok" | .err => "err" | _ => "panic"
    let isNew := obs = "ok" ∧ k ∉ s.order
    let br := if len > s.m.np then "addpeer.toolong" else if (s.m.peers k).isSome then "addpeer.exists" else "addpeer.ok"
    pure ({ m := r.st, order := if isNew then s.order ++ [k] else s.order }, { obs := [obs], branch := br, propfails := pan })
  | ["addpeer_wire", pt, hexTok] => do
    let k ← peer? pt
    let raw ← bytes? hexTok
    if raw.length < 8 then none else
    let len := (raw.take 8).foldl (fun acc b => acc * 256 + b) 0
    let nw := words len
    if raw.length - 8 < 8 * nw then
      pure (s, { obs := ["undecodable"], branch := "addpeer_wire.undecodable", propfails := pan })
    else
    -- big-endian 64-bit words; bit j of word w is position 64*w + j
    let body := raw.drop 8
    let bits := (List.range (64 * nw)).filter fun p =>
      let byte := body.getD (8 * (p / 64) + (7 - (p % 64) / 8)) 0
      (byte >>> (p % 8)) % 2 = 1
    let r := addPeer true s.m k len bits
    let obs := match r.out with | .ok _ => "ok" | .err => "err" | _ => "panic"
    let isNew := obs = "ok" ∧ k ∉ s.order
    let br := if len > s.m.np then "addpeer_wire.toolong" else if bits.any (· ≥ len) then "addpeer_wire.dirty"
      else if (s.m.peers k).isSome then "addpeer_wire.exists" else "addpeer_wire.ok"
    pure ({ m := r.st, order := if isNew then s.order ++ [k] else s.order }, { obs := [obs], branch := br, propfails := pan })
  | ["close", pt] => do
    let k ← peer? pt
    let r := removePeer s.m k
    let obs := match r.out with | .ok _ => "ok" | .err => "nopeer" | _ => "panic"
    pure ({ m := r.st, order := s.order.filter (· ≠ k) }, { obs := [obs], branch := "close." ++ obs, propfails := pan })
  | "msg" :: pt :: ty :: ft :: rest => do
    let k ← peer? pt
    let msg : Msg ← (match ty with
      | "announce" => (single? ft).map Msg.announce
      | "request" => (triple? ft).map Msg.request
      | "payload" => do
        let b ← triple? ft
        let data ← rest.head?
        let n : Nat := match b with
          | some (_, _, l) => if l < 0 ∨ l > 65536 then 0 else l.toNat
          | none => 0
        let actual := if data = "short" ∧ n > 0 then n - 1 else n
        pure (Msg.payload b actual (data ≠ "bad"))
      | "error" => (pair? ft).map Msg.error
      | "cancel" => (single? ft).map Msg.cancel
      | "bitfield" => some Msg.bitfield
      | "complete" => some Msg.complete
      | "type" => ft.toInt?.map Msg.unknown
      | _ => none)
    let typ : Msg := match msg with
      | .unknown t => if 0 ≤ t ∧ t ≤ 6 then
          -- a bare known type: its handler sees a nil sub-message (COMPLETE, BITFIELD, CANCEL need none)
          (if t = 0 then .bitfield else if t = 1 then .request none else if t = 2 then .payload none 0 true
           else if t = 3 then .announce none else if t = 4 then .cancel none else if t = 5 then .error none else .complete)
        else msg
      | _ => msg
    let r := dispatch true s.m k typ
    let closed := match r.st.peers k with | some p => p.closed | none => false
    let (obs, br) := match r.out with
      | .ok sent => (["ok", sentTok sent, "closed=" ++ boolTok closed],
          s!"msg.{ty}." ++ (match sent with | .none => "none" | .payload _ _ => "payload" | .error _ => "error") ++
          (if ft = "nil" then ".nil" else ""))
      | .unknownType => (["unknown", "sent=none", "closed=" ++ boolTok closed], "msg.unknowntype")
      | .err => (["nopeer"], "msg.nopeer")
      | .panic _ => (["panic"], "msg.panic")
    pure ({ s with m := r.st }, { obs := obs, branch := br, propfails := pan })
  | _ => none

def disp : Machine := { σ := DSt, name := "disp", init := dispInit, step := dispStep }

end C14

-- ------------------------------------------------------------------ scheduler-level handshakes

namespace C14S
open KrakenModel.ConnState

structure St where
  cfg : Config
  m : KrakenModel.ConnState.State := {}
  nextId : Nat := 0
  active : List (String × Conn) := []
  justClosed : Option String := none   -- pair (e.g. "p0h0") whose connection the implementation reported closed in the last operation

def hashId? (t : String) : Option Nat :=
  if t = "h0" then some 0 else if t = "h1" then some 1 else if t = "hb" then some 2 else none

def init (toks : List String) : Option St := do
  let mx ← ((kv? toks "max").getD "2").toInt?
  pure { cfg := { max := mx, maxMutual := mx, disableBlacklist := false, blacklistDuration := 30000000000 } }

def pairTok (cfg : Config) (m : KrakenModel.ConnState.State) (p h : Nat) : String :=
  match (addPending cfg m p h []).2 with
  | .ok => "free" | .alreadyPending => "pending" | .alreadyActive => "active" | .atCapacity => "cap" | .tooManyMutual => "other"

def step (s : St) (kind : String) (args impl : List String) : Option (St × StepOut) :=
  if kind = "st" then
    let hs := [("h0", 0), ("h1", 1), ("hb", 2)]
    let obs := (List.range 3).flatMap fun p => hs.map fun (ht, h) => s!"p{p}{ht}={pairTok s.cfg s.m p h}"
    let pf := impl.filterMap fun t => match t.splitOn "=" with
      | [k, "pending"] => some s!"side=impl key=pending-leak {k}: a pending entry outlives the connection attempt that created it"
      | [k, "active"] => if s.justClosed = some k then
          some s!"side=impl key=closed-conn-keeps-slot {k}: the connection was closed and its ConnClosed event applied, but the pair still occupies an active slot of the torrent"
        else none
      | _ => none
    some ({ s with justClosed := none }, { obs := obs, branch := "st", propfails := pf })
  else if kind ≠ "op" then none else
  match args with
  | ["inconn", pt, nt, ct, bt] => do
    let p ← C14.peer? pt
    let name := (nt.splitOn "=").getD 1 ""
    let claim ← hashId? ((ct.splitOn "=").getD 1 "")
    let bf := (bt.splitOn "=").getD 1 ""
    let real : Option Nat := if name = "h0" then some 0 else if name = "h1" then some 1 else none
    let i : KrakenModel.PeerInput.InConn :=
      { peer := p, claim := claim, real := real, decodable := bf ≠ "short", bfOk := bf = "ok" ∨ bf = "full" }
    let r := KrakenModel.PeerInput.incoming true s.cfg s.m s.nextId i
    let tok := match r.2 with
      | .acceptFail => "acceptfail" | .rejected => "rejected" | .failed => "failed" | .active => "active" | .connRejected => "connrejected"
    let act := if r.2 = .active then (pt ++ name, (⟨s.nextId, real.getD 0, p, false⟩ : Conn)) :: s.active.filter (·.1 ≠ pt ++ name) else s.active
    let why := if r.2 = .failed then (if real.isNone then ".unknown" else ".mismatch") else if r.2 = .connRejected then "." ++ bf else ""
    let jc := if impl = ["connrejected"] then some (pt ++ name) else none
    pure ({ s with m := r.1, nextId := s.nextId + 1, active := act, justClosed := jc }, { obs := [tok], branch := s!"inconn.{tok}{why}" })
  | ["drop", pt, ht] =>
    match s.active.find? (·.1 = pt ++ ht) with
    | some (_, c) =>
      let again := if blacklisted s.m c.peer c.hash then ".blacklisted" else ""
      some ({ s with m := connClosed s.cfg s.m c, active := s.active.filter (·.1 ≠ pt ++ ht),
                     justClosed := if impl = ["closed"] then some (pt ++ ht) else none },
            { obs := ["closed"], branch := "drop.closed" ++ again })
    | none => some (s, { obs := ["none"], branch := "drop.none" })
  | _ => none

def machine : Machine := { σ := St, name := "hsched", init := init, step := step }

end C14S

def main (args : List String) : IO UInt32 := runMachines [C14.disp, C14.wire, C14.hs, C14S.machine] args
