import Driver.Frame
import KrakenModel.Model.TorrentIdle
/- Driver for C18: replays idle-timeout timelines on the model (`op` records: what each operation
   returned; `st` records: per-torrent status after it) and monitors the property's predicates on
   what the implementation did. -/
open Driver KrakenModel.TorrentIdle

namespace C18

/-- what the implementation last reported for a torrent + API-level ghost history -/
structure TorMon where
  p : Bool := false
  c : Bool := false
  dl : Bool := false
  ca : Bool := false
  serves : List Nat := []   -- times of `serve … ok|noread => sent`
  writes : List Nat := []   -- times of `write … => ok`

structure St where
  cfg : Cfg
  m : State := {}
  now : Nat := 0                       -- sum of the `adv` operations (API-level clock)
  mon : Nat → TorMon := fun _ => {}
  lastOp : List String := []

def hash? (t : String) : Option Nat :=
  match t.toList with
  | 'h' :: ds => (String.ofList ds).toNat?
  | _ => none

def piece? (t : String) : Option Nat :=
  match t.toList with
  | 'p' :: ds => (String.ofList ds).toNat?
  | _ => none

def outTok : Out → List String
  | .none => []
  | .absent => ["absent"]
  | .sent => ["sent"]
  | .rejected => ["rejected"]
  | .ok => ["ok"]
  | .dup => ["dup"]
  | .invalid => ["invalid"]
  | .done => ["done"]
  | .waiting => ["waiting"]

def outName (o : Out) : String := (outTok o).headD "none"

def torClass (t : Tor) : String :=
  if t.present then (if t.complete then "seeding" else "leeching") else (if t.cached then "cached" else "none")

def init (toks : List String) : Option St := do
  let s := (kv? toks "sttl").getD "10"
  let l := (kv? toks "lttl").getD "12"
  let n := (kv? toks "np").getD "2"
  pure { cfg := { seederTTI := ← s.toNat?, leecherTTI := ← l.toNat?, numPieces := ← n.toNat? } }

def setMon (s : St) (h : Nat) (f : TorMon → TorMon) : St :=
  { s with mon := fun h' => if h' = h then f (s.mon h) else s.mon h' }

def stObs (t : Tor) : List String :=
  (if t.present then [s!"p=1", s!"c={boolTok t.complete}", s!"lr={t.lastRead}", s!"lw={t.lastWrite}"]
   else ["p=0", "c=-", "lr=-", "lw=-"]) ++ [s!"dl={boolTok t.dl}", s!"ca={boolTok t.cached}"]

/-- the property's predicates, evaluated on two consecutive implementation statuses of a torrent -/
def monitor (s : St) (h : Nat) (old : TorMon) (p c dl ca : Bool) : List String :=
  let _ := c
  let kind := s.lastOp.head?.getD ""
  let dropped := old.p && !p
  let pf (k d : String) := s!"side=impl key={k} h{h} at t={s.now}: {d}"
  (if dropped && kind = "tick" && old.c then
     (match old.serves.find? (fun t => s.now < t + s.cfg.seederTTI) with
      | some t => [pf "seeder-dropped-while-serving" s!"completed torrent dropped as idle, but it served a piece at t={t} (limit {s.cfg.seederTTI})"]
      | none => []) ++
     (if old.ca && !ca then [pf "idle-drop-deleted-blob" "dropping a completed torrent deleted the cached blob"] else [])
   else []) ++
  (if dropped && kind = "tick" && !old.c then
     (match old.writes.find? (fun t => s.now < t + s.cfg.leecherTTI) with
      | some t => [pf "leecher-dropped-while-receiving" s!"in-progress torrent dropped as idle, but it received a piece at t={t} (limit {s.cfg.leecherTTI})"]
      | none => [])
   else []) ++
  (if dropped && (kind = "tick" || kind = "rm") && !old.c && dl then
     [pf "partial-file-left" "an in-progress download was dropped/cancelled but its partial file still exists"] else []) ++
  (if dropped && kind ≠ "tick" && kind ≠ "rm" then
     [pf "dropped-without-timeout" s!"torrent dropped by operation {sp s.lastOp}"] else []) ++
  (if old.ca && !ca && kind ≠ "rm" && kind ≠ "evict" && !(dropped && kind = "tick" && old.c) then
     [pf "cached-blob-deleted" s!"cached blob disappeared during operation {sp s.lastOp}"] else [])

def step (s : St) (kind : String) (args impl : List String) : Option (St × StepOut) :=
  if kind = "st" then
    match args with
    | [ht] => do
      let h ← hash? ht
      let t := s.m.tors h
      let old := s.mon h
      -- the implementation's status (absent tokens: nothing to monitor)
      let s' := match (kv? impl "p").bind bool?, (kv? impl "dl").bind bool?, (kv? impl "ca").bind bool? with
        | some p, some dl, some ca =>
          let c := ((kv? impl "c").bind bool?).getD false
          (setMon s h (fun m => { m with p := p, c := c, dl := dl, ca := ca }), monitor s h old p c dl ca)
        | _, _, _ => (s, [])
      pure (s'.1, { obs := stObs t, branch := "st." ++ torClass t, propfails := s'.2 })
    | _ => none
  else if kind ≠ "op" then none else
  let s := { s with lastOp := args }
  match args with
  | ["adv", d] => do
    let d ← d.toNat?
    pure ({ s with m := next s.cfg s.m (.adv d), now := s.now + d }, { obs := [], branch := "adv" })
  | ["new", ht, k] => do
    let h ← hash? ht
    let k ← k.toNat?
    let was := (s.m.tors h).present
    let r := KrakenModel.TorrentIdle.step s.cfg s.m (.new h k)
    let ev := evicted (s.m.tors h)
    pure ({ s with m := r.1 }, { obs := outTok r.2, branch := "new." ++ (if ev then "evicted." else if was then "reuse." else "") ++ outName r.2 })
  | ["peer", ht, k] => do
    let h ← hash? ht
    let k ← k.toNat?
    let t := s.m.tors h
    let r := KrakenModel.TorrentIdle.step s.cfg s.m (.peer h k)
    pure ({ s with m := r.1 }, { obs := outTok r.2, branch := "peer." ++ (if t.present then "existing" else torClass (r.1.tors h)) })
  | ["evict", ht] => do
    let h ← hash? ht
    let t := s.m.tors h
    let r := KrakenModel.TorrentIdle.step s.cfg s.m (.evict h)
    pure ({ s with m := r.1 }, { obs := outTok r.2, branch := "evict." ++ torClass t ++ (if t.cached then "" else ".nothing") })
  | ["lost", ht, pt] => do
    let h ← hash? ht
    let i ← piece? pt
    let r := KrakenModel.TorrentIdle.step s.cfg s.m (.lost h i)
    pure ({ s with m := r.1 }, { obs := outTok r.2, branch := "lost." ++ outName r.2 })
  | [ev, ht] =>
    if ev = "aerr" ∨ ev = "ares" then do
      let _ ← hash? ht
      pure ({ s with m := next s.cfg s.m .other }, { obs := [], branch := "other." ++ ev })
    else if ev = "notice" then do
      let h ← hash? ht
      let t := s.m.tors h
      pure ({ s with m := next s.cfg s.m (.notice h) }, { obs := [], branch := "notice." ++ torClass t })
    else if ev = "rm" then do
      let h ← hash? ht
      let t := s.m.tors h
      let r := KrakenModel.TorrentIdle.step s.cfg s.m (.rm h)
      pure ({ s with m := r.1 }, { obs := outTok r.2, branch := "rm." ++ torClass t })
    else none
  | ["stop"] => some ({ s with m := next s.cfg s.m .other }, { obs := [], branch := "other.stop" })
  | ["serve", ht, pt, mode] => do
    let h ← hash? ht
    let i ← piece? pt
    -- "egress": the conn's limiter refuses the piece; sendPiecePayload closes the reader all the same
    let closeOk ← (if mode = "ok" ∨ mode = "egress" then some true else if mode = "closefail" then some false else none)
    let r := KrakenModel.TorrentIdle.step s.cfg s.m (.serve h i closeOk)
    let s := { s with m := r.1 }
    let s := if impl = ["sent"] ∧ closeOk then setMon s h (fun m => { m with serves := s.now :: m.serves }) else s
    pure (s, { obs := outTok r.2, branch := s!"serve.{mode}.{outName r.2}" })
  | ["write", ht, pt, q] => do
    let h ← hash? ht
    let i ← piece? pt
    let good ← (if q = "good" then some true else if q = "bad" then some false else none)
    let r := KrakenModel.TorrentIdle.step s.cfg s.m (.write h i good)
    let completes := !(s.m.tors h).complete && (r.1.tors h).complete
    let s := { s with m := r.1 }
    let s := if impl = ["ok"] then setMon s h (fun m => { m with writes := s.now :: m.writes }) else s
    pure (s, { obs := outTok r.2, branch := s!"write.{q}.{outName r.2}" ++ (if completes then ".completes" else "") })
  | ["tick"] =>
    let m' := next s.cfg s.m .tick
    let drops (h : Nat) : String :=
      let t := s.m.tors h
      if t.present ∧ !(m'.tors h).present then (if t.complete then "S" else "L") else "-"
    some ({ s with m := m' }, { obs := [], branch := s!"tick.{drops 0}{drops 1}" })
  | _ => none

def machine : Machine := { σ := St, name := "idle", init := init, step := step }

end C18

/- machine `idlerace`: the schedule below the model's event granularity (a piece write completing the blob between
   removeTorrent's `!Complete()` test and its `DeleteTorrent`). In the event-level model the tick drops the idle
   download first and the late piece finds no torrent; what is checked here is the implementation's own outcome:
   the torrent is no longer held, and a blob that was complete in between must not have been deleted by an idle
   drop (monitor, raised by the harness and here). -/
namespace C18R
def step (_ : Unit) (kind : String) (args impl : List String) : Option (Unit × StepOut) :=
  if kind ≠ "one" then none else
  match args with
  | ["race", k] =>
    let cib := kv? impl "completed_in_between"
    let ca := kv? impl "cached_after"
    let pf := if k ≠ "rm" ∧ cib = some "1" ∧ ca = some "0" then
        [s!"side=impl key=idle-drop-deleted-completed-blob {k}: the download completed while it was being dropped as idle, and the drop deleted the completed blob from the cache"]
      else []
    -- model: the drop comes first (held=0); the blob's fate under the race is not determined by the model
    some ((), { obs := ["held=0"] ++ impl.drop 1, branch := "race." ++ k, propfails := pf })
  | _ => none
def machine : Machine := { σ := Unit, name := "idlerace", init := fun _ => some (), step := step }
end C18R

/- machine `watch`: the torrentAccessWatcher alone, with overlapping piece writes. Model: LastWriteTime is the
   creation time, then the completion time of the latest successful write (what `Model.TorrentIdle.writeTor` does
   with `lastWrite` when a write is one step); starts and failing writes do not move it. -/
namespace C18W
structure St where
  now : Nat := 0
  lw : Nat := 0
  openW : List (String × Bool × Bool) := []   -- slot, will succeed, a successful write completed since it started
  implLw : Nat := 0

def step (s : St) (kind : String) (args impl : List String) : Option (St × StepOut) :=
  if kind ≠ "op" then none else
  let implLw := ((kv? impl "lw").bind (·.toNat?)).getD s.implLw
  let done (s' : St) (first : List String) (br : String) (okAt : Option Nat) : Option (St × StepOut) :=
    let pf := (if implLw < s.implLw then
        [s!"side=impl key=last-write-time-rolled-back LastWriteTime went from {s.implLw} back to {implLw}"] else []) ++
      (match okAt with
       | some t => if implLw < t then [s!"side=impl key=last-write-time-rolled-back a piece was written at {t} but LastWriteTime is {implLw}"] else []
       | none => [])
    some ({ s' with implLw := implLw }, { obs := first ++ [s!"lw={s'.lw}"], branch := br, propfails := pf })
  match args with
  | ["adv", d] => do
    let d ← d.toNat?
    done { s with now := s.now + d } [] "adv" none
  | ["start", k, r] =>
    if (r ≠ "ok" ∧ r ≠ "fail") ∨ s.openW.any (·.1 = k) then none else
    done { s with openW := (k, r = "ok", false) :: s.openW } [] ("start." ++ r ++ (if s.openW.isEmpty then "" else ".overlapping")) none
  | ["end", k] =>
    match s.openW.find? (·.1 = k) with
    | none => none
    | some (_, ok, overlapped) =>
      let rest := s.openW.filter (·.1 ≠ k)
      if ok then
        done { s with lw := s.now, openW := rest.map fun (k', o, _) => (k', o, true) } ["ok"] "end.ok" (some s.now)
      else
        done { s with openW := rest } ["failed"] (if overlapped then "failed-write-overlapping-good-write" else "end.failed") none
  | _ => none

def machine : Machine := { σ := St, name := "watch", init := fun _ => some {}, step := step }
end C18W

def main (args : List String) : IO UInt32 := runMachines [C18.machine, C18R.machine, C18W.machine] args
