import KrakenModel.Proof.C09Ghost
/-
  Executable mirror of the invariant `Inv2` of Proof/C09Safe.lean over a finite universe of keys and
  suffixes: the C09 driver evaluates it after every atomic model step of every replayed case whose
  schedule is in the class covered by `tiered_safe_partial` (a cheap, independent sanity check of the
  invariant on hundreds of thousands of reachable states).
-/
open KrakenModel KrakenModel.BlobStore KrakenModel.Tiered

namespace C09Check

def keysU : List Nat := [0, 1, 2, 9]
def sfxU : List Nat := [0, 1, 2, 3, 1000]

def attachedB (w : Worker) (k id : Nat) : Bool :=
  w.key = k && w.ent = id && w.pc != .idle && w.pc != .next && w.pc != .unban

def mdAgreeB (mds : List Md) (gm : Nat → Option Md) : Bool := sfxU.all fun sfx => mdGet mds sfx == gm sfx

def coverB (pending : List Nat) (dm mm : List Md) : Bool :=
  sfxU.all fun sfx => pending.contains sfx || mdGet dm sfx == mdGet mm sfx

def diskDoneB (d : Option Blob) (B : Bytes) : Bool :=
  match d with | some b => b.complete && b.data == B | none => false

def diskPartialB (d : Option Blob) (data : Bytes) (inc : Nat) : Bool :=
  match d with | some b => !b.complete && b.data == data && b.mds.isEmpty && b.inc == inc | none => false

def dmds (d : Option Blob) : List Md := match d with | some b => b.mds | none => []

def phaseWB (w : Worker) (m : Blob) (d : Option Blob) (B : Bytes) (dirty : List Nat) : Bool :=
  match w.pc with
  | .fOpen => d.isNone && coverB dirty [] m.mds
  | .fCreate => d.isNone && coverB dirty [] m.mds && w.minc == m.inc
  | .fCreated => diskPartialB d [] w.dinc && coverB dirty [] m.mds && w.minc == m.inc
  | .fCopy => diskPartialB d (B.take w.copied) w.dinc && coverB dirty [] m.mds && w.minc == m.inc
  | .fCopyEof => diskPartialB d (B.take w.copied) w.dinc && coverB dirty [] m.mds && w.minc == m.inc
  | .fCopied ev => !ev && diskPartialB d B w.dinc && coverB dirty [] m.mds
  | .mdSnap => diskDoneB d B && coverB dirty (dmds d) m.mds
  | .mdRead todo => diskDoneB d B && coverB (dirty ++ todo) (dmds d) m.mds
  | .mdWrite sfx v todo =>
    diskDoneB d B && (match v with | some (some md) => md.sfx == sfx | _ => true) && sfxU.all fun sfx' =>
      dirty.contains sfx' || todo.contains sfx' ||
        (if sfx' = sfx then v == some (mdGet m.mds sfx) else mdGet (dmds d) sfx' == mdGet m.mds sfx')
  | .mdCheck => diskDoneB d B && coverB dirty (dmds d) m.mds
  | _ => false

def phaseQB (e : FEntry) (m : Blob) (d : Option Blob) (B : Bytes) : Bool :=
  if e.dataDirty then d.isNone && coverB e.dirtyMD [] m.mds
  else diskDoneB d B && coverB e.dirtyMD (dmds d) m.mds

def sfxNodupB (b : Blob) : Bool := (b.mds.map (·.sfx)).eraseDups.length == b.mds.length

def idx (l : List Worker) : List (Nat × Worker) := (List.range l.length).zip l

/-- which clause fails for key `k` ("" = none) -/
def kinvFail (s : GState) (k : Nat) : String :=
  let t := s.t
  let g := s.g
  let M := t.mem.blobs.get k
  let D := t.disk.blobs.get k
  let E := fget t.fmap k
  let X := t.diskEvicted.contains k
  let ws := idx t.workers
  let chk (name : String) (b : Bool) : String := if b then "" else name
  let fails := [
    chk "gl" (!(g.done k).isSome || g.live k),
    chk "dead" (g.live k || (M.isNone && D.isNone && E.isNone)),
    chk "ent" (match E, M with | some _, some m => m.banned && m.complete | some _, none => false | none, _ => true),
    chk "fresh" (match E with | some id => decide (id < t.nextEnt) && (lookupEnt t.ents id).isSome | none => true),
    chk "nd_m" (match M with | some m => sfxNodupB m | none => true),
    chk "nd_d" (match D with | some d => sfxNodupB d | none => true),
    chk "cm" (match M with | some m => m.complete == (g.done k).isSome | none => true),
    chk "cd" (match D with | some d => !d.complete || (g.done k).isSome | none => true),
    chk "inc_m" (match g.done k, M with
      | none, some m => m.data == g.content k && mdAgreeB m.mds (g.md k) && D.isNone
      | _, _ => true),
    chk "inc_d" (match g.done k, M, D with
      | none, none, some d => d.data == g.content k && mdAgreeB d.mds (g.md k)
      | _, _, _ => true),
    chk "done_m" (match g.done k, M with
      | some B, some m => X || (m.data == B && mdAgreeB m.mds (g.md k))
      | _, _ => true),
    chk "done_d" (match g.done k with
      | some B => X || !(M.isNone || E.isNone) ||
          (match D with | some d => d.complete && d.data == B && mdAgreeB d.mds (g.md k) | none => false)
      | none => true),
    chk "phw" (match g.done k, M, E with
      | some B, some m, some id => X || ws.all fun (_, w) => !attachedB w k id || phaseWB w m D B (dirtyOf t id)
      | _, _, _ => true),
    chk "phq" (match g.done k, M, E with
      | some B, some m, some id => X || ws.any (fun (_, w) => attachedB w k id) ||
          (match lookupEnt t.ents id with | some e => phaseQB e m D B | none => true)
      | _, _, _ => true),
    chk "q0" (!(g.live k && E.isNone) || !t.queue.contains k),
    chk "q1" (match E with
      | some id =>
        let owners := ws.filter fun (_, w) => attachedB w k id
        (t.queue.count k == 1 && owners.isEmpty) || (t.queue.count k == 0 && owners.length == 1)
      | none => true)]
  " ".intercalate (fails.filter (· ≠ ""))

def detFail (s : GState) : String :=
  let bad := s.t.workers.any fun w =>
    w.pc != .idle && w.pc != .next && w.pc != .unban && fget s.t.fmap w.key != some w.ent && s.g.live w.key
  if bad then "det" else ""

def invFail (s : GState) : String :=
  let fs := keysU.map (fun k => let f := kinvFail s k; if f = "" then "" else s!"k{k}:{f}") ++ [detFail s]
  " ".intercalate (fs.filter (· ≠ ""))

/-- the schedule hypothesis of the partial theorem at this action -/
def preB (s : GState) (a : Act) : Bool := decide (pre s a)

end C09Check
