import Driver.Frame
import KrakenModel.Model.Retry
import KrakenModel.Proof.C30
/- Driver for C30: replays persistedretry-manager transcripts on `Model.Retry` (the harness ops are
   short sequences of the model's atomic steps; workers take eagerly, as the harness waits for) and
   monitors the property on what the implementation's table and executor log showed. -/
open Driver KrakenModel.Retry

namespace C30

def key? (t : String) : Option Nat :=
  match t.toList with
  | 'k' :: ds => (String.ofList ds).toNat?
  | _ => none

def keyTok (k : Nat) : String := s!"k{k}"

/-- what the monitors remember of the implementation (never of the model) -/
structure Mon where
  tbl : String := "-"                 -- last table dump
  keys : List String := []            -- its keys
  succeeded : List String := []       -- an execution returned success; row not yet seen gone
  payload : List (String × String) := []  -- key -> payload token it was (last) accepted with

structure St where
  m : State := {}
  tr : Bool := false          -- tagreplication store (start purges invalid destinations)
  pollActive : Bool := false  -- a stepped poll pass has not returned yet
  mon : Mon := {}
  raw : Config := {}          -- the configuration as written (0 = unset)

def parseCfg (toks : List String) : Option St := do
  let n (k : String) (d : Nat) : Nat := ((kv? toks k).bind nat?).getD d
  -- the configuration as the user wrote it (0 = unset); the manager runs with `applyDefaults` of it
  -- (the harness sets `Testing` unless a channel size is left unset)
  let raw : Config := { capIn := n "capin" 1, capRe := n "capre" 1, nIn := n "win" 1, nRe := n "wre" 1,
                        retryInterval := n "ri" 1 }
  let testing := raw.capIn ≠ 0 ∧ raw.capRe ≠ 0
  pure { m := init (applyDefaults raw testing), tr := (kv? toks "store") == some "tr", raw := raw }

/-- idle workers take from their channel until it is empty or they are all busy -/
def eagerTakes : Nat → State → List Nat → State × List Nat
  | 0, s, acc => (s, acc)
  | fuel + 1, s, acc =>
    match stepO s (.take .inc) with
    | (s', .taken k) => eagerTakes fuel s' (k :: acc)
    | _ =>
      match stepO s (.take .ret) with
      | (s', .taken k) => eagerTakes fuel s' (k :: acc)
      | _ => (s, acc)

def settle (s : State) : State × List Nat := eagerTakes (s.own.length + 1) s []

def rowTok (now : Nat) (r : Row) : String :=
  let st := match r.status with | .pending => "p" | .failed => "f"
  let la := match r.lastAttempt with | none => "n" | some t => toString (now - t)
  s!"{keyTok r.key}:{st}:{r.failures}:{la}:{now - r.createdAt}"

def tblTok (s : State) : String := listTok (s.rows.map (rowTok s.now))

def sortNat (xs : List Nat) : List Nat := (xs.toArray.qsort (· < ·)).toList

/-- the payload columns the harness gives key k (tagreplication: k%3+1 dependencies) -/
def payloadOf' (tr : Bool) (k d : Nat) : List Nat := [d, if tr then k % 3 + 1 else 0]

def payTok (pl : List Nat) : String := s!"{pl.headD 0}.{(pl.drop 1).headD 0}.g"

def startTok (s : State) (k : Nat) : String :=
  s!"{keyTok k}:{payTok ((payloadOf s.rows k).getD [])}"

def tail (s : State) (started : List Nat) : List String :=
  ["t=" ++ tblTok s, "s=" ++ listTok ((sortNat started).map (startTok s))]

/-- one step of a paused poll pass: send the marked task (if any), then examine tasks until one is
marked pending or the pass ends.  Returns (state, enq, over, mark, done). -/
def pollMarks : Nat → State → State × Option Nat
  | 0, s => (s, none)
  | fuel + 1, s =>
    match stepO s .pollMark with
    | (s', .marked k) => (s', some k)
    | (s', .skipped _) => pollMarks fuel s'
    | (s', .errNotFound) => pollMarks fuel s'
    | _ => (s, none)

def pollStep (s : State) : State × Option Nat × Option Nat × Option Nat × List Nat :=
  let cur := (withTag s.own .retrying).head?
  let (s1, o1) := stepO s .pollEnq
  let (enq, over) := match cur, o1 with
    | some k, .enqueued => (some k, none)
    | some k, .overflow => (none, some k)
    | _, _ => (none, none)
  let (s2, mark) := pollMarks (s1.todo.length + 1) s1
  let (s3, st) := settle s2
  (s3, enq, over, mark, st)

def optTok (o : Option Nat) : String := match o with | some k => keyTok k | none => "-"

/-- whole pass: steps until done -/
def pollAll : Nat → State → List Nat → List Nat → List Nat → State × List Nat × List Nat × List Nat
  | 0, s, ms, os, st => (s, ms, os, st)
  | fuel + 1, s, ms, os, st =>
    let (s', _, over, mark, st') := pollStep s
    let ms := match mark with | some k => ms ++ [k] | none => ms
    let os := match over with | some k => os ++ [k] | none => os
    match mark with
    | some _ => pollAll fuel s' ms os (st ++ st')
    | none => (s', ms, os, st ++ st')

def busyNow (s : St) : Bool :=
  s.pollActive || s.m.own.any fun e => match e.2 with | .adding | .retrying | .running _ => true | _ => false

def tblKeys (tok : String) : List String :=
  (list? tok).map fun r => (r.splitOn ":").headD ""

/-- monitors over the implementation's observation of this op (`impl`), given what it showed before -/
def monitor (s : St) (args impl : List String) : List String × Mon :=
  let tbl := (kv? impl "t").getD "?"
  let startedP := (list? ((kv? impl "s").getD "-")).map fun t => ((t.splitOn ":").headD "", ":".intercalate ((t.splitOn ":").drop 1))
  let started := startedP.map (·.1)
  -- the payload a key is accepted with (an Add of a key that is not in the table)
  let pay0 : List (String × String) := match args with
    | ["add", k, d] | ["addb", k, d] =>
      if k ∈ s.mon.keys then s.mon.payload else
        match key? k, d.toNat? with
        | some kn, some dn => (k, payTok (payloadOf' s.tr kn dn)) :: s.mon.payload.filter (·.1 ≠ k)
        | _, _ => s.mon.payload
    | _ => s.mon.payload
  let pf4 := startedP.filterMap fun (k, p) =>
    match pay0.lookup k with
    | some p0 => if p0 ≠ p then some s!"side=impl key=payload-changed {k} was added with payload {p0} and is executed with {p} (delay.dependencies.digests)" else none
    | none => none
  let keys := tblKeys tbl
  let res := impl.headD ""
  let gone := s.mon.keys.filter (· ∉ keys)
  let okGone : List String := match args with
    | ["fin", k, "ok"] => if res = "ok" then [k] else []
    | ["start", inv] => if s.tr then list? ((kv? [inv] "inv").getD "-") else []
    | _ => []
  let pf1 := (gone.filter (· ∉ okGone)).map fun k =>
    s!"side=impl key=removed-without-success {k} left the table in op {sp args}"
  let pf2 := match args with
    | ["add", k, _] | ["addb", k, _] =>
      (if k ∈ s.mon.keys ∧ (tbl ≠ s.mon.tbl ∨ started ≠ []) then
        [s!"side=impl key=duplicate-add-has-effect {k} already stored: table {s.mon.tbl} -> {tbl} started {started}"] else []) ++
      (if (res = "ok" ∨ res = "gate") ∧ k ∉ keys then
        [s!"side=impl key=accepted-not-stored Add({k}) returned {res} and the task is not in the table"] else [])
    | _ => []
  let succ := s.mon.succeeded.filter (· ∈ keys)
  let pf3 := (started.filter (· ∈ succ)).map fun k =>
    s!"side=impl key=executed-after-success {k} executed again after a successful execution"
  let succ := match args with
    | ["fin", k, "ok"] => if res = "ok" ∧ k ∈ keys then k :: succ else succ
    | _ => succ
  (pf1 ++ pf2 ++ pf3 ++ pf4, { tbl, keys, succeeded := succ, payload := pay0 })

def step (s : St) (kind : String) (args impl : List String) : Option (St × StepOut) :=
  if kind ≠ "op" then none else
  let fin (m : State) (pollActive : Bool) (res : List String) (started : List Nat) (br : String) : Option (St × StepOut) :=
    let (pf, mon) := monitor s args impl
    some ({ s with m, pollActive, mon }, { obs := res ++ tail m started, branch := br, propfails := pf })
  match args with
  | ["defaults"] =>
    -- the effective configuration of the real manager (after the real applyDefaults)
    let c := s.m.cfg
    let w (k : String) : Nat := ((kv? impl k).bind nat?).getD 0
    let pf := (if w "win" = 0 then ["side=impl key=no-incoming-workers-after-defaults the manager runs with 0 incoming workers: added tasks are never executed"] else []) ++
      (if w "wre" = 0 then [s!"side=impl key=no-retry-workers-after-defaults the manager runs with 0 retry workers (configuration as written: win={s.raw.nIn} wre={s.raw.nRe}): tasks re-queued by the retry poller are never executed again"] else [])
    some (s, { obs := [s!"win={c.nIn}", s!"wre={c.nRe}", s!"capin={c.capIn}", s!"capre={c.capRe}"],
               branch := if s.raw.nIn = 1 ∧ s.raw.nRe = 0 then "defaults-applied-with-one-incoming-worker"
                         else if s.raw.nIn = 0 ∨ s.raw.nRe = 0 ∨ s.raw.capIn = 0 ∨ s.raw.capRe = 0 then "defaults-applied" else "defaults-none",
               propfails := pf })
  | ["add", kt, dt] => do
    let k ← key? kt
    let d ← nat? dt
    match stepO s.m (.addBegin k d (payloadOf' s.tr k d)) with
    | (m1, .addedPending) =>
      let (m2, o2) := stepO m1 (.addEnq k)
      let (m3, st) := settle m2
      fin m3 s.pollActive ["ok"] st (if o2 = .enqueued then "add.enq" else "add.over")
    | (m1, .closed) => fin m1 s.pollActive ["closed"] [] "add.closed"
    | (m1, .dup) => fin m1 s.pollActive ["ok"] [] "add.dup"
    | (m1, _) => fin m1 s.pollActive ["ok"] [] "add.notready"
  | ["addb", kt, dt] => do
    let k ← key? kt
    let d ← nat? dt
    if s.m.mode = .up ∧ placeOf s.m.own k = some .adding then fin s.m s.pollActive ["busy"] [] "addb.busy" else
    match stepO s.m (.addBegin k d (payloadOf' s.tr k d)) with
    | (m1, .addedPending) => fin m1 s.pollActive ["gate"] [] "addb.gate"
    | (m1, .closed) => fin m1 s.pollActive ["closed"] [] "addb.closed"
    | (m1, .dup) => fin m1 s.pollActive ["ok"] [] "addb.dup"
    | (m1, _) => fin m1 s.pollActive ["ok"] [] "addb.notready"
  | ["adde", kt] => do
    let k ← key? kt
    match stepO s.m (.addEnq k) with
    | (m1, .enqueued) => let (m2, st) := settle m1; fin m2 s.pollActive ["ok", "enq"] st "adde.enq"
    | (m1, .overflow) => let (m2, st) := settle m1; fin m2 s.pollActive ["ok", "over"] st "adde.over"
    | (m1, .errNotFound) => fin m1 s.pollActive ["err", "over"] [] "adde.notfound"
    | (m1, _) => fin m1 s.pollActive ["none"] [] "adde.none"
  | ["pollb"] =>
    if s.m.mode ≠ .up then fin s.m s.pollActive ["none"] [] "pollb.none"
    else if s.pollActive then fin s.m true ["busy"] [] "pollb.busy"
    else match stepO s.m .pollFetch with
      | (m1, .fetched n) => fin m1 true ["ok", s!"n={n}"] [] (if n = 0 then "pollb.empty" else "pollb.some")
      | (m1, _) => fin m1 false ["model-poller-not-idle"] [] "pollb.bad"
  | ["polls"] =>
    if !s.pollActive then fin s.m false ["none"] [] "polls.none"
    else
      let (m1, enq, over, mark, st) := pollStep s.m
      fin m1 mark.isSome ["ok", "enq=" ++ optTok enq, "over=" ++ optTok over, "mark=" ++ optTok mark,
        "done=" ++ boolTok mark.isNone] st
        (if over.isSome then "polls.over" else if enq.isSome then "polls.enq" else if mark.isSome then "polls.mark" else "polls.done")
  | ["poll"] =>
    if s.m.mode ≠ .up then fin s.m s.pollActive ["none"] [] "poll.none"
    else if s.pollActive then fin s.m true ["busy"] [] "poll.busy"
    else match stepO s.m .pollFetch with
      | (m1, .fetched n) =>
        let (m2, ms, os, st) := pollAll (n + 2) m1 [] [] []
        fin m2 false ["ok", s!"n={n}", "m=" ++ listTok (ms.map keyTok), "o=" ++ listTok (os.map keyTok)] st
          (if os ≠ [] then "poll.over" else if ms ≠ [] then "poll.retry" else if n = 0 then "poll.empty" else "poll.notdue")
      | (m1, _) => fin m1 false ["model-poller-not-idle"] [] "poll.bad"
  | ["fin", kt, oc] => do
    let k ← key? kt
    let ok ← (if oc = "ok" then some true else if oc = "fail" then some false else none)
    match stepO s.m (.finish k ok) with
    | (m1, .removed) => let (m2, st) := settle m1; fin m2 s.pollActive ["ok"] st (if s.m.mode = .closing then "fin.removed.closing" else "fin.removed")
    | (m1, .markedFailed) => let (m2, st) := settle m1; fin m2 s.pollActive ["ok"] st (if s.m.mode = .closing then "fin.failed.closing" else "fin.failed")
    | (m1, .errNotFound) => fin m1 s.pollActive ["err"] [] "fin.notfound"
    | (m1, _) => fin m1 s.pollActive ["none"] [] "fin.none"
  | ["adv", nt] => do
    let n ← nat? nt
    if s.pollActive then fin s.m true ["busy"] [] "adv.busy"   -- the harness cannot age a paused poller's task copies
    else fin (stepO s.m (.advance n)).1 s.pollActive ["ok"] [] "adv"
  | ["close"] =>
    if s.m.mode ≠ .up then fin s.m s.pollActive ["none"] [] "close.none"
    else
      let has (f : Place → Bool) : Bool := s.m.own.any fun e => f e.2
      let running := has fun p => match p with | .running _ => true | _ => false
      let queued := has fun p => match p with | .queued _ => true | _ => false
      -- Close while executions are running (it waits for them); not with a parked Add / poll pass or a
      -- queued task next to a busy worker (select between `done` and the channel is a coin toss)
      if s.pollActive || has (fun p => match p with | .adding | .retrying => true | _ => false) || (running && queued) then
        fin s.m s.pollActive ["busy"] [] "close.busy"
      else fin (stepO s.m .close).1 s.pollActive ["ok"] [] (if running then "close.running" else "close.ok")
  | ["crash"] =>
    if s.m.mode = .down then fin s.m s.pollActive ["none"] [] "crash.none"
    else fin (stepO s.m .crash).1 false ["ok"] []
      (if s.m.rows.any (·.status = .pending) then "crash.pending" else "crash.quiet")
  | ["start", invt] => do
    let inv ← ((kv? [invt] "inv").map list?)
    let inv ← inv.mapM key?
    if s.m.mode = .up then fin s.m s.pollActive ["none"] [] "start.none"
    else
      let m0 := if s.m.mode = .closing then (stepO s.m .crash).1 else s.m
      let inv := if s.tr then inv else []
      fin (stepO m0 (.start inv)).1 false ["ok"] []
        (if m0.rows.any (fun r => r.key ∈ inv) then "start.purge" else if m0.rows.any (·.status = .pending) then "start.pending" else "start.quiet")
  | _ => none

def machine : Machine := { σ := St, name := "retry", init := parseCfg, step := step }

/-- free-running check: nothing timing dependent is compared; the Go side evaluates the property's
predicates on the event order it recorded (propfail lines), the driver only counts -/
def freeMachine : Machine :=
  { σ := Unit, name := "retryfree", init := fun _ => some (),
    step := fun _ kind args impl =>
      if kind ≠ "op" then none else
      match args with
      | ["add", _, _] | ["restart"] | ["sleep"] | ["drain"] => some ((), { obs := impl, branch := "free." ++ args.headD "" })
      | ["backlog", n, _] =>
        some ((), { obs := impl, branch := if (n.toNat?.getD 0) > 1000 then "restart-with-backlog-over-1000" else "free.backlog" })
      | _ => none }

end C30

def main (args : List String) : IO UInt32 := runMachines [C30.machine, C30.freeMachine] args
