import Driver.BlobStoreM
/- Driver for C08: the memory blob store and its handles against `Model.BlobStore` (machine `ms`). -/
def main (args : List String) : IO UInt32 := Driver.runMachines [BlobStoreM.memory] args
