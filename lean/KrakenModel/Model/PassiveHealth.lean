/-
  Model of the passive health filter of lib/healthcheck (passive_filter.go, passive.go) (C24).

  The two Go maps `failures : addr → []time.Time` and `unhealthy : addr → time.Time` are modelled
  as one total function `recs : Host → HRec` (a Go map read yields the zero value for a missing
  key, and `Run` treats every entry of `unhealthy` alike, so the pointwise view is exact).
  Times are nanoseconds (`Int`, `clock.Mock` starting at the epoch); comparisons keep the code's
  strictness (`now.Sub(t) > FailTimeout`).  `log` is ghost state (every recorded failure with its
  time); nothing the filter returns depends on it — the specification is stated over it.
-/
namespace KrakenModel.PassiveHealth

abbrev Host := Nat

structure Config where
  fails : Int
  failTimeout : Int
  deriving Repr, DecidableEq

/-- `PassiveFilterConfig.applyDefaults` -/
def Config.applyDefaults (c : Config) : Config :=
  { fails := if c.fails = 0 then 3 else c.fails,
    failTimeout := if c.failTimeout = 0 then 300000000000 else c.failTimeout }

structure HRec where
  failures : List Int := []
  unhealthy : Option Int := none
  deriving Repr, DecidableEq

structure State where
  now : Int := 0
  recs : Host → HRec := fun _ => {}
  log : List (Host × Int) := []

/-- `Failed(addr)` on the host's entries -/
def failedRec (cfg : Config) (now : Int) (r : HRec) : HRec :=
  let fs := r.failures.dropWhile (fun t => now - t > cfg.failTimeout) ++ [now]
  { failures := fs, unhealthy := if (fs.length : Int) ≥ cfg.fails then some now else r.unhealthy }

/-- the `unhealthy` entry of a host after `Run` (expired marks are deleted) -/
def expireRec (cfg : Config) (now : Int) (r : HRec) : HRec :=
  { r with unhealthy := match r.unhealthy with
      | some t => if now - t > cfg.failTimeout then none else some t
      | none => none }

/-- does `Run` remove the host from the result -/
def filteredRec (cfg : Config) (now : Int) (r : HRec) : Bool :=
  match r.unhealthy with
  | some t => !(now - t > cfg.failTimeout)
  | none => false

def failed (cfg : Config) (s : State) (h : Host) : State :=
  { s with recs := fun x => if x = h then failedRec cfg s.now (s.recs h) else s.recs x,
           log := s.log ++ [(h, s.now)] }

/-- `PassiveFilter.Run(addrs)` -/
def runF (cfg : Config) (s : State) (addrs : List Host) : State × List Host :=
  ({ s with recs := fun x => expireRec cfg s.now (s.recs x) },
   addrs.filter fun a => !(filteredRec cfg s.now (s.recs a)))

/-- `Passive.Resolve()` for the host list `addrs`: all hosts when every host is filtered out -/
def resolve (cfg : Config) (s : State) (addrs : List Host) : State × List Host :=
  let (s', healthy) := runF cfg s addrs
  (s', if healthy.isEmpty then addrs else healthy)

inductive Op where
  | failed (h : Host)
  | run (addrs : List Host)
  | resolve (addrs : List Host)
  | advance (d : Nat)
  deriving Repr, DecidableEq

def step (cfg : Config) (s : State) : Op → State
  | .failed h => failed cfg s h
  | .run addrs => (runF cfg s addrs).1
  | .resolve addrs => (resolve cfg s addrs).1
  | .advance d => { s with now := s.now + d }

/-! ### the failure-window rule (specification) -/

/-- the times of the recorded failures of `h`, in order -/
def failTimes (log : List (Host × Int)) (h : Host) : List Int := (log.filter (·.1 == h)).map (·.2)

/-- recorded failures within `FailTimeout` before (and up to) the failure at `tf` -/
def windowCount (cfg : Config) (ts : List Int) (tf : Int) : Nat :=
  (ts.filter fun t => t ≤ tf && tf - t ≤ cfg.failTimeout).length

/-- at least `Fails` failures fall within `FailTimeout` of the failure at `tf` -/
def qual (cfg : Config) (ts : List Int) (tf : Int) : Bool := (windowCount cfg ts tf : Int) ≥ cfg.fails

/-- the rule: some failure that happened no more than `FailTimeout` ago has at least `Fails`
recorded failures within `FailTimeout` of it -/
def shouldFilter (cfg : Config) (log : List (Host × Int)) (now : Int) (h : Host) : Bool :=
  (failTimes log h).any fun tf => now - tf ≤ cfg.failTimeout && qual cfg (failTimes log h) tf

end KrakenModel.PassiveHealth
