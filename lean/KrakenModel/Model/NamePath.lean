import KrakenModel.Util.Codec
/-
  Model of lib/backend/namepath/pather.go (C36).

  * `pathClean` / `pathJoin`: Go's path.Clean / path.Join, lexical, by components (split on '/',
    drop "" and ".", resolve ".." against a stack; ".." is kept at the front of a relative path and
    dropped at the root).
  * `tagBlobPath` / `shardBlobPath` / `identBlobPath`: the three BlobPath functions.
  * the two regexp-based inverses are modelled by the meaning of their patterns
        QuoteMeta(base) "/" (.+) "/_manifests/tags/" (.+) "/current/link"
        QuoteMeta(base) "/sha256/" . . "/" (.+) "/data"
    (unanchored, leftmost match, greedy groups, '.' does not match a newline): the leftmost start
    where the literal prefix occurs and the rest can match; each greedy group ends at the last
    occurrence of the literal that follows it.  `unsupported` is returned when a group would contain
    a newline (the backtracking alternatives are not modelled).
  * `identName`: IdentityPather.NameFromBlobPath after the repair (prefix = cleaned root plus '/').
    `identNameOld` is the former `bp[len(root)+1:]`.
-/
namespace KrakenModel.NamePath
open KrakenModel.Codec

/-! ### path.Clean / path.Join -/

def joinSlash : List (List Char) → List Char
  | [] => []
  | [x] => x
  | x :: y :: rest => x ++ '/' :: joinSlash (y :: rest)

def dot : List Char := ['.']
def dotdot : List Char := ['.', '.']

/-- one path element processed against the output stack -/
def cleanPush (rooted : Bool) (st : List (List Char)) (c : List Char) : List (List Char) :=
  if c = [] ∨ c = dot then st
  else if c = dotdot then
    match st.getLast? with
    | some top => if top = dotdot then st ++ [c] else st.dropLast     -- only a relative path keeps ".." on the stack
    | none => if rooted then st else st ++ [c]
  else st ++ [c]

def cleanStack (rooted : Bool) (comps : List (List Char)) (st : List (List Char)) : List (List Char) :=
  comps.foldl (cleanPush rooted) st

def isRooted (p : List Char) : Bool := p.head? = some '/'

/-- path.Clean -/
def pathClean (p : List Char) : List Char :=
  if p = [] then dot
  else
    let st := cleanStack (isRooted p) (splitOn '/' p) []
    if isRooted p then '/' :: joinSlash st
    else if st = [] then dot else joinSlash st

/-- path.Join: empty elements are ignored, the rest is joined with '/' and cleaned; "" if all are empty -/
def pathJoin (elems : List (List Char)) : List Char :=
  let ne := elems.filter (fun e => e ≠ [])
  if ne = [] then [] else pathClean (joinSlash ne)

/-! ### BlobPath -/

def repositoriesDir : List Char := ['d','o','c','k','e','r','/','r','e','g','i','s','t','r','y','/','v','2','/','r','e','p','o','s','i','t','o','r','i','e','s']
def blobsDir : List Char := ['d','o','c','k','e','r','/','r','e','g','i','s','t','r','y','/','v','2','/','b','l','o','b','s']
def manifestsTags : List Char := ['_','m','a','n','i','f','e','s','t','s','/','t','a','g','s']
def currentLink : List Char := ['c','u','r','r','e','n','t','/','l','i','n','k']
def sha256Dir : List Char := ['s','h','a','2','5','6']
def dataFile : List Char := ['d','a','t','a']

inductive Scheme where
  | tag | shard | ident
  deriving DecidableEq, Repr

def basePath (s : Scheme) (root : List Char) : List Char :=
  match s with
  | .tag => pathJoin [root, repositoriesDir]
  | .shard => pathJoin [root, blobsDir]
  | .ident => root

inductive BlobErr where
  | format | emptyRepo | emptyTag | short
  deriving DecidableEq, Repr

def blobPath (s : Scheme) (root name : List Char) : Except BlobErr (List Char) :=
  match s with
  | .tag =>
    match splitOn ':' name with
    | [repo, tag] =>
      if repo = [] then .error .emptyRepo
      else if tag = [] then .error .emptyTag
      else .ok (pathJoin [basePath .tag root, repo, manifestsTags, tag, currentLink])
    | _ => .error .format
  | .shard =>
    if name.length ≤ 2 then .error .short
    else .ok (pathJoin [basePath .shard root, sha256Dir, name.take 2, name, dataFile])
  | .ident => .ok (pathJoin [root, name])

/-! ### the regexp patterns by their meaning -/

def isPrefixOf : List Char → List Char → Bool
  | [], _ => true
  | _ :: _, [] => false
  | p :: ps, c :: cs => p == c && isPrefixOf ps cs

/-- largest `k ≤ n` with `lit` a prefix of `s.drop k` -/
def lastFrom (lit s : List Char) : Nat → Option Nat
  | 0 => if isPrefixOf lit s then some 0 else none
  | k + 1 => if isPrefixOf lit (s.drop (k + 1)) then some (k + 1) else lastFrom lit s k

inductive NameResult where
  | err                                  -- the regexp does not match ("invalid … path format")
  | unsupported                          -- a greedy group would contain '\n': not modelled
  | panic                                -- regexp.MustCompile rejects a pattern that is not valid UTF-8
  | ok (name : List Char)
  deriving DecidableEq, Repr

def hasNewline (s : List Char) : Bool := s.any (· == '\n')

/-! ### UTF-8 (strings are byte lists: one `Char` per byte; the regexp package works on runes) -/

def isCont (c : Char) : Bool := decide (128 ≤ c.toNat) && decide (c.toNat ≤ 191)

/-- number of bytes utf8.DecodeRune consumes at the head of `s` (1 for an invalid byte) -/
def runeWidth : List Char → Nat
  | [] => 0
  | a :: rest =>
    let n := a.toNat
    if n < 128 then 1
    else if 194 ≤ n ∧ n ≤ 223 then
      (match rest with | b :: _ => if isCont b then 2 else 1 | [] => 1)
    else if 224 ≤ n ∧ n ≤ 239 then
      (match rest with
       | b :: c :: _ =>
         let lo := if n = 224 then 160 else 128
         let hi := if n = 237 then 159 else 191
         if lo ≤ b.toNat ∧ b.toNat ≤ hi ∧ isCont c then 3 else 1
       | _ => 1)
    else if 240 ≤ n ∧ n ≤ 244 then
      (match rest with
       | b :: c :: d :: _ =>
         let lo := if n = 240 then 144 else 128
         let hi := if n = 244 then 143 else 191
         if lo ≤ b.toNat ∧ b.toNat ≤ hi ∧ isCont c ∧ isCont d then 4 else 1
       | _ => 1)
    else 1

def validUTF8Aux : Nat → List Char → Bool
  | 0, s => s.isEmpty
  | fuel + 1, s =>
    match s with
    | [] => true
    | a :: _ => if a.toNat ≥ 128 ∧ runeWidth s = 1 then false else validUTF8Aux fuel (s.drop (runeWidth s))

/-- utf8.ValidString -/
def validUTF8 (s : List Char) : Bool := validUTF8Aux s.length s

/-- the first two bytes of a name are one two-byte character (so `name[:2]` is a single rune) -/
def twoByteHead : List Char → Bool
  | a :: b :: _ => decide (194 ≤ a.toNat) && decide (a.toNat ≤ 223) && isCont b
  | _ => false

/-- `(.+) lit1 (.+) lit2` against `r` (greedy, not anchored at the end): the two groups -/
def twoGroups (lit1 lit2 r : List Char) : Option (List Char × List Char) :=
  match lastFrom lit2 r r.length with
  | none => none
  | some m =>
    -- group 2 is non-empty: lit1 must end before m
    if m < lit1.length + 1 then none
    else match lastFrom lit1 r (m - lit1.length - 1) with
      | none => none
      | some k => if k = 0 then none else some (r.take k, (r.drop (k + lit1.length)).take (m - k - lit1.length))

/-- `(.+) lit` against `r` -/
def oneGroup (lit r : List Char) : Option (List Char) :=
  match lastFrom lit r r.length with
  | none => none
  | some m => if m = 0 then none else some (r.take m)

/-- leftmost start at which `f` succeeds on the suffix -/
def firstSuffix {α : Type} (f : List Char → Option α) : List Char → Option α
  | [] => f []
  | c :: cs => match f (c :: cs) with
    | some r => some r
    | none => firstSuffix f cs

def tagLit0 (base : List Char) : List Char := base ++ ['/']
def tagLit1 : List Char := '/' :: manifestsTags ++ ['/']
def tagLit2 : List Char := '/' :: currentLink
def shardLit0 (base : List Char) : List Char := base ++ '/' :: sha256Dir ++ ['/']
def shardLit2 : List Char := '/' :: dataFile

/-- DockerTagPather.NameFromBlobPath -/
def tagName (root bp : List Char) : NameResult :=
  let lit0 := tagLit0 (basePath .tag root)
  if !validUTF8 (basePath .tag root) then .panic else
  match firstSuffix (fun s => if isPrefixOf lit0 s then twoGroups tagLit1 tagLit2 (s.drop lit0.length) else none) bp with
  | none => .err
  | some (repo, tag) => if hasNewline repo || hasNewline tag then .unsupported else .ok (repo ++ ':' :: tag)

/-- one `.` of the regexp: a rune that is not a newline -/
def dropRune (s : List Char) : Option (List Char) :=
  match s with
  | [] => none
  | a :: _ => if a == '\n' then none else some (s.drop (runeWidth s))

/-- ShardedDockerBlobPather.NameFromBlobPath -/
def shardName (root bp : List Char) : NameResult :=
  let lit0 := shardLit0 (basePath .shard root)
  let tryAt (s : List Char) : Option (List Char) :=
    if isPrefixOf lit0 s then
      match (dropRune (s.drop lit0.length)).bind dropRune with
      | some ('/' :: r) => oneGroup shardLit2 r
      | _ => none
    else none
  if !validUTF8 (basePath .shard root) then .panic else
  match firstSuffix tryAt bp with
  | none => .err
  | some n => if hasNewline n then .unsupported else .ok n

/-- the prefix every identity blob path starts with: the cleaned root and a '/' ("" for an empty or "." root) -/
def identPrefix (root : List Char) : List Char :=
  let c := pathJoin [root]
  if c = [] ∨ c = dot then []
  else if c.getLast? = some '/' then c else c ++ ['/']

/-- IdentityPather.NameFromBlobPath (repaired) -/
def identName (root bp : List Char) : NameResult :=
  let pre := identPrefix root
  if isPrefixOf pre bp then .ok (bp.drop pre.length) else .err

inductive OldResult where
  | err | panic
  | ok (name : List Char)
  deriving DecidableEq, Repr

/-- the former IdentityPather.NameFromBlobPath: `bp[len(root)+1:]` -/
def identNameOld (root bp : List Char) : OldResult :=
  if !isPrefixOf root bp then .err
  else if root.length + 1 > bp.length then .panic
  else .ok (bp.drop (root.length + 1))

/-! ### valid names (supersets of the Docker grammar / hex digests) -/

/-- a path element that path.Clean leaves alone -/
def plainComp (c : List Char) : Bool := c != [] && c != dot && c != dotdot

/-- a clean relative path: non-empty, every '/'-separated element plain -/
def cleanRel (s : List Char) : Bool := (splitOn '/' s).all plainComp

/-- repository part of a `repo:tag` name -/
def validRepo (r : List Char) : Bool := cleanRel r && !r.contains ':' && !hasNewline r

def validTag (t : List Char) : Bool :=
  t != [] && t != dot && t != dotdot && !t.contains '/' && !t.contains ':' && !hasNewline t

/-- what the property asks of a blob name (the real names are hex digests) -/
def validShardNameBytes (n : List Char) : Bool :=
  decide (n.length > 2) && !n.contains '/' && !hasNewline n && n.take 2 != dotdot

/-- … restricted to the names the code handles: `name[:2]` must be two runes (known finding shard-nonascii-name) -/
def validShardName (n : List Char) : Bool := validShardNameBytes n && !twoByteHead n

def validIdentName (n : List Char) : Bool := cleanRel n

def nameFromBlobPath (s : Scheme) (root bp : List Char) : NameResult :=
  match s with
  | .tag => tagName root bp
  | .shard => shardName root bp
  | .ident => identName root bp

end KrakenModel.NamePath
