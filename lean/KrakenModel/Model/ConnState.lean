/-
  Model of lib/torrent/scheduler/connstate.State (C16).

  `conns` is the nested map `map[InfoHash]map[PeerID]entry` flattened into an association list
  keyed by (hash, peer) (the Go code drops an inner map when it becomes empty, so
  `len(s.conns[h])` is the number of entries with hash `h` in both representations).
  `blacklist` is `map[connKey]*blacklistEntry`.  Times are nanoseconds (`Int`), like
  `time.Time`/`time.Duration` with a `clock.Mock` that starts at the epoch.
  A `*conn.Conn` is an identity (`id`) with the immutable hash / peer it was created for and its
  `closed` flag at the time of the call.

  Also modelled: the uses of the state in scheduler/events.go (`announceResult`, `connClosed`,
  `failedOutgoingHandshake`, `failedIncomingHandshake`, `incomingHandshake`, `outgoingConn` /
  `incomingConn`, `dispatcherComplete`) as compositions of the State calls in the order the event
  handlers make them.
-/
namespace KrakenModel.ConnState

abbrev Hash := Nat
abbrev Peer := Nat
abbrev ConnId := Nat

structure Config where
  max : Int                -- MaxOpenConnectionsPerTorrent (Go int)
  maxMutual : Int          -- MaxMutualConnections
  disableBlacklist : Bool
  blacklistDuration : Int  -- time.Duration
  deriving Repr, DecidableEq

/-- `Config.applyDefaults` -/
def Config.applyDefaults (c : Config) : Config :=
  let m := if c.max = 0 then 10 else c.max
  { max := m
    maxMutual := if c.maxMutual = 0 then m else c.maxMutual
    disableBlacklist := c.disableBlacklist
    blacklistDuration := if c.blacklistDuration = 0 then 30000000000 else c.blacklistDuration }

inductive Status where
  | pending
  | active (c : ConnId)
  deriving Repr, DecidableEq

structure Entry where
  hash : Hash
  peer : Peer
  status : Status
  deriving Repr, DecidableEq

structure BEntry where
  hash : Hash
  peer : Peer
  expiration : Int
  deriving Repr, DecidableEq

structure Conn where
  id : ConnId
  hash : Hash
  peer : Peer
  closed : Bool
  deriving Repr, DecidableEq

structure State where
  now : Int := 0
  conns : List Entry := []
  blacklist : List BEntry := []
  completed : List Hash := []   -- scheduler level: torrents whose dispatcher completed (events.go)
  deriving Repr, DecidableEq

def Entry.is (e : Entry) (h : Hash) (p : Peer) : Bool := e.hash == h && e.peer == p
def BEntry.is (e : BEntry) (h : Hash) (p : Peer) : Bool := e.hash == h && e.peer == p

/-- `s.get(h, peerID).status`; `none` is `_uninit` -/
def lookup (s : State) (h : Hash) (p : Peer) : Option Status :=
  (s.conns.find? (·.is h p)).map (·.status)

/-- `len(s.conns[h])` -/
def count (s : State) (h : Hash) : Nat := (s.conns.filter (·.hash == h)).length

def put (s : State) (h : Hash) (p : Peer) (st : Status) : State :=
  { s with conns := s.conns.filter (fun e => !e.is h p) ++ [⟨h, p, st⟩] }

def del (s : State) (h : Hash) (p : Peer) : State :=
  { s with conns := s.conns.filter (fun e => !e.is h p) }

/-- `numMutualConns`: neighbours (with multiplicity, as the Go loop counts) pending or active -/
def numMutual (s : State) (h : Hash) (nbrs : List Peer) : Nat :=
  (nbrs.filter (fun id => (lookup s h id).isSome)).length

inductive AddRes where
  | ok | atCapacity | alreadyPending | alreadyActive | tooManyMutual
  deriving Repr, DecidableEq

inductive MoveRes where
  | ok | closed | invalidTransition
  deriving Repr, DecidableEq

inductive BlRes where
  | ok | already
  deriving Repr, DecidableEq

/-- `AddPending` (same order of checks as the code) -/
def addPending (cfg : Config) (s : State) (p : Peer) (h : Hash) (nbrs : List Peer) : State × AddRes :=
  if (count s h : Int) = cfg.max then (s, .atCapacity) else
  match lookup s h p with
  | none =>
    if (numMutual s h nbrs : Int) > cfg.maxMutual then (s, .tooManyMutual)
    else (put s h p .pending, .ok)
  | some .pending => (s, .alreadyPending)
  | some (.active _) => (s, .alreadyActive)

def deletePending (s : State) (p : Peer) (h : Hash) : State :=
  if lookup s h p = some .pending then del s h p else s

def movePendingToActive (s : State) (c : Conn) : State × MoveRes :=
  if c.closed then (s, .closed) else
  if lookup s c.hash c.peer ≠ some .pending then (s, .invalidTransition) else
  (put s c.hash c.peer (.active c.id), .ok)

def deleteActive (s : State) (c : Conn) : State :=
  match lookup s c.hash c.peer with
  | some (.active id) => if id ≠ c.id then s else del s c.hash c.peer
  | _ => s

def findB (s : State) (h : Hash) (p : Peer) : Option BEntry := s.blacklist.find? (·.is h p)

/-- `blacklistEntry.Blacklisted(now)` : `expiration.Sub(now) > 0` -/
def BEntry.live (e : BEntry) (now : Int) : Bool := e.expiration - now > 0

def setB (s : State) (h : Hash) (p : Peer) (exp : Int) : State :=
  { s with blacklist := s.blacklist.filter (fun e => !e.is h p) ++ [⟨h, p, exp⟩] }

def blacklistOp (cfg : Config) (s : State) (p : Peer) (h : Hash) : State × BlRes :=
  if cfg.disableBlacklist then (s, .ok) else
  match findB s h p with
  | some e => if e.live s.now then (s, .already) else (setB s h p (s.now + cfg.blacklistDuration), .ok)
  | none => (setB s h p (s.now + cfg.blacklistDuration), .ok)

def blacklisted (s : State) (p : Peer) (h : Hash) : Bool :=
  match findB s h p with
  | some e => e.live s.now
  | none => false

def clearBlacklist (s : State) (h : Hash) : State :=
  { s with blacklist := s.blacklist.filter (fun e => !(e.hash == h)) }

def activeIds (s : State) (h : Hash) : List ConnId :=
  s.conns.filterMap fun e => if e.hash == h then (match e.status with | .active c => some c | .pending => none) else none

/-- `ActiveConns()` (unordered in Go: compared as a set) -/
def activeConns (s : State) : List ConnId :=
  s.conns.filterMap fun e => match e.status with | .active c => some c | .pending => none

/-- `Saturated(h)` -/
def saturated (cfg : Config) (s : State) (h : Hash) : Bool :=
  if count s h = 0 then false else ((activeIds s h).length : Int) == cfg.max

/-- `BlacklistSnapshot()`: every entry (also expired ones) with its remaining duration -/
def snapshot (s : State) : List (Hash × Peer × Int) :=
  s.blacklist.map fun e => (e.hash, e.peer, e.expiration - s.now)

/-! ### event handlers of scheduler/events.go, as compositions of the calls above -/

/-- the peer loop of `announceResultEvent.apply`: returns the peers for which an outgoing
handshake is started (dialled), in order. -/
def announceLoop (cfg : Config) (self : Peer) (h : Hash) : List Peer → State → List Peer → State × List Peer
  | [], s, acc => (s, acc.reverse)
  | p :: ps, s, acc =>
    if p = self then announceLoop cfg self h ps s acc else
    if blacklisted s p h then announceLoop cfg self h ps s acc else
    match addPending cfg s p h [] with
    | (s', .ok) => announceLoop cfg self h ps s' (p :: acc)
    | (_, .atCapacity) => (s, acc.reverse)
    | (s', _) => announceLoop cfg self h ps s' acc

/-- `announceResultEvent.apply` for a torrent that has a control: a completed torrent opens no new
connections (`ctrl.dispatcher.Complete()` early return), otherwise the peer loop runs. -/
def announceResult (cfg : Config) (s : State) (self : Peer) (h : Hash) (peers : List Peer) : State × List Peer :=
  if s.completed.contains h then (s, []) else announceLoop cfg self h peers s []

/-- `dispatcherCompleteEvent.apply` (for the torrent's current dispatcher): the only production
caller of `ClearBlacklist`; from then on the torrent is complete. -/
def dispatcherComplete (s : State) (h : Hash) : State :=
  { clearBlacklist s h with completed := h :: s.completed }

/-- `connClosedEvent.apply` -/
def connClosed (cfg : Config) (s : State) (c : Conn) : State :=
  (blacklistOp cfg (deleteActive s c) c.peer c.hash).1

/-- `failedOutgoingHandshakeEvent.apply` -/
def failedOutgoing (cfg : Config) (s : State) (p : Peer) (h : Hash) : State :=
  (blacklistOp cfg (deletePending s p h) p h).1

inductive Op where
  | addPending (p : Peer) (h : Hash) (nbrs : List Peer)   -- also incomingHandshakeEvent
  | deletePending (p : Peer) (h : Hash)                   -- also failedIncomingHandshakeEvent
  | moveActive (c : Conn)
  | deleteActive (c : Conn)
  | blacklist (p : Peer) (h : Hash)
  | clearBlacklist (h : Hash)
  | advance (d : Nat)                                     -- the clock is monotone
  | announceResult (self : Peer) (h : Hash) (peers : List Peer)
  | connClosed (c : Conn)
  | failedOutgoing (p : Peer) (h : Hash)
  | complete (h : Hash)                                   -- dispatcherCompleteEvent
  deriving Repr, DecidableEq

def step (cfg : Config) (s : State) : Op → State
  | .addPending p h nbrs => (addPending cfg s p h nbrs).1
  | .deletePending p h => deletePending s p h
  | .moveActive c => (movePendingToActive s c).1
  | .deleteActive c => deleteActive s c
  | .blacklist p h => (blacklistOp cfg s p h).1
  | .clearBlacklist h => clearBlacklist s h
  | .advance d => { s with now := s.now + d }
  | .announceResult self h peers => (announceResult cfg s self h peers).1
  | .connClosed c => connClosed cfg s c
  | .failedOutgoing p h => failedOutgoing cfg s p h
  | .complete h => dispatcherComplete s h

/-- peers dialled (an outgoing handshake is started) by an operation -/
def dialled (cfg : Config) (s : State) : Op → List (Peer × Hash)
  | .announceResult self h peers => (announceResult cfg s self h peers).2.map (·, h)
  | _ => []

end KrakenModel.ConnState
