import KrakenModel.Model.ConnState
/-
  Model of what a peer does with input from a remote peer (C14).  Three parts, each with explicit
  outcomes (`panic …` is an outcome, never a default):

  * `readMessage`  — `conn.readMessage` + `Conn.readMessage`/`readPayload` (lib/torrent/scheduler/conn):
    the 4-byte length prefix, the 32 KiB cap, protobuf decoding (not modelled: the decoded view is an
    input), the piece payload that follows a PIECE_PAYLOAD message; every buffer allocation is listed;
  * `handshake`    — `handshakeFromP2PMessage` + `bitset.UnmarshalBinary`, which allocates the declared
    number of bits before it reads them;
  * `addPeer` / `dispatch` — `Dispatcher.addPeer` and the message handlers of
    lib/torrent/scheduler/dispatch over an agent torrent (agentstorage.Torrent) or an origin torrent
    (originstorage.Torrent), with Go's indexing semantics: a negative or too large index into a slice
    is a panic, `uint(negative)` is huge.

  `rep = true` is the code as repaired by the `fix:` commits (nil sub-message guards, piece index
  validation in the dispatcher and the storage layer, piece payload length bounded by the torrent's
  piece length, handshake bitfields limited to the bytes they carry, to the torrent's piece count and to bits below their own length),
  `rep = false` the code as it was.  All integer fields of messages are arbitrary `Int`s.
-/
namespace KrakenModel.PeerInput

-- ------------------------------------------------------------------------------ wire

def maxMessageSize : Nat := 32 * 1024

/-- what `proto.Unmarshal` made of the message body -/
structure Decoded where
  typ : Int
  /-- the PiecePayload sub-message: index, offset, length -/
  pp : Option (Int × Int × Int)
  deriving Repr, DecidableEq

structure Frame where
  /-- the length prefix -/
  dlen : Nat
  /-- bytes that arrive after the prefix before the stream ends (message, then payload) -/
  avail : Nat
  /-- decoded view of the first `dlen` bytes (`none`: unmarshal error) -/
  parse : Option Decoded
  deriving Repr, DecidableEq

inductive WireOut where
  | closeTooLarge | closeShortBody | closeUnmarshal | closeBadPayload | closeShortPayload
  | panicNilBody | panicNegLen
  | msg (typ : Int) (payload : Option Nat)
  deriving Repr, DecidableEq

structure WireRes where
  out : WireOut
  /-- sizes of the buffers allocated on the way -/
  allocs : List Nat
  deriving Repr, DecidableEq

def WireOut.isPanic : WireOut → Bool
  | .panicNilBody => true
  | .panicNegLen => true
  | _ => false

def readMessage (rep : Bool) (maxPiece : Nat) (f : Frame) : WireRes :=
  if f.dlen > maxMessageSize then ⟨.closeTooLarge, []⟩
  else if f.avail < f.dlen then ⟨.closeShortBody, [f.dlen]⟩
  else match f.parse with
    | none => ⟨.closeUnmarshal, [f.dlen]⟩
    | some d =>
      if d.typ ≠ 2 then ⟨.msg d.typ none, [f.dlen]⟩
      else match d.pp with
        | none => if rep then ⟨.closeBadPayload, [f.dlen]⟩ else ⟨.panicNilBody, [f.dlen]⟩
        | some (_, _, len) =>
          if rep && (decide (len < 0) || decide (len > maxPiece)) then ⟨.closeBadPayload, [f.dlen]⟩
          else if len < 0 then ⟨.panicNegLen, [f.dlen]⟩
          else
            let n := len.toNat
            if f.avail - f.dlen < n then ⟨.closeShortPayload, [f.dlen, n]⟩
            else ⟨.msg 2 (some n), [f.dlen, n]⟩

-- ------------------------------------------------------------------------------ handshake

/-- a serialized bitfield: `short` = fewer than the 8 header bytes; otherwise the header declares
`bits` bits and `bytes` bytes follow -/
structure BfBytes where
  short : Bool
  bits : Nat
  bytes : Nat
  /-- positions of the bits that are set in the received words (the decoder copies whole 64-bit words and
      does not clear the last one beyond the declared length, so these may lie at or beyond `bits`) -/
  setBits : List Nat := []
  deriving Repr, DecidableEq

structure HsIn where
  isBitfieldType : Bool
  body : Bool
  pidOk : Bool
  ihOk : Bool
  nameOk : Bool
  bf : BfBytes
  rbf : Option BfBytes
  deriving Repr, DecidableEq

def words (bits : Nat) : Nat := (bits + 63) / 64

/-- `bitset.UnmarshalBinary` (behind the length guard when `rep`): result length, allocations -/
def unmarshalBitfield (rep : Bool) (b : BfBytes) : Option (Nat × List Nat) × List Nat :=
  if b.short then (none, [])
  else if rep && decide (b.bits > 8 * b.bytes) then (none, [])
  else if b.bytes < 8 * words b.bits then (none, [8 * words b.bits, 8 * words b.bits])
  else (some (b.bits, b.setBits), [8 * words b.bits, 8 * words b.bits])

structure HsRes where
  /-- `some (len, bits)`: accepted, a bitfield of that length with these bits set -/
  out : Option (Nat × List Nat)
  allocs : List Nat
  deriving Repr, DecidableEq

def handshake (rep : Bool) (i : HsIn) : HsRes :=
  if !i.isBitfieldType || !i.body || !i.pidOk || !i.ihOk || !i.nameOk then ⟨none, []⟩
  else
    let r := unmarshalBitfield rep i.bf
    match r.1 with
    | none => ⟨none, r.2⟩
    | some len =>
      match i.rbf with
      | none => ⟨some len, r.2⟩
      | some rb =>
        let r2 := unmarshalBitfield rep rb
        match r2.1 with
        | none => ⟨none, r.2 ++ r2.2⟩
        | some _ => ⟨some len, r.2 ++ r2.2⟩

-- ------------------------------------------------------------------------------ dispatcher

/-- a peer's bitfield as the dispatcher keeps it: length and set bits (ascending) -/
structure Peer where
  len : Nat
  bits : List Nat
  closed : Bool := false
  deriving Repr, DecidableEq

structure DState where
  origin : Bool
  np : Nat
  pieceLen : Nat
  lastLen : Nat
  /-- complete pieces of the torrent (an origin torrent has all) -/
  pieces : List Nat
  peers : Nat → Option Peer := fun _ => none
  /-- `numPeersByPiece` -/
  cnt : Nat → Int := fun _ => 0

inductive Msg where
  | announce (b : Option Int)
  | request (b : Option (Int × Int × Int))
  /-- `actual` = length of the payload reader, `good` = its bytes match the piece checksum -/
  | payload (b : Option (Int × Int × Int)) (actual : Nat) (good : Bool)
  | error (b : Option (Int × Int))
  | cancel (b : Option Int)
  | bitfield
  | complete
  | unknown (typ : Int)
  deriving Repr, DecidableEq

inductive Sent where
  | none
  | payload (i : Int) (len : Nat)
  | error (i : Int)
  deriving Repr, DecidableEq

/-- what a handler did to torrent data / bookkeeping (for the range theorems) -/
inductive Effect where
  | read (piece : Int) (len : Nat)
  | write (piece : Int) (len : Nat)
  | count (piece : Int)
  | setBit (piece : Int)
  deriving Repr, DecidableEq

inductive DOut where
  | ok (sent : Sent)
  | unknownType
  | err
  | panic (site : String)
  deriving Repr, DecidableEq

def DOut.isPanic : DOut → Bool
  | .panic _ => true
  | _ => false

structure DRes where
  st : DState
  out : DOut
  effects : List Effect := []

def validIdx (s : DState) (i : Int) : Bool := decide (0 ≤ i) && decide (i < s.np)

/-- `torrent.PieceLength(i)` (`MetaInfo.GetPieceLength`: 0 outside the torrent) -/
def pieceLength (s : DState) (i : Int) : Nat :=
  if validIdx s i then (if i.toNat + 1 = s.np then s.lastLen else s.pieceLen) else 0

def insertSorted (x : Nat) : List Nat → List Nat
  | [] => [x]
  | y :: ys => if x < y then x :: y :: ys else if x = y then y :: ys else y :: insertSorted x ys

/-- `bitset.Set(i)`: extends the set when `i` is beyond its length -/
def Peer.set (p : Peer) (i : Nat) : Peer :=
  { p with len := max p.len (i + 1), bits := insertSorted i p.bits }

def Peer.all (p : Peer) : Bool := p.bits.length == p.len

def setPeer (s : DState) (k : Nat) (p : Peer) : DState :=
  { s with peers := fun j => if j = k then some p else s.peers j }

def bump (s : DState) (i : Nat) : DState :=
  { s with cnt := fun j => if j = i then s.cnt j + 1 else s.cnt j }

def complete (s : DState) : Bool := (List.range s.np).all (· ∈ s.pieces)

/-- `Dispatcher.addPeer` with a handshake bitfield of length `len` and set bits `bits` -/
def addPeer (rep : Bool) (s : DState) (k : Nat) (len : Nat) (bits : List Nat) : DRes :=
  if rep && (decide (len > s.np) || bits.any (fun b => decide (len ≤ b))) then ⟨s, .err, []⟩
  else match s.peers k with
    | some _ => ⟨s, .err, []⟩
    | none =>
      let s1 := setPeer s k { len := len, bits := bits }
      -- `for _, i := range p.bitfield.GetAllSet() { d.numPeersByPiece.Increment(int(i)) }`
      match bits.find? (fun i => decide (s.np ≤ i)) with
      | some _ => ⟨s1, .panic "addPeer: numPeersByPiece index out of range", []⟩
      | none => ⟨bits.foldl bump s1, .ok .none, bits.map (fun i => .count (Int.ofNat i))⟩

def unbump (s : DState) (i : Nat) : DState :=
  { s with cnt := fun j => if j = i then s.cnt j - 1 else s.cnt j }

/-- `Dispatcher.removePeer` (the feed loop calls it when the peer's connection ended): the peer is dropped
and `numPeersByPiece` is decremented for every set bit of its bitfield -/
def removePeer (s : DState) (k : Nat) : DRes :=
  match s.peers k with
  | none => ⟨s, .err, []⟩
  | some p =>
    let s1 := { s with peers := fun j => if j = k then none else s.peers j }
    match p.bits.find? (fun i => decide (s.np ≤ i)) with
    | some _ => ⟨s1, .panic "removePeer: numPeersByPiece index out of range", []⟩
    | none => ⟨p.bits.foldl unbump s1, .ok .none, p.bits.map (fun i => .count (Int.ofNat i))⟩

/-- `d.complete()`: connections to peers whose bitfield is complete are closed -/
def closeCompletePeers (s : DState) : DState :=
  { s with peers := fun j => (s.peers j).map fun p => if p.all then { p with closed := true } else p }

def dispatch (rep : Bool) (s : DState) (k : Nat) (m : Msg) : DRes :=
  match s.peers k with
  | none => ⟨s, .err, []⟩
  | some p =>
    match m with
    | .unknown _ => ⟨s, .unknownType, []⟩
    | .cancel _ => ⟨s, .ok .none, []⟩
    | .bitfield => ⟨s, .ok .none, []⟩
    | .complete =>
      if complete s then ⟨setPeer s k { p with closed := true }, .ok .none, []⟩
      else ⟨setPeer s k { p with bits := List.range p.len }, .ok .none, []⟩
    | .error none => if rep then ⟨s, .ok .none, []⟩ else ⟨s, .panic "handleError: nil message", []⟩
    | .error (some _) => ⟨s, .ok .none, []⟩
    | .announce none => if rep then ⟨s, .ok .none, []⟩ else ⟨s, .panic "handleAnnouncePiece: nil message", []⟩
    | .announce (some i) =>
      if decide (i ≥ s.np) then ⟨s, .ok .none, []⟩
      else if i < 0 then
        (if rep then ⟨s, .ok .none, []⟩ else ⟨s, .panic "handleAnnouncePiece: negative index", [.setBit i, .count i]⟩)
      else
        let n := i.toNat
        ⟨bump (setPeer s k (p.set n)) n, .ok .none, [.setBit i, .count i]⟩
    | .request none => if rep then ⟨s, .ok .none, []⟩ else ⟨s, .panic "handlePieceRequest: nil message", []⟩
    | .request (some (i, off, len)) =>
      if rep && !validIdx s i then ⟨s, .ok (.error i), []⟩
      else if !(decide (off = 0) && decide (len = pieceLength s i)) then ⟨s, .ok (.error i), []⟩
      else if i < 0 then
        -- only the code as it was gets here (offset 0, length 0 pass `isFullPiece`)
        (if s.origin then ⟨s, .panic "handlePieceRequest: bitfield.Set(uint(negative))", [.read i 0, .setBit i]⟩
         else ⟨s, .panic "agentstorage getPiece: negative index", [.read i 0]⟩)
      else if decide (i ≥ s.np) then ⟨s, .ok (.error i), []⟩
      else if i.toNat ∈ s.pieces then
        ⟨setPeer s k (p.set i.toNat), .ok (.payload i (pieceLength s i)), [.read i (pieceLength s i), .setBit i]⟩
      else ⟨s, .ok (.error i), []⟩
    | .payload none _ _ => if rep then ⟨s, .ok .none, []⟩ else ⟨s, .panic "handlePiecePayload: nil message", []⟩
    | .payload (some (i, off, len)) actual good =>
      if rep && !validIdx s i then ⟨s, .ok .none, []⟩
      else if !(decide (off = 0) && decide (len = pieceLength s i)) then ⟨s, .ok .none, []⟩
      else if s.origin then ⟨s, .ok .none, []⟩            -- read-only torrent
      else if i < 0 then ⟨s, .panic "agentstorage getPiece: negative index", [.write i actual]⟩
      else if decide (i ≥ s.np) then ⟨s, .ok .none, []⟩
      else if actual ≠ pieceLength s i then ⟨s, .ok .none, []⟩
      else if i.toNat ∈ s.pieces then ⟨s, .ok .none, []⟩   -- duplicate
      else if !good then ⟨s, .ok .none, []⟩              -- checksum mismatch
      else
        let s1 := { s with pieces := insertSorted i.toNat s.pieces }
        let s2 := if complete s1 then closeCompletePeers s1 else s1
        ⟨s2, .ok .none, [.write i actual]⟩

-- ------------------------------------------------------------------------------ scheduler: incoming handshake

/-- one incoming connection attempt as the scheduler sees it: the peer id, the info hash the handshake
claims, the info hash of the torrent its Name (digest) designates on this agent (`none`: no such torrent),
whether the message decodes at all and whether the dispatcher accepts the bitfield -/
structure InConn where
  peer : Nat
  claim : Nat
  real : Option Nat
  decodable : Bool
  bfOk : Bool
  deriving Repr, DecidableEq

inductive InRes where
  | acceptFail | rejected | failed | active | connRejected
  deriving Repr, DecidableEq

open KrakenModel.ConnState in
/-- `Handshaker.Accept` → `incomingHandshakeEvent.apply` (AddPending under the CLAIMED hash) →
`establishIncomingHandshake` (Stat by digest; the conn is built for the torrent's REAL hash) →
`incomingConnEvent.apply` / `failedIncomingHandshakeEvent.apply`, over Model.ConnState.  `cid` is the
identity of the conn that gets established.  The repaired code (`rep`) fails the handshake when the claimed
hash is not the torrent's; the code as it was went on, `MovePendingToActive` failed for the real hash and
the pending entry of the claimed hash was never released. -/
def incoming (rep : Bool) (cfg : Config) (s : State) (cid : Nat) (i : InConn) : State × InRes :=
  if !i.decodable then (s, .acceptFail) else
  match addPending cfg s i.peer i.claim [] with
  | (s1, .ok) =>
    match i.real with
    | none => (deletePending s1 i.peer i.claim, .failed)
    | some r =>
      if rep && r != i.claim then (deletePending s1 i.peer i.claim, .failed)
      else
        let c : Conn := ⟨cid, r, i.peer, false⟩
        match movePendingToActive s1 c with
        | (s2, .ok) => if i.bfOk then (s2, .active) else (connClosed cfg s2 c, .connRejected)
        | (s2, _) => (connClosed cfg s2 c, .connRejected)
  | (s1, _) => (s1, .rejected)

end KrakenModel.PeerInput
