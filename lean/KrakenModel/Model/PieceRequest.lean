/-
  Model of lib/torrent/scheduler/dispatch/piecerequest.Manager (C15), with `ClearPeer` as
  repaired by the `fix:` commit (it removes every request of the peer; the original removed only
  the first match per piece — kept here as `clearPeerOld` for the witness theorem).

  The Go manager holds the same `*Request` objects in two indexes:
    requests       : piece → []*Request             (every request, in reservation order)
    requestsByPeer : peer → piece → *Request        (the latest request per peer and piece)
  Here `reqs` is the list of the request objects in `requests` (flattened, reservation order)
  and `Req.indexed` says that `requestsByPeer[peer][piece]` points at this object.  `markStatus`
  writes through the shared pointer, i.e. changes the object wherever it is indexed.
  Times are nanoseconds (`Int`); `expired` keeps the code's strict `After`.

  The piece selection policy (random reservoir / rarest first with heap tie-breaking) is not
  recomputed: the pieces the policy returned are an input of `reserve`, which checks them against
  the selection contract (`admissible`) and then follows them.
-/
namespace KrakenModel.PieceRequest

abbrev Peer := Nat
abbrev Piece := Nat

inductive Status where
  | pending | expired | unsent | invalid
  deriving Repr, DecidableEq

inductive Policy where
  | default | rarestFirst
  deriving Repr, DecidableEq

structure Config where
  policy : Policy
  timeout : Int
  agentLimit : Int
  originLimit : Int
  deriving Repr, DecidableEq

structure Req where
  piece : Piece
  peer : Peer
  status : Status      -- stored status: pending, unsent or invalid (expired is computed)
  sentAt : Int
  indexed : Bool
  deriving Repr, DecidableEq

structure State where
  now : Int := 0
  reqs : List Req := []
  deriving Repr, DecidableEq

/-- `m.expired(r)`: `now.After(sentAt + timeout)` -/
def expired (cfg : Config) (now : Int) (r : Req) : Bool := now > r.sentAt + cfg.timeout

/-- an unexpired pending request -/
def live (cfg : Config) (now : Int) (r : Req) : Bool := r.status == .pending && !expired cfg now r

/-- `validRequest(peerID, pieceIdx, allowDuplicates)` -/
def validRequest (cfg : Config) (s : State) (p : Peer) (i : Piece) (dup : Bool) : Bool :=
  s.reqs.all fun r => !(r.piece == i && live cfg s.now r && (r.peer == p || !dup))

def limitOf (cfg : Config) (origin : Bool) : Int := if origin then cfg.originLimit else cfg.agentLimit

/-- number of unexpired pending requests in `requestsByPeer[p]` -/
def indexedLive (cfg : Config) (s : State) (p : Peer) : Nat :=
  (s.reqs.filter fun r => r.indexed && r.peer == p && live cfg s.now r).length

/-- `requestQuota`: the Go loop stops decrementing at 0 when the limit is positive and the result is
only compared with `<= 0`, so it is observably `limit - n`. -/
def quota (cfg : Config) (s : State) (p : Peer) (origin : Bool) : Int :=
  limitOf cfg origin - indexedLive cfg s p

def validCands (cfg : Config) (s : State) (p : Peer) (cands : List Piece) (dup : Bool) : List Piece :=
  cands.filter fun i => validRequest cfg s p i dup

def prioOf (prio : List Int) (i : Piece) : Int := prio.getD i 0

def nondecreasing (prio : List Int) : List Piece → Bool
  | a :: b :: rest => prioOf prio a ≤ prioOf prio b && nondecreasing prio (b :: rest)
  | _ => true

/-- The selection contract both policies meet: distinct valid candidates, as many as the quota
allows.  Default policy: when everything fits the result is the valid candidates in bit order.
Rarest first: in non-decreasing order of `numPeersByPiece`, nothing rarer is left out. -/
def admissible (pol : Policy) (q : Nat) (valid : List Piece) (prio : List Int) (chosen : List Piece) : Bool :=
  decide chosen.Nodup && chosen.all (· ∈ valid) && chosen.length == min q valid.length &&
  match pol with
  | .default => decide (valid.length ≤ q → chosen = valid)
  | .rarestFirst =>
    nondecreasing prio chosen &&
    valid.all fun v => v ∈ chosen || chosen.all fun c => prioOf prio c ≤ prioOf prio v

/-- append the new request and make it the indexed one for (p, i) -/
def addReq (s : State) (p : Peer) (i : Piece) : State :=
  { s with reqs := (s.reqs.map fun r => if r.peer == p && r.piece == i then { r with indexed := false } else r) ++
      [⟨i, p, .pending, s.now, true⟩] }

def addAll (s : State) (p : Peer) (chosen : List Piece) : State := chosen.foldl (fun s i => addReq s p i) s

inductive ResOut where
  | pieces (l : List Piece)    -- also the nil result when the quota is exhausted
  | inadmissible               -- the recorded selection violates the policy contract
  deriving Repr, DecidableEq

def reserve (cfg : Config) (s : State) (p : Peer) (origin : Bool) (cands : List Piece) (prio : List Int)
    (dup : Bool) (chosen : List Piece) : State × ResOut :=
  let q := quota cfg s p origin
  if q ≤ 0 then (s, .pieces []) else
  if admissible cfg.policy q.toNat (validCands cfg s p cands dup) prio chosen then (addAll s p chosen, .pieces chosen)
  else (s, .inadmissible)

/-- `markStatus` -/
def markStatus (s : State) (p : Peer) (i : Piece) (st : Status) : State :=
  { s with reqs := s.reqs.map fun r => if r.piece == i && r.peer == p then { r with status := st } else r }

/-- `Clear(i)` -/
def clear (s : State) (i : Piece) : State := { s with reqs := s.reqs.filter fun r => !(r.piece == i) }

/-- `ClearPeer(peerID)` (repaired: every request of the peer) -/
def clearPeer (s : State) (p : Peer) : State := { s with reqs := s.reqs.filter fun r => !(r.peer == p) }

/-- remove the first request of `p` among those of piece `i` -/
def eraseFirst (p : Peer) (i : Piece) : List Req → List Req
  | [] => []
  | r :: rs => if r.piece == i && r.peer == p then rs else r :: eraseFirst p i rs

/-- `ClearPeer` before the repair: drops `requestsByPeer[p]` but only the first match per piece
in `requests` (the swap with the last element of the slice is not modelled: order kept). -/
def clearPeerOld (s : State) (p : Peer) : State :=
  let pieces := (s.reqs.map (·.piece)).eraseDups
  { s with reqs := (pieces.foldl (fun l i => eraseFirst p i l) s.reqs).map fun r =>
      if r.peer == p then { r with indexed := false } else r }

def insertSorted (x : Nat) : List Nat → List Nat
  | [] => [x]
  | y :: ys => if x ≤ y then x :: y :: ys else y :: insertSorted x ys

/-- `PendingPieces(p)`: status pending (expired or not) in `requestsByPeer[p]`, sorted -/
def pendingPieces (s : State) (p : Peer) : List Piece :=
  ((s.reqs.filter fun r => r.indexed && r.peer == p && r.status == .pending).map (·.piece)).foldr insertSorted []

/-- what `GetFailedRequests` reports for one request -/
def report (cfg : Config) (now : Int) (r : Req) : Option (Piece × Peer × Status) :=
  let st := if r.status == .pending && expired cfg now r then Status.expired else r.status
  if st ≠ .pending then some (r.piece, r.peer, st) else none

/-- `GetFailedRequests()` (map order in Go: compared as a multiset) -/
def failed (cfg : Config) (s : State) : List (Piece × Peer × Status) := s.reqs.filterMap (report cfg s.now)

inductive Op where
  | reserve (p : Peer) (origin : Bool) (cands : List Piece) (prio : List Int) (dup : Bool) (chosen : List Piece)
  | markUnsent (p : Peer) (i : Piece)
  | markInvalid (p : Peer) (i : Piece)
  | clear (i : Piece)
  | clearPeer (p : Peer)
  | advance (d : Nat)
  deriving Repr, DecidableEq

def step (cfg : Config) (s : State) : Op → State
  | .reserve p origin cands prio dup chosen => (reserve cfg s p origin cands prio dup chosen).1
  | .markUnsent p i => markStatus s p i .unsent
  | .markInvalid p i => markStatus s p i .invalid
  | .clear i => clear s i
  | .clearPeer p => clearPeer s p
  | .advance d => { s with now := s.now + d }

end KrakenModel.PieceRequest
