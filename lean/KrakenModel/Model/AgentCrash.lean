import KrakenModel.Util.FS
/-
  Model for C04: an agent downloads one blob.
    lib/torrent/storage/agentstorage  TorrentArchive.CreateTorrent, NewTorrent, restorePieces,
                                      Torrent.WritePiece / markPieceComplete
    lib/store                         CADownloadStore (download/ and cache/ state directories)
    lib/store/base                    localFileOp (reload of an entry from disk, TryStore and its
                                      last-access-time sidecar), localFileEntry (Create, Move,
                                      GetOrSetMetadata, SetMetadataAt, compareAndWriteFile)

  Layout:  <root>/{download,cache}/<name[0:2]>/<name[2:4]>/<name>/{data,_last_access_time,_torrentmeta,_status}

  The piece checksum is a parameter `sum`; the serialized metainfo and the (clock dependent) contents
  of `_last_access_time` are opaque byte strings.  One process at a time; `restart` starts a new one.
-/
namespace KrakenModel.AgentCrash
open KrakenModel.FS

inductive Name where
  | data      -- the blob being assembled / the cached blob
  | lat       -- `_last_access_time`
  | tmeta     -- `_torrentmeta`
  | status    -- `_status`: one byte per piece, 1 = complete
  deriving DecidableEq, Repr

structure Cfg where
  name : String      -- hex digest of the blob
  blob : Bytes
  pl : Nat           -- piece length
  wps : Nat          -- WritePartSize (0: unlimited)
  mi : Bytes         -- the serialized metainfo
  lat : Bytes        -- a serialized last access time
  deriving Repr

def numPieces (cfg : Cfg) : Nat := (cfg.blob.length + cfg.pl - 1) / cfg.pl

def pieceOf (cfg : Cfg) (i : Nat) : Bytes := (cfg.blob.drop (i * cfg.pl)).take cfg.pl

/-- casFileEntryFactory.GetRelativePath: two shard levels taken from the name -/
def shards (cfg : Cfg) : List String :=
  (List.range (min 2 (cfg.name.length / 2))).map (fun i => String.ofList ((cfg.name.toList.drop (2 * i)).take 2))

def stateName (cache : Bool) : String := if cache then "cache" else "download"

def entryDir (cfg : Cfg) (cache : Bool) : Path := stateName cache :: (shards cfg ++ [cfg.name])

/-! ### in-memory state of the agent process -/

/-- the file map entry of the blob: its state directory and the sidecars it knows about -/
structure Entry where
  cache : Bool
  mds : List Name
  /-- the last access time read from disk is old: the next locked access rewrites the sidecar -/
  stale : Bool := false
  deriving DecidableEq, Repr

structure Torrent where
  status : List Bool
  committed : Bool
  deriving DecidableEq, Repr

structure Mem where
  entry : Option Entry := none
  tor : Option Torrent := none
  deriving DecidableEq, Repr

inductive Res where
  | ok | errMetainfo | errInit | noTorrent | badIndex | badLen | complete | badSum | errOther
  deriving DecidableEq, Repr

structure Out where
  mem : Mem
  calls : List (Call Name)
  res : Res

/-! ### building blocks -/

/-- base.compareAndWriteFile -/
def cawPlan (fs : FS Name) (dir : Path) (n : Name) (b : Bytes) : List (Call Name) :=
  match fs.file? dir n with
  | none => mkdirAllPlan fs dir ++ [Call.openTrunc dir n] ++ (if b = [] then [] else [Call.pwrite dir n 0 b])
  | some old =>
    if old = b then []
    else (if old.length = b.length then [] else [Call.truncate dir n b.length]) ++
         (if b = [] then [] else [Call.pwrite dir n 0 b])

def addMd (mds : List Name) (n : Name) : List Name := if n ∈ mds then mds else mds ++ [n]

/-- the sidecars `Reload` registers: those present in the directory -/
def presentMds (fs : FS Name) (dir : Path) : List Name :=
  [Name.lat, Name.tmeta, Name.status].filter (fun n => (fs.file? dir n).isSome)

/-- `TryStore`: a readable `_last_access_time` is kept, a missing or unreadable (empty) one is written -/
def latPlan (cfg : Cfg) (fs : FS Name) (dir : Path) : List (Call Name) :=
  match fs.file? dir .lat with
  | some (_ :: _) => []
  | _ => cawPlan fs dir .lat cfg.lat

def latKnown (fs : FS Name) (dir : Path) : Bool :=
  match fs.file? dir .lat with
  | some (_ :: _) => false     -- read successfully: not registered by TryStore itself
  | _ => true

/-- a readable last access time that is not a current one (more than the map's time resolution old) -/
def latStale (cfg : Cfg) (fs : FS Name) (dir : Path) : Bool :=
  match fs.file? dir .lat with
  | some (x :: t) => decide (x :: t ≠ cfg.lat)
  | _ => false

/-- `syncGetAndTouch` (LoadForRead / LoadForWrite): an old last access time is replaced -/
def touch (cfg : Cfg) (e : Entry) (fs : FS Name) : Entry × List (Call Name) :=
  if e.stale then ({ e with stale := false, mds := addMd e.mds .lat }, cawPlan fs (entryDir cfg e.cache) .lat cfg.lat)
  else (e, [])

structure Loaded where
  entry : Option Entry
  fs : FS Name
  calls : List (Call Name)

/-- `reloadFileEntryHelper` for an operation that accepts the states `states` (the blob file decides
where the entry is; at most one directory holds it) followed by `TryStore` -/
def loadEntry (cfg : Cfg) (m : Mem) (fs : FS Name) (states : List Bool) : Loaded :=
  match m.entry with
  | some e => ⟨some e, fs, []⟩
  | none =>
    match states.find? (fun c => (fs.file? (entryDir cfg c) .data).isSome) with
    | none => ⟨none, fs, []⟩
    | some c =>
      let dir := entryDir cfg c
      let cs := latPlan cfg fs dir
      let fs' := applyAll fs cs
      -- the entry is reloaded once more inside TryStore's callback: the sidecars present now
      ⟨some ⟨c, presentMds fs' dir, latStale cfg fs dir⟩, fs', cs⟩

inductive Decoded where
  | ok | notExist
  deriving DecidableEq, Repr

/-- reading `_torrentmeta`: a file that does not hold the metainfo (empty: created, not yet written;
zero-filled: resized, not yet rewritten) counts as missing -/
def decodeMeta (cfg : Cfg) : Option Bytes → Decoded
  | none => .notExist
  | some b => if b = cfg.mi then .ok else .notExist

/-- pieceStatusMetadata.Deserialize -/
def decodeStatus (b : Bytes) : List Bool := b.map (· = 1)

/-- copy the registered sidecars to the target directory (`performCopy` for each of them);
`none`: a registered sidecar cannot be read -/
def copyMds (src dst : Path) : List Name → FS Name → List (Call Name) → Option (List (Call Name) × FS Name)
  | [], fs, acc => some (acc, fs)
  | n :: rest, fs, acc =>
    match fs.file? src n with
    | none => none
    | some b =>
      let c := cawPlan fs dst n b
      copyMds src dst rest (applyAll fs c) (acc ++ c)

/-- `localFileEntry.Move` to the cache directory followed by the removal of the download directory.
`mdOrder`: the order in which the registered sidecars are copied (a Go map iteration). -/
def movePlan (cfg : Cfg) (o : Order Name) (mdOrder : List Name) (e : Entry) (fs : FS Name) : Option (List (Call Name)) :=
  let src := entryDir cfg false
  let dst := entryDir cfg true
  let mk := mkdirAllPlan fs dst
  let fs0 := applyAll fs mk
  if (fs0.file? src .data).isNone then none else
  match copyMds src dst (orderBy mdOrder e.mds) fs0 [] with
  | none => none
  | some (cs, fs1) =>
    let rn := [Call.rename src Name.data dst Name.data]
    let fs2 := applyAll fs1 rn
    some (mk ++ cs ++ rn ++ removeAllPlan fs2 o src)

def zeros (n : Nat) : Bytes := List.replicate n 0

/-- `NewTorrent`: restorePieces and, when every piece is complete, the commit to the cache -/
def newTorrent (cfg : Cfg) (o : Order Name) (mdOrder : List Name) (e0 : Entry) (fs0 : FS Name) (pre0 : List (Call Name)) : Out :=
  let n := numPieces cfg
  -- restorePieces locks the entry for writing (whatever its state)
  let (e, tc) := touch cfg e0 fs0
  let fs := applyAll fs0 tc
  let pre := pre0 ++ tc
  if e.cache then
    -- InCacheError: every piece is complete; MoveFile answers ErrExist, which is ignored
    ⟨{ entry := some e, tor := some ⟨List.replicate n true, true⟩ }, pre, .ok⟩
  else
    let dir := entryDir cfg false
    -- GetOrSetMetadata(_status)
    let (status, cs, mds) : List Bool × List (Call Name) × List Name :=
      if Name.status ∈ e.mds then
        match fs.file? dir .status with
        | some b =>
          -- a status vector of the wrong length (empty: created, not yet written) describes no piece
          if b.length = n then (decodeStatus b, [], e.mds)
          else (List.replicate n false, cawPlan fs dir .status (zeros n), e.mds)
        | none => ([], [], e.mds)            -- unreadable: handled below as an error
      else (List.replicate n false, cawPlan fs dir .status (zeros n), addMd e.mds .status)
    if Name.status ∈ e.mds ∧ (fs.file? dir .status).isNone then ⟨{ entry := some e }, pre, .errInit⟩ else
    let fs1 := applyAll fs cs
    let e1 : Entry := ⟨false, mds, false⟩
    if status.all id then
      match movePlan cfg o mdOrder e1 fs1 with
      | some mv => ⟨{ entry := some ⟨true, mds, false⟩, tor := some ⟨status, true⟩ }, pre ++ cs ++ mv, .ok⟩
      | none => ⟨{ entry := some e1 }, pre ++ cs, .errInit⟩
    else ⟨{ entry := some e1, tor := some ⟨status, false⟩ }, pre ++ cs, .ok⟩

/-- `localFileEntry.Create` first removes the metadata an earlier incarnation of the entry left in the
directory (everything but the last access time; `os.ReadDir` order: by name) -/
def leftoverPlan (fs : FS Name) (dir : Path) : List (Call Name) :=
  ([Name.status, Name.tmeta].filter (fun n => (fs.file? dir n).isSome)).map (Call.unlink dir)

/-- `TorrentArchive.CreateTorrent` -/
def createTorrent (cfg : Cfg) (o : Order Name) (mdOrder : List Name) (m : Mem) (fs : FS Name) : Out :=
  -- GetMetadata(_torrentmeta) on any state
  let l := loadEntry cfg m fs [false, true]
  match l.entry with
  | some e =>
    match decodeMeta cfg (l.fs.file? (entryDir cfg e.cache) .tmeta) with
    | .ok => newTorrent cfg o mdOrder e l.fs l.calls
    | .notExist =>
      -- metainfo is downloaded; CreateDownloadFile (a locked read: touch) fails with a state error,
      -- which is tolerated; SetMetadata(_torrentmeta)
      let dir := entryDir cfg e.cache
      let (e', tc) := touch cfg e l.fs
      let fsT := applyAll l.fs tc
      let cs := cawPlan fsT dir .tmeta cfg.mi
      newTorrent cfg o mdOrder { e' with mds := addMd e'.mds .tmeta } (applyAll fsT cs) (l.calls ++ tc ++ cs)
  | none =>
    -- nothing on disk: CreateDownloadFile makes a new entry in the download state
    let dir := entryDir cfg false
    let c1 := latPlan cfg l.fs dir
    let mds1 : List Name := if latKnown l.fs dir then [Name.lat] else []
    let fs1 := applyAll l.fs c1
    let c2 := mkdirAllPlan fs1 dir ++ (leftoverPlan (applyAll fs1 (mkdirAllPlan fs1 dir)) dir ++
      [Call.openTrunc dir .data, Call.truncate dir .data cfg.blob.length])
    let fs2 := applyAll fs1 c2
    -- SetMetadata(_torrentmeta) locks the new entry for writing: an old leftover access time is replaced
    let (e', tc) := touch cfg ⟨false, mds1, latStale cfg l.fs dir⟩ fs2
    let fs3 := applyAll fs2 tc
    let c3 := cawPlan fs3 dir .tmeta cfg.mi
    newTorrent cfg o mdOrder { e' with mds := addMd e'.mds .tmeta } (applyAll fs3 c3) (l.calls ++ c1 ++ c2 ++ tc ++ c3)

/-- the `write` calls of one piece: parts of at most `wps` bytes -/
def chunkCalls (dir : Path) (wps : Nat) : Nat → Nat → Bytes → List (Call Name)
  | 0, _, _ => []
  | fuel + 1, off, p =>
    if p = [] then []
    else if wps = 0 then [Call.pwrite dir .data off p]
    else Call.pwrite dir .data off (p.take wps) :: chunkCalls dir wps fuel (off + wps) (p.drop wps)

def pieceLength (cfg : Cfg) (i : Nat) : Nat := (pieceOf cfg i).length

/-- `Torrent.WritePiece` -/
def writePiece (cfg : Cfg) {σ : Type} [DecidableEq σ] (sum : Bytes → σ) (o : Order Name) (mdOrder : List Name) (m : Mem) (fs : FS Name)
    (i : Nat) (p : Bytes) : Out :=
  match m.tor, m.entry with
  | some t, some e =>
    if i ≥ t.status.length then ⟨m, [], .badIndex⟩
    else if p.length ≠ (if i < numPieces cfg then pieceLength cfg i else 0) then ⟨m, [], .badLen⟩
    else if t.status.getD i false then ⟨m, [], .complete⟩
    else if e.cache then ⟨m, [], .errOther⟩      -- GetDownloadFileReadWriter: wrong state
    else
      let dir := entryDir cfg false
      if (fs.file? dir .data).isNone then ⟨m, [], .errOther⟩ else
      let ws := chunkCalls dir cfg.wps (p.length + 1) (i * cfg.pl) p
      if sum p ≠ sum (pieceOf cfg i) then ⟨m, ws, .badSum⟩
      else
        let fs1 := applyAll fs ws
        -- markPieceComplete: SetMetadataAt(_status, [1], i)
        match fs1.file? dir .status with
        | none => ⟨m, ws, .errOther⟩
        | some st =>
          if i ≥ st.length then ⟨m, ws, .errOther⟩ else    -- ReadAt: EOF
          let sc := if st.getD i 0 = 1 then [] else [Call.pwrite dir .status i [1]]
          let fs2 := applyAll fs1 sc
          let status' := t.status.set i true
          if status'.all id then
            match movePlan cfg o mdOrder e fs2 with
            | some mv => ⟨{ entry := some { e with cache := true }, tor := some ⟨status', true⟩ }, ws ++ sc ++ mv, .ok⟩
            | none => ⟨{ m with tor := some ⟨status', false⟩ }, ws ++ sc, .errOther⟩
          else ⟨{ m with tor := some ⟨status', false⟩ }, ws ++ sc, .ok⟩
  | _, _ => ⟨m, [], .noTorrent⟩

/-- a new process: `NewCADownloadStore` makes sure the two state directories exist -/
def restartPlan (fs : FS Name) : List (Call Name) :=
  let c1 := mkdirAllPlan fs [stateName false]
  c1 ++ mkdirAllPlan (applyAll fs c1) [stateName true]

/-- `TorrentArchive.DeleteTorrent` = `Any().DeleteFile`: what the TTL clean-up of either directory and
a cache eviction do to an entry. The entry leaves the file map; a torrent object that refers to it is
not used any more. A directory without the blob file is not an entry: it is left alone. -/
def evict (cfg : Cfg) (o : Order Name) (m : Mem) (fs : FS Name) : Out :=
  let l := loadEntry cfg m fs [false, true]
  match l.entry with
  | none => ⟨{}, l.calls, .ok⟩
  | some e => ⟨{}, l.calls ++ removeAllPlan l.fs o (entryDir cfg e.cache), .ok⟩

inductive Op where
  | create
  | write (i : Nat) (p : Bytes)
  | restart
  | evict
  deriving DecidableEq, Repr

def exec (cfg : Cfg) {σ : Type} [DecidableEq σ] (sum : Bytes → σ) (o : Order Name) (mdOrder : List Name) (m : Mem) (fs : FS Name) : Op → Out
  | .create => createTorrent cfg o mdOrder m fs
  | .write i p => writePiece cfg sum o mdOrder m fs i p
  | .restart => ⟨{}, restartPlan fs, .ok⟩
  | .evict => evict cfg o m fs

def plan (cfg : Cfg) {σ : Type} [DecidableEq σ] (sum : Bytes → σ) (o : Order Name) (mdOrder : List Name) (m : Mem) (fs : FS Name) (op : Op) :
    List (Call Name) := (exec cfg sum o mdOrder m fs op).calls

/-- the tree a fresh process starts on -/
def initFS : FS Name := ⟨[([stateName false], []), ([stateName true], [])]⟩

end KrakenModel.AgentCrash
