import KrakenModel.Util.Codec
/-
  Model of the identifier / metadata codecs (C39):
    core/digest.go        ParseSHA256Digest, NewSHA256DigestFromHex, ValidateSHA256, String, DigestList JSON
    core/infohash.go      NewInfoHashFromHex, Hex
    core/peer_id.go       NewPeerID, String
    lib/store/metadata    LastAccessTime (zig-zag varint), Persist (FormatBool / ParseBool)
    agentstorage/pieces.go pieceStatusMetadata Serialize / Deserialize
    conn/handshaker.go    bitset binary form, handshake ↔ p2p bitfield message
  Bytes are `List Nat` (each < 256), strings `List Char`.
-/
namespace KrakenModel.IdCodec
open KrakenModel.Codec

abbrev Bytes := List Nat

/-! ### encoding/hex -/

/-- hex.EncodeToString (lower case) -/
def hexEncode (bs : Bytes) : List Char := bs.flatMap fun b => [Nat.digitChar (b / 16), Nat.digitChar (b % 16)]

/-- value of a hex digit, both cases (hex.DecodeString) -/
def hexVal (c : Char) : Option Nat :=
  let n := c.toNat
  if 48 ≤ n ∧ n ≤ 57 then some (n - 48)
  else if 97 ≤ n ∧ n ≤ 102 then some (n - 87)
  else if 65 ≤ n ∧ n ≤ 70 then some (n - 55)
  else none

/-- hex.DecodeString: `none` = error (odd length or invalid byte) -/
def hexDecode : List Char → Option Bytes
  | [] => some []
  | [_] => none
  | a :: b :: rest =>
    match hexVal a, hexVal b, hexDecode rest with
    | some x, some y, some r => some ((16 * x + y) :: r)
    | _, _, _ => none

/-! ### digests -/

def sha256Prefix : List Char := ['s','h','a','2','5','6',':']
def sha256Algo : List Char := ['s','h','a','2','5','6']

/-- a core.Digest built by the package (algo is always sha256, raw = "sha256:" ++ hex) -/
structure Digest where
  hex : List Char
  deriving DecidableEq, Repr

/-- Digest.String() -/
def Digest.raw (d : Digest) : List Char := sha256Prefix ++ d.hex

inductive DigestErr where
  | empty | parts | algo | length | hex
  deriving DecidableEq, Repr

/-- core.ValidateSHA256 -/
def validateSHA256 (s : List Char) : Option DigestErr :=
  if s.length ≠ 64 then some .length
  else match hexDecode s with
    | none => some .hex
    | some _ => none

/-- core.NewSHA256DigestFromHex -/
def newSHA256DigestFromHex (s : List Char) : Except DigestErr Digest :=
  match validateSHA256 s with
  | some e => .error e
  | none => .ok { hex := s }

/-- core.ParseSHA256Digest -/
def parseSHA256Digest (raw : List Char) : Except DigestErr Digest :=
  if raw.isEmpty then .error .empty
  else match splitOn ':' raw with
    | [algo, hex] =>
      if algo ≠ sha256Algo then .error .algo
      else match validateSHA256 hex with
        | some e => .error e
        | none => .ok { hex := hex }
    | _ => .error .parts

/-- json.Marshal of a DigestList: `none` = nil slice -/
def digestListJSON : Option (List Digest) → List Char
  | none => ['n','u','l','l']
  | some [] => ['[',']']
  | some (d :: ds) => '[' :: '"' :: d.raw ++ ['"'] ++ (ds.flatMap fun x => ',' :: '"' :: x.raw ++ ['"']) ++ [']']

/-- scanner of `"raw","raw",…]` ; `cur` collects the characters of the current string -/
def scanDigests : List Char → Option (List Char) → List Digest → Option (List Digest × List Char)
  | [], _, _ => none
  | c :: cs, none, acc =>          -- between strings
    if c = '"' then scanDigests cs (some []) acc else none
  | c :: cs, some cur, acc =>      -- inside a string
    if c = '"' then
      match parseSHA256Digest cur with
      | .error _ => none
      | .ok d =>
        match cs with
        | ',' :: cs' => scanDigests cs' none (acc ++ [d])
        | ']' :: cs' => some (acc ++ [d], cs')
        | _ => none
    else if c = '\\' then none
    else scanDigests cs (some (cur ++ [c])) acc

/-- structural reader of the JSON list (no canonicity check) -/
def readDigestList (s : List Char) : Option (Option (List Digest)) :=
  if s = ['n','u','l','l'] then some none
  else if s = ['[',']'] then some (some [])
  else match s with
    | '[' :: rest =>
      match scanDigests rest none [] with
      | some (l, []) => some (some l)
      | _ => none
    | _ => none

/-- DigestList.Scan restricted to canonical texts (what `digestListJSON` writes); `none` = not
canonical or rejected -/
def parseDigestList (s : List Char) : Option (Option (List Digest)) :=
  match readDigestList s with
  | some l => if digestListJSON l = s then some l else none
  | none => none

/-! ### info hash / peer id (20 raw bytes) -/

inductive IdErr where
  | length | hex | invariant
  deriving DecidableEq, Repr

/-- core.NewInfoHashFromHex -/
def newInfoHashFromHex (s : List Char) : Except IdErr Bytes :=
  if s.length ≠ 40 then .error .length
  else match hexDecode s with
    | none => .error .hex
    | some bs => if bs.length ≠ 20 then .error .invariant else .ok bs

/-- core.NewPeerID -/
def newPeerID (s : List Char) : Except IdErr Bytes :=
  match hexDecode s with
  | none => .error .hex
  | some bs => if bs.length ≠ 20 then .error .length else .ok bs

/-! ### LastAccessTime: zig-zag varint in a fixed buffer -/

/-- binary.PutUvarint (as a byte list) -/
def putUvarintAux : Nat → Nat → Bytes
  | 0, _ => []
  | fuel + 1, x => if x < 128 then [x] else (x % 128 + 128) :: putUvarintAux fuel (x / 128)

/-- 10 groups of 7 bits are enough for every uint64 -/
def putUvarint (x : Nat) : Bytes := putUvarintAux 10 x

/-- zig-zag: uint64(x) << 1, complemented when x < 0 -/
def zigzag (x : Int) : Nat := if x < 0 then (-2 * x - 1).toNat else (2 * x).toNat

def unzigzag (ux : Nat) : Int := if ux % 2 = 1 then -((ux / 2 : Nat) : Int) - 1 else ((ux / 2 : Nat) : Int)

/-- buffer length used by LastAccessTime.Serialize: binary.MaxVarintLen64 (after the fix; it was 8) -/
def latBufLen : Nat := 10

inductive SerResult where
  | panic                      -- index out of range in PutVarint
  | ok (b : Bytes)
  deriving DecidableEq, Repr

/-- LastAccessTime.Serialize for `unix` seconds with a buffer of `buf` bytes -/
def latSerializeBuf (buf : Nat) (unix : Int) : SerResult :=
  let v := putUvarint (zigzag unix)
  if v.length > buf then .panic else .ok (v ++ List.replicate (buf - v.length) 0)

def latSerialize (unix : Int) : SerResult := latSerializeBuf latBufLen unix

/-- binary.Uvarint: value and number of bytes read; `n = 0` buffer too small, `n < 0` overflow
(encoded here as `none`/`some`) -/
inductive UvarintResult where
  | short                      -- (0, 0)
  | overflow                   -- (0, -(i+1))
  | ok (x : Nat) (n : Nat)
  deriving DecidableEq, Repr

def uvarintAux : Bytes → Nat → Nat → Nat → UvarintResult
  | [], _, _, _ => .short
  | b :: bs, i, x, s =>
    if i = 10 then .overflow
    else if b < 128 then
      (if i = 9 ∧ b > 1 then .overflow else .ok (x + b * 2 ^ s) (i + 1))
    else uvarintAux bs (i + 1) (x + (b % 128) * 2 ^ s) (s + 7)

def uvarint (b : Bytes) : UvarintResult := uvarintAux b 0 0 0

/-- LastAccessTime.Deserialize: `none` = error -/
def latDeserialize (b : Bytes) : Option Int :=
  match uvarint b with
  | .ok ux _ => some (unzigzag ux)
  | _ => none

/-! ### Persist -/

def formatBool (v : Bool) : List Char := if v then ['t','r','u','e'] else ['f','a','l','s','e']

/-- strconv.ParseBool -/
def parseBool (s : List Char) : Option Bool :=
  if s = ['1'] ∨ s = ['t'] ∨ s = ['T'] ∨ s = ['T','R','U','E'] ∨ s = ['t','r','u','e'] ∨ s = ['T','r','u','e'] then some true
  else if s = ['0'] ∨ s = ['f'] ∨ s = ['F'] ∨ s = ['F','A','L','S','E'] ∨ s = ['f','a','l','s','e'] ∨ s = ['F','a','l','s','e'] then some false
  else none

/-! ### piece status -/

inductive Status where
  | empty | complete | dirty
  deriving DecidableEq, Repr

def Status.toByte : Status → Nat
  | .empty => 0 | .complete => 1 | .dirty => 2

/-- pieceStatusMetadata.Serialize -/
def statusSerialize (ps : List Status) : Bytes := ps.map Status.toByte

/-- pieceStatusMetadata.Deserialize: anything but empty/complete is logged and read as empty -/
def statusOfByte (b : Nat) : Status := if b = 1 then .complete else .empty

def statusDeserialize (b : Bytes) : List Status := b.map statusOfByte

/-! ### bitset binary form (github.com/willf/bitset, big endian) -/

def be64 (n : Nat) : Bytes :=
  [n / 2^56 % 256, n / 2^48 % 256, n / 2^40 % 256, n / 2^32 % 256, n / 2^24 % 256, n / 2^16 % 256, n / 2^8 % 256, n % 256]

def fromBE : Bytes → Nat → Nat
  | [], acc => acc
  | b :: bs, acc => fromBE bs (acc * 256 + b)

structure BitSet where
  length : Nat
  words : List Nat
  deriving DecidableEq, Repr

def wordsNeeded (length : Nat) : Nat := (length + 63) / 64

def BitSet.wf (b : BitSet) : Bool :=
  decide (b.length < 2^64) && decide (b.words.length = wordsNeeded b.length) && b.words.all (fun w => decide (w < 2^64))

/-- BitSet.MarshalBinary -/
def bitsetMarshal (b : BitSet) : Bytes := be64 b.length ++ b.words.flatMap be64

/-- read `n` big-endian words -/
def readWords : Nat → Bytes → Option (List Nat)
  | 0, _ => some []
  | n + 1, bs =>
    if bs.length < 8 then none
    else (readWords n (bs.drop 8)).map fun ws => fromBE (bs.take 8) 0 :: ws

/-- BitSet.UnmarshalBinary: `none` = error (short input); trailing bytes are ignored -/
def bitsetUnmarshal (data : Bytes) : Option BitSet :=
  if data.length < 8 then none
  else
    let length := fromBE (data.take 8) 0
    -- lengths New() cannot allocate end in "type mismatch"; they also exceed any input, so `readWords` fails
    (readWords (wordsNeeded length) (data.drop 8)).map fun ws => { length := length, words := ws }

/-! ### handshake ↔ bitfield message -/

structure Handshake where
  peerID : Bytes
  digest : Digest
  infoHash : Bytes
  bitfield : BitSet
  remote : List (Bytes × BitSet)     -- RemoteBitfields (a map; entries in any fixed order)
  ns : List Char
  deriving DecidableEq, Repr

structure BitfieldMsg where
  peerID : List Char
  name : List Char
  infoHash : List Char
  bitfieldBytes : Bytes
  remoteBytes : List (List Char × Bytes)
  ns : List Char
  deriving DecidableEq, Repr

/-- handshake.toP2PMessage -/
def toMsg (h : Handshake) : BitfieldMsg :=
  { peerID := hexEncode h.peerID, name := h.digest.hex, infoHash := hexEncode h.infoHash,
    bitfieldBytes := bitsetMarshal h.bitfield,
    remoteBytes := h.remote.map fun (p, b) => (hexEncode p, bitsetMarshal b), ns := h.ns }

inductive HsErr where
  | peerID | infoHash | name | bitfield | remotePeer | remoteBitfield
  deriving DecidableEq, Repr

def remoteFromMsg : List (List Char × Bytes) → Except HsErr (List (Bytes × BitSet))
  | [] => .ok []
  | (p, b) :: rest =>
    match newPeerID p with
    | .error _ => .error .remotePeer
    | .ok pid =>
      match bitsetUnmarshal b with
      | none => .error .remoteBitfield
      | some bs =>
        match remoteFromMsg rest with
        | .error e => .error e
        | .ok r => .ok ((pid, bs) :: r)

/-- handshakeFromP2PMessage (for a BITFIELD message with a body) -/
def fromMsg (m : BitfieldMsg) : Except HsErr Handshake :=
  match newPeerID m.peerID with
  | .error _ => .error .peerID
  | .ok pid =>
    match newInfoHashFromHex m.infoHash with
    | .error _ => .error .infoHash
    | .ok ih =>
      match newSHA256DigestFromHex m.name with
      | .error _ => .error .name
      | .ok d =>
        match bitsetUnmarshal m.bitfieldBytes with
        | none => .error .bitfield
        | some bf =>
          match remoteFromMsg m.remoteBytes with
          | .error e => .error e
          | .ok r => .ok { peerID := pid, digest := d, infoHash := ih, bitfield := bf, remote := r, ns := m.ns }

end KrakenModel.IdCodec
