/-
  Model for C12 (core Lean only): an operating-system file (POSIX read/write/pread/pwrite/lseek on
  one file through several independent descriptors) and the two in-memory blob buffers,
  lib/store/base.BufferReadWriter (over aws.WriteAtBuffer) and lib/store/memory.File.

  All three machines run on the same state type so that "behaves like an ordinary file" is equality of
  step functions on the property's domain.  Each step function mirrors the structure of its code
  (growth rule `expLen = pos + len(p)` of WriteAtBuffer.WriteAt, `resizeSliceIfNecessary` + `copy` of
  memory.File, the seek range check of memory.File).  Both buffers are modelled AS REPAIRED
  (zero-length writes return before touching the buffer); `awsWriteAtOld` / `memWriteAtOld` are the
  growth rules before the fix.  Capacity is not modelled: bytes between len and cap are always zero
  (buffers are created with `make` and never shrink), so reslicing within capacity = zero padding.
-/
namespace KrakenModel.FileModel

abbrev Bytes := List Nat

structure State where
  content : Option Bytes := some []   -- `none` = memory.File after eviction (`*data == nil`)
  offs : List Nat := [0]              -- one offset per descriptor / handle
  deriving DecidableEq, Repr

inductive Whence where
  | start | current | end_ | bad
  deriving DecidableEq, Repr

inductive Op where
  | write (h : Nat) (p : Bytes)
  | writeAt (h : Nat) (p : Bytes) (off : Int)
  | read (h : Nat) (n : Nat)
  | readAt (h : Nat) (n : Nat) (off : Int)
  | seek (h : Nat) (w : Whence) (delta : Int)
  | size
  | evict                               -- memory store evicts the blob (memory.File only)
  deriving DecidableEq, Repr

/-- what the caller sees: counts, bytes, offsets, sizes — error KINDS are not part of the property -/
inductive Obs where
  | count (n : Nat)
  | data (b : Bytes)
  | off (n : Nat)
  | size (n : Int)
  | err                                 -- negative offset / position, invalid whence, seek out of range
  | evicted
  | badHandle
  deriving DecidableEq, Repr

def zeros (n : Nat) : Bytes := List.replicate n 0

def setOff (offs : List Nat) (h : Nat) (v : Nat) : List Nat := offs.set h v

/-! ### operating-system file -/

/-- pwrite(2): a zero-length write changes nothing; otherwise the gap up to `off` is zero-filled -/
def pwrite (c : Bytes) (off : Nat) (p : Bytes) : Bytes :=
  if p.isEmpty then c
  else (c ++ zeros (off - c.length)).take off ++ p ++ c.drop (off + p.length)

/-- pread(2) of up to `n` bytes -/
def pread (c : Bytes) (off n : Nat) : Bytes := (c.drop off).take n

def seekTarget (c : Bytes) (cur : Nat) (w : Whence) (delta : Int) : Option Int :=
  match w with
  | .start => some delta
  | .current => some ((cur : Int) + delta)
  | .end_ => some ((c.length : Int) + delta)
  | .bad => none

def osStep (s : State) (op : Op) : State × Obs :=
  match s.content with
  | none => (s, .evicted)       -- not reachable for an OS file (no `evict`), kept total
  | some c =>
    match op with
    | .write h p =>
      match s.offs[h]? with
      | none => (s, .badHandle)
      | some o => ({ content := some (pwrite c o p), offs := setOff s.offs h (o + p.length) }, .count p.length)
    | .writeAt h p off =>
      match s.offs[h]? with
      | none => (s, .badHandle)
      | some _ => if off < 0 then (s, .err) else ({ s with content := some (pwrite c off.toNat p) }, .count p.length)
    | .read h n =>
      match s.offs[h]? with
      | none => (s, .badHandle)
      | some o => let b := pread c o n; ({ s with offs := setOff s.offs h (o + b.length) }, .data b)
    | .readAt h n off =>
      match s.offs[h]? with
      | none => (s, .badHandle)
      | some _ => if off < 0 then (s, .err) else (s, .data (pread c off.toNat n))
    | .seek h w d =>
      match s.offs[h]? with
      | none => (s, .badHandle)
      | some o =>
        match seekTarget c o w d with
        | none => (s, .err)
        | some t => if t < 0 then (s, .err) else ({ s with offs := setOff s.offs h t.toNat }, .off t.toNat)
    | .size => (s, .size c.length)
    | .evict => (s, .err)

/-! ### aws.WriteAtBuffer / BufferReadWriter -/

/-- `copy(buf[pos:], p)` on a buffer that is long enough -/
def overwrite (buf : Bytes) (pos : Nat) (p : Bytes) : Bytes :=
  buf.take pos ++ p ++ buf.drop (pos + p.length)

/-- WriteAtBuffer.WriteAt as shipped: grows to `expLen = pos + len(p)` even when `p` is empty -/
def awsWriteAtOld (buf : Bytes) (pos : Nat) (p : Bytes) : Bytes :=
  let expLen := pos + p.length
  let buf' := if buf.length < expLen then buf ++ zeros (expLen - buf.length) else buf
  overwrite buf' pos p

/-- BufferReadWriter.WriteAt / Write after the fix: a zero-length write returns before the buffer is touched -/
def bufWriteAt (buf : Bytes) (pos : Nat) (p : Bytes) : Bytes :=
  if p.isEmpty then buf else awsWriteAtOld buf pos p

def bufStep (s : State) (op : Op) : State × Obs :=
  match s.content with
  | none => (s, .evicted)
  | some buf =>
    match op with
    | .write h p =>
      match s.offs[h]? with
      | none => (s, .badHandle)
      | some o => ({ content := some (bufWriteAt buf o p), offs := setOff s.offs h (o + p.length) }, .count p.length)
    | .writeAt h p off =>
      match s.offs[h]? with
      | none => (s, .badHandle)
      | some _ => if off < 0 then (s, .err) else ({ s with content := some (bufWriteAt buf off.toNat p) }, .count p.length)
    | .read h n =>
      match s.offs[h]? with
      | none => (s, .badHandle)
      | some o =>
        if o ≥ buf.length then (s, .data [])                       -- `return 0, io.EOF`
        else let b := (buf.drop o).take n; ({ s with offs := setOff s.offs h (o + b.length) }, .data b)
    | .readAt h n off =>
      match s.offs[h]? with
      | none => (s, .badHandle)
      | some _ =>
        if off < 0 then (s, .err)
        else if off.toNat ≥ buf.length then (s, .data [])
        else (s, .data ((buf.drop off.toNat).take n))
    | .seek h w d =>
      match s.offs[h]? with
      | none => (s, .badHandle)
      | some o =>
        match seekTarget buf o w d with
        | none => (s, .err)
        | some t => if t < 0 then (s, .err) else ({ s with offs := setOff s.offs h t.toNat }, .off t.toNat)
    | .size => (s, .size buf.length)
    | .evict => (s, .err)

/-! ### memory.File -/

/-- `resizeSliceIfNecessary(buf, end)` -/
def resize (buf : Bytes) (end_ : Nat) : Bytes :=
  if buf.length < end_ then buf ++ zeros (end_ - buf.length) else buf

def memWriteAtOld (buf : Bytes) (off : Nat) (p : Bytes) : Bytes :=
  overwrite (resize buf (off + p.length)) off p

/-- after the fix: `if len(p) == 0 { return 0, nil }` (after the eviction check) -/
def memWriteAt (buf : Bytes) (off : Nat) (p : Bytes) : Bytes :=
  if p.isEmpty then buf else memWriteAtOld buf off p

def memStep (s : State) (op : Op) : State × Obs :=
  match op with
  | .evict => ({ s with content := none }, .count 0)
  | .size => (s, match s.content with | none => .size (-1) | some b => .size b.length)
  | .write h p =>
    match s.offs[h]? with
    | none => (s, .badHandle)
    | some o =>
      match s.content with
      | none => (s, .evicted)
      | some buf => ({ content := some (memWriteAt buf o p), offs := setOff s.offs h (o + p.length) }, .count p.length)
  | .writeAt h p off =>
    match s.offs[h]? with
    | none => (s, .badHandle)
    | some _ =>
      if off < 0 then (s, .err) else
      match s.content with
      | none => (s, .evicted)
      | some buf => ({ s with content := some (memWriteAt buf off.toNat p) }, .count p.length)
  | .read h n =>
    match s.offs[h]? with
    | none => (s, .badHandle)
    | some o =>
      if n = 0 then (s, .data []) else          -- `if len(p) == 0 { return 0, nil }` precedes the eviction check
      match s.content with
      | none => (s, .evicted)
      | some buf =>
        if o ≥ buf.length then (s, .data [])
        else let b := (buf.drop o).take n; ({ s with offs := setOff s.offs h (o + b.length) }, .data b)
  | .readAt h n off =>
    match s.offs[h]? with
    | none => (s, .badHandle)
    | some _ =>
      if n = 0 then (s, .data []) else
      if off < 0 then (s, .err) else
      match s.content with
      | none => (s, .evicted)
      | some buf =>
        if off.toNat ≥ buf.length then (s, .data []) else (s, .data ((buf.drop off.toNat).take n))
  | .seek h w d =>
    match s.offs[h]? with
    | none => (s, .badHandle)
    | some o =>
      match s.content with
      | none => (s, .evicted)
      | some buf =>
        match seekTarget buf o w d with
        | none => (s, .err)
        | some t =>
          if t < 0 ∨ t > buf.length then (s, .err)       -- "invalid seek location"
          else ({ s with offs := setOff s.offs h t.toNat }, .off t.toNat)

/-! ### runs -/

def run (step : State → Op → State × Obs) : State → List Op → State × List Obs
  | s, [] => (s, [])
  | s, op :: rest =>
    let (s', o) := step s op
    let (s'', os) := run step s' rest
    (s'', o :: os)

end KrakenModel.FileModel
