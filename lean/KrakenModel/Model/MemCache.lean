import KrakenModel.Util.KV
/-
  Model of utils/cache.BlobMemoryCache (C13, used by C01's CAStore model).

  `total` is the `totalSize uint64` field (`maxSize < 2^64`; the only addition happens after the
  overflow-safe admission check, so it cannot wrap).  `entries` is the `entries`
  map as an association list (newest binding first).  The order of a Go map range is not modelled:
  `expired` returns the names in list order and `removeBatch` is order independent because
  `decrementTotalSize` is truncated subtraction.
-/
namespace KrakenModel.MemCache
open KrakenModel

abbrev Bytes := List Nat
abbrev Name := String

/-- `core.MetaInfo` as far as the stores are concerned (the `info` struct) -/
structure MetaInfo where
  name : Name
  length : Nat
  pieceLength : Int
  sums : List Nat
  deriving Repr, DecidableEq

/-- `cache.MemoryEntry` (the `Name` field is the key of the binding) -/
structure Entry where
  data : Bytes
  mi : MetaInfo
  createdAt : Nat
  deriving Repr, DecidableEq

def Entry.size (e : Entry) : Nat := e.data.length

def two64 : Nat := 18446744073709551616

structure State where
  maxSize : Nat
  entries : List (Name × Entry) := []
  total : Nat := 0
  deriving Repr, DecidableEq

def init (maxSize : Nat) : State := { maxSize := maxSize }

def get (s : State) (n : Name) : Option Entry := KV.get s.entries n

/-- `TryReserve`: `if size > MaxSize || totalSize > MaxSize-size { return false }; totalSize += size`.
The comparison does not add, so nothing wraps; on success `totalSize + size ≤ MaxSize < 2^64`. -/
def tryReserve (s : State) (size : Nat) : State × Bool :=
  if size > s.maxSize ∨ s.total > s.maxSize - size then (s, false)
  else ({ s with total := s.total + size }, true)

/-- `ReleaseReservation`: refuses (logs) when `size > totalSize` -/
def release (s : State) (size : Nat) : State :=
  if size > s.total then s else { s with total := s.total - size }

/-- `Add`: false when the name is already present; `totalSize` is not touched -/
def add (s : State) (n : Name) (e : Entry) : State × Bool :=
  if (KV.get s.entries n).isSome then (s, false)
  else ({ s with entries := (n, e) :: s.entries }, true)

/-- `decrementTotalSize`: clamps at 0 = truncated subtraction -/
def decrement (total size : Nat) : Nat := if size > total then 0 else total - size

/-- `Remove` -/
def remove (s : State) (n : Name) : State :=
  match KV.get s.entries n with
  | none => s
  | some e => { s with entries := KV.del s.entries n, total := decrement s.total e.size }

/-- `RemoveBatch` -/
def removeBatch (s : State) (names : List Name) : State := names.foldl remove s

/-- `GetExpiredEntries(now, ttl)`: `now.Sub(entry.CreatedAt) > ttl` (strict); times are `Nat`
nanoseconds of a monotone clock, so the difference is truncated subtraction. -/
def expired (s : State) (now ttl : Nat) : List Name :=
  (s.entries.filter (fun p => now - p.2.createdAt > ttl)).map (·.1)

def numEntries (s : State) : Nat := s.entries.length

def names (s : State) : List Name := s.entries.map (·.1)

/-- sum of the stored entries' sizes (`len(Data)`) -/
def stored (s : State) : Nat := (s.entries.map (fun p => p.2.size)).sum

end KrakenModel.MemCache
