import KrakenModel.Model.MetaInfo
/-
  Piece length of the metainfo that ends up stored for a blob refreshed from a storage backend
  (C02, last clause, at the call site lib/blobrefresh/refresher.go `Refresh`/`download` +
  lib/store/ca_store.go `WriteBlobToCacheWithMetaInfo`).

  `stat` is the size the backend's Stat reported (the refresher picks a piece length for it before the
  download), `len` the number of bytes the backend then streamed (and that hash to the digest).
  The store writes metainfo with the pre-selected piece length only when the two agree (memory path:
  other lengths are rejected; disk path: metainfo is left to the caller); otherwise the refresher
  generates the metainfo from the stored blob (`Generator.Generate`, table entry for its real size).
-/
namespace KrakenModel.RefreshPL
open KrakenModel.MetaInfo

/-- what `WriteBlobToCacheWithMetaInfo` stores as piece length, if it stores metainfo at all -/
def storePL (t : List Range) (stat len : Nat) : Option GetResult :=
  if stat = len then some (get t stat) else none

/-- the piece length of the metainfo served for the blob once `Refresher.download` has returned -/
def refreshPL (t : List Range) (stat len : Nat) : GetResult :=
  match storePL t stat len with
  | some r => r
  | none => get t len

/-- the behaviour before the repair: the piece length chosen for the Stat size is kept -/
def refreshPLOld (t : List Range) (stat _len : Nat) : GetResult := get t stat

end KrakenModel.RefreshPL
