/-
  Model of lib/hrw.RendezvousHash (C22; C21 builds on `ordered`).

  The score of a node for a key (`RendezvousHashNode.Score`: murmur3/sha256, the uint→float
  conversion, `-weight / log`) is NOT modelled: it is an uninterpreted function
  `score : κ → ν → S` into a linear order `S`.  The correspondence driver instantiates it with the
  values the Go code computed (float64 scores sent as order-preserving integers).

  Go's `sort.Sort(sort.Reverse(...))` is NOT modelled either.  `ordered` is a reference
  descending sort (insertion sort); Spec/C22 proves that *any* descending-sorted permutation of the
  nodes equals `ordered` when the scores are pairwise distinct, so the driver only has to validate
  that the implementation's output is a sorted permutation (`admissible`).
-/
namespace KrakenModel.Rendezvous

section Generic
variable {ν : Type} {S : Type} [LE S] [DecidableLE S]

/-- descending by score, non-strict (what `sort.Reverse` of `Less := score i < score j` guarantees) -/
def SortedDesc (sc : ν → S) (l : List ν) : Prop := l.Pairwise (fun a b => sc b ≤ sc a)

instance (sc : ν → S) (l : List ν) : Decidable (SortedDesc sc l) := by
  unfold SortedDesc; exact inferInstance

/-- scores are pairwise distinct on the members of `l` -/
def InjOn (sc : ν → S) (l : List ν) : Prop := ∀ a ∈ l, ∀ b ∈ l, sc a = sc b → a = b

/-- insert `a` into a descending list, in front of the first element whose score is `≤ sc a` -/
def insertDesc (sc : ν → S) (a : ν) : List ν → List ν
  | [] => [a]
  | b :: t => if sc b ≤ sc a then a :: b :: t else b :: insertDesc sc a t

/-- reference descending sort -/
def ordered (sc : ν → S) (l : List ν) : List ν := l.foldr (insertDesc sc) []

end Generic

/-! ### The `RendezvousHash` object: `Nodes` slice, AddNode / RemoveNode / GetOrderedNodes -/

structure Node where
  label : String
  weight : Int
  deriving DecidableEq, Repr

structure State where
  nodes : List Node := []      -- `rh.Nodes`, in insertion order
  deriving DecidableEq, Repr

inductive Op where
  | add (label : String) (weight : Int)
  | remove (label : String)
  deriving DecidableEq, Repr

def init : State := {}

/-- `AddNode`: appends, no duplicate check -/
def addNode (s : State) (label : String) (weight : Int) : State :=
  { nodes := s.nodes ++ [⟨label, weight⟩] }

/-- `RemoveNode`: removes the first node with that label (loop with `break`) -/
def removeNode (s : State) (label : String) : State :=
  { nodes := s.nodes.eraseP (fun n => n.label == label) }

def step (s : State) : Op → State
  | .add l w => addNode s l w
  | .remove l => removeNode s l

inductive Out where
  | ok (nodes : List Node)
  | panic                       -- `nodes[:n]` with negative `n`
  deriving DecidableEq, Repr

/-- `GetOrderedNodes(key, n)`: copy, sort descending by score, `if n >= len { all } else nodes[:n]` -/
def getOrderedNodes {κ S : Type} [LE S] [DecidableLE S] (score : κ → Node → S)
    (s : State) (key : κ) (n : Int) : Out :=
  let sorted := ordered (score key) s.nodes
  if n ≥ (sorted.length : Int) then .ok sorted
  else if n < 0 then .panic
  else .ok (sorted.take n.toNat)

/-! ### What the driver checks on an implementation output (no sort algorithm modelled) -/

/-- `out` is `take n` of some descending-sorted permutation of `nodes`:
    it is sorted, has the right length, is a sub-multiset of `nodes`, and everything left out
    scores no higher than everything taken. -/
def admissible {ν S : Type} [DecidableEq ν] [LE S] [DecidableLE S] (sc : ν → S)
    (nodes : List ν) (n : Nat) (out : List ν) : Bool :=
  decide (SortedDesc sc out) &&
  out.length == min n nodes.length &&
  (out.all fun a => out.count a ≤ nodes.count a) &&
  (let rest := out.foldl (fun acc a => acc.erase a) nodes
   rest.all fun r => out.all fun a => decide (sc r ≤ sc a))

/-- some two positions of `l` carry the same score -/
def hasTie {ν S : Type} [DecidableEq S] (sc : ν → S) : List ν → Bool
  | [] => false
  | a :: t => t.any (fun b => sc a == sc b) || hasTie sc t

end KrakenModel.Rendezvous
