import KrakenModel.Util.FS
/-
  Model of lib/store/disk (store.go, crash_recovery.go, pather.go) for C06: the in-memory state of
  `store`, the file-system calls of every operation (its *plan*), and the constructor's recovery
  scan (`existsPersistedStore` / `rebootPersistedStore` / `rebootBlob` / `rebootIncompleteBlobSize`).

  Layout (pather.go):  <root>/{incomplete,complete}/<shard>…/<key>/{data,_size,_eviction_banned,<md>,<md>-tmp}

  Sizes are natural numbers (the uint64 wrap-around of `size+space` is C07's subject); keys are
  strings of at least 2·shardLength characters (shorter keys are placed above the blob depth and
  are not found by `rebootKeys`: outside the pather's contract, hypothesis `ValidKey`).
-/
namespace KrakenModel.DiskCrash
open KrakenModel.FS

abbrev Key := String

/-- a metadata type: its suffix (rendered `_vm<id>` / `_vi<id>` by the harness) and `Movable()` -/
structure MdId where
  id : Nat
  movable : Bool
  deriving DecidableEq, Repr

/-- the files of a blob directory -/
inductive Name where
  | data                -- the blob
  | size                -- `_size`: reserved size of an incomplete blob
  | ban                 -- `_eviction_banned`
  | md (m : MdId)       -- a metadata sidecar
  | tmp (m : MdId)      -- `<md>-tmp`, the staging file of SetMetadata
  deriving DecidableEq, Repr

structure Cfg where
  reboot : Bool        -- RebootIncompleteBlobs
  shardLength : Nat
  capacity : Nat
  deriving Repr

def subName (complete : Bool) : String := if complete then "complete" else "incomplete"

/-- pather.dirPath's shard components: `key[2i:2i+2]` for `i < min shardLength (len key / 2)` -/
def shards (cfg : Cfg) (key : Key) : List String :=
  (List.range (min cfg.shardLength (key.length / 2))).map
    (fun i => String.ofList ((key.toList.drop (2 * i)).take 2))

def dirPath (cfg : Cfg) (complete : Bool) (key : Key) : Path :=
  subName complete :: (shards cfg key ++ [key])

def ValidKey (cfg : Cfg) (key : Key) : Prop := 2 * cfg.shardLength ≤ key.length

instance (cfg : Cfg) (key : Key) : Decidable (ValidKey cfg key) := by unfold ValidKey; exact inferInstance

/-- `store.validKey`: the key names a directory of its own below the shard directories. Keys that do not
(empty, ".", "..", with a separator, with a ".." shard component) are refused by `Create`; the model's
paths treat components as opaque names, so the hazard itself (such a key's directory IS another
directory) is not expressible here: the refusal keeps those keys out of the store. -/
def cleanKey (cfg : Cfg) (key : Key) : Bool :=
  key ≠ "" && key ≠ "." && key ≠ ".." && !key.toList.contains '/' && (shards cfg key).all (· ≠ "..")

/-! ### in-memory state -/

structure Blob where
  size : Nat
  complete : Bool
  banned : Bool
  deriving DecidableEq, Repr

structure Mem where
  blobs : List (Key × Blob) := []
  queue : List Key := []          -- evictQueue, front first
  size : Nat := 0
  deriving Repr

inductive Res where
  | ok | notExist | exist | noSpace | mdMissing | ioExist | ioNotExist | panic | invalidKey
  deriving DecidableEq, Repr

structure Out where
  mem : Mem
  calls : List (Call Name)
  res : Res

/-- decimal digits of `n`, least significant first (`fuel` > number of digits) -/
def digitsRev : Nat → Nat → List Nat
  | 0, _ => []
  | fuel + 1, n => (48 + n % 10) :: (if n / 10 = 0 then [] else digitsRev fuel (n / 10))

/-- decimal digits -/
def encodeDec (n : Nat) : Bytes := (digitsRev (n + 1) n).reverse

/-- `strconv.Itoa(int(sizeBytes))`: a size of 2^63 or more is a negative `int` (and reads back, through
`uint64(Atoi …)`, as itself) -/
def encodeNat (n : Nat) : Bytes := if n < 2 ^ 63 then encodeDec n else 45 :: encodeDec (2 ^ 64 - n)

def digitVal? (b : Nat) : Option Nat := if 48 ≤ b ∧ b ≤ 57 then some (b - 48) else none

def digitsVal : List Nat → Nat → Option Nat
  | [], acc => some acc
  | b :: t, acc => match digitVal? b with
    | some d => digitsVal t (acc * 10 + d)
    | none => none

/-- `uint64(strconv.Atoi(s))`: optional sign, decimal digits, int64 range; a negative value wraps -/
def parseSize (s : Bytes) : Option Nat :=
  match s with
  | [] => none
  | c :: t =>
    if c = 43 then (if t = [] then none else (digitsVal t 0).bind (fun v => if v < 2 ^ 63 then some v else none))
    else if c = 45 then (if t = [] then none else
      (digitsVal t 0).bind (fun v => if v ≤ 2 ^ 63 then some (if v = 0 then 0 else 2 ^ 64 - v) else none))
    else (digitsVal (c :: t) 0).bind (fun v => if v < 2 ^ 63 then some v else none)

/-! ### operations -/

inductive Op where
  | create (k : Key) (size : Nat)
  | write (k : Key) (off : Nat) (b : Bytes)          -- Open, WriteAt, Close
  | markComplete (k : Key)
  | delete (k : Key)
  | ban (k : Key)
  | unban (k : Key)
  | setMd (k : Key) (m : MdId) (b : Bytes)
  | delMd (k : Key) (m : MdId)
  | writeAtMd (k : Key) (m : MdId) (off : Nat) (b : Bytes)
  deriving DecidableEq, Repr

def Op.key : Op → Key
  | .create k _ | .write k _ _ | .markComplete k | .delete k | .ban k | .unban k
  | .setMd k _ _ | .delMd k _ | .writeAtMd k _ _ _ => k

structure EvictOut where
  mem : Mem
  fs : FS Name
  calls : List (Call Name)
  res : Res

/-- `ensureFreeSpace`: evict from the front of the queue until `size + space ≤ capacity`.
`deleteFromDisk` runs before the in-memory bookkeeping. -/
def evictLoop (cfg : Cfg) (o : Order Name) (space : Nat) :
    List Key → List (Key × Blob) → Nat → FS Name → List (Call Name) → EvictOut
  | [], blobs, size, fs, cs =>
      ⟨⟨blobs, [], size⟩, fs, cs, if size + space ≤ cfg.capacity then .ok else .noSpace⟩
  | k :: q, blobs, size, fs, cs =>
      if size + space ≤ cfg.capacity then ⟨⟨blobs, k :: q, size⟩, fs, cs, .ok⟩
      else
        let rm := removeAllPlan fs o (dirPath cfg true k)
        match aget blobs k with
        | none => ⟨⟨blobs, q, size⟩, applyAll fs rm, cs ++ rm, .panic⟩
        | some b => evictLoop cfg o space q (adel blobs k) (size - b.size) (applyAll fs rm) (cs ++ rm)

/-- immovable metadata files of a directory, in `os.ReadDir` (name) order -/
def immovables (d : DirEnt Name) : List MdId :=
  let ms := (akeys d).filterMap (fun n => match n with
    | .md m => if m.movable then none else some m
    | _ => none)
  isort (fun a b => a.id ≤ b.id) ms

def create (cfg : Cfg) (o : Order Name) (m : Mem) (fs : FS Name) (k : Key) (sz : Nat) : Out :=
  match aget m.blobs k with
  | some _ => ⟨m, [], .exist⟩
  | none =>
    let ev := evictLoop cfg o sz m.queue m.blobs m.size fs []
    match ev.res with
    | .ok =>
      let dir := dirPath cfg false k
      let mk := mkdirAllPlan ev.fs dir
      let fs1 := applyAll ev.fs mk
      if (fs1.file? dir .data).isSome then
        -- open(O_CREAT|O_EXCL) fails: the space is released again
        ⟨ev.mem, ev.calls ++ mk, .ioExist⟩
      else
        let c2 : List (Call Name) :=
          if cfg.reboot then
            (if (fs1.file? dir .size).isSome then []   -- persistBlobSize fails (O_EXCL): logged, fail-open
             else [Call.creat dir .size, Call.pwrite dir .size 0 (encodeNat sz)])
          else []
        ⟨{ blobs := aset ev.mem.blobs k ⟨sz, false, false⟩, queue := ev.mem.queue, size := ev.mem.size + sz },
         ev.calls ++ mk ++ [Call.creat dir .data] ++ c2, .ok⟩
    | r => ⟨ev.mem, ev.calls, r⟩

/-- `Open` + `WriteAt` + `Close` -/
def write (cfg : Cfg) (m : Mem) (fs : FS Name) (k : Key) (off : Nat) (b : Bytes) : Out :=
  match aget m.blobs k with
  | none => ⟨m, [], .notExist⟩
  | some bl =>
    -- Open moves the blob to the back of the eviction queue before it opens the file
    let m' := if k ∈ m.queue then { m with queue := m.queue.filter (· ≠ k) ++ [k] } else m
    let dir := dirPath cfg bl.complete k
    if (fs.file? dir .data).isNone then ⟨m', [], .ioNotExist⟩
    else ⟨m', if b = [] then [] else [Call.pwrite dir .data off b], .ok⟩

def markComplete (cfg : Cfg) (m : Mem) (fs : FS Name) (k : Key) : Out :=
  match aget m.blobs k with
  | none => ⟨m, [], .notExist⟩
  | some b =>
    if b.complete then ⟨m, [], .ok⟩ else
    let src := dirPath cfg false k
    let dst := dirPath cfg true k
    let mk := mkdirAllPlan fs dst.dropLast
    let fs1 := applyAll fs mk
    let rn := Call.renameDir src dst
    if (fs1.dir? src).isNone then ⟨m, mk, .ioNotExist⟩
    -- os.Rename refuses an existing directory as the new name (even an empty one) before the syscall
    else if (fs1.dir? dst).isSome || !rn.ok fs1 then ⟨m, mk, .ioExist⟩
    else
      let fs2 := apply fs1 rn
      let imm := match fs2.dir? dst with
        | some d => immovables d
        | none => []
      ⟨{ m with blobs := aset m.blobs k { b with complete := true },
                queue := if b.banned then m.queue else m.queue ++ [k] },
       mk ++ [rn] ++ imm.map (fun md => Call.unlink dst (.md md)), .ok⟩

def delete (cfg : Cfg) (o : Order Name) (m : Mem) (fs : FS Name) (k : Key) : Out :=
  match aget m.blobs k with
  | none => ⟨m, [], .notExist⟩
  | some b =>
    ⟨{ blobs := adel m.blobs k, queue := m.queue.filter (· ≠ k), size := m.size - b.size },
     removeAllPlan fs o (dirPath cfg b.complete k), .ok⟩

def ban (cfg : Cfg) (m : Mem) (fs : FS Name) (k : Key) : Out :=
  match aget m.blobs k with
  | none => ⟨m, [], .notExist⟩
  | some b =>
    if b.banned then ⟨m, [], .ok⟩ else
    let dir := dirPath cfg b.complete k
    if (fs.dir? dir).isNone then ⟨m, [], .ioNotExist⟩
    else
      ⟨{ m with blobs := aset m.blobs k { b with banned := true },
                queue := if b.complete then m.queue.filter (· ≠ k) else m.queue },
       [Call.openCreat dir .ban], .ok⟩

def unban (cfg : Cfg) (m : Mem) (fs : FS Name) (k : Key) : Out :=
  match aget m.blobs k with
  | none => ⟨m, [], .notExist⟩
  | some b =>
    if !b.banned then ⟨m, [], .ok⟩ else
    let dir := dirPath cfg b.complete k
    if (fs.file? dir .ban).isNone then ⟨m, [], .ioNotExist⟩
    else
      ⟨{ m with blobs := aset m.blobs k { b with banned := false },
                queue := if b.complete then m.queue ++ [k] else m.queue },
       [Call.unlink dir .ban], .ok⟩

/-- SetMetadata: write `<md>-tmp`, then rename it over `<md>` -/
def setMd (cfg : Cfg) (m : Mem) (fs : FS Name) (k : Key) (md : MdId) (b : Bytes) : Out :=
  match aget m.blobs k with
  | none => ⟨m, [], .notExist⟩
  | some bl =>
    let dir := dirPath cfg bl.complete k
    if (fs.dir? dir).isNone then ⟨m, [], .ioNotExist⟩
    else
      ⟨m, [Call.openTrunc dir (.tmp md)] ++ (if b = [] then [] else [Call.pwrite dir (.tmp md) 0 b]) ++
          [Call.rename dir (.tmp md) dir (.md md)], .ok⟩

def delMd (cfg : Cfg) (m : Mem) (fs : FS Name) (k : Key) (md : MdId) : Out :=
  match aget m.blobs k with
  | none => ⟨m, [], .notExist⟩
  | some bl =>
    let dir := dirPath cfg bl.complete k
    ⟨m, if (fs.file? dir (.md md)).isSome then [Call.unlink dir (.md md)] else [], .ok⟩

def writeAtMd (cfg : Cfg) (m : Mem) (fs : FS Name) (k : Key) (md : MdId) (off : Nat) (b : Bytes) : Out :=
  match aget m.blobs k with
  | none => ⟨m, [], .notExist⟩
  | some bl =>
    let dir := dirPath cfg bl.complete k
    if (fs.file? dir (.md md)).isNone then ⟨m, [], .mdMissing⟩
    else ⟨m, if b = [] then [] else [Call.pwrite dir (.md md) off b], .ok⟩

/-- one public operation: new in-memory state, the file-system calls in order, the result -/
def exec (cfg : Cfg) (o : Order Name) (m : Mem) (fs : FS Name) : Op → Out
  | .create k sz => if cleanKey cfg k then create cfg o m fs k sz else ⟨m, [], .invalidKey⟩
  | .write k off b => write cfg m fs k off b
  | .markComplete k => markComplete cfg m fs k
  | .delete k => delete cfg o m fs k
  | .ban k => ban cfg m fs k
  | .unban k => unban cfg m fs k
  | .setMd k md b => setMd cfg m fs k md b
  | .delMd k md => delMd cfg m fs k md
  | .writeAtMd k md off b => writeAtMd cfg m fs k md off b

/-- the operation's syscall plan -/
def plan (cfg : Cfg) (o : Order Name) (m : Mem) (fs : FS Name) (op : Op) : List (Call Name) :=
  (exec cfg o m fs op).calls

/-! ### recovery: `disk.NewStore` on an existing directory -/

inductive RebootErr where
  | noSpace | panic
  deriving DecidableEq, Repr

structure RBlob where
  key : Key
  size : Nat
  banned : Bool
  complete : Bool
  deriving DecidableEq, Repr

def pathLt (a b : Path) : Bool := decide (a < b)

def sortPaths (ps : List Path) : List Path := isort (fun a b => !pathLt b a) ps

/-- pather.rebootKeys: the directories at blob depth below `complete/` resp. `incomplete/`, in
`filepath.WalkDir` (lexical) order; the key is the last path component -/
def rebootKeys (cfg : Cfg) (fs : FS Name) (complete : Bool) : List Key :=
  dedupe ((sortPaths (fs.paths.filter (fun p =>
      p.head? = some (subName complete) ∧ p.length = cfg.shardLength + 2))).map
    (fun p => p.getLast?.getD ""))

/-- rebootBlob / rebootIncompleteBlobSize: `none` = "could not reboot blob from disk" -/
def rebootBlob (cfg : Cfg) (fs : FS Name) (complete : Bool) (key : Key) : Option RBlob :=
  let dir := dirPath cfg complete key
  match fs.file? dir .data with
  | none => none                -- the directory is there but the blob is missing
  | some d =>
    let banned := (fs.file? dir .ban).isSome
    if complete then some ⟨key, d.length, banned, true⟩
    else match fs.file? dir .size with
      | none => none            -- no size sidecar: fail-open by evicting the blob
      | some s => match parseSize s with
        | none => none          -- unparsable (e.g. created but not yet written): like a missing one
        | some n => some ⟨key, n, banned, false⟩

/-- the blob directories the scan visits: complete ones first, each list in walk order -/
def rebootEntries (cfg : Cfg) (fs : FS Name) : List (Key × Bool) :=
  (rebootKeys cfg fs true).map (·, true) ++
  (if cfg.reboot then (rebootKeys cfg fs false).map (·, false) else [])

def rebootGood (cfg : Cfg) (fs : FS Name) (es : List (Key × Bool)) : List RBlob :=
  es.filterMap (fun e => rebootBlob cfg fs e.2 e.1)

/-- directories without a usable blob are removed (leftovers of a crash) -/
def rebootBadCalls (cfg : Cfg) (o : Order Name) (fs : FS Name) (es : List (Key × Bool)) : List (Call Name) :=
  (es.filter (fun e => (rebootBlob cfg fs e.2 e.1).isNone)).flatMap
    (fun e => removeAllPlan fs o (dirPath cfg e.2 e.1))

def insertBlobs (bs : List RBlob) (acc : List (Key × Blob)) : List (Key × Blob) :=
  bs.foldl (fun a b => aset a b.key ⟨b.size, b.complete, b.banned⟩) acc

structure RebootOut where
  calls : List (Call Name)
  res : Except RebootErr Mem

def persisted (fs : FS Name) : Bool := fs.isDir [subName true] || fs.isDir [subName false]

def RBlob.evictable (b : RBlob) : Bool := b.complete && !b.banned

/-- a path below `incomplete/` (or that directory itself) -/
def underInc (p : Path) : Bool := p.head? = some (subName false)

def rmCall : Call Name → Bool
  | .unlink p _ => underInc p
  | .rmdir p => underInc p
  | _ => false

/-- `os.RemoveAll(<root>/incomplete)` is a sequence of unlink/rmdir calls inside that tree whose
completion leaves nothing of it.  Which sequence (the depth-first walk in `readdir` order) is the
file system's choice: the transcript carries it, the driver checks it is admissible (and equal to
`removeTreePlan`), the theorems quantify over every admissible one. -/
def validRm (fs : FS Name) (rm : List (Call Name)) : Bool :=
  rm.all rmCall && (applyAll fs rm).paths.all (fun p => !underInc p)

/-- `newStore`: the calls the constructor issues on `fs` and the in-memory state it builds.
`mt` is the modification-time order of the blob files (the file system's, not the store's);
`rm` the call sequence of the initial `RemoveAll(incomplete)` (only when incomplete blobs are not
rebooted). -/
def rebootRun (cfg : Cfg) (o : Order Name) (mt : List Key) (rm : List (Call Name)) (fs : FS Name) : RebootOut :=
  if !persisted fs then ⟨[], .ok {}⟩ else
  let calls0 := if cfg.reboot then [] else rm
  let fs0 := applyAll fs calls0
  let es := rebootEntries cfg fs0
  let bs := rebootGood cfg fs0 es
  let calls1 := rebootBadCalls cfg o fs0 es
  let fs1 := applyAll fs0 calls1
  let evictable := bs.filter (·.evictable)
  let others := bs.filter (fun b => !b.evictable)
  let blobs := insertBlobs evictable (insertBlobs others [])
  let size := (bs.map (·.size)).sum
  let queue := orderBy mt (evictable.map (·.key))
  if size > cfg.capacity then
    let ev := evictLoop cfg o 0 queue blobs size fs1 []
    match ev.res with
    | .ok => ⟨calls0 ++ calls1 ++ ev.calls, .ok ev.mem⟩
    | .panic => ⟨calls0 ++ calls1 ++ ev.calls, .error .panic⟩
    | _ => ⟨calls0 ++ calls1 ++ ev.calls, .error .noSpace⟩
  else ⟨calls0 ++ calls1, .ok ⟨blobs, queue, size⟩⟩

/-- the depth-first removal the driver predicts for `RemoveAll(incomplete)` -/
def rmPredicted (cfg : Cfg) (o : Order Name) (fs : FS Name) : List (Call Name) :=
  removeTreePlan fs o sortPaths (cfg.shardLength + 3) [subName false]

/-! ### the system: a store process on a file system, with crashes -/

structure St where
  mem : Option Mem      -- `none`: the process is down
  fs : FS Name

inductive Act where
  /-- an operation runs to completion -/
  | op (o : Op) (ord : Order Name)
  /-- the process dies when `k` calls of the operation's plan have happened -/
  | crash (o : Op) (ord : Order Name) (k : Nat)
  /-- `disk.NewStore` runs to completion (after a crash, or as a clean restart) -/
  | reboot (ord : Order Name) (mt : List Key) (rm : List (Call Name))
  /-- the process dies when `k` calls of `disk.NewStore` have happened -/
  | rebootCrash (ord : Order Name) (mt : List Key) (rm : List (Call Name)) (k : Nat)

def init : St := ⟨some {}, {}⟩

def step (cfg : Cfg) (s : St) : Act → St
  | .op o ord =>
    match s.mem with
    | none => s
    | some m =>
      let r := exec cfg ord m s.fs o
      ⟨if r.res = .panic then none else some r.mem, applyAll s.fs r.calls⟩
  | .crash o ord k =>
    match s.mem with
    | none => s
    | some m => ⟨none, applyPrefix k (plan cfg ord m s.fs o) s.fs⟩
  | .reboot ord mt rm =>
    let r := rebootRun cfg ord mt rm s.fs
    ⟨r.res.toOption, applyAll s.fs r.calls⟩
  | .rebootCrash ord mt rm k =>
    ⟨none, applyPrefix k (rebootRun cfg ord mt rm s.fs).calls s.fs⟩

end KrakenModel.DiskCrash
