/-
  Model of tracker/peerstore.LocalStore (C27; reused by C26).

  The store is a map  info hash → *peerGroup  (`index` into a `heap` of group objects: a goroutine
  that looked a group up keeps its reference while the cleanup may delete the group from the map).
  A group holds `peerList` (`list`) and the key set of `peerMap` (`keys`); both index the same
  `peerEntry` objects, so an update through the map is an in-place update of the list element with
  that id.  Goroutine interleavings are modelled at the granularity of lock sections:

    UpdatePeer   = updA  (s.mu section of getOrInitLockedPeerGroup: look up / create the group)
                 ; updB  (g.mu section: `deleted` → retry from updA, else write the entry)
    GetPeers     = getA  (s.mu.RLock section) ; getB (g.mu.RLock section, `perm` = rand.Perm)
    cleanupExpiredPeerEntries = ceBegin (snapshot of the groups under s.mu.RLock)
                 ; per group, in any order:  ceScan (g.mu.RLock: collect indexes)  ; ceSweep (g.mu.Lock:
                   re-check and swap-remove, indexes in reverse)          ; ceEnd
    cleanupExpiredPeerGroups  = cgBegin (takes s.mu for the whole pass) ; per group cgCheck (g.mu.RLock)
                 ; cgDelete (g.mu.Lock, re-check, delete + mark deleted)  ; cgEnd
  A step that is not enabled (wrong program counter, or it needs s.mu while the group cleanup holds
  it) leaves the state unchanged, so every `List Act` is a schedule.  Both cleanups run on the one
  `cleanupTask` goroutine, hence never at the same time.

  `ceScan` takes the collected index list as a parameter: the real scan reads the clock once per
  entry, so the collected set is *some* set of indexes; the sweep re-checks every index and the
  theorems hold for every index list.  `scanExact` is what a scan at one instant collects.
  `last` is ghost state (the most recent announcement per torrent and peer, set at updB).
-/
namespace KrakenModel.PeerStore

abbrev Hash := Nat
abbrev Pid := Nat

/-- association lists: first binding wins, `(k,v) :: m` shadows, `adel` removes every binding -/
def alook {κ ν : Type} [DecidableEq κ] : List (κ × ν) → κ → Option ν
  | [], _ => none
  | (k', v) :: r, k => if k' = k then some v else alook r k

def adel {κ ν : Type} [DecidableEq κ] (m : List (κ × ν)) (k : κ) : List (κ × ν) :=
  m.filter (fun p => p.1 ≠ k)

structure Ann where
  ip : Nat
  port : Nat
  complete : Bool
  deriving Repr, DecidableEq

structure Entry where
  id : Pid
  ann : Ann
  exp : Nat          -- expiresAt
  deriving Repr, DecidableEq

/-- `core.PeerInfo` as handed out -/
structure Info where
  id : Pid
  ip : Nat
  port : Nat
  origin : Bool
  complete : Bool
  deriving Repr, DecidableEq

def Entry.info (e : Entry) : Info := ⟨e.id, e.ann.ip, e.ann.port, false, e.ann.complete⟩

structure Group where
  hash : Hash        -- ghost: the key it was created under
  list : List Entry := []
  keys : List Pid := []
  lastExp : Nat
  deleted : Bool := false
  deriving Repr, DecidableEq

/-- the g.mu section of `UpdatePeer` -/
def Group.update (g : Group) (id : Pid) (a : Ann) (exp : Nat) : Group :=
  let e : Entry := ⟨id, a, exp⟩
  if id ∈ g.keys then
    { g with list := g.list.map (fun x => if x.id = id then e else x), lastExp := exp }
  else
    { g with list := g.list ++ [e], keys := id :: g.keys, lastExp := exp }

/-- `l[i] = l[len-1]; l = l[:len-1]` -/
def swapRemove {α : Type} (l : List α) (i : Nat) : List α :=
  match l.getLast? with
  | none => l
  | some x => (l.set i x).dropLast

/-- one iteration of the write-locked loop of `cleanupExpiredPeerEntries` -/
def sweepOne (now : Nat) (lk : List Entry × List Pid) (i : Nat) : List Entry × List Pid :=
  match lk.1[i]? with
  | none => lk                                  -- `i >= len(g.peerList)`: continue
  | some e =>
    if now < e.exp then lk                      -- `Now().Before(e.expiresAt)`: refreshed, continue
    else (swapRemove lk.1 i, lk.2.erase e.id)

/-- the write-locked loop: collected indexes in reverse order -/
def sweep (now : Nat) (list : List Entry) (keys : List Pid) (flags : List Nat) : List Entry × List Pid :=
  flags.reverse.foldl (sweepOne now) (list, keys)

/-- what the read-locked scan collects when the clock does not move during the scan -/
def scanExact (now : Nat) (l : List Entry) : List Nat :=
  (List.range l.length).filter (fun i => match l[i]? with | some e => decide (e.exp < now) | none => false)

inductive TState where
  | idle
  | updWant (h : Hash) (id : Pid) (a : Ann)
  | updHold (h : Hash) (gid : Nat) (id : Pid) (a : Ann)
  | getHold (h : Hash) (gid : Nat) (n : Int)
  deriving Repr, DecidableEq

structure CE where
  todo : List Nat
  cur : Option (Nat × List Nat) := none
  deriving Repr, DecidableEq

structure CG where
  visited : List Hash := []
  cur : Option (Hash × Nat) := none
  deriving Repr, DecidableEq

structure State where
  ttl : Nat
  now : Nat := 0
  heap : List Group := []
  index : List (Hash × Nat) := []
  thr : List (Nat × TState) := []
  ce : Option CE := none
  cg : Option CG := none
  last : List ((Hash × Pid) × Entry) := []    -- ghost
  deriving Repr

def init (ttl : Nat) : State := { ttl := ttl }

def tget (s : State) (t : Nat) : TState := (alook s.thr t).getD .idle
def tset (s : State) (t : Nat) (x : TState) : State := { s with thr := (t, x) :: s.thr }

inductive Act where
  | adv (d : Nat)
  | updCall (t : Nat) (h : Hash) (id : Pid) (a : Ann)
  | updA (t : Nat)
  | updB (t : Nat)
  | getA (t : Nat) (h : Hash) (n : Int)
  | getB (t : Nat) (perm : List Nat)
  | ceBegin
  | ceScan (gid : Nat) (flags : List Nat)
  | ceSweep
  | ceEnd
  | cgBegin
  | cgCheck (h : Hash)
  | cgDelete
  | cgEnd
  deriving Repr, DecidableEq

def newGroup (s : State) (h : Hash) : Group :=
  { hash := h, list := [], keys := [], lastExp := s.now + s.ttl, deleted := false }

def updA (s : State) (t : Nat) : State :=
  match tget s t with
  | .updWant h id a =>
    if s.cg.isSome then s else
    match alook s.index h with
    | some gid => tset s t (.updHold h gid id a)
    | none =>
      tset { s with heap := s.heap ++ [newGroup s h], index := (h, s.heap.length) :: s.index } t
        (.updHold h s.heap.length id a)
  | _ => s

def updB (s : State) (t : Nat) : State :=
  match tget s t with
  | .updHold h gid id a =>
    match s.heap[gid]? with
    | none => s
    | some g =>
      if g.deleted then tset s t (.updWant h id a) else
      tset { s with heap := s.heap.set gid (g.update id a (s.now + s.ttl)),
                    last := ((h, id), ⟨id, a, s.now + s.ttl⟩) :: s.last } t .idle
  | _ => s

def getA (s : State) (t : Nat) (h : Hash) (n : Int) : State :=
  match tget s t with
  | .idle =>
    if s.cg.isSome then s else
    match alook s.index h with
    | some gid => tset s t (.getHold h gid n)
    | none => s
  | _ => s

def getB (s : State) (t : Nat) : State :=
  match tget s t with
  | .getHold _ _ _ => tset s t .idle
  | _ => s

/-- the number of peers `GetPeers` selects -/
def takeCount (len : Nat) (n : Int) : Nat := if n < (len : Int) then n.toNat else len

/-- the read section of `GetPeers` on a list: `perm` is the result of `rand.Perm(len)` -/
def pick (l : List Entry) (n : Int) (perm : List Nat) : List Info :=
  (perm.take (takeCount l.length n)).filterMap (fun i => l[i]?.map Entry.info)

/-- what `getB t perm` returns (`none`: the step is not enabled or `perm` is not a permutation) -/
def getOut (s : State) (t : Nat) (perm : List Nat) : Option (List Info) :=
  match tget s t with
  | .getHold _ gid n =>
    match s.heap[gid]? with
    | none => none
    | some g => if perm.isPerm (List.range g.list.length) then some (pick g.list n perm) else none
  | _ => none

def ceBegin (s : State) : State :=
  if s.ce.isSome ∨ s.cg.isSome then s else { s with ce := some { todo := s.index.map (·.2) } }

def ceScan (s : State) (gid : Nat) (flags : List Nat) : State :=
  match s.ce with
  | some c =>
    if c.cur.isNone ∧ gid ∈ c.todo then
      { s with ce := some { todo := c.todo.erase gid, cur := some (gid, flags) } }
    else s
  | none => s

def ceSweep (s : State) : State :=
  match s.ce with
  | some c =>
    match c.cur with
    | some (gid, flags) =>
      match s.heap[gid]? with
      | some g =>
        let r := sweep s.now g.list g.keys flags
        { s with heap := s.heap.set gid { g with list := r.1, keys := r.2 }, ce := some { c with cur := none } }
      | none => { s with ce := some { c with cur := none } }
    | none => s
  | none => s

def ceEnd (s : State) : State :=
  match s.ce with
  | some c => if c.cur.isNone then { s with ce := none } else s
  | none => s

def cgBegin (s : State) : State :=
  if s.ce.isSome ∨ s.cg.isSome then s else { s with cg := some {} }

def cgCheck (s : State) (h : Hash) : State :=
  match s.cg with
  | some c =>
    if c.cur.isNone ∧ h ∉ c.visited then
      match alook s.index h with
      | some gid =>
        match s.heap[gid]? with
        | some g =>
          if s.now < g.lastExp then { s with cg := some { c with visited := h :: c.visited } }
          else { s with cg := some { visited := h :: c.visited, cur := some (h, gid) } }
        | none => s
      | none => s
    else s
  | none => s

def cgDelete (s : State) : State :=
  match s.cg with
  | some c =>
    match c.cur with
    | some (h, gid) =>
      match s.heap[gid]? with
      | some g =>
        if g.lastExp < s.now then
          { s with index := adel s.index h, heap := s.heap.set gid { g with deleted := true },
                   cg := some { c with cur := none } }
        else { s with cg := some { c with cur := none } }
      | none => { s with cg := some { c with cur := none } }
    | none => s
  | none => s

def cgEnd (s : State) : State :=
  match s.cg with
  | some c => if c.cur.isNone then { s with cg := none } else s
  | none => s

def step (s : State) : Act → State
  | .adv d => { s with now := s.now + d }
  | .updCall t h id a => if tget s t = .idle then tset s t (.updWant h id a) else s
  | .updA t => updA s t
  | .updB t => updB s t
  | .getA t h n => getA s t h n
  | .getB t _ => getB s t
  | .ceBegin => ceBegin s
  | .ceScan gid flags => ceScan s gid flags
  | .ceSweep => ceSweep s
  | .ceEnd => ceEnd s
  | .cgBegin => cgBegin s
  | .cgCheck h => cgCheck s h
  | .cgDelete => cgDelete s
  | .cgEnd => cgEnd s

/-! Sequential composites (what a single caller with no concurrent cleanup executes). -/

/-- `UpdatePeer(h, p)` run to completion by thread `t` -/
def updateSeq (t : Nat) (h : Hash) (id : Pid) (a : Ann) : List Act := [.updCall t h id a, .updA t, .updB t]

/-- `cleanupExpiredPeerEntries` on one group at one instant -/
def ceGroupSeq (s : State) (gid : Nat) : List Act :=
  match s.heap[gid]? with
  | some g => [.ceScan gid (scanExact s.now g.list), .ceSweep]
  | none => []

/-- peers of torrent `h` currently stored (the live group's list) -/
def peersOf (s : State) (h : Hash) : List Entry :=
  match alook s.index h with
  | some gid => match s.heap[gid]? with
    | some g => g.list
    | none => []
  | none => []

end KrakenModel.PeerStore
