/-
  Model of origin/blobclient: `Poll` (cluster_client.go) over the resolved origins, the request
  closure of `clusterClient.DownloadBlob` (counting writer + rewind of a seekable destination)
  and `HTTPClient.DownloadBlob` (client.go: GET, then `io.Copy(dst, body)`).

  * An origin is its *script*: what its HTTP endpoint does on the 1st, 2nd, … request
    (`Resp`).  Once the script is exhausted the endpoint closes the connection (`netErr`).
  * The backoff is the number `bo` of `NextBackOff()` answers other than `Stop` after a `Reset()`.
  * The destination is an `io.Writer`: `plain` (append only, e.g. `bytes.Buffer`) or `seek`
    (an `io.Seeker` with file semantics: writes overwrite at the offset, zero-fill past the end).
  * `guarded = true` is `clusterClient.DownloadBlob`; `guarded = false` is the bare
    `Poll(r, b, d, func(c) { return c.DownloadBlob(ctx, ns, d, dst) })`, i.e. the request closure
    without the rewind (the behaviour of DownloadBlob before the repair).
-/
namespace KrakenModel.Poll

abbrev Byte := Nat

/-- what one HTTP request to an origin produces -/
inductive Resp where
  | netErr                 -- connection closed before any response
  | status (code : Nat)    -- a response with a status other than 200
  | cut (k : Nat) (chunked : Bool)   -- 200, `k` body bytes, then the connection is dropped
  | full (chunked : Bool)            -- 200 and the whole blob
  | eof (k : Nat)                    -- 200 delimited by connection close only (no Content-Length, no
                                     -- chunked framing: HTTP/1.0 style): `k` body bytes, then the
                                     -- connection ends, which the client cannot tell from the end of the body
  -- `chunked = false`: the response announces Content-Length = blob length, so a drop after all
  -- the bytes is a complete response; `chunked = true`: no Content-Length (chunked encoding, as a
  -- streaming origin answers), a drop is always before the terminating chunk and is an error
  -- even when every body byte arrived.
  deriving Repr, DecidableEq

inductive DstKind where
  | plain | seek
  deriving Repr, DecidableEq

structure Dst where
  kind : DstKind
  data : List Byte
  pos : Nat := 0           -- write offset of a `seek` destination (unused for `plain`)
  deriving Repr, DecidableEq

/-- file write at an offset: bytes before `pos` kept (zero-filled when the file is shorter),
then `bs`, then whatever the file had beyond the written range -/
def writeAt (data : List Byte) (pos : Nat) (bs : List Byte) : List Byte :=
  (data ++ List.replicate (pos - data.length) 0).take pos ++ bs ++ data.drop (pos + bs.length)

/-- `io.Copy(dst, body)` of `bs` (no `Write` call happens for an empty body) -/
def Dst.write (d : Dst) (bs : List Byte) : Dst :=
  match d.kind with
  | .plain => { d with data := d.data ++ bs }
  | .seek => if bs = [] then d else { d with data := writeAt d.data d.pos bs, pos := d.pos + bs.length }

/-- error classes of the request closure as `Poll` distinguishes them -/
inductive Out where
  | ok
  | status (code : Nat)    -- httputil.StatusError
  | other                  -- NetworkError, "copy body: …", rewind failure
  deriving Repr, DecidableEq

/-- does the response carry the whole blob -/
def Resp.delivers (blobLen : Nat) : Resp → Bool
  | .full _ => true
  | .cut k false => blobLen ≤ k
  | .eof k => blobLen ≤ k
  | _ => false

/-- a close-delimited response is *honest* when it carries the whole blob (a drop inside such a
body is invisible to the client) -/
def Resp.honest (blobLen : Nat) : Resp → Prop
  | .eof k => blobLen ≤ k
  | _ => True

instance (n : Nat) (r : Resp) : Decidable (r.honest n) := by
  cases r <;> simp only [Resp.honest] <;> exact inferInstance

/-- `HTTPClient.DownloadBlob`: destination afterwards, error class, bytes written -/
def request (d : Dst) (blob : List Byte) : Resp → Dst × Out × Nat
  | .netErr => (d, .other, 0)
  | .status c => (d, .status c, 0)
  | .cut k false => if k < blob.length then (d.write (blob.take k), .other, k) else (d.write blob, .ok, blob.length)
  | .cut k true => (d.write (blob.take k), .other, (blob.take k).length)
  | .full _ => (d.write blob, .ok, blob.length)
  | .eof k => (d.write (blob.take k), .ok, (blob.take k).length)

structure Cfg where
  guarded : Bool := true
  bo : Nat := 0
  blob : List Byte := []
  deriving Repr, DecidableEq

structure St where
  dst : Dst
  n : Nat := 0             -- bytes passed to dst by the counting writer since the last rewind
  trace : List Nat := []   -- origin index of every HTTP request made, oldest first
  deriving Repr, DecidableEq

/-- the head of the request closure of `clusterClient.DownloadBlob`: when an earlier request left
bytes in the destination, seek back over them, or fail if the destination cannot seek
(`none` = the closure returns an error without contacting the origin) -/
def prepare (cfg : Cfg) (st : St) : Option St :=
  if !cfg.guarded || st.n = 0 then some st else
  match st.dst.kind with
  | .plain => none
  | .seek =>
    if st.n ≤ st.dst.pos then some { st with dst := { st.dst with pos := st.dst.pos - st.n }, n := 0 }
    else none              -- Seek to a negative offset fails

inductive Result where
  | ok
  | status (code : Nat)    -- a StatusError below 500 other than 202 ends the poll
  | notFound               -- DownloadBlob maps 404 to ErrBlobNotFound
  | unavailable            -- "all origins unavailable"
  | resolveErr
  deriving Repr, DecidableEq

inductive Step where
  | done (r : Result)
  | next                   -- continue ORIGINS / backoff timed out
  deriving Repr, DecidableEq

/-- one HTTP request of origin `i` answering `r`, bookkeeping included -/
def doRequest (cfg : Cfg) (i : Nat) (st : St) (r : Resp) : St × Out :=
  let (d, out, w) := request st.dst cfg.blob r
  ({ dst := d, n := st.n + w, trace := st.trace ++ [i] }, out)

/-- the `POLL:` loop for origin `i` with `b` backoff answers left and the origin's remaining script -/
def pollOrigin (cfg : Cfg) (i : Nat) : List Resp → Nat → St → St × Step
  | [], _, st =>
    match prepare cfg st with
    | none => (st, .next)
    | some st1 => ((doRequest cfg i st1 .netErr).1, .next)
  | r :: rest, b, st =>
    match prepare cfg st with
    | none => (st, .next)
    | some st1 =>
      match doRequest cfg i st1 r with
      | (st2, .ok) => (st2, .done .ok)
      | (st2, .other) => (st2, .next)
      | (st2, .status c) =>
        if c = 202 then
          match b with
          | 0 => (st2, .next)
          | b' + 1 => pollOrigin cfg i rest b' st2
        else if c < 500 then (st2, .done (.status c))
        else (st2, .next)

/-- the `ORIGINS:` loop from origin index `i` on -/
def pollFrom (cfg : Cfg) : Nat → List (List Resp) → St → St × Result
  | _, [], st => (st, .unavailable)
  | i, o :: os, st =>
    match pollOrigin cfg i o cfg.bo st with
    | (st', .done r) => (st', r)
    | (st', .next) => pollFrom cfg (i + 1) os st'

def mapNotFound : Result → Result
  | .status 404 => .notFound
  | r => r

/-- `clusterClient.DownloadBlob` (`origins = none`: the resolver failed) -/
def download (cfg : Cfg) (dst : Dst) (origins : Option (List (List Resp))) : St × Result :=
  match origins with
  | none => ({ dst := dst }, .resolveErr)
  | some os =>
    let (st, r) := pollFrom cfg 0 os { dst := dst }
    (st, if cfg.guarded then mapNotFound r else r)

end KrakenModel.Poll
