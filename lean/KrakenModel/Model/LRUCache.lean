/-
  Model of utils/cache.LRUCache (C13).  The Go type keeps a map key → expiration time and a slice of
  keys in LRU order; the model keeps one list of (key, expiration) pairs, oldest first (the two Go
  structures are updated together in every method).  `now` is an input of every operation
  (`time.Now()` in the code), in nanoseconds; `Has`/`evict` use `now.After(expire)`, i.e. strict `>`.
-/
namespace KrakenModel.LRUCache

structure Cfg where
  size : Nat       -- config.Size after applyDefaults (0 → 300); `NewLRUCache` panics for a negative size
  ttl : Int        -- config.TTL after applyDefaults (0 → 5 min), ns; may be negative
  deriving Repr, DecidableEq

/-- `LRUCacheConfig.applyDefaults` -/
def Cfg.ofRaw (size : Nat) (ttl : Int) : Cfg :=
  { size := if size = 0 then 300 else size, ttl := if ttl = 0 then 300000000000 else ttl }

structure State where
  cfg : Cfg
  entries : List (String × Int) := []
  deriving Repr, DecidableEq

def init (cfg : Cfg) : State := { cfg := cfg }

def find (es : List (String × Int)) (k : String) : Option Int :=
  match es with
  | [] => none
  | (k', e) :: rest => if k = k' then some e else find rest k

def eraseKey (es : List (String × Int)) (k : String) : List (String × Int) :=
  match es with
  | [] => []
  | (k', e) :: rest => if k = k' then rest else (k', e) :: eraseKey rest k

/-- `Has(key)` -/
def has (s : State) (now : Int) (k : String) : Bool :=
  match find s.entries k with
  | none => false
  | some e => !(now > e)

/-- the first loop of `evict`: drop expired entries -/
def live (es : List (String × Int)) (now : Int) : List (String × Int) := es.filter (fun p => !(now > p.2))

/-- the second loop of `evict`: drop from the front until at most `size` entries remain -/
def enforce (size : Nat) (es : List (String × Int)) : List (String × Int) := es.drop (es.length - size)

/-- `Add(key)`: an existing key is refreshed and moved to the back (no eviction pass); a new key is
appended, then expired entries are dropped, then the oldest until the size limit holds -/
def add (s : State) (now : Int) (k : String) : State :=
  match find s.entries k with
  | some _ => { s with entries := eraseKey s.entries k ++ [(k, now + s.cfg.ttl)] }
  | none => { s with entries := enforce s.cfg.size (live (s.entries ++ [(k, now + s.cfg.ttl)]) now) }

/-- `Delete(key)` -/
def delete (s : State) (k : String) : State := { s with entries := eraseKey s.entries k }

/-- `Clear()` -/
def clear (s : State) : State := { s with entries := [] }

/-- `Size()` -/
def size (s : State) : Nat := s.entries.length

inductive Op where
  | add (now : Int) (k : String)
  | delete (k : String)
  | clear
  deriving Repr, DecidableEq

def step (s : State) : Op → State
  | .add now k => add s now k
  | .delete k => delete s k
  | .clear => clear s

def run (cfg : Cfg) (ops : List Op) : State := ops.foldl step (init cfg)

end KrakenModel.LRUCache
