import KrakenModel.Util.KV
import KrakenModel.Model.MemCache
/-
  Model of lib/store.CAStore as a content-addressed store with the in-memory write-through cache
  (C01; the accounting half is C13).  Anchors: lib/store/ca_store.go, utils/cache/blob_memory_cache.go,
  lib/store/base/buffer_readwriter.go, origin/blobserver/uploader.go.

  * `uploads`  — files of the upload directory (name → bytes)
  * `cache`    — committed files of the cache directory (name → bytes + `_torrentmeta` sidecar)
  * `mem`      — the BlobMemoryCache (only used when `cfg.memEnabled`)
  * `queue`    — the drain queue (front first)
  * `now`      — the injected clock (ns)

  The hash `H` (SHA-256 as lowercase hex) and the piece checksum `crc` (CRC-32/IEEE) are parameters.
  Every background activity (a drain tick, a TTL sweep, time passing) is an operation of its own, so a
  history is also a schedule of the drain relative to the API calls.

  The write callback handed to `WriteBlobToCacheWithMetaInfo` may be invoked twice (memory path, then
  the disk fallback); the backend is free to stream different bytes each time and to fail after a
  prefix, so the operation carries a list of `Attempt`s, consumed one per invocation.
-/
namespace KrakenModel.CAStoreMem
open KrakenModel KrakenModel.MemCache

abbrev Bytes := MemCache.Bytes
abbrev Name := MemCache.Name

structure CacheFile where
  data : Bytes
  tm : Option MetaInfo := none     -- the `_torrentmeta` sidecar
  deriving Repr, DecidableEq

structure DrainItem where
  name : Name
  data : Bytes
  mi : MetaInfo
  retries : Nat
  deriving Repr, DecidableEq

structure Cfg where
  memEnabled : Bool := false
  maxSize : Nat := 0
  drainMaxRetries : Nat := 3      -- after applyDefaults
  ttl : Nat := 300000000000       -- after applyDefaults (5 min), ns
  skipVerify : Bool := false      -- SkipHashVerification
  deriving Repr, DecidableEq

structure State where
  cfg : Cfg
  uploads : List (String × Bytes) := []
  cache : List (Name × CacheFile) := []
  mem : MemCache.State := {maxSize := 0}
  queue : List DrainItem := []
  now : Nat := 0
  shards : List String := []      -- first-level shard directories of the cache directory that exist
  blocked : List String := []     -- shard paths that cannot be created (fault injection: a file sits there)
  deriving Repr, DecidableEq

def init (cfg : Cfg) : State := { cfg := cfg, mem := MemCache.init cfg.maxSize }

/-- one invocation of the write callback: the bytes it writes and whether it then returns an error -/
structure Attempt where
  data : Bytes
  fail : Bool := false
  deriving Repr, DecidableEq

inductive Res where
  | ok | notExist | exist | verify | write | badMeta | other
  deriving Repr, DecidableEq

/-! ### pure helpers -/

def isHexChar (c : Char) : Bool :=
  ('0' ≤ c && c ≤ '9') || ('a' ≤ c && c ≤ 'f') || ('A' ≤ c && c ≤ 'F')

/-- `core.ValidateSHA256`: 64 characters, all hexadecimal (either case) -/
def validName (n : Name) : Bool := n.length == 64 && n.toList.all isHexChar

def chunksF : Nat → Nat → Bytes → List Bytes
  | 0, _, _ => []
  | f + 1, pl, b => if b.isEmpty then [] else b.take pl :: chunksF f pl (b.drop pl)

/-- the pieces of a blob for piece length `pl > 0` -/
def chunks (pl : Nat) (b : Bytes) : List Bytes := chunksF b.length pl b

/-- `core.NewMetaInfo` / `NewMetaInfoFromBytes` for `pl > 0` -/
def miOf (crc : Bytes → Nat) (d : Name) (b : Bytes) (pl : Int) : MetaInfo :=
  { name := d, length := b.length, pieceLength := pl, sums := (chunks pl.toNat b).map crc }

/-- `pwrite(bytes, off)` on a file holding `old` (a zero-length write changes nothing) -/
def pwrite (old : Bytes) (off : Nat) (bytes : Bytes) : Bytes :=
  if bytes.isEmpty then old
  else (old ++ List.replicate (off - old.length) 0).take off ++ bytes ++ old.drop (off + bytes.length)

/-- the first-level shard directory of a cache file (first byte of the name in hex) -/
def shardOf (n : Name) : String := String.ofList (n.toList.take 2)

/-- can a cache file of this name be created? (no: its shard path is occupied by a plain file, every
attempt to create or open something below it fails with ENOTDIR) -/
def usable (s : State) (n : Name) : Bool := !(s.blocked.contains (shardOf n))

section
variable (H : Bytes → Name) (crc : Bytes → Nat)

/-- `CAStore.verify`: the name must be a valid sha256 hex; the content must hash to it unless
verification is switched off by configuration -/
def verifyOK (cfg : Cfg) (name : Name) (b : Bytes) : Bool :=
  validName name && (cfg.skipVerify || H b == name)

/-! ### reads (memory entries take precedence, `s.memCache != nil` iff the cache is enabled) -/

def memGet (s : State) (n : Name) : Option Entry :=
  if s.cfg.memEnabled then MemCache.get s.mem n else none

/-- `GetCacheFileReader` + read everything -/
def readable (s : State) (n : Name) : Option Bytes :=
  match memGet s n with
  | some e => some e.data
  | none => (KV.get s.cache n).map (·.data)

/-- `GetCacheFileStat(...).Size()` -/
def statSize (s : State) (n : Name) : Option Nat :=
  match memGet s n with
  | some e => some e.size
  | none => (KV.get s.cache n).map (·.data.length)

/-- `GetCacheFileMetadata(name, &TorrentMeta{})` -/
def metainfo (s : State) (n : Name) : Option MetaInfo :=
  match memGet s n with
  | some e => some e.mi
  | none => (KV.get s.cache n).bind (·.tm)

def inMem (s : State) (n : Name) : Bool := (memGet s n).isSome

/-- a `FileReader` handed out by `GetCacheFileReader`: the name it was opened under and the bytes it will
deliver.  A reader over a memory entry refers to the entry's buffer, a reader over a cache file to the open
file; neither is ever written again (entries and cache files are immutable, removal only drops the last
reference / unlinks), so what the reader yields is fixed when it is opened, whatever the store does later. -/
structure Reader where
  name : Name
  bytes : Bytes
  deriving Repr, DecidableEq

def openReader (s : State) (n : Name) : Option Reader := (readable s n).map fun b => { name := n, bytes := b }

/-- reading a held reader to the end, at any later state of the store -/
def Reader.readAll (r : Reader) (_later : State) : Bytes := r.bytes

/-- `ListCacheFiles` as a set -/
def listed (s : State) : List Name :=
  KV.keys s.cache ++ (if s.cfg.memEnabled then MemCache.names s.mem else [])

/-! ### upload files -/

/-- `CreateUploadFile(u, 0)`: the op is built without `AcceptState`, so for an existing file the state
check fails with a `FileStateError` (not `os.ErrExist`) -/
def createUpload (s : State) (u : String) : State × Res :=
  if KV.has s.uploads u then (s, .other) else ({ s with uploads := KV.put s.uploads u [] }, .ok)

def writeUpload (s : State) (u : String) (off : Nat) (bytes : Bytes) : State × Res :=
  match KV.get s.uploads u with
  | none => (s, .notExist)
  | some old => ({ s with uploads := KV.put s.uploads u (pwrite old off bytes) }, .ok)

/-- `MoveUploadFileToCache(uploadName, cacheName)`: the upload file is gone afterwards in every case
(deferred delete), the cache file appears only after `verify` and only if none exists yet -/
def commitUpload (s : State) (u : String) (name : Name) : State × Res :=
  match KV.get s.uploads u with
  | none => (s, .notExist)
  | some b =>
    let s1 := { s with uploads := KV.del s.uploads u }
    if !verifyOK H s.cfg name b then (s1, .verify)
    else if !usable s name then (s1, .other)               -- the rename fails (ENOTDIR)
    else if KV.has s.cache name then (s1, .exist)
    else ({ s1 with cache := KV.put s1.cache name { data := b }, shards := shardOf name :: s1.shards }, .ok)

/-- `SetCacheFileMetadata(name, TorrentMeta)` on the disk file -/
def setTM (s : State) (name : Name) (mi : MetaInfo) : State × Res :=
  match KV.get s.cache name with
  | none => (s, .notExist)
  | some f => ({ s with cache := KV.put s.cache name { f with tm := some mi } }, .ok)

/-- `generateMetadataFromFile` (also `metainfogen.Generator.Generate` / `overwriteMetaInfo`): metainfo
computed from what `GetCacheFileReader` serves (memory first) and written next to the disk file -/
def genMetaFromFile (s : State) (name : Name) (pl : Int) : State × Res :=
  if !validName name then (s, .other) else
  match readable s name with
  | none => (s, .notExist)
  | some b => if pl ≤ 0 then (s, .badMeta) else setTM s name (miOf crc name b pl)

/-- the rename into the cache directory: nothing happens when a file of that name exists (`os.ErrExist`,
swallowed by `writeCacheFile`) -/
def ensureFile (s : State) (name : Name) (b : Bytes) : State :=
  if KV.has s.cache name then s
  else { s with cache := KV.put s.cache name { data := b }, shards := shardOf name :: s.shards }

/-- `writeCacheFile(name, write, addMetadata, pieceLength)`; the temporary upload file has a fresh
uuid name and is always removed again, so it is not represented -/
def writeCacheFile (s : State) (name : Name) (att : Option Attempt) (addMeta : Bool) (pl : Int) : State × Res :=
  match att with
  | none => (s, .write)
  | some a =>
    if a.fail then (s, .write)
    else if !verifyOK H s.cfg name a.data then (s, .verify)
    else if !usable s name then (s, .other)                 -- the rename into the cache directory fails
    else if addMeta then genMetaFromFile crc (ensureFile s name a.data) name pl
    else (ensureFile s name a.data, .ok)

/-- the `MemoryEntry` built by `addToMemoryCache` -/
def newEntry (s : State) (name : Name) (b : Bytes) (pl : Int) : Entry :=
  { data := b, mi := miOf crc name b pl, createdAt := s.now }

/-- `addToMemoryCache` after a successful reservation; `none` = it returned an error -/
def addToMem (s : State) (name : Name) (att : Option Attempt) (size : Nat) (pl : Int) : Option State :=
  match att with
  | none => none
  | some a =>
    if a.fail then none
    else if a.data.length ≠ size then none                 -- the buffer must be exactly what was reserved
    else if !verifyOK H s.cfg name a.data then none       -- digest check before the entry becomes readable
    else if !validName name || pl ≤ 0 then none            -- generateMetadataFromBytes
    else if !(MemCache.add s.mem name (newEntry crc s name a.data pl)).2 then none   -- duplicate
    else some { s with mem := (MemCache.add s.mem name (newEntry crc s name a.data pl)).1,
                       queue := s.queue ++ [{ name := name, data := a.data, mi := miOf crc name a.data pl, retries := 0 }] }

def reserved (s : State) (size : Nat) : State := { s with mem := (MemCache.tryReserve s.mem size).1 }
def released (s : State) (size : Nat) : State := { s with mem := MemCache.release s.mem size }

/-- the disk path of `WriteBlobToCacheWithMetaInfo`: the blob is written and verified like any cache file;
metainfo with the caller's piece length (chosen for a blob of `size` bytes) is generated only when the
written blob has exactly that length, otherwise it is left to the caller -/
def writeDisk (s : State) (name : Name) (size : Nat) (att : Option Attempt) (pl : Int) : State × Res :=
  if (writeCacheFile H crc s name att false 0).2 = .ok ∧ att.map (·.data.length) = some size then
    genMetaFromFile crc (writeCacheFile H crc s name att false 0).1 name pl
  else writeCacheFile H crc s name att false 0

/-- `WriteBlobToCacheWithMetaInfo(name, size, write, pieceLength)` -/
def writeBlob (s : State) (name : Name) (size : Nat) (atts : List Attempt) (pl : Int) : State × Res :=
  if s.cfg.memEnabled && (MemCache.tryReserve s.mem size).2 then
    match addToMem H crc (reserved s size) name atts.head? size pl with
    | some s2 => (s2, .ok)
    | none => writeDisk H crc (released (reserved s size) size) name size (atts.drop 1).head? pl
  else writeDisk H crc s name size atts.head? pl

/-! ### inside one write-through call: the states a concurrent reader can observe

`WriteBlobToCacheWithMetaInfo` is not atomic for readers (`GetCacheFileReader/Stat/Metadata` take no lock
shared with it).  The traces below list, in order, the states that exist between its atomic steps — after
the reservation, after `memCache.Add` (the entry is readable before it is queued for the drain), after the
release of a failed reservation, after the rename into the cache directory (the blob is readable before its
metainfo is written), after the metainfo write.  The last state of the trace is the state the call leaves. -/

/-- the disk path: nothing changes unless the stream is complete and verified -/
def diskTrace (s : State) (name : Name) (size : Nat) (att : Option Attempt) (pl : Int) : List State :=
  match att with
  | none => []
  | some a =>
    if a.fail then []
    else if !verifyOK H s.cfg name a.data then []
    else if !usable s name then []
    else ensureFile s name a.data ::
      (if a.data.length = size then [(genMetaFromFile crc (ensureFile s name a.data) name pl).1] else [])

/-- after `memCache.Add`, before the drain item is queued -/
def published (s : State) (name : Name) (a : Attempt) (pl : Int) : State :=
  { s with mem := (MemCache.add s.mem name (newEntry crc s name a.data pl)).1 }

def writeBlobTrace (s : State) (name : Name) (size : Nat) (atts : List Attempt) (pl : Int) : List State :=
  if s.cfg.memEnabled && (MemCache.tryReserve s.mem size).2 then
    reserved s size ::
      (match addToMem H crc (reserved s size) name atts.head? size pl, atts.head? with
       | some s2, some a => [published crc (reserved s size) name a pl, s2]
       | _, _ => released (reserved s size) size ::
                  diskTrace H crc (released (reserved s size) size) name size (atts.drop 1).head? pl)
  else diskTrace H crc s name size atts.head? pl

/-- `CreateCacheFile(name, r)` -/
def createCache (s : State) (name : Name) (b : Bytes) : State × Res :=
  writeCacheFile H crc s name (some { data := b }) false 0

/-- `writeDrainItemToDisk` -/
def writeDrainItem (s : State) (it : DrainItem) : State × Res :=
  if (writeCacheFile H crc s it.name (some { data := it.data }) false 0).2 = .ok
  then setTM (writeCacheFile H crc s it.name (some { data := it.data }) false 0).1 it.name it.mi
  else writeCacheFile H crc s it.name (some { data := it.data }) false 0

def dropFromMem (s : State) (name : Name) : State := { s with mem := MemCache.remove s.mem name }

/-- `drainNext` -/
def drainNext (s : State) : State :=
  match s.queue with
  | [] => s
  | it :: rest =>
    if (writeDrainItem H crc { s with queue := rest } it).2 = .ok then
      dropFromMem (writeDrainItem H crc { s with queue := rest } it).1 it.name
    else if it.retries < s.cfg.drainMaxRetries then
      { (writeDrainItem H crc { s with queue := rest } it).1 with
        queue := (writeDrainItem H crc { s with queue := rest } it).1.queue ++ [{ it with retries := it.retries + 1 }] }
    else dropFromMem (writeDrainItem H crc { s with queue := rest } it).1 it.name

/-- `cleanupMemoryCacheExpiredEntries` -/
def ttlSweep (s : State) : State :=
  { s with mem := MemCache.removeBatch s.mem (MemCache.expired s.mem s.now s.cfg.ttl) }

/-- `DeleteCacheFile` (disk file only; persist metadata is C10's subject and not set here) -/
def deleteCache (s : State) (name : Name) : State × Res :=
  if KV.has s.cache name then ({ s with cache := KV.del s.cache name }, .ok) else (s, .notExist)

inductive Op where
  | createUpload (u : String)
  | writeUpload (u : String) (off : Nat) (bytes : Bytes)
  | commit (u : String) (name : Name)
  | createCache (name : Name) (bytes : Bytes)
  | writeBlob (name : Name) (size : Nat) (atts : List Attempt) (pl : Int)
  | genMeta (name : Name) (pl : Int)
  | drain
  | ttl
  | tick (dt : Nat)
  | delete (name : Name)
  | block (shard : String)      -- fault injection: put a plain file where a shard directory would go
  | unblock (shard : String)
  deriving Repr, DecidableEq

/-- a shard path can only be occupied while no directory exists there -/
def block (s : State) (p : String) : State × Res :=
  if s.shards.contains p || s.blocked.contains p then (s, .exist) else ({ s with blocked := p :: s.blocked }, .ok)

def unblock (s : State) (p : String) : State × Res :=
  if s.blocked.contains p then ({ s with blocked := s.blocked.filter (· != p) }, .ok) else (s, .notExist)

def apply (s : State) : Op → State × Res
  | .createUpload u => createUpload s u
  | .writeUpload u off b => writeUpload s u off b
  | .commit u n => commitUpload H s u n
  | .createCache n b => createCache H crc s n b
  | .writeBlob n size atts pl => writeBlob H crc s n size atts pl
  | .genMeta n pl => genMetaFromFile crc s n pl
  | .drain => (drainNext H crc s, .ok)
  | .ttl => (ttlSweep s, .ok)
  | .tick dt => ({ s with now := s.now + dt }, .ok)
  | .delete n => deleteCache s n
  | .block p => block s p
  | .unblock p => unblock s p

def step (s : State) (o : Op) : State := (apply H crc s o).1

def run (cfg : Cfg) (ops : List Op) : State := ops.foldl (step H crc) (init cfg)

end

end KrakenModel.CAStoreMem
