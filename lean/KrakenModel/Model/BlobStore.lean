/-
  Capacity-bounded LRU blob store: the reference model shared by
    C07  lib/store/disk    (`disk.store`,   all operations incl. `Clean`, `WriteAtMetadata`)
    C08  lib/store/memory  (`memory.store` + `memory.File` handles)
    C09  the two tiers of lib/store/tiered.

  State = the fields of the Go `store` struct:
    `cap`/`size`  uint64 capacity and reserved bytes,
    `blobs`       the `map[string]*blob` as an association list (at most one entry per key),
    `queue`       the `evictQueue` container/list, front first.  `b.node != nil` is "`k ∈ queue`".
  File-system and allocation calls are assumed to succeed (their error branches are not modelled);
  `size += space` wraps modulo 2^64 as in Go.  Where the Go code would dereference a nil map entry
  or nil list node the model returns `.panic` (shown unreachable in Proof/BlobStore.lean).
  Core Lean only.
-/
namespace KrakenModel.BlobStore

abbrev Key := Nat
abbrev Bytes := List Nat

def U64 : Nat := 18446744073709551616

inductive Scope where
  | any | complete | incomplete
  deriving DecidableEq, Repr

/-- one metadata sidecar: suffix id, `Movable()`, serialized value -/
structure Md where
  sfx : Nat
  movable : Bool
  val : Bytes
  deriving DecidableEq, Repr

structure Blob where
  size : Nat                 -- the size given to Create (reserved), not the content length
  complete : Bool := false
  banned : Bool := false
  data : Bytes := []
  mds : List Md := []        -- at most one per suffix
  inc : Nat := 0             -- incarnation number: identifies the `*[]byte` / directory of this Create
  deriving DecidableEq, Repr

abbrev BMap := List (Key × Blob)

namespace BMap

def get : BMap → Key → Option Blob
  | [], _ => none
  | (k', b) :: m, k => if k' = k then some b else get m k

def del (m : BMap) (k : Key) : BMap := m.filter (fun e => e.1 ≠ k)

def set (m : BMap) (k : Key) (b : Blob) : BMap := (k, b) :: del m k

def keys (m : BMap) : List Key := m.map (·.1)

/-- sum of the reserved sizes -/
def total (m : BMap) : Nat := (m.map (·.2.size)).sum

end BMap

structure State where
  cap : Nat
  size : Nat := 0
  blobs : BMap := []
  queue : List Key := []
  nextInc : Nat := 0         -- number of successful Creates so far (names the next incarnation)
  deriving DecidableEq, Repr

inductive Err where
  | notExist | exist | outOfScope | noSpace | mdNotExist | badArg | panic
  deriving DecidableEq, Repr

inductive Out where
  | ok
  | err (e : Err)
  | created (inc : Nat) (evicted : List Key)
  | opened (inc : Nat) (data : Bytes)
  | bytes (b : Bytes)
  | absent
  | has (inStore inScope : Bool)
  | num (n : Nat)
  | keys (ks : List Key)
  | sfxs (l : List Nat)
  | cleaned (util : Nat) (e : Option Err) (deleted : List Key)
  deriving DecidableEq, Repr

def init (cap : Nat) : State := { cap := cap }

/-- `isOutOfScope` (negated) -/
def inScope (b : Blob) : Scope → Bool
  | .any => true
  | .complete => b.complete
  | .incomplete => !b.complete

/-- the common prologue of the scoped calls: map lookup, then the scope filter -/
def lookup (s : State) (k : Key) (sc : Scope) : Except Err Blob :=
  match s.blobs.get k with
  | none => .error .notExist
  | some b => if inScope b sc then .ok b else .error .outOfScope

/-! ### space accounting -/

/-- the admission test as repaired by the `fix:` commit: `space <= capacity && size <= capacity-space`
    (no 64-bit wrap-around) -/
def fits (s : State) (space : Nat) : Bool := decide (space ≤ s.cap) && decide (s.size ≤ s.cap - space)

/-- the admission test before the repair: `size+space <= capacity` in uint64 arithmetic -/
def legacyFits (s : State) (space : Nat) : Bool := decide ((s.size + space) % U64 ≤ s.cap)

/-- `releaseSpace` (fails open to 0) -/
def release (s : State) (n : Nat) : State := { s with size := if n > s.size then 0 else s.size - n }

inductive EvRes where
  | ok | noSpace | panic
  deriving DecidableEq, Repr

/-- one iteration of the eviction loop for the queue front `k` (queue tail `q`, map entry `b`) -/
def evictStep (s : State) (k : Key) (q : List Key) (b : Blob) : State :=
  release { s with blobs := s.blobs.del k, queue := q } b.size

/-- `ensureFreeSpace` / `reserveSpace` loop; first argument = `s.queue`. Returns the evicted keys in
    eviction order. -/
def evictLoop (space : Nat) : List Key → State → State × EvRes × List Key
  | [], s => (s, if fits s space then .ok else .noSpace, [])
  | k :: q, s =>
    if fits s space then (s, .ok, []) else
    match s.blobs.get k with
    | none => (s, .panic, [])
    | some b =>
      let r := evictLoop space q (evictStep s k q b)
      (r.1, r.2.1, k :: r.2.2)

def ensureFree (s : State) (space : Nat) : State × EvRes × List Key := evictLoop space s.queue s

/-! ### data -/

/-- POSIX/`memory.File` positional write: zero-fill the gap, overwrite, keep the tail. A zero-length
    write changes nothing (os.File; memory.File too since the `fix:` commit a4f0046 of C12 —
    `extendEmpty` keeps the earlier behaviour of memory.File expressible) -/
def writeAt (old : Bytes) (p : Bytes) (off : Nat) (extendEmpty : Bool := false) : Bytes :=
  if p.isEmpty && !extendEmpty then old
  else old.take off ++ List.replicate (off - old.length) 0 ++ p ++ old.drop (off + p.length)

/-! ### operations -/

/-- `Create(key, size)`; `data` = what the caller writes through the returned handle at offset 0 -/
def create (s : State) (k : Key) (size : Nat) (data : Bytes) : State × Out :=
  match s.blobs.get k with
  | some _ => (s, .err .exist)
  | none =>
    match ensureFree s size with
    | (s', .ok, ev) =>
      ({ s' with size := (s'.size + size) % U64,
                 blobs := s'.blobs.set k { size := size, data := data, inc := s'.nextInc },
                 nextInc := s'.nextInc + 1 }, .created s'.nextInc ev)
    | (s', .noSpace, _) => (s', .err .noSpace)
    | (s', .panic, _) => (s', .err .panic)

/-- `Create(key, size)` whose directory or data file cannot be made (`MkdirAll` / `OpenFile` fail —
    disk store only): the admission test and the evictions it needs have happened, the reserved space
    is released again (`size += n` without wrap-around, then `releaseSpace(n)`), no entry appears.
    `.err .badArg` stands for the I/O error. -/
def createFailing (s : State) (k : Key) (size : Nat) : State × Out :=
  match s.blobs.get k with
  | some _ => (s, .err .exist)
  | none =>
    match ensureFree s size with
    | (s', .ok, _) => (s', .err .badArg)
    | (s', .noSpace, _) => (s', .err .noSpace)
    | (s', .panic, _) => (s', .err .panic)

/-- `Open`: a queued blob moves to the back of the eviction queue -/
def openB (s : State) (k : Key) (sc : Scope) : State × Out :=
  match lookup s k sc with
  | .error e => (s, .err e)
  | .ok b =>
    if k ∈ s.queue then ({ s with queue := s.queue.erase k ++ [k] }, .opened b.inc b.data)
    else (s, .opened b.inc b.data)

/-- `Open` + `WriteAt(p, off)` + `Close` (disk handles) -/
def write (s : State) (k : Key) (sc : Scope) (off : Nat) (p : Bytes) : State × Out :=
  match openB s k sc with
  | (s', .opened _ _) =>
    match s'.blobs.get k with
    | some b => ({ s' with blobs := s'.blobs.set k { b with data := writeAt b.data p off } }, .ok)
    | none => (s', .err .panic)
  | r => r

def stat (s : State) (k : Key) (sc : Scope) : State × Out :=
  match lookup s k sc with
  | .error e => (s, .err e)
  | .ok b => (s, .num b.data.length)

def has (s : State) (k : Key) (sc : Scope) : State × Out :=
  match s.blobs.get k with
  | none => (s, .has false false)
  | some b => (s, .has true (inScope b sc))

/-- `MarkComplete` (unscoped): enqueue unless banned, drop immovable metadata -/
def markComplete (s : State) (k : Key) : State × Out :=
  match s.blobs.get k with
  | none => (s, .err .notExist)
  | some b =>
    if b.complete then (s, .ok) else
    let b' := { b with complete := true, mds := b.mds.filter (·.movable) }
    ({ s with blobs := s.blobs.set k b', queue := if b.banned then s.queue else s.queue ++ [k] }, .ok)

def delete (s : State) (k : Key) (sc : Scope) : State × Out :=
  match lookup s k sc with
  | .error e => (s, .err e)
  | .ok b => (release { s with blobs := s.blobs.del k, queue := s.queue.erase k } b.size, .ok)

def ban (s : State) (k : Key) (sc : Scope) : State × Out :=
  match lookup s k sc with
  | .error e => (s, .err e)
  | .ok b =>
    if b.banned then (s, .ok) else
    if b.complete then
      -- `s.evictQueue.Remove(b.node)`: a nil node panics
      if k ∈ s.queue then
        ({ s with blobs := s.blobs.set k { b with banned := true }, queue := s.queue.erase k }, .ok)
      else (s, .err .panic)
    else ({ s with blobs := s.blobs.set k { b with banned := true } }, .ok)

def unban (s : State) (k : Key) (sc : Scope) : State × Out :=
  match lookup s k sc with
  | .error e => (s, .err e)
  | .ok b =>
    if !b.banned then (s, .ok) else
    ({ s with blobs := s.blobs.set k { b with banned := false },
              queue := if b.complete then s.queue ++ [k] else s.queue }, .ok)

/-! metadata -/

def mdGet (mds : List Md) (sfx : Nat) : Option Md := mds.find? (·.sfx = sfx)
def mdDel (mds : List Md) (sfx : Nat) : List Md := mds.filter (·.sfx ≠ sfx)
def mdSet (mds : List Md) (m : Md) : List Md := m :: mdDel mds m.sfx

def setMd (s : State) (k : Key) (sc : Scope) (m : Md) : State × Out :=
  match lookup s k sc with
  | .error e => (s, .err e)
  | .ok b => ({ s with blobs := s.blobs.set k { b with mds := mdSet b.mds m } }, .ok)

def getMd (s : State) (k : Key) (sc : Scope) (sfx : Nat) : State × Out :=
  match lookup s k sc with
  | .error e => (s, .err e)
  | .ok b => match mdGet b.mds sfx with
    | some m => (s, .bytes m.val)
    | none => (s, .absent)

def delMd (s : State) (k : Key) (sc : Scope) (sfx : Nat) : State × Out :=
  match lookup s k sc with
  | .error e => (s, .err e)
  | .ok b => ({ s with blobs := s.blobs.set k { b with mds := mdDel b.mds sfx } }, .ok)

def listMd (s : State) (k : Key) (sc : Scope) : State × Out :=
  match lookup s k sc with
  | .error e => (s, .err e)
  | .ok b => (s, .sfxs (b.mds.map (·.sfx)))

/-- disk only: `WriteAtMetadata` -/
def writeAtMd (s : State) (k : Key) (sc : Scope) (sfx : Nat) (p : Bytes) (off : Nat) : State × Out :=
  match lookup s k sc with
  | .error e => (s, .err e)
  | .ok b => match mdGet b.mds sfx with
    | none => (s, .err .mdNotExist)
    | some m =>
      ({ s with blobs := s.blobs.set k { b with mds := mdSet b.mds { m with val := writeAt m.val p off } } }, .ok)

def list (s : State) (sc : Scope) : State × Out :=
  (s, .keys ((s.blobs.filter (fun e => inScope e.2 sc)).map (·.1)))

/-! ### `Clean` (disk only) -/

/-- the two `for key := range …` loops of `Clean`: delete the listed keys in order while
    `size > target`; a key that is gone gives `ErrNotExist` from `deleteNoLock` and aborts -/
def cleanLoop (target : Nat) : List Key → State → State × Option Err × List Key
  | [], s => (s, none, [])
  | k :: ks, s =>
    if s.size ≤ target then (s, none, []) else
    match delete s k .any with
    | (s', .ok) =>
      let r := cleanLoop target ks s'
      (r.1, r.2.1, k :: r.2.2)
    | (s', _) => (s', some .notExist, [])

def isBanned (s : State) (k : Key) : Bool :=
  match s.blobs.get k with
  | some b => b.banned
  | none => false

/-- `Clean(targetUtilPercent, respectEvictionBan)`. `ord` is the iteration order of the Go map (a
    nondeterministic choice of the implementation; the theorems quantify over every `ord`). -/
def clean (s : State) (pct : Int) (respect : Bool) (ord : List Key) : State × Out :=
  let util (t : State) : Nat := (t.size * 100 % U64) / t.cap
  if pct < 0 ∨ pct ≥ 100 then (s, .cleaned (util s) (some .badArg) []) else
  let target := (s.cap * pct.toNat % U64) / 100
  let required := s.cap - target
  match ensureFree s required with
  | (s1, .ok, ev) => (s1, .cleaned (util s1) none ev)
  | (s1, .panic, ev) => (s1, .cleaned (util s1) (some .panic) ev)
  | (s1, .noSpace, ev) =>
    -- snapshot of the not-banned keys, in map order
    let c2 := ord.filter (fun k => (s1.blobs.get k).isSome && !isBanned s1 k)
    match cleanLoop target c2 s1 with
    | (s2, some e, d2) => (s2, .cleaned (util s2) (some e) (ev ++ d2))
    | (s2, none, d2) =>
      -- (an early `return` out of the first loop and falling through to the second loop, whose
      --  first test is again `size <= target`, have the same effect)
      if respect then (s2, .cleaned (util s2) none (ev ++ d2)) else
      let c3 := ord.filter (fun k => (s2.blobs.get k).isSome)
      match cleanLoop target c3 s2 with
      | (s3, e, d3) => (s3, .cleaned (util s3) e (ev ++ d2 ++ d3))

/-! ### the store as a transition system -/

inductive Op where
  | create (k : Key) (size : Nat) (data : Bytes)
  | open (k : Key) (sc : Scope)
  | write (k : Key) (sc : Scope) (off : Nat) (p : Bytes)
  | stat (k : Key) (sc : Scope)
  | has (k : Key) (sc : Scope)
  | markComplete (k : Key)
  | delete (k : Key) (sc : Scope)
  | ban (k : Key) (sc : Scope)
  | unban (k : Key) (sc : Scope)
  | setMd (k : Key) (sc : Scope) (m : Md)
  | getMd (k : Key) (sc : Scope) (sfx : Nat)
  | delMd (k : Key) (sc : Scope) (sfx : Nat)
  | listMd (k : Key) (sc : Scope)
  | writeAtMd (k : Key) (sc : Scope) (sfx : Nat) (p : Bytes) (off : Nat)
  | list (sc : Scope)
  | clean (pct : Int) (respect : Bool) (ord : List Key)
  deriving DecidableEq, Repr

def apply (s : State) : Op → State × Out
  | .create k n d => create s k n d
  | .open k sc => openB s k sc
  | .write k sc off p => write s k sc off p
  | .stat k sc => stat s k sc
  | .has k sc => has s k sc
  | .markComplete k => markComplete s k
  | .delete k sc => delete s k sc
  | .ban k sc => ban s k sc
  | .unban k sc => unban s k sc
  | .setMd k sc m => setMd s k sc m
  | .getMd k sc sfx => getMd s k sc sfx
  | .delMd k sc sfx => delMd s k sc sfx
  | .listMd k sc => listMd s k sc
  | .writeAtMd k sc sfx p off => writeAtMd s k sc sfx p off
  | .list sc => list s sc
  | .clean pct r ord => clean s pct r ord

def step (s : State) (o : Op) : State := (apply s o).1
def output (s : State) (o : Op) : Out := (apply s o).2

/-! ### handles of the memory store (`memory.File`) -/

/-- a `memory.File`: pointer to the slice header of one incarnation + private offset -/
structure Handle where
  key : Key
  inc : Nat
  off : Nat := 0
  deriving DecidableEq, Repr

inductive HOut where
  | evicted
  | eof
  | data (b : Bytes) (eof : Bool)    -- bytes read (+ io.EOF alongside a short ReadAt)
  | n (v : Nat)                      -- count written / new offset / size
  | minus1                           -- Size() of an evicted blob
  | invalid                          -- "invalid whence" / "invalid seek location" / "negative offset"
  deriving DecidableEq, Repr

/-- `getData`: the slice of the handle's incarnation, `none` once it has been nil-ed -/
def hBlob (s : State) (h : Handle) : Option Blob :=
  match s.blobs.get h.key with
  | some b => if b.inc = h.inc then some b else none
  | none => none

def hRead (s : State) (h : Handle) (n : Nat) : Handle × HOut :=
  if n = 0 then (h, .data [] false) else
  match hBlob s h with
  | none => (h, .evicted)
  | some b =>
    if h.off ≥ b.data.length then (h, .eof) else
    let out := (b.data.drop h.off).take n
    ({ h with off := h.off + out.length }, .data out false)

def hReadAt (s : State) (h : Handle) (n : Nat) (off : Int) : HOut :=
  if n = 0 then .data [] false else
  if off < 0 then .invalid else
  match hBlob s h with
  | none => .evicted
  | some b =>
    if off.toNat ≥ b.data.length then .eof else
    let out := (b.data.drop off.toNat).take n
    .data out (out.length < n)

/-- whence: 0 start, 1 current, 2 end -/
def hSeek (s : State) (h : Handle) (off : Int) (whence : Nat) : Handle × HOut :=
  match hBlob s h with
  | none => (h, .evicted)
  | some b =>
    let target : Option Int := match whence with
      | 0 => some off
      | 1 => some (h.off + off)
      | 2 => some (b.data.length + off)
      | _ => none
    match target with
    | none => (h, .invalid)
    | some t => if t < 0 ∨ t > b.data.length then (h, .invalid) else ({ h with off := t.toNat }, .n t.toNat)

def hSize (s : State) (h : Handle) : HOut :=
  match hBlob s h with
  | none => .minus1
  | some b => .n b.data.length

def setData (s : State) (k : Key) (b : Blob) (d : Bytes) : State :=
  { s with blobs := s.blobs.set k { b with data := d } }

/-- largest Go `int` -/
def maxInt : Nat := 9223372036854775807

/-- `WriteAt(p, off)`: a negative offset and (since the `fix:` commit 7ee5f27) an offset whose end
    `off + len(p)` does not fit an `int` are refused before the blob is looked at -/
def hWriteAt (s : State) (h : Handle) (p : Bytes) (off : Int) : State × HOut :=
  if off < 0 ∨ off.toNat + p.length > maxInt then (s, .invalid) else
  match hBlob s h with
  | none => (s, .evicted)
  | some b => (setData s h.key b (writeAt b.data p off.toNat), .n p.length)

/-- a Go `int` sum: wrap-around into the signed 64-bit range -/
def toInt64 (n : Nat) : Int :=
  if n % 18446744073709551616 < 9223372036854775808 then ((n % 18446744073709551616 : Nat) : Int)
  else ((n % 18446744073709551616 : Nat) : Int) - 18446744073709551616

/-- `WriteAt` before the repair: `end := int(off) + len(p)` wraps around, `resizeSliceIfNecessary`
    does nothing (`len(buf) >= end`), and `buf[off:]` panics because `off > len(buf)` -/
def legacyWriteAtPanics (data : Bytes) (off plen : Nat) : Bool :=
  decide (toInt64 (off + plen) ≤ (data.length : Int)) && decide (data.length < off)

def hWrite (s : State) (h : Handle) (p : Bytes) : State × Handle × HOut :=
  match hBlob s h with
  | none => (s, h, .evicted)
  | some b => (setData s h.key b (writeAt b.data p h.off), { h with off := h.off + p.length }, .n p.length)

end KrakenModel.BlobStore
