/-
  Model of origin/blobserver.Server.maybeDelete (forced cleanup, C10 part 4): one cached blob,
  whether it is expired (`now - ModTime > ttl`), whether this origin owns it in the hash ring, its
  `_persist` sidecar, and the write-back tasks found for it with the outcome `SyncExec` will have for
  each, in the order `Find` returns them.
-/
namespace KrakenModel.ForceCleanup

structure Input where
  expired : Bool
  owns : Bool
  persist : Option Bool        -- none: no `_persist` sidecar
  tasks : List Bool            -- per task found: does SyncExec succeed?
  findFails : Bool := false    -- `writeBackManager.Find` returns an error
  deriving Repr, DecidableEq

inductive Result where
  | kept | deleted | error
  deriving Repr, DecidableEq

structure Output where
  result : Result
  executed : Nat               -- SyncExec calls made
  deleted : Bool               -- the cache file is gone afterwards
  persistAfter : Option Bool   -- the `_persist` sidecar of the blob afterwards (none: no sidecar / no blob)
  deriving Repr, DecidableEq

/-- `for _, task := range tasks { if err := SyncExec(task); err != nil { return } }`:
number of calls made, and whether all succeeded -/
def execAll : List Bool → Nat × Bool
  | [] => (0, true)
  | true :: rest => let (n, ok) := execAll rest; (n + 1, ok)
  | false :: _ => (1, false)

def maybeDelete (i : Input) : Output :=
  if i.expired || !i.owns then
    if i.persist == some true then
      -- any failure before the flag is cleared leaves the blob and its flag as they were
      if i.findFails then { result := .error, executed := 0, deleted := false, persistAfter := i.persist }
      else if (execAll i.tasks).2 then
        -- DeleteCacheFileMetadata(persist), then DeleteCacheFile
        { result := .deleted, executed := (execAll i.tasks).1, deleted := true, persistAfter := none }
      else { result := .error, executed := (execAll i.tasks).1, deleted := false, persistAfter := i.persist }
    else { result := .deleted, executed := 0, deleted := true, persistAfter := none }
  else { result := .kept, executed := 0, deleted := false, persistAfter := i.persist }

/-- what a later `DeleteCacheFile` of the blob answers -/
inductive DelRes where
  | ok | persisted | notExist
  deriving Repr, DecidableEq

def deleteAfter (o : Output) : DelRes :=
  if o.deleted then .notExist else if o.persistAfter == some true then .persisted else .ok

def outTok : Result → String
  | .kept => "kept" | .deleted => "deleted" | .error => "error"

end KrakenModel.ForceCleanup
