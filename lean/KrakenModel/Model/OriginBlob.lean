import KrakenModel.Model.CAStoreMem
/-
  The origin's HTTP write and read paths as compositions of CAStore calls (C01):
  origin/blobserver/server.go (start/patch/commit of internal transfers and of cluster uploads,
  GET blob with refresh from a storage backend, overwrite metainfo), origin/blobserver/uploader.go,
  lib/blobrefresh/refresher.go and lib/metainfogen/generator.go.

  * an upload is identified by the uid the server hands out (`u`, fresh by construction);
  * `failed` are the digests whose refresh error is still cached by the refresher's RequestCache
    (15 s; cases are much shorter), for which a new GET returns the cached error without downloading;
  * `pl` is the piece length the metainfo generator is configured with;
  * write-back bookkeeping (persist metadata, task queue) is not part of this property (C10/C30) except
    where it changes the status code: on a conflict a cluster upload re-schedules the write-back, which
    needs the *disk* file (500 when the blob only lives in the memory cache) and re-generates metainfo.
-/
namespace KrakenModel.OriginBlob
open KrakenModel KrakenModel.CAStoreMem

inductive Kind where
  | transfer | cluster
  deriving Repr, DecidableEq

structure State where
  cas : CAStoreMem.State
  pl : Int := 4
  failed : List Name := []
  deriving Repr, DecidableEq

inductive ORes where
  | ok | conflict | notFound | fail
  deriving Repr, DecidableEq

inductive OOp where
  | start (k : Kind) (name : Name) (u : String)
  | patch (k : Kind) (name : Name) (u : String) (off : Nat) (bytes : Bytes)
  | commit (k : Kind) (name : Name) (u : String)
  | fetch (name : Name) (size : Option Nat) (atts : List Attempt)   -- GET blob; `size` = backend Stat (none: not in the backend)
  | overwriteMeta (name : Name) (pl : Int)
  deriving Repr, DecidableEq

section
variable (H : Bytes → Name) (crc : Bytes → Nat)

def exists_ (s : State) (name : Name) : Bool := (statSize s.cas name).isSome

/-- `handleUploadConflict` for cluster uploads = `writeBack` (persist metadata on the disk file, add task,
generate metainfo); internal transfers just report the conflict -/
def conflict (s : State) (k : Kind) (name : Name) : State × ORes :=
  match k with
  | .transfer => (s, .conflict)
  | .cluster =>
    if KV.has s.cas.cache name then ({ s with cas := (genMetaFromFile crc s.cas name s.pl).1 }, .conflict)
    else (s, .fail)

def start (s : State) (k : Kind) (name : Name) (u : String) : State × ORes :=
  if exists_ s name then conflict crc s k name
  else match createUpload s.cas u with
    | (c, .ok) => ({ s with cas := c }, .ok)
    | (_, _) => (s, .fail)

def patch (s : State) (k : Kind) (name : Name) (u : String) (off : Nat) (bytes : Bytes) : State × ORes :=
  if exists_ s name then conflict crc s k name
  else match writeUpload s.cas u off bytes with
    | (c, .ok) => ({ s with cas := c }, .ok)
    | (_, .notExist) => (s, .notFound)
    | (_, _) => (s, .fail)

def commit (s : State) (k : Kind) (name : Name) (u : String) : State × ORes :=
  match commitUpload H s.cas u name with
  | (c, .ok) =>
    -- transfer: metaInfoGenerator.Generate; cluster: writeBack (… Generate); no replicas in the ring
    match genMetaFromFile crc c name s.pl with
    | (c', .ok) => ({ s with cas := c' }, .ok)
    | (c', _) => ({ s with cas := c' }, .fail)
  | (c, .notExist) => ({ s with cas := c }, .notFound)
  | (c, .exist) => conflict crc { s with cas := c } k name
  | (c, _) => ({ s with cas := c }, .fail)

/-- `downloadBlob`: serve what is readable; otherwise `Refresher.Refresh` (backend Stat, then the download
through `WriteBlobToCacheWithMetaInfo` in the background; the harness waits for its completion) -/
def fetch (s : State) (name : Name) (size : Option Nat) (atts : List Attempt) : State × ORes :=
  match readable s.cas name with
  | some _ => (s, .ok)
  | none =>
    match size with
    | none => (s, .notFound)
    | some sz =>
      if name ∈ s.failed then (s, .fail)
      else match writeBlob H crc s.cas name sz atts s.pl with
        | (c, .ok) =>
          -- `Refresher.download`: the piece length was chosen for the Stat size; if the stored blob has
          -- another length the store left the metainfo to the refresher, which generates it
          if statSize c name = some sz then ({ s with cas := c }, .ok)
          else match genMetaFromFile crc c name s.pl with
            | (c', .ok) => ({ s with cas := c' }, .ok)
            | (c', _) => ({ s with cas := c', failed := name :: s.failed }, .fail)
        | (c, _) => ({ s with cas := c, failed := name :: s.failed }, .fail)

def overwriteMeta (s : State) (name : Name) (pl : Int) : State × ORes :=
  match genMetaFromFile crc s.cas name pl with
  | (c, .ok) => ({ s with cas := c }, .ok)
  | (c, _) => ({ s with cas := c }, .fail)

def apply (s : State) : OOp → State × ORes
  | .start k n u => start crc s k n u
  | .patch k n u off b => patch crc s k n u off b
  | .commit k n u => commit H crc s k n u
  | .fetch n size atts => fetch H crc s n size atts
  | .overwriteMeta n pl => overwriteMeta crc s n pl

def step (s : State) (o : OOp) : State := (apply H crc s o).1

def run (cfg : Cfg) (pl : Int) (ops : List OOp) : State :=
  ops.foldl (step H crc) { cas := CAStoreMem.init cfg, pl := pl }

end
end KrakenModel.OriginBlob
