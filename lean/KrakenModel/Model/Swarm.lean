import KrakenModel.Model.AgentTorrent
/-
  Abstract swarm model (C19), built on the agent-torrent model of C03.

  A swarm is a list of peers that all work on the same torrent (one blob).  Each peer owns a
  torrent state (`AgentTorrent.State`: piece statuses, data file, sidecar, in-flight WritePiece
  calls) plus the dispatcher/scheduler bookkeeping the property talks about: connections,
  outstanding piece requests, requests marked invalid, and which in-flight WritePiece belongs
  to which delivery.  Actions (a schedule / fault sequence is any list of them):

    connect a b      a dials b and the connection is established (both below their connection limit; the
                     dialer does not dial a peer it has blacklisted, the acceptor does not look at its blacklist)
    dialfail a b     a's outgoing handshake to b fails or is refused: a blacklists b
    disconnect a b   the connection is dropped (either side, any time: preemption, ConnTTI/ConnTTL, a
                     failure); each side blacklists the other for the torrent
    unblacklist a b  a's blacklist entry for b expires (BlacklistDuration)
    expire a b i     a's outstanding request (b, i) times out on a's side (pieceRequestTimeout)
    reqfail a b i    b answers a's request with PIECE_REQUEST_FAILED: a marks the request invalid
    resend a f b i   resendFailedPieceRequests: the failed (invalid or expired) request (f, i) is sent
                     again, to b — never to the peer f that failed it
    leave a          peer a stops (all its connections drop; it answers nothing any more)
    request a b i    a sends PIECE_REQUEST i to b (pipeline limit, a misses i, b has i or lies)
    deliver a b i g  a PIECE_PAYLOAD of b for piece i arrives at a (solicited or not: handlePiecePayload
                     does not look at the request book) and a's dispatcher calls WritePiece; an honest b sends the bytes its GetPieceReader yields, a
                     corrupting b sends the bytes `g` (any bytes: a stronger adversary than
                     flipping); if b cannot serve the piece it answers with an error message and a
                     marks the request invalid
    tstep a tid k    one atomic step of WritePiece call `tid` at peer a (C03 model)
    resolve a tid    handlePiecePayload continues after WritePiece returned: ok -> the piece's
                     requests are cleared; ErrPieceComplete -> nothing; any other error -> the
                     request is marked invalid (to be re-sent to another peer)
-/
namespace KrakenModel.Swarm
open KrakenModel.AgentTorrent

structure Delivery where
  tid : Nat        -- the WritePiece call at the receiving peer
  src : Nat        -- the peer that sent the payload
  piece : Nat
  deriving Repr, DecidableEq

structure Peer where
  tor : State
  present : Bool := true
  corrupt : Bool := false
  conns : List Nat := []
  reqs : List (Nat × Nat) := []        -- outstanding (pending) requests (peer, piece)
  invalid : List (Nat × Nat) := []     -- requests marked invalid (peer, piece)
  expired : List (Nat × Nat) := []     -- requests that timed out (peer, piece)
  blacklist : List Nat := []           -- peers this peer will not connect to for the moment
  inflight : List Delivery := []
  deriving Repr, DecidableEq

structure Cfg where
  maxConns : Nat
  pipeline : Nat
  deriving Repr, DecidableEq

structure Swarm where
  cfg : Cfg
  peers : List Peer
  deriving Repr, DecidableEq

inductive Action where
  | connect (a b : Nat)
  | disconnect (a b : Nat)
  | dialfail (a b : Nat)
  | unblacklist (a b : Nat)
  | expire (a b i : Nat)
  | resend (a f b i : Nat)
  | reqfail (a b i : Nat)
  | leave (a : Nat)
  | request (a b i : Nat)
  | deliver (a b i : Nat) (g : Bytes)
  | tstep (a tid k : Nat)
  | resolve (a tid : Nat)
  deriving Repr, DecidableEq

/-- a torrent that already holds the whole blob (a seeder: an origin, or an agent after its download) -/
def seedState (mi : MetaInfo) (blob : Bytes) : State :=
  { mi := mi, pieces := List.replicate mi.numPieces .complete, file := blob, inCache := true,
    status := List.replicate mi.numPieces 1, numComplete := mi.numPieces, committed := true, threads := [] }

def hasPieceB (p : Peer) (i : Nat) : Bool := p.tor.pieces[i]? = some .complete

def setPeer (s : Swarm) (a : Nat) (p : Peer) : Swarm := { s with peers := s.peers.set a p }

/-- peer `a` drops its end of the connection to `b` (each side does so on its own; `b` may even be
    unknown): the requests to `b` are forgotten (ClearPeer) and `b` is blacklisted for a while -/
def dropEnd (s : Swarm) (a b : Nat) : Swarm :=
  match s.peers[a]? with
  | some pa => setPeer s a { pa with conns := pa.conns.erase b, reqs := pa.reqs.filter (·.1 ≠ b),
                                     blacklist := b :: pa.blacklist }
  | none => s

/-- `piecerequest.Manager.MarkInvalid(b, i)`: the request of peer `b` for piece `i`, if there is one
    (pending, or already timed out), becomes invalid; without such a request nothing is recorded -/
def markInvalid (pa : Peer) (b i : Nat) : Peer :=
  -- markStatus sets the status of EVERY request of that peer for that piece (the pending one and
  -- those that timed out earlier)
  let n := pa.reqs.count (b, i) + pa.expired.count (b, i)
  if n = 0 then pa
  else { pa with reqs := pa.reqs.filter (· ≠ (b, i)), expired := pa.expired.filter (· ≠ (b, i)),
                 invalid := List.replicate n (b, i) ++ pa.invalid }

/-- what b puts on the wire for piece i -/
def wirePayload (pb : Peer) (i : Nat) (g : Bytes) : Option Bytes :=
  if pb.corrupt then some g
  else match readPiece pb.tor (i : Int) with
    | .bytes x => some x
    | _ => none

def step (crc : Bytes → Nat) (s : Swarm) : Action → Swarm
  | .connect a b =>
    match s.peers[a]?, s.peers[b]? with
    | some pa, some pb =>
      if a ≠ b ∧ pa.present ∧ pb.present ∧ b ∉ pa.conns ∧ a ∉ pb.conns ∧
          pa.conns.length < s.cfg.maxConns ∧ pb.conns.length < s.cfg.maxConns ∧
          b ∉ pa.blacklist then
        setPeer (setPeer s a { pa with conns := b :: pa.conns }) b { pb with conns := a :: pb.conns }
      else s
    | _, _ => s
  | .disconnect a b => dropEnd (dropEnd s a b) b a
  | .dialfail a b =>
    match s.peers[a]? with
    | some pa => setPeer s a { pa with blacklist := b :: pa.blacklist }
    | none => s
  | .unblacklist a b =>
    match s.peers[a]? with
    | some pa => setPeer s a { pa with blacklist := pa.blacklist.filter (· ≠ b) }
    | none => s
  | .expire a b i =>
    match s.peers[a]? with
    | some pa =>
      if (b, i) ∈ pa.reqs then
        setPeer s a { pa with reqs := pa.reqs.erase (b, i), expired := (b, i) :: pa.expired }
      else s
    | none => s
  | .reqfail a b i =>
    -- an ERROR message PIECE_REQUEST_FAILED of b for piece i arrives at a
    match s.peers[a]? with
    | some pa => setPeer s a (markInvalid pa b i)
    | none => s
  | .resend a f b i =>
    match s.peers[a]?, s.peers[b]? with
    | some pa, some pb =>
      if ((f, i) ∈ pa.invalid ∨ (f, i) ∈ pa.expired) ∧ b ≠ f ∧
          pa.present ∧ b ∈ pa.conns ∧ ¬ hasPieceB pa i ∧ (hasPieceB pb i ∨ pb.corrupt) ∧
          (pa.reqs.filter (·.1 = b)).length < s.cfg.pipeline ∧ (b, i) ∉ pa.reqs then
        setPeer s a { pa with reqs := (b, i) :: pa.reqs }
      else s
    | _, _ => s
  | .leave a =>
    match s.peers[a]? with
    | some pa =>
      let peers := s.peers.map fun p => { p with conns := p.conns.erase a, reqs := p.reqs.filter (·.1 ≠ a) }
      { s with peers := peers.set a { pa with present := false, conns := [], reqs := [] } }
    | none => s
  | .request a b i =>
    match s.peers[a]?, s.peers[b]? with
    | some pa, some pb =>
      if pa.present ∧ b ∈ pa.conns ∧ ¬ hasPieceB pa i ∧ (hasPieceB pb i ∨ pb.corrupt) ∧
          (pa.reqs.filter (·.1 = b)).length < s.cfg.pipeline ∧ (b, i) ∉ pa.reqs then
        setPeer s a { pa with reqs := (b, i) :: pa.reqs }
      else s
    | _, _ => s
  | .deliver a b i g =>
    match s.peers[a]?, s.peers[b]? with
    | some pa, some pb =>
      if pa.present ∧ pb.present then
        match wirePayload pb i g with
        | some payload =>
          setPeer s a { pa with
            tor := AgentTorrent.step crc pa.tor (.spawn (i : Int) payload),
            inflight := pa.inflight ++ [{ tid := pa.tor.threads.length, src := b, piece := i }] }
        | none =>
          -- PIECE_REQUEST_FAILED error message: handleError marks the request invalid
          setPeer s a (markInvalid pa b i)
      else s
    | _, _ => s
  | .tstep a tid k =>
    match s.peers[a]? with
    | some pa => setPeer s a { pa with tor := AgentTorrent.step crc pa.tor (.step tid k) }
    | none => s
  | .resolve a tid =>
    match s.peers[a]? with
    | some pa =>
      match pa.inflight.find? (·.tid = tid), (pa.tor.threads[tid]?).bind (·.result) with
      | some d, some r =>
        let rest := pa.inflight.filter (·.tid ≠ tid)
        match r with
        | .ok => setPeer s a { pa with inflight := rest, reqs := pa.reqs.filter (·.2 ≠ d.piece),
                                       invalid := pa.invalid.filter (·.2 ≠ d.piece),
                                       expired := pa.expired.filter (·.2 ≠ d.piece) }   -- Clear(i)
        | .errComplete => setPeer s a { pa with inflight := rest, reqs := pa.reqs.erase (d.src, d.piece) }
        | _ => setPeer s a (markInvalid { pa with inflight := rest } d.src d.piece)
      | _, _ => s
    | none => s

def run (crc : Bytes → Nat) (s0 : Swarm) (sched : List Action) : Swarm := sched.foldl (step crc) s0

/-- initial swarm: `seeders` peers holding the blob (the listed ones corrupting), `agents` fresh agents -/
def initSwarm (cfg : Cfg) (mi : MetaInfo) (blob : Bytes) (seeders : List Bool) (agents : Nat) : Swarm :=
  { cfg := cfg,
    peers := seeders.map (fun c => { tor := seedState mi blob, corrupt := c }) ++
             List.replicate agents { tor := AgentTorrent.init mi } }

def missingCount (p : Peer) : Nat := (AgentTorrent.missing p.tor).length

end KrakenModel.Swarm
