import KrakenModel.Model.BlobStore
/-
  Model of lib/store/tiered (C09): a memory store and a disk store (both `Model.BlobStore`), the
  flusher's bookkeeping, client operations and the flush worker.

  * Client operations (`COp`) are the methods of `tiered.store`; `capply` runs one as a single step.
    In the code they hold the store mutex, which the worker never takes: `cseg` (below) cuts them at
    the points between their store calls — the harness runs worker steps there too; the invariant
    proof is about `capply`.
  * The flush worker is a small-step program (`PC`); its atomic steps are the lock regions of
    `flusher.go` — `nextToFlush`, `memOpen`, the abort check with `disk.Create`, each `Read` of the
    copy loop (with the `Write` that follows it), `disk.MarkComplete`, the `dirtyMD` snapshot, the
    read and the write of every `flushMetadata`, the `len(dirtyMD)==0` test with `delete(f.blobs,…)`,
    the deferred `mem.UnbanEviction`, and the two halves of `handleFlushFailure`.
  * Flusher entries are heap objects (`ents`, by id): the worker keeps the *pointer* it took from the
    queue, `f.blobs` (`fmap`) maps a **key** to the current entry — exactly as in the code, no
    incarnation in the map.  A schedule is a `List Act`; `work i` runs one atomic step of worker `i`.
  `io.Copy` moves the blob in chunks: every `Read` (with the `Write` that follows it) is one atomic
  step, the chunk length is a choice of the schedule (`pick`: 0 = everything that is left, the case of
  a blob shorter than the 32 KiB copy buffer; c > 0 = at most c bytes), so every buffer size and every
  short read is covered.
  Every metadata suffix is treated as registered with lib/store/metadata: for a suffix without a
  factory the (repaired) worker skips the flush, which is what this model does for a suffix that was
  never set — reading "absent" and deleting an absent sidecar on disk changes nothing.  The crash of
  the unrepaired worker on such a suffix is `legacyWorkerPanics`.
  Core Lean only.
-/
namespace KrakenModel.Tiered
open KrakenModel.BlobStore

/-- `flusher.blob` (the fields other than the mutex) -/
structure FEntry where
  key : Key
  dataDirty : Bool
  dataSize : Nat
  dirtyMD : List Nat
  deriving DecidableEq, Repr

inductive PC where
  | idle                       -- top of the worker loop, in front of the `select` on notify
  | next                       -- inside the drain loop, before `nextToFlush`
  | fOpen                      -- before memOpen
  | fCreate                    -- memOpen done, before the locked `f.blobs[key]` check + disk.Create
  | fCreated                   -- disk entry created, before io.Copy
  | fCopy                      -- before the first Read of io.Copy
  | fCopyEof                   -- a chunk written, before the next Read
  | fCopied (evicted : Bool)   -- io.Copy returned (ErrEvicted or nil), before disk.MarkComplete
  | mdSnap                     -- before the first dirtyMD snapshot
  | mdRead (todo : List Nat)   -- before mem.GetMetadata of the head of `todo`
  | mdWrite (sfx : Nat) (val : Option (Option Md)) (todo : List Nat)
                               -- value read from mem: none = ErrNotExist, some none = absent
  | mdCheck                    -- before the `len(b.dirtyMD) == 0` test
  | fail1                      -- handleFlushFailure: before disk.Delete
  | fail2                      -- … before delete(f.blobs, key)
  | unban                      -- deferred mem.UnbanEviction
  deriving DecidableEq, Repr

structure Worker where
  pc : PC := .idle
  ent : Nat := 0               -- id of the entry taken from the queue (`b *blob`)
  key : Key := 0
  dataDirty : Bool := false
  dataSize : Nat := 0
  minc : Nat := 0              -- incarnation behind `memF`
  dinc : Nat := 0              -- incarnation behind `diskF`
  copied : Nat := 0            -- bytes copied so far (offset of `memF` and `diskF`)
  deriving DecidableEq, Repr

structure TState where
  mem : State
  disk : State
  ents : List (Nat × FEntry) := []     -- heap of entries
  fmap : List (Key × Nat) := []        -- f.blobs : key ↦ entry id
  queue : List Key := []
  nextEnt : Nat := 0
  workers : List Worker := []
  /-- keys evicted (or refused) by the disk store since their last `Create`: the property makes no
      claim about them any more (ghost, never read by an operation) -/
  diskEvicted : List Key := []
  deriving DecidableEq, Repr

def tinit (memCap diskCap nWorkers : Nat) : TState :=
  { mem := init memCap, disk := init diskCap, workers := List.replicate nWorkers {} }

/-! small association-list helpers -/

def lookupEnt (ents : List (Nat × FEntry)) (id : Nat) : Option FEntry :=
  match ents with
  | [] => none
  | (i, e) :: rest => if i = id then some e else lookupEnt rest id

def setDirty (ents : List (Nat × FEntry)) (id : Nat) (d : List Nat) : List (Nat × FEntry) :=
  ents.map fun (i, e) => if i = id then (i, { e with dirtyMD := d }) else (i, e)

def fget (fmap : List (Key × Nat)) (k : Key) : Option Nat :=
  match fmap with
  | [] => none
  | (k', id) :: rest => if k' = k then some id else fget rest k

def fdel (fmap : List (Key × Nat)) (k : Key) : List (Key × Nat) := fmap.filter (·.1 ≠ k)
def fset (fmap : List (Key × Nat)) (k : Key) (id : Nat) : List (Key × Nat) := (k, id) :: fdel fmap k

def dirtyOf (t : TState) (id : Nat) : List Nat :=
  match lookupEnt t.ents id with
  | some e => e.dirtyMD
  | none => []

def inStore (s : State) (k : Key) : Bool := (s.blobs.get k).isSome

def isComplete (s : State) (k : Key) : Bool :=
  match s.blobs.get k with
  | some b => b.complete
  | none => false

/-- the keys a `disk.Create(k, size)` evicts from disk (admitted or not) -/
def diskVictims (d : State) (k : Key) (size : Nat) : List Key :=
  if inStore d k then [] else (ensureFree d size).2.2

/-! ### flusher entry points called by client operations -/

/-- `markDirty`: a fresh entry replaces whatever `f.blobs[key]` held -/
def markDirty (t : TState) (k : Key) (size : Nat) : TState :=
  let dirty := match t.mem.blobs.get k with
    | some b => b.mds.map (·.sfx)
    | none => []
  { t with ents := (t.nextEnt, { key := k, dataDirty := true, dataSize := size, dirtyMD := dirty }) :: t.ents,
           fmap := fset t.fmap k t.nextEnt, queue := t.queue ++ [k], nextEnt := t.nextEnt + 1 }

/-- `markMetadataDirty` -/
def markMetadataDirty (t : TState) (k : Key) (sfx : Nat) : TState :=
  match fget t.fmap k with
  | some id =>
    let d := dirtyOf t id
    { t with ents := setDirty t.ents id (if sfx ∈ d then d else sfx :: d) }
  | none =>
    if inStore t.disk k then
      -- ban (again): a flush that just finished may have unbanned the blob (since the `fix:` commit)
      { t with mem := (ban t.mem k .any).1, ents := (t.nextEnt, { key := k, dataDirty := false, dataSize := 0, dirtyMD := [sfx] }) :: t.ents,
               fmap := fset t.fmap k t.nextEnt, queue := t.queue ++ [k], nextEnt := t.nextEnt + 1 }
    else t

/-! ### client operations -/

inductive COp where
  | create (k : Key) (size : Nat) (data : Bytes)
  | open (k : Key) (sc : Scope)            -- Open + read everything
  | has (k : Key) (sc : Scope)
  | list (sc : Scope)
  | stat (k : Key) (sc : Scope)
  | markComplete (k : Key)
  | delete (k : Key) (sc : Scope)
  | setMd (k : Key) (sc : Scope) (m : Md)
  | getMd (k : Key) (sc : Scope) (sfx : Nat)
  | delMd (k : Key) (sc : Scope) (sfx : Nat)
  deriving DecidableEq, Repr

def tCreate (t : TState) (k : Key) (size : Nat) (data : Bytes) : TState × Out :=
  if inStore t.mem k || inStore t.disk k then (t, .err .exist) else
  let rm := create t.mem k size data
  match rm.2 with
  | .created _ _ => ({ t with mem := rm.1, diskEvicted := t.diskEvicted.filter (· ≠ k) }, .ok)
  | .err .noSpace =>
    -- fall back to disk (the evictions already made in memory stay)
    let rd := create t.disk k size data
    match rd.2 with
    | .created _ _ =>
      ({ t with mem := rm.1, disk := rd.1,
                diskEvicted := (t.diskEvicted ++ diskVictims t.disk k size).filter (· ≠ k) }, .ok)
    | o => ({ t with mem := rm.1, disk := rd.1, diskEvicted := t.diskEvicted ++ diskVictims t.disk k size }, o)
  | o => ({ t with mem := rm.1 }, o)

def tOpen (t : TState) (k : Key) (sc : Scope) : TState × Out :=
  let rm := openB t.mem k sc
  match rm.2 with
  | .opened _ d => ({ t with mem := rm.1 }, .bytes d)
  | .err .notExist =>
    let rd := openB t.disk k sc
    match rd.2 with
    | .opened _ d => ({ t with disk := rd.1 }, .bytes d)
    | o => (t, o)
  | o => (t, o)

def tHas (t : TState) (k : Key) (sc : Scope) : TState × Out :=
  match (has t.mem k sc).2 with
  | .has true b => (t, .has true b)
  | _ => (t, (has t.disk k sc).2)

def keysOf : Out → List Key
  | .keys ks => ks
  | _ => []

def tList (t : TState) (sc : Scope) : TState × Out :=
  let dk := keysOf (list t.disk sc).2
  let mk := keysOf (list t.mem sc).2
  let all := dk ++ mk.filter (· ∉ dk)
  let all := if sc = .incomplete then all.filter (fun k => !isComplete t.mem k) else all
  (t, .keys all)

def tStat (t : TState) (k : Key) (sc : Scope) : TState × Out :=
  match (stat t.mem k sc).2 with
  | .err .notExist => (t, (stat t.disk k sc).2)
  | o => (t, o)

def tMarkComplete (t : TState) (k : Key) : TState × Out :=
  if isComplete t.mem k then (t, .ok) else
  if isComplete t.disk k then (t, .ok) else
  let rb := ban t.mem k .any
  match rb.2 with
  | .err .notExist => ({ t with disk := (markComplete t.disk k).1 }, (markComplete t.disk k).2)
  | .ok =>
    let rc := markComplete rb.1 k
    match rc.2 with
    | .ok =>
      let size := match rc.1.blobs.get k with | some b => b.data.length | none => 0
      (markDirty { t with mem := rc.1 } k size, .ok)
    | o => ({ t with mem := rc.1 }, o)
  | o => ({ t with mem := rb.1 }, o)

def tDelete (t : TState) (k : Key) (sc : Scope) : TState × Out :=
  let rm := delete t.mem k sc
  match rm.2 with
  | .err .outOfScope => (t, .err .outOfScope)
  | .err .notExist => ({ t with disk := (delete t.disk k sc).1 }, (delete t.disk k sc).2)
  | .ok =>
    -- flusher.abort, then the unscoped disk delete (ErrNotExist tolerated)
    ({ t with mem := rm.1, fmap := fdel t.fmap k, disk := (delete t.disk k .any).1 }, .ok)
  | o => ({ t with mem := rm.1 }, o)

def tSetMd (t : TState) (k : Key) (sc : Scope) (m : Md) : TState × Out :=
  let rb := ban t.mem k sc
  match rb.2 with
  | .err .outOfScope => (t, .err .outOfScope)
  | .err .notExist => ({ t with disk := (setMd t.disk k sc m).1 }, (setMd t.disk k sc m).2)
  | .ok => (markMetadataDirty { t with mem := (setMd rb.1 k .any m).1 } k m.sfx, .ok)
  | o => ({ t with mem := rb.1 }, o)

def tGetMd (t : TState) (k : Key) (sc : Scope) (sfx : Nat) : TState × Out :=
  match (getMd t.mem k sc sfx).2 with
  | .err .notExist => (t, (getMd t.disk k sc sfx).2)
  | o => (t, o)

def tDelMd (t : TState) (k : Key) (sc : Scope) (sfx : Nat) : TState × Out :=
  let rb := ban t.mem k sc
  match rb.2 with
  | .err .outOfScope => (t, .err .outOfScope)
  | .err .notExist => ({ t with disk := (delMd t.disk k sc sfx).1 }, (delMd t.disk k sc sfx).2)
  | .ok => (markMetadataDirty { t with mem := (delMd rb.1 k .any sfx).1 } k sfx, .ok)
  | o => ({ t with mem := rb.1 }, o)

def capply (t : TState) : COp → TState × Out
  | .create k n d => tCreate t k n d
  | .open k sc => tOpen t k sc
  | .has k sc => tHas t k sc
  | .list sc => tList t sc
  | .stat k sc => tStat t k sc
  | .markComplete k => tMarkComplete t k
  | .delete k sc => tDelete t k sc
  | .setMd k sc m => tSetMd t k sc m
  | .getMd k sc sfx => tGetMd t k sc sfx
  | .delMd k sc sfx => tDelMd t k sc sfx

/-! ### the flush worker -/

/-- `nextToFlush`: the first queued key that still has an entry; keys without one are dropped -/
def popQueue (fmap : List (Key × Nat)) : List Key → Option (Key × Nat) × List Key
  | [] => (none, [])
  | k :: q => match fget fmap k with
    | some id => (some (k, id), q)
    | none => popQueue fmap q

/-- one `Read` of `io.Copy` and the `Write` of what it returned: `ErrEvicted` once the memory handle is
    stale, `io.EOF` at the end, otherwise the next chunk (`pick` = 0: all that is left, else at most
    `pick` bytes) is appended to the disk file — unless that file has been unlinked meanwhile -/
def copyStep (t : TState) (w : Worker) (pick : Nat) : TState × Worker :=
  match hBlob t.mem { key := w.key, inc := w.minc } with
  | none => (t, { w with pc := .fCopied true })
  | some b =>
    if b.data.length ≤ w.copied then (t, { w with pc := .fCopied false }) else
    let chunk := if pick = 0 then b.data.drop w.copied else (b.data.drop w.copied).take pick
    match hBlob t.disk { key := w.key, inc := w.dinc } with
    | some db =>
      ({ t with disk := setData t.disk w.key db (db.data ++ chunk) },
       { w with pc := .fCopyEof, copied := w.copied + chunk.length })
    | none => (t, { w with pc := .fCopyEof, copied := w.copied + chunk.length })

/-- one atomic step of a worker. `pick` resolves the nondeterministic choices of the code: the
    iteration order of the `dirtyMD` snapshot (a Go map) — at `mdRead` the entry at index
    `pick % length` of the remaining snapshot is flushed next — and the chunk length of a copy step -/
def wstep (t : TState) (w : Worker) (pick : Nat := 0) : TState × Worker :=
  match w.pc with
  | .idle => (t, { w with pc := .next })   -- a notify token arrived (or a spurious look at the queue)
  | .next =>
    match popQueue t.fmap t.queue with
    | (none, q) => ({ t with queue := q }, { w with pc := .idle })
    | (some (k, id), q) =>
      match lookupEnt t.ents id with
      | none => ({ t with queue := q }, { w with pc := .idle })
      | some e =>
        ({ t with queue := q },
         { w with pc := if e.dataDirty then .fOpen else .mdSnap, ent := id, key := k,
                  dataDirty := e.dataDirty, dataSize := e.dataSize })
  | .fOpen =>
    match (openB t.mem w.key .any).2 with
    | .opened inc _ => ({ t with mem := (openB t.mem w.key .any).1 }, { w with pc := .fCreate, minc := inc })
    | .err .notExist => (t, { w with pc := .mdSnap })
    | _ => (t, { w with pc := .fail1 })
  | .fCreate =>
    -- under f.mu: abort check, then disk.Create (one atomic section since the `fix:` commit)
    match fget t.fmap w.key with
    | none => (t, { w with pc := .mdSnap })
    | some _ =>
    let rd := create t.disk w.key w.dataSize []
    match rd.2 with
    | .created inc _ =>
      ({ t with disk := rd.1, diskEvicted := t.diskEvicted ++ diskVictims t.disk w.key w.dataSize },
       { w with pc := .fCreated, dinc := inc })
    | .err .noSpace =>
      -- refused for lack of disk space: the failure handler drops the blob like an eviction from disk
      ({ t with disk := rd.1, diskEvicted := w.key :: (t.diskEvicted ++ diskVictims t.disk w.key w.dataSize) },
       { w with pc := .fail1 })
    | _ => ({ t with disk := rd.1 }, { w with pc := .fail1 })
  | .fCreated => (t, { w with pc := .fCopy, copied := 0 })
  | .fCopy => copyStep t w pick
  | .fCopyEof => copyStep t w pick
  | .fCopied evicted =>
    if evicted then (t, { w with pc := .mdSnap })
    else ({ t with disk := (markComplete t.disk w.key).1 }, { w with pc := .mdSnap })
  | .mdSnap =>
    ({ t with ents := setDirty t.ents w.ent [] }, { w with pc := .mdRead (dirtyOf t w.ent) })
  | .mdRead [] => (t, { w with pc := .mdCheck })
  | .mdRead (s0 :: rest) =>
    let j := pick % (rest.length + 1)
    let sfx := (s0 :: rest).getD j s0
    let todo := (s0 :: rest).eraseIdx j
    let val : Option (Option Md) := match t.mem.blobs.get w.key with
      | none => none
      | some b => some (mdGet b.mds sfx)
    (t, { w with pc := .mdWrite sfx val todo })
  | .mdWrite sfx val todo =>
    let disk' := match val with
      | none => t.disk
      | some none => (delMd t.disk w.key .any sfx).1
      | some (some m) => (setMd t.disk w.key .any m).1
    ({ t with disk := disk' }, { w with pc := .mdRead todo })
  | .mdCheck =>
    let d := dirtyOf t w.ent
    if d.isEmpty then ({ t with fmap := fdel t.fmap w.key }, { w with pc := .unban })
    else ({ t with ents := setDirty t.ents w.ent [] }, { w with pc := .mdRead d })
  | .fail1 => ({ t with disk := (delete t.disk w.key .any).1 }, { w with pc := .fail2 })
  | .fail2 => ({ t with fmap := fdel t.fmap w.key }, { w with pc := .unban })
  | .unban =>
    -- under f.mu: unban only while no (new) dirty entry exists for the key (since the `fix:` commit)
    match fget t.fmap w.key with
    | some _ => (t, { w with pc := .next })
    | none => ({ t with mem := (unban t.mem w.key .any).1 }, { w with pc := .next })

/-! ### schedules -/

inductive Act where
  | client (o : COp)
  | work (i : Nat) (pick : Nat := 0)
  deriving DecidableEq, Repr

def tstep (t : TState) : Act → TState
  | .client o => (capply t o).1
  | .work i pick =>
    match t.workers[i]? with
    | none => t
    | some w =>
      let (t', w') := wstep t w pick
      { t' with workers := t'.workers.set i w' }

def trun (t : TState) (sched : List Act) : TState := sched.foldl tstep t

/-! ### what a client observes (pure reads used by the statements) -/

/-- the bytes `Open(k)` under scope `sc` would read now, if it succeeds -/
def openRead (t : TState) (k : Key) (sc : Scope) : Option Bytes :=
  match (tOpen t k sc).2 with
  | .bytes d => some d
  | _ => none

/-- what `GetMetadata(k, sfx)` would return now: `some (some v)` = value, `some none` = absent -/
def readMd (t : TState) (k : Key) (sfx : Nat) : Option (Option Bytes) :=
  match (tGetMd t k .any sfx).2 with
  | .bytes v => some (some v)
  | .absent => some none
  | _ => none

def visible (t : TState) (k : Key) : Bool := inStore t.mem k || inStore t.disk k

/-! ### `tiered.File`: a handle that survives the flush and the eviction from memory

`memF` is tried first on every call; once it answers `ErrEvicted` the handle switches over — once
(`sync.Once`) — to the disk copy opened **by key**, at the offset `memF` had reached.  A disk file
that has been unlinked (evicted / deleted) keeps its bytes for the holder of the descriptor: the
model answers `unknown` there (the property makes no claim about such blobs). -/

inductive Sw where
  | notYet                          -- `once` not fired
  | bad                             -- switch-over failed: `openErr` is sticky
  | disk (dinc : Nat) (off : Nat)   -- `diskF` and its offset
  deriving DecidableEq, Repr

structure TFile where
  key : Key
  mem : Option Nat := none          -- incarnation behind `memF` (none: opened from disk)
  moff : Nat := 0                   -- offset of `memF`
  sw : Sw := .notYet
  deriving DecidableEq, Repr

inductive FOut where
  | data (b : Bytes)
  | eof
  | n (v : Nat)
  | badSwitch
  | unknown
  | err (e : Err)
  deriving DecidableEq, Repr

/-- `store.Open` keeping the handle -/
def tOpenFile (t : TState) (k : Key) (sc : Scope) : TState × Option TFile × Out :=
  let rm := openB t.mem k sc
  match rm.2 with
  | .opened inc _ => ({ t with mem := rm.1 }, some { key := k, mem := some inc }, .ok)
  | .err .notExist =>
    let rd := openB t.disk k sc
    match rd.2 with
    | .opened inc _ => ({ t with disk := rd.1 }, some { key := k, sw := .disk inc 0 }, .ok)
    | o => (t, none, o)
  | o => (t, none, o)

/-- `openDiskFileIfNeeded` -/
def tfSwitch (t : TState) (f : TFile) : TState × TFile :=
  match f.sw with
  | .notYet =>
    match (openB t.disk f.key .any).2 with
    | .opened inc _ => ({ t with disk := (openB t.disk f.key .any).1 }, { f with sw := .disk inc f.moff })
    | _ => (t, { f with sw := .bad })
  | _ => (t, f)

/-- bytes behind an open disk descriptor (`none`: unlinked, not modelled) -/
def diskData (t : TState) (k : Key) (dinc : Nat) : Option Bytes :=
  (hBlob t.disk { key := k, inc := dinc }).map (·.data)

def tfViaDisk (t : TState) (f : TFile) (n : Nat) : TState × TFile × FOut :=
  match f.sw with
  | .disk dinc off =>
    match diskData t f.key dinc with
    | none => (t, f, .unknown)
    | some d =>
      if n = 0 then (t, f, .data []) else
      if d.length ≤ off then (t, f, .eof) else
      let out := (d.drop off).take n
      (t, { f with sw := .disk dinc (off + out.length) }, .data out)
  | _ => (t, f, .badSwitch)

/-- `File.Read(p)` with `len(p) = n` -/
def tfRead (t : TState) (f : TFile) (n : Nat) : TState × TFile × FOut :=
  match f.mem with
  | none => tfViaDisk t f n
  | some minc =>
    let r := hRead t.mem { key := f.key, inc := minc, off := f.moff } n
    match r.2 with
    | .evicted => let r' := tfSwitch t f; tfViaDisk r'.1 r'.2 n
    | .data b _ => (t, { f with moff := r.1.off }, .data b)
    | .eof => (t, f, .eof)
    | _ => (t, f, .err .badArg)

/-- `File.ReadAt(p, off)`; a short read carries `io.EOF` on both tiers -/
def tfReadAt (t : TState) (f : TFile) (n off : Nat) : TState × TFile × FOut × Bool :=
  let viaDisk (t : TState) (f : TFile) : TState × TFile × FOut × Bool :=
    match f.sw with
    | .disk dinc _ =>
      match diskData t f.key dinc with
      | none => (t, f, .unknown, false)
      | some d =>
        if n = 0 then (t, f, .data [], false) else
        if d.length ≤ off then (t, f, .eof, false) else
        let out := (d.drop off).take n
        (t, f, .data out, decide (out.length < n))
    | _ => (t, f, .badSwitch, false)
  match f.mem with
  | none => viaDisk t f
  | some minc =>
    match hReadAt t.mem { key := f.key, inc := minc, off := f.moff } n off with
    | .evicted => let r' := tfSwitch t f; viaDisk r'.1 r'.2
    | .data b e => (t, f, .data b, e)
    | .eof => (t, f, .eof, false)
    | _ => (t, f, .err .badArg, false)

/-- `File.Size()`: 0 after a failed switch-over -/
def tfSize (t : TState) (f : TFile) : TState × TFile × FOut :=
  let viaDisk (t : TState) (f : TFile) : TState × TFile × FOut :=
    match f.sw with
    | .disk dinc _ =>
      match diskData t f.key dinc with
      | none => (t, f, .unknown)
      | some d => (t, f, .n d.length)
    | _ => (t, f, .n 0)
  match f.mem with
  | none => viaDisk t f
  | some minc =>
    match hSize t.mem { key := f.key, inc := minc, off := f.moff } with
    | .n v => (t, f, .n v)
    | _ => let r' := tfSwitch t f; viaDisk r'.1 r'.2

/-- everything the handle delivers from offset 0 (what a fresh reader of the handle sees) -/
def tfContent (t : TState) (f : TFile) : Option Bytes :=
  match f.mem with
  | some minc =>
    match hBlob t.mem { key := f.key, inc := minc } with
    | some b => some b.data
    | none =>
      match (tfSwitch t f).2.sw with
      | .disk dinc _ => diskData (tfSwitch t f).1 f.key dinc
      | _ => none
  | none =>
    match f.sw with
    | .disk dinc _ => diskData t f.key dinc
    | _ => none

/-! ### client operations in the steps the code takes

The client operations of `tiered.store` run under `store.mu`, which the flush worker never takes:
worker steps may fall between the store calls of one operation.  `cseg t o i` is the `i`-th segment
of operation `o` (up to the next point between two store calls, or to the end: `some result`).
`crun` runs the segments back to back — `crun_eq_capply` (Proof/C09Split) shows that this is the
atomic `capply`.  The harness interleaves worker steps between the segments. -/

def cseg (t : TState) : COp → Nat → TState × Option Out
  | .create k size data, 0 =>
    if inStore t.mem k || inStore t.disk k then (t, some (.err .exist)) else
    let rm := create t.mem k size data
    match rm.2 with
    | .created _ _ => ({ t with mem := rm.1, diskEvicted := t.diskEvicted.filter (· ≠ k) }, some .ok)
    | .err .noSpace => ({ t with mem := rm.1 }, none)
    | o => ({ t with mem := rm.1 }, some o)
  | .create k size data, _ =>
    let rd := create t.disk k size data
    match rd.2 with
    | .created _ _ =>
      ({ t with disk := rd.1, diskEvicted := (t.diskEvicted ++ diskVictims t.disk k size).filter (· ≠ k) }, some .ok)
    | o => ({ t with disk := rd.1, diskEvicted := t.diskEvicted ++ diskVictims t.disk k size }, some o)
  | .markComplete k, 0 =>
    if isComplete t.mem k then (t, some .ok) else
    if isComplete t.disk k then (t, some .ok) else
    let rb := ban t.mem k .any
    match rb.2 with
    | .err .notExist => ({ t with disk := (markComplete t.disk k).1 }, some (markComplete t.disk k).2)
    | .ok => ({ t with mem := rb.1 }, none)
    | o => ({ t with mem := rb.1 }, some o)
  | .markComplete k, 1 =>
    let rc := markComplete t.mem k
    match rc.2 with
    | .ok => ({ t with mem := rc.1 }, none)
    | o => ({ t with mem := rc.1 }, some o)
  | .markComplete k, _ =>
    let size := match t.mem.blobs.get k with | some b => b.data.length | none => 0
    (markDirty t k size, some .ok)
  | .delete k sc, 0 =>
    let rm := delete t.mem k sc
    match rm.2 with
    | .err .outOfScope => (t, some (.err .outOfScope))
    | .err .notExist => ({ t with disk := (delete t.disk k sc).1 }, some (delete t.disk k sc).2)
    | .ok => ({ t with mem := rm.1 }, none)
    | o => ({ t with mem := rm.1 }, some o)
  | .delete k _, 1 => ({ t with fmap := fdel t.fmap k }, none)
  | .delete k _, _ => ({ t with disk := (delete t.disk k .any).1 }, some .ok)
  | .setMd k sc m, 0 =>
    let rb := ban t.mem k sc
    match rb.2 with
    | .err .outOfScope => (t, some (.err .outOfScope))
    | .err .notExist => ({ t with disk := (setMd t.disk k sc m).1 }, some (setMd t.disk k sc m).2)
    | .ok => ({ t with mem := rb.1 }, none)
    | o => ({ t with mem := rb.1 }, some o)
  | .setMd k _ m, 1 => ({ t with mem := (setMd t.mem k .any m).1 }, none)
  | .setMd k _ m, _ => (markMetadataDirty t k m.sfx, some .ok)
  | .delMd k sc sfx, 0 =>
    let rb := ban t.mem k sc
    match rb.2 with
    | .err .outOfScope => (t, some (.err .outOfScope))
    | .err .notExist => ({ t with disk := (delMd t.disk k sc sfx).1 }, some (delMd t.disk k sc sfx).2)
    | .ok => ({ t with mem := rb.1 }, none)
    | o => ({ t with mem := rb.1 }, some o)
  | .delMd k _ sfx, 1 => ({ t with mem := (delMd t.mem k .any sfx).1 }, none)
  | .delMd k _ sfx, _ => (markMetadataDirty t k sfx, some .ok)
  | o, _ => (capply t o).1 |> fun t' => (t', some (capply t o).2)

/-- the segments of `o` from segment `i` on, back to back (at most `fuel` of them) -/
def crun (t : TState) (o : COp) (i : Nat) : Nat → TState × Out
  | 0 => (t, .err .panic)
  | fuel + 1 =>
    match cseg t o i with
    | (t', some out) => (t', out)
    | (t', none) => crun t' o (i + 1) fuel

/-! ### the unrepaired worker on a suffix without a metadata factory -/

/-- `flushMetadata` before the repair: `metadata.CreateFromSuffix` returns nil for a suffix that no
    factory matches and `mem.GetMetadata(key, nil)` dereferences it — on the worker goroutine, which
    takes the process down.  `reg` says which suffixes have a factory. -/
def legacyWorkerPanics (reg : Nat → Bool) (w : Worker) (pick : Nat) : Bool :=
  match w.pc with
  | .mdRead (s0 :: rest) => !reg ((s0 :: rest).getD (pick % (rest.length + 1)) s0)
  | _ => false


end KrakenModel.Tiered
