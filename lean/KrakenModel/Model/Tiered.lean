import KrakenModel.Model.BlobStore
/-
  Model of lib/store/tiered (C09): a memory store and a disk store (both `Model.BlobStore`), the
  flusher's bookkeeping, client operations and the flush worker.

  * Client operations (`COp`) are the methods of `tiered.store`; each is modelled as one atomic step
    (the step controller of the harness runs them while every worker is parked).
  * The flush worker is a small-step program (`PC`); its atomic steps are the lock regions of
    `flusher.go` — `nextToFlush`, `memOpen`, the abort check with `disk.Create`, each `Read` of the
    copy loop (with the `Write` that follows it), `disk.MarkComplete`, the `dirtyMD` snapshot, the
    read and the write of every `flushMetadata`, the `len(dirtyMD)==0` test with `delete(f.blobs,…)`,
    the deferred `mem.UnbanEviction`, and the two halves of `handleFlushFailure`.
  * Flusher entries are heap objects (`ents`, by id): the worker keeps the *pointer* it took from the
    queue, `f.blobs` (`fmap`) maps a **key** to the current entry — exactly as in the code, no
    incarnation in the map.  A schedule is a `List Act`; `work i` runs one atomic step of worker `i`.
  Blobs are at most one copy buffer (32 KiB) long, so `io.Copy` performs at most two reads.
  Core Lean only.
-/
namespace KrakenModel.Tiered
open KrakenModel.BlobStore

/-- `flusher.blob` (the fields other than the mutex) -/
structure FEntry where
  key : Key
  dataDirty : Bool
  dataSize : Nat
  dirtyMD : List Nat
  deriving DecidableEq, Repr

inductive PC where
  | idle                       -- top of the worker loop, in front of the `select` on notify
  | next                       -- inside the drain loop, before `nextToFlush`
  | fOpen                      -- before memOpen
  | fCreate                    -- memOpen done, before the locked `f.blobs[key]` check + disk.Create
  | fCreated                   -- disk entry created, before io.Copy
  | fCopy                      -- before the first Read of io.Copy
  | fCopyEof                   -- first chunk written, before the second Read
  | fCopied (evicted : Bool)   -- io.Copy returned (ErrEvicted or nil), before disk.MarkComplete
  | mdSnap                     -- before the first dirtyMD snapshot
  | mdRead (todo : List Nat)   -- before mem.GetMetadata of the head of `todo`
  | mdWrite (sfx : Nat) (val : Option (Option Md)) (todo : List Nat)
                               -- value read from mem: none = ErrNotExist, some none = absent
  | mdCheck                    -- before the `len(b.dirtyMD) == 0` test
  | fail1                      -- handleFlushFailure: before disk.Delete
  | fail2                      -- … before delete(f.blobs, key)
  | unban                      -- deferred mem.UnbanEviction
  deriving DecidableEq, Repr

structure Worker where
  pc : PC := .idle
  ent : Nat := 0               -- id of the entry taken from the queue (`b *blob`)
  key : Key := 0
  dataDirty : Bool := false
  dataSize : Nat := 0
  minc : Nat := 0              -- incarnation behind `memF`
  dinc : Nat := 0              -- incarnation behind `diskF`
  deriving DecidableEq, Repr

structure TState where
  mem : State
  disk : State
  ents : List (Nat × FEntry) := []     -- heap of entries
  fmap : List (Key × Nat) := []        -- f.blobs : key ↦ entry id
  queue : List Key := []
  nextEnt : Nat := 0
  workers : List Worker := []
  /-- keys evicted (or refused) by the disk store since their last `Create`: the property makes no
      claim about them any more (ghost, never read by an operation) -/
  diskEvicted : List Key := []
  deriving DecidableEq, Repr

def tinit (memCap diskCap nWorkers : Nat) : TState :=
  { mem := init memCap, disk := init diskCap, workers := List.replicate nWorkers {} }

/-! small association-list helpers -/

def lookupEnt (ents : List (Nat × FEntry)) (id : Nat) : Option FEntry :=
  match ents with
  | [] => none
  | (i, e) :: rest => if i = id then some e else lookupEnt rest id

def setDirty (ents : List (Nat × FEntry)) (id : Nat) (d : List Nat) : List (Nat × FEntry) :=
  ents.map fun (i, e) => if i = id then (i, { e with dirtyMD := d }) else (i, e)

def fget (fmap : List (Key × Nat)) (k : Key) : Option Nat :=
  match fmap with
  | [] => none
  | (k', id) :: rest => if k' = k then some id else fget rest k

def fdel (fmap : List (Key × Nat)) (k : Key) : List (Key × Nat) := fmap.filter (·.1 ≠ k)
def fset (fmap : List (Key × Nat)) (k : Key) (id : Nat) : List (Key × Nat) := (k, id) :: fdel fmap k

def dirtyOf (t : TState) (id : Nat) : List Nat :=
  match lookupEnt t.ents id with
  | some e => e.dirtyMD
  | none => []

def inStore (s : State) (k : Key) : Bool := (s.blobs.get k).isSome

def isComplete (s : State) (k : Key) : Bool :=
  match s.blobs.get k with
  | some b => b.complete
  | none => false

/-- the keys a `disk.Create(k, size)` evicts from disk (admitted or not) -/
def diskVictims (d : State) (k : Key) (size : Nat) : List Key :=
  if inStore d k then [] else (ensureFree d size).2.2

/-! ### flusher entry points called by client operations -/

/-- `markDirty`: a fresh entry replaces whatever `f.blobs[key]` held -/
def markDirty (t : TState) (k : Key) (size : Nat) : TState :=
  let dirty := match t.mem.blobs.get k with
    | some b => b.mds.map (·.sfx)
    | none => []
  { t with ents := (t.nextEnt, { key := k, dataDirty := true, dataSize := size, dirtyMD := dirty }) :: t.ents,
           fmap := fset t.fmap k t.nextEnt, queue := t.queue ++ [k], nextEnt := t.nextEnt + 1 }

/-- `markMetadataDirty` -/
def markMetadataDirty (t : TState) (k : Key) (sfx : Nat) : TState :=
  match fget t.fmap k with
  | some id =>
    let d := dirtyOf t id
    { t with ents := setDirty t.ents id (if sfx ∈ d then d else sfx :: d) }
  | none =>
    if inStore t.disk k then
      -- ban (again): a flush that just finished may have unbanned the blob (since the `fix:` commit)
      { t with mem := (ban t.mem k .any).1, ents := (t.nextEnt, { key := k, dataDirty := false, dataSize := 0, dirtyMD := [sfx] }) :: t.ents,
               fmap := fset t.fmap k t.nextEnt, queue := t.queue ++ [k], nextEnt := t.nextEnt + 1 }
    else t

/-! ### client operations -/

inductive COp where
  | create (k : Key) (size : Nat) (data : Bytes)
  | open (k : Key) (sc : Scope)            -- Open + read everything
  | has (k : Key) (sc : Scope)
  | list (sc : Scope)
  | stat (k : Key) (sc : Scope)
  | markComplete (k : Key)
  | delete (k : Key) (sc : Scope)
  | setMd (k : Key) (sc : Scope) (m : Md)
  | getMd (k : Key) (sc : Scope) (sfx : Nat)
  | delMd (k : Key) (sc : Scope) (sfx : Nat)
  deriving DecidableEq, Repr

def tCreate (t : TState) (k : Key) (size : Nat) (data : Bytes) : TState × Out :=
  if inStore t.mem k || inStore t.disk k then (t, .err .exist) else
  let rm := create t.mem k size data
  match rm.2 with
  | .created _ _ => ({ t with mem := rm.1, diskEvicted := t.diskEvicted.filter (· ≠ k) }, .ok)
  | .err .noSpace =>
    -- fall back to disk (the evictions already made in memory stay)
    let rd := create t.disk k size data
    match rd.2 with
    | .created _ _ =>
      ({ t with mem := rm.1, disk := rd.1,
                diskEvicted := (t.diskEvicted ++ diskVictims t.disk k size).filter (· ≠ k) }, .ok)
    | o => ({ t with mem := rm.1, disk := rd.1, diskEvicted := t.diskEvicted ++ diskVictims t.disk k size }, o)
  | o => ({ t with mem := rm.1 }, o)

def tOpen (t : TState) (k : Key) (sc : Scope) : TState × Out :=
  let rm := openB t.mem k sc
  match rm.2 with
  | .opened _ d => ({ t with mem := rm.1 }, .bytes d)
  | .err .notExist =>
    let rd := openB t.disk k sc
    match rd.2 with
    | .opened _ d => ({ t with disk := rd.1 }, .bytes d)
    | o => (t, o)
  | o => (t, o)

def tHas (t : TState) (k : Key) (sc : Scope) : TState × Out :=
  match (has t.mem k sc).2 with
  | .has true b => (t, .has true b)
  | _ => (t, (has t.disk k sc).2)

def keysOf : Out → List Key
  | .keys ks => ks
  | _ => []

def tList (t : TState) (sc : Scope) : TState × Out :=
  let dk := keysOf (list t.disk sc).2
  let mk := keysOf (list t.mem sc).2
  let all := dk ++ mk.filter (· ∉ dk)
  let all := if sc = .incomplete then all.filter (fun k => !isComplete t.mem k) else all
  (t, .keys all)

def tStat (t : TState) (k : Key) (sc : Scope) : TState × Out :=
  match (stat t.mem k sc).2 with
  | .err .notExist => (t, (stat t.disk k sc).2)
  | o => (t, o)

def tMarkComplete (t : TState) (k : Key) : TState × Out :=
  if isComplete t.mem k then (t, .ok) else
  if isComplete t.disk k then (t, .ok) else
  let rb := ban t.mem k .any
  match rb.2 with
  | .err .notExist => ({ t with disk := (markComplete t.disk k).1 }, (markComplete t.disk k).2)
  | .ok =>
    let rc := markComplete rb.1 k
    match rc.2 with
    | .ok =>
      let size := match rc.1.blobs.get k with | some b => b.data.length | none => 0
      (markDirty { t with mem := rc.1 } k size, .ok)
    | o => ({ t with mem := rc.1 }, o)
  | o => ({ t with mem := rb.1 }, o)

def tDelete (t : TState) (k : Key) (sc : Scope) : TState × Out :=
  let rm := delete t.mem k sc
  match rm.2 with
  | .err .outOfScope => (t, .err .outOfScope)
  | .err .notExist => ({ t with disk := (delete t.disk k sc).1 }, (delete t.disk k sc).2)
  | .ok =>
    -- flusher.abort, then the unscoped disk delete (ErrNotExist tolerated)
    ({ t with mem := rm.1, fmap := fdel t.fmap k, disk := (delete t.disk k .any).1 }, .ok)
  | o => ({ t with mem := rm.1 }, o)

def tSetMd (t : TState) (k : Key) (sc : Scope) (m : Md) : TState × Out :=
  let rb := ban t.mem k sc
  match rb.2 with
  | .err .outOfScope => (t, .err .outOfScope)
  | .err .notExist => ({ t with disk := (setMd t.disk k sc m).1 }, (setMd t.disk k sc m).2)
  | .ok => (markMetadataDirty { t with mem := (setMd rb.1 k .any m).1 } k m.sfx, .ok)
  | o => ({ t with mem := rb.1 }, o)

def tGetMd (t : TState) (k : Key) (sc : Scope) (sfx : Nat) : TState × Out :=
  match (getMd t.mem k sc sfx).2 with
  | .err .notExist => (t, (getMd t.disk k sc sfx).2)
  | o => (t, o)

def tDelMd (t : TState) (k : Key) (sc : Scope) (sfx : Nat) : TState × Out :=
  let rb := ban t.mem k sc
  match rb.2 with
  | .err .outOfScope => (t, .err .outOfScope)
  | .err .notExist => ({ t with disk := (delMd t.disk k sc sfx).1 }, (delMd t.disk k sc sfx).2)
  | .ok => (markMetadataDirty { t with mem := (delMd rb.1 k .any sfx).1 } k sfx, .ok)
  | o => ({ t with mem := rb.1 }, o)

def capply (t : TState) : COp → TState × Out
  | .create k n d => tCreate t k n d
  | .open k sc => tOpen t k sc
  | .has k sc => tHas t k sc
  | .list sc => tList t sc
  | .stat k sc => tStat t k sc
  | .markComplete k => tMarkComplete t k
  | .delete k sc => tDelete t k sc
  | .setMd k sc m => tSetMd t k sc m
  | .getMd k sc sfx => tGetMd t k sc sfx
  | .delMd k sc sfx => tDelMd t k sc sfx

/-! ### the flush worker -/

/-- `nextToFlush`: the first queued key that still has an entry; keys without one are dropped -/
def popQueue (fmap : List (Key × Nat)) : List Key → Option (Key × Nat) × List Key
  | [] => (none, [])
  | k :: q => match fget fmap k with
    | some id => (some (k, id), q)
    | none => popQueue fmap q

/-- one atomic step of a worker. `pick` resolves the one nondeterministic choice of the code: the
    iteration order of the `dirtyMD` snapshot (a Go map) — at `mdRead` the entry at index
    `pick % length` of the remaining snapshot is flushed next -/
def wstep (t : TState) (w : Worker) (pick : Nat := 0) : TState × Worker :=
  match w.pc with
  | .idle => (t, { w with pc := .next })   -- a notify token arrived (or a spurious look at the queue)
  | .next =>
    match popQueue t.fmap t.queue with
    | (none, q) => ({ t with queue := q }, { w with pc := .idle })
    | (some (k, id), q) =>
      match lookupEnt t.ents id with
      | none => ({ t with queue := q }, { w with pc := .idle })
      | some e =>
        ({ t with queue := q },
         { w with pc := if e.dataDirty then .fOpen else .mdSnap, ent := id, key := k,
                  dataDirty := e.dataDirty, dataSize := e.dataSize })
  | .fOpen =>
    match (openB t.mem w.key .any).2 with
    | .opened inc _ => ({ t with mem := (openB t.mem w.key .any).1 }, { w with pc := .fCreate, minc := inc })
    | .err .notExist => (t, { w with pc := .mdSnap })
    | _ => (t, { w with pc := .fail1 })
  | .fCreate =>
    -- under f.mu: abort check, then disk.Create (one atomic section since the `fix:` commit)
    match fget t.fmap w.key with
    | none => (t, { w with pc := .mdSnap })
    | some _ =>
    let rd := create t.disk w.key w.dataSize []
    match rd.2 with
    | .created inc _ =>
      ({ t with disk := rd.1, diskEvicted := t.diskEvicted ++ diskVictims t.disk w.key w.dataSize },
       { w with pc := .fCreated, dinc := inc })
    | .err .noSpace =>
      -- refused for lack of disk space: the failure handler drops the blob like an eviction from disk
      ({ t with disk := rd.1, diskEvicted := w.key :: (t.diskEvicted ++ diskVictims t.disk w.key w.dataSize) },
       { w with pc := .fail1 })
    | _ => ({ t with disk := rd.1 }, { w with pc := .fail1 })
  | .fCreated => (t, { w with pc := .fCopy })
  | .fCopy =>
    match hBlob t.mem { key := w.key, inc := w.minc } with
    | none => (t, { w with pc := .fCopied true })
    | some b =>
      if b.data.isEmpty then (t, { w with pc := .fCopied false }) else
      match hBlob t.disk { key := w.key, inc := w.dinc } with
      | some db => ({ t with disk := setData t.disk w.key db b.data }, { w with pc := .fCopyEof })
      | none => (t, { w with pc := .fCopyEof })   -- the file behind diskF has been unlinked
  | .fCopyEof =>
    match hBlob t.mem { key := w.key, inc := w.minc } with
    | none => (t, { w with pc := .fCopied true })
    | some _ => (t, { w with pc := .fCopied false })
  | .fCopied evicted =>
    if evicted then (t, { w with pc := .mdSnap })
    else ({ t with disk := (markComplete t.disk w.key).1 }, { w with pc := .mdSnap })
  | .mdSnap =>
    ({ t with ents := setDirty t.ents w.ent [] }, { w with pc := .mdRead (dirtyOf t w.ent) })
  | .mdRead [] => (t, { w with pc := .mdCheck })
  | .mdRead (s0 :: rest) =>
    let j := pick % (rest.length + 1)
    let sfx := (s0 :: rest).getD j s0
    let todo := (s0 :: rest).eraseIdx j
    let val : Option (Option Md) := match t.mem.blobs.get w.key with
      | none => none
      | some b => some (mdGet b.mds sfx)
    (t, { w with pc := .mdWrite sfx val todo })
  | .mdWrite sfx val todo =>
    let disk' := match val with
      | none => t.disk
      | some none => (delMd t.disk w.key .any sfx).1
      | some (some m) => (setMd t.disk w.key .any m).1
    ({ t with disk := disk' }, { w with pc := .mdRead todo })
  | .mdCheck =>
    let d := dirtyOf t w.ent
    if d.isEmpty then ({ t with fmap := fdel t.fmap w.key }, { w with pc := .unban })
    else ({ t with ents := setDirty t.ents w.ent [] }, { w with pc := .mdRead d })
  | .fail1 => ({ t with disk := (delete t.disk w.key .any).1 }, { w with pc := .fail2 })
  | .fail2 => ({ t with fmap := fdel t.fmap w.key }, { w with pc := .unban })
  | .unban =>
    -- under f.mu: unban only while no (new) dirty entry exists for the key (since the `fix:` commit)
    match fget t.fmap w.key with
    | some _ => (t, { w with pc := .next })
    | none => ({ t with mem := (unban t.mem w.key .any).1 }, { w with pc := .next })

/-! ### schedules -/

inductive Act where
  | client (o : COp)
  | work (i : Nat) (pick : Nat := 0)
  deriving DecidableEq, Repr

def tstep (t : TState) : Act → TState
  | .client o => (capply t o).1
  | .work i pick =>
    match t.workers[i]? with
    | none => t
    | some w =>
      let (t', w') := wstep t w pick
      { t' with workers := t'.workers.set i w' }

def trun (t : TState) (sched : List Act) : TState := sched.foldl tstep t

/-! ### what a client observes (pure reads used by the statements) -/

/-- the bytes `Open(k)` under scope `sc` would read now, if it succeeds -/
def openRead (t : TState) (k : Key) (sc : Scope) : Option Bytes :=
  match (tOpen t k sc).2 with
  | .bytes d => some d
  | _ => none

/-- what `GetMetadata(k, sfx)` would return now: `some (some v)` = value, `some none` = absent -/
def readMd (t : TState) (k : Key) (sfx : Nat) : Option (Option Bytes) :=
  match (tGetMd t k .any sfx).2 with
  | .bytes v => some (some v)
  | .absent => some none
  | _ => none

def visible (t : TState) (k : Key) : Bool := inStore t.mem k || inStore t.disk k

end KrakenModel.Tiered
