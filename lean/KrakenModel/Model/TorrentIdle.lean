/-
  Model of the idle-timeout mechanism of the torrent scheduler (C18):

  * `dispatch.torrentAccessWatcher`: `lastWrite` is touched by a `WritePiece` that returned nil,
    `lastRead` by a piece reader whose `Close` returned nil (as repaired by the `fix:` commit; the
    original test was inverted), both start at the dispatcher's creation time;
  * `preemptionTickEvent.apply` (second loop): a torrent is removed when it is complete and
    `now - lastRead >= SeederTTI`, or incomplete and `now - lastWrite >= LeecherTTI`;
  * `state.removeTorrent`: an incomplete torrent's file is deleted from the archive, a complete one
    only loses its control; `removeTorrentEvent` (the RemoveTorrent API) additionally deletes the
    file in whatever state it is;
  * `newTorrentEvent` / `state.addTorrent` over agent storage: an existing control is reused, a
    cached blob yields a complete torrent, otherwise a download file is created; the eviction branch
    of `newTorrentEvent` (complete control whose blob the store's cleanup evicted) lets go of the old
    control — deleting nothing — and starts a new download;
  * `addIncomingConn`: a remote peer connects for a torrent the scheduler does not hold — a control
    without any local request is created over whatever is on disk (`peer`);
  * the store's cleanup evicting a cached blob (`evict`), a piece request whose payload can no longer
    be handed to the peer's connection (`lost`: the reader is never closed), and every other event of
    the scheduler (`other`: shutdown, announce results/errors, closed connections, failed handshakes):
    none of them drops a torrent or deletes a file.

  Time is a `Nat` (nanoseconds of the injected clock).  Events are atomic, as they are in the
  scheduler's event loop.  A torrent becomes complete on the dispatcher's goroutine (`write` of the
  last piece); its completion event is applied later, as a separate operation (`notice`), so every
  other event can fall into the window in between.  The per-torrent ghost fields `created`, `serves`, `writes` record when
  things happened; no transition reads them.
-/
namespace KrakenModel.TorrentIdle

abbrev Hash := Nat

structure Cfg where
  seederTTI : Nat
  leecherTTI : Nat
  numPieces : Nat
  deriving Repr, DecidableEq

structure Tor where
  /-- `torrentControls` has an entry (a dispatcher exists) -/
  present : Bool := false
  /-- `dispatcher.Complete()`: the torrent has been committed to the cache directory -/
  complete : Bool := false
  /-- complete pieces of the on-disk torrent -/
  pieces : List Nat := []
  lastRead : Nat := 0
  lastWrite : Nat := 0
  /-- the download-directory (partial) file exists -/
  dl : Bool := false
  /-- the cache-directory file (the completed blob) exists -/
  cached : Bool := false
  -- ghost
  created : Nat := 0
  /-- times at which a piece was served and its reader closed without error -/
  serves : List Nat := []
  /-- times at which a piece was received and written successfully -/
  writes : List Nat := []
  deriving Repr, DecidableEq

structure State where
  now : Nat := 0
  tors : Hash → Tor := fun _ => {}

inductive Op where
  | adv (d : Nat)
  /-- a download request: `CreateTorrent` (+ `prefill` pieces written through storage when the
      torrent is new on disk) followed by `newTorrentEvent` -/
  | new (h : Hash) (prefill : Nat)
  /-- a remote peer requests piece `i`; `closeOk` = the piece reader's `Close` returned nil -/
  | serve (h : Hash) (i : Nat) (closeOk : Bool)
  /-- a remote peer delivers piece `i`; `good` = the payload matches the piece checksum -/
  | write (h : Hash) (i : Nat) (good : Bool)
  | tick
  /-- the RemoveTorrent API -/
  | rm (h : Hash)
  /-- the event loop applies the pending completion notice(s) of torrent `h`
      (`dispatcherCompleteEvent`): nothing this model tracks changes -/
  | notice (h : Hash)
  /-- a remote peer connects for torrent `h` (`incomingConnEvent` → `addIncomingConn`): when the
      scheduler holds no control, one is created over the on-disk torrent (`prefill` pieces when the
      torrent is new on disk) — without any local request -/
  | peer (h : Hash) (prefill : Nat)
  /-- the store's cleanup deletes the cached blob of `h` (the scheduler is not told) -/
  | evict (h : Hash)
  /-- a remote peer requests piece `i`, but its connection is closed by the time the dispatcher hands
      the payload over: `Send` fails, the piece reader is never closed -/
  | lost (h : Hash) (i : Nat)
  /-- any other scheduler event (shutdown, announce result / error, connection closed, failed
      handshake, …) -/
  | other
  deriving Repr, DecidableEq

inductive Out where
  | none | absent | sent | rejected | ok | dup | invalid | done | waiting
  deriving Repr, DecidableEq

def init : State := {}

def allPieces (cfg : Cfg) (ps : List Nat) : Bool := (List.range cfg.numPieces).all (· ∈ ps)

/-- a control is created over the on-disk torrent: a cached blob gives a complete torrent, otherwise a
    download file exists (created now with `k` pieces when there was none) -/
def createTor (cfg : Cfg) (now : Nat) (t : Tor) (k : Nat) : Tor :=
  if t.cached then
    { t with present := true, complete := true, lastRead := now, lastWrite := now, created := now }
  else
    let full := decide (cfg.numPieces ≤ k)
    { t with present := true, pieces := List.range (min k cfg.numPieces), complete := full,
             dl := !full, cached := full, lastRead := now, lastWrite := now, created := now }

/-- the scheduler's control says complete while the blob is no longer in the cache -/
def evicted (t : Tor) : Bool := t.present && t.complete && !t.cached

/-- `CreateTorrent` + `newTorrentEvent.apply`. In the evicted state the caller's `CreateTorrent`
    starts a new download file; the event's eviction branch removes the old control (complete: nothing
    is deleted) and adds a new one. (`numPieces ≤ k`: the caller's own writes complete the blob again
    before the event is applied, so the event finds nothing wrong and keeps the control.) -/
def newTor (cfg : Cfg) (now : Nat) (t : Tor) (k : Nat) : Tor :=
  if t.present then
    if t.complete && !t.cached then
      if cfg.numPieces ≤ k then { t with cached := true }
      else createTor cfg now { t with present := false } k
    else t
  else createTor cfg now t k

/-- `incomingConnEvent` → `addIncomingConn` (`GetTorrent` + `addTorrent(…, false)` when no control) -/
def peerTor (cfg : Cfg) (now : Nat) (t : Tor) (k : Nat) : Tor :=
  if t.present then t else createTor cfg now t k

def newOut (t' : Tor) : Out := if t'.complete then .done else .waiting

/-- `handlePieceRequest` → `torrentAccessWatcher.GetPieceReader` → … → `pieceReaderCloseWatcher.Close` -/
def serveTor (now : Nat) (t : Tor) (i : Nat) (closeOk : Bool) : Tor × Out :=
  if !t.present then (t, .absent)
  else if i ∈ t.pieces then
    -- (also when the blob was evicted: the reader opens the file lazily, the payload message is handed to the
    -- connection, whose copy fails and closes the reader)
    (if closeOk then { t with lastRead := now, serves := now :: t.serves } else t, .sent)
  else (t, .rejected)

/-- `handlePiecePayload` → `torrentAccessWatcher.WritePiece` → `agentstorage.Torrent.WritePiece` -/
def writeTor (cfg : Cfg) (now : Nat) (t : Tor) (i : Nat) (good : Bool) : Tor × Out :=
  if !t.present then (t, .absent)
  else if i ∈ t.pieces then (t, .dup)
  else if cfg.numPieces ≤ i then (t, .invalid)
  else if !good then (t, .invalid)
  else
    let ps := i :: t.pieces
    let full := allPieces cfg ps
    ({ t with pieces := ps, lastWrite := now, writes := now :: t.writes,
              complete := t.complete || full,
              dl := if full then false else t.dl,
              cached := if full then true else t.cached }, .ok)

def idleSeeder (cfg : Cfg) (now : Nat) (t : Tor) : Bool :=
  t.complete && decide (cfg.seederTTI ≤ now - t.lastRead)

def idleLeecher (cfg : Cfg) (now : Nat) (t : Tor) : Bool :=
  !t.complete && decide (cfg.leecherTTI ≤ now - t.lastWrite)

/-- `state.removeTorrent` -/
def removeTor (t : Tor) : Tor :=
  if !t.present then t
  else if !t.complete then { t with present := false, dl := false, cached := false, pieces := [] }
  else { t with present := false }

/-- one iteration of the second loop of `preemptionTickEvent.apply` -/
def tickTor (cfg : Cfg) (now : Nat) (t : Tor) : Tor :=
  if t.present && (idleSeeder cfg now t || idleLeecher cfg now t) then removeTor t else t

/-- `removeTorrentEvent.apply`: `removeTorrent` then `torrentArchive.DeleteTorrent` -/
def rmTor (t : Tor) : Tor :=
  { removeTor t with dl := false, cached := false, pieces := [] }

/-- the store's cleanup -/
def evictTor (t : Tor) : Tor := if t.cached then { t with cached := false } else t

def upd (s : State) (h : Hash) (t : Tor) : State :=
  { s with tors := fun h' => if h' = h then t else s.tors h' }

def step (cfg : Cfg) (s : State) : Op → State × Out
  | .adv d => ({ s with now := s.now + d }, .none)
  | .new h k => let t' := newTor cfg s.now (s.tors h) k; (upd s h t', newOut t')
  | .serve h i c => let r := serveTor s.now (s.tors h) i c; (upd s h r.1, r.2)
  | .write h i g => let r := writeTor cfg s.now (s.tors h) i g; (upd s h r.1, r.2)
  | .tick => ({ s with tors := fun h => tickTor cfg s.now (s.tors h) }, .none)
  | .rm h => (upd s h (rmTor (s.tors h)), .ok)
  | .notice _ => (s, .none)
  | .peer h k => (upd s h (peerTor cfg s.now (s.tors h) k), .none)
  | .evict h => (upd s h (evictTor (s.tors h)), if (s.tors h).cached then .ok else .absent)
  | .lost h i => (s, if (s.tors h).present then (if i ∈ (s.tors h).pieces then .none else .rejected) else .absent)
  | .other => (s, .none)

def next (cfg : Cfg) (s : State) (o : Op) : State := (step cfg s o).1

def runFrom (cfg : Cfg) (s : State) (ops : List Op) : State := ops.foldl (next cfg) s

def run (cfg : Cfg) (ops : List Op) : State := runFrom cfg init ops

/-- the observable history: time, operation and what it returned, oldest first -/
def events (cfg : Cfg) : State → List Op → List (Nat × Op × Out)
  | _, [] => []
  | s, o :: os => (s.now, o, (step cfg s o).2) :: events cfg (next cfg s o) os

/-- time of a successfully closed piece serve of torrent `h` in the observable history -/
def serveOf (h : Hash) : Nat × Op × Out → Option Nat
  | (t, .serve h' _ true, .sent) => if h' = h then some t else none
  | _ => none

/-- time of a successful piece write of torrent `h` in the observable history -/
def writeOf (h : Hash) : Nat × Op × Out → Option Nat
  | (t, .write h' _ _, .ok) => if h' = h then some t else none
  | _ => none

end KrakenModel.TorrentIdle
