/- The origin's upload commit hands a blob over to write-back (`Server.writeBack` in origin/blobserver):
   after the upload has been moved into the cache, (1) the blob is marked persist, (2) a write-back task is
   handed to the write-back manager (durably queued).  Small-step, so that anything else — a delete request,
   a cleanup or eviction pass, a crash followed by a restart that sees the disk as it is — can happen between
   the two steps; either step can fail.  Core Lean only. -/
namespace KrakenModel.CommitWB

inductive Pc where
  | start | marked | done | failed
  deriving DecidableEq, Repr

structure State where
  pc : Pc := .start
  present : Bool := true     -- the blob's data file is in the cache
  persist : Bool := false    -- its persist sidecar says true
  queued : Bool := false     -- a write-back task for it is in the manager's store
  deriving DecidableEq, Repr

inductive Ev where
  | prog (ok : Bool)         -- the commit's next step, succeeding or failing
  | delete                   -- somebody tries to delete the blob (DeleteCacheFile, cleanup, eviction)
  deriving DecidableEq, Repr

/-- a delete attempt: refused while the blob is marked persist -/
def tryDelete (s : State) : State := if s.persist then s else { s with present := false }

/-- the order of the code: persist first, then queue.  Marking a missing blob fails. -/
def step (s : State) : Ev → State
  | .prog ok =>
    match s.pc with
    | .start => if s.present && ok then { s with persist := true, pc := .marked } else { s with pc := .failed }
    | .marked => if ok then { s with queued := true, pc := .done } else { s with pc := .failed }
    | _ => s
  | .delete => tryDelete s

/-- the other order (queue first, then persist), for contrast -/
def stepQueueFirst (s : State) : Ev → State
  | .prog ok =>
    match s.pc with
    | .start => if ok then { s with queued := true, pc := .marked } else { s with pc := .failed }
    | .marked => if s.present && ok then { s with persist := true, pc := .done } else { s with pc := .failed }
    | _ => s
  | .delete => tryDelete s

def run (evs : List Ev) : State := evs.foldl step {}
def runQueueFirst (evs : List Ev) : State := evs.foldl stepQueueFirst {}

end KrakenModel.CommitWB
