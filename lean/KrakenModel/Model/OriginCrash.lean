import KrakenModel.Util.FS
/-
  Model for C05: the blob cache of an origin / proxy (`lib/store.CAStore`) on its two directories.
    lib/store            CAStore: NewCAStore (upload directory wiped), CreateUploadFile, upload writes,
                         MoveUploadFileToCache (verify, then rename), SetCacheFileMetadata,
                         WriteBlobToCacheWithMetaInfo (disk path and memory cache + drain),
                         GetCacheFileReader, GetCacheFileMetadata, ListCacheFiles
    lib/store/base       localFileOp (reload of an entry from disk, TryStore and its last-access-time
                         sidecar, createFileHelper), localFileEntry (Create, MoveFrom, Delete,
                         SetMetadata = compareAndWriteFile)
    lib/metainfogen      Generator.Generate            (op `genmeta`)
    origin/blobserver    writeBack's persist flag      (op `persist`), getMetaInfo's read (op `getmeta`)

  Layout:  <root>/upload/<uid>/{data,_last_access_time}
           <root>/cache/<name[0:2]>/<name[2:4]>/<name>/{data,_last_access_time,_torrentmeta,_persist}

  The digest, the metainfo generator and "does this sidecar decode" are parameters; the (clock
  dependent) contents of `_last_access_time` are an opaque byte string.  One process at a time.
-/
namespace KrakenModel.OriginCrash
open KrakenModel.FS

inductive Name where
  | data | lat | tmeta | persist
  deriving DecidableEq, Repr

structure Cfg where
  wps : Nat                  -- WritePartSize (0: unlimited)
  lat : Bytes                -- a serialized current last access time
  mem : Bool                 -- memory cache enabled: refreshes go through it and are drained to disk
  verify : Bool := true      -- `SkipHashVerification` is off: a commit checks the digest of the upload
  digest : Bytes → String    -- hex SHA-256
  genMI : Bytes → Bytes      -- the serialized metainfo of a blob
  metaOK : Bytes → Bool      -- TorrentMeta.Deserialize accepts the bytes

def persistTrue : Bytes := [116, 114, 117, 101]
def persistFalse : Bytes := [102, 97, 108, 115, 101]

/-- casFileEntryFactory.GetRelativePath: two shard levels taken from the name -/
def shards (n : String) : List String :=
  (List.range (min 2 (n.length / 2))).map (fun i => String.ofList ((n.toList.drop (2 * i)).take 2))

def cacheDir (n : String) : Path := "cache" :: (shards n ++ [n])
def uploadDir (u : String) : Path := ["upload", u]

/-- the in-memory file maps of the process: upload entries, cache entries (with "the last access time
read from disk is old: the next locked read or write rewrites the sidecar") -/
structure Mem where
  uploads : List String := []
  cached : List (String × Bool) := []
  deriving DecidableEq, Repr

inductive Res where
  | ok | exist | notFound | verifyFail | errOther
  | persisted                    -- delete: the persist flag is set
  | bytes (b : Bytes)            -- read
  | found (t : Bytes)            -- getmeta: a sidecar that decodes
  | absent                       -- getmeta: os.IsNotExist
  | accepted                     -- metareq: 202, a refresh from the backend was started
  deriving DecidableEq, Repr

structure Out where
  mem : Mem
  calls : List (Call Name)
  res : Res

/-! ### building blocks -/

/-- base.compareAndWriteFile -/
def cawPlan (fs : FS Name) (dir : Path) (n : Name) (b : Bytes) : List (Call Name) :=
  match fs.file? dir n with
  | none => mkdirAllPlan fs dir ++ [Call.openTrunc dir n] ++ (if b = [] then [] else [Call.pwrite dir n 0 b])
  | some old =>
    if old = b then []
    else (if old.length = b.length then [] else [Call.truncate dir n b.length]) ++
         (if b = [] then [] else [Call.pwrite dir n 0 b])

/-- `TryStore`: a readable `_last_access_time` is kept, a missing or unreadable (empty) one is written -/
def latPlan (cfg : Cfg) (fs : FS Name) (dir : Path) : List (Call Name) :=
  match fs.file? dir .lat with
  | some (_ :: _) => []
  | _ => cawPlan fs dir .lat cfg.lat

/-- a readable last access time that is not a current one (older than the map's time resolution) -/
def latStale (cfg : Cfg) (fs : FS Name) (dir : Path) : Bool :=
  match fs.file? dir .lat with
  | some (x :: t) => decide (x :: t ≠ cfg.lat)
  | _ => false

def isCached (m : Mem) (n : String) : Bool := (aget m.cached n).isSome

structure Loaded where
  present : Bool
  mem : Mem
  fs : FS Name
  calls : List (Call Name)

/-- `reloadFileEntryHelper` on the cache store: an entry that is not in the map is loaded when its
blob file exists, and `TryStore` looks at its last access time -/
def loadCache (cfg : Cfg) (m : Mem) (fs : FS Name) (n : String) : Loaded :=
  if isCached m n then ⟨true, m, fs, []⟩
  else if (fs.file? (cacheDir n) .data).isSome then
    let cs := latPlan cfg fs (cacheDir n)
    ⟨true, { m with cached := aset m.cached n (latStale cfg fs (cacheDir n)) }, applyAll fs cs, cs⟩
  else ⟨false, m, fs, []⟩

/-- `syncGetAndTouch` (LoadForRead / LoadForWrite): an old last access time is replaced -/
def touch (cfg : Cfg) (m : Mem) (fs : FS Name) (n : String) : Mem × List (Call Name) :=
  if aget m.cached n = some true then
    ({ m with cached := aset m.cached n false }, cawPlan fs (cacheDir n) .lat cfg.lat)
  else (m, [])

/-- load and lock for reading or writing -/
def lockCache (cfg : Cfg) (m : Mem) (fs : FS Name) (n : String) : Loaded :=
  let l := loadCache cfg m fs n
  if l.present then
    let (m', tc) := touch cfg l.mem l.fs n
    ⟨true, m', applyAll l.fs tc, l.calls ++ tc⟩
  else l

/-- the `write` calls of one payload: parts of at most `wps` bytes -/
def chunkCalls (dir : Path) (wps : Nat) : Nat → Nat → Bytes → List (Call Name)
  | 0, _, _ => []
  | fuel + 1, off, p =>
    if p = [] then []
    else if wps = 0 then [Call.pwrite dir .data off p]
    else Call.pwrite dir .data off (p.take wps) :: chunkCalls dir wps fuel (off + wps) (p.drop wps)

/-! ### operations -/

/-- `CreateUploadFile(u, 0)` -/
def ustart (cfg : Cfg) (m : Mem) (fs : FS Name) (u : String) : Out :=
  if u ∈ m.uploads then ⟨m, [], .exist⟩ else
  let dir := uploadDir u
  let c1 := latPlan cfg fs dir
  let fs1 := applyAll fs c1
  let c2 := mkdirAllPlan fs1 dir ++ [Call.openTrunc dir .data, Call.truncate dir .data 0]
  ⟨{ m with uploads := m.uploads ++ [u] }, c1 ++ c2, .ok⟩

/-- `GetUploadFileReadWriter(u)`, `Seek(off)`, `Write(b)` -/
def uwrite (cfg : Cfg) (m : Mem) (fs : FS Name) (u : String) (off : Nat) (b : Bytes) : Out :=
  if u ∉ m.uploads then ⟨m, [], .notFound⟩ else
  if (fs.file? (uploadDir u) .data).isNone then ⟨m, [], .errOther⟩ else
  ⟨m, chunkCalls (uploadDir u) cfg.wps (b.length + 1) off b, .ok⟩

/-- `DeleteUploadFile(u)` (deferred by MoveUploadFileToCache and writeCacheFile) -/
def udelete (o : Order Name) (m : Mem) (fs : FS Name) (u : String) : Mem × List (Call Name) :=
  if u ∈ m.uploads then ({ m with uploads := m.uploads.filter (· ≠ u) }, removeAllPlan fs o (uploadDir u))
  else (m, [])

/-- `MoveUploadFileToCache(u, n)` -/
def commit (cfg : Cfg) (o : Order Name) (m : Mem) (fs : FS Name) (u n : String) : Out :=
  if u ∉ m.uploads then ⟨m, [], .notFound⟩ else
  let fin (m1 : Mem) (fs1 : FS Name) (cs : List (Call Name)) (r : Res) : Out :=
    let (m2, dc) := udelete o m1 fs1 u
    ⟨m2, cs ++ dc, r⟩
  match fs.file? (uploadDir u) .data with
  | none => fin m fs [] .errOther
  | some c =>
    if cfg.verify = true ∧ cfg.digest c ≠ n then fin m fs [] .verifyFail else
    -- createFileHelper on the cache store
    if isCached m n then
      let (m1, tc) := touch cfg m fs n
      fin m1 (applyAll fs tc) tc .exist
    else
      let l := loadCache cfg m fs n
      if l.present then fin l.mem l.fs l.calls .exist
      else
        -- a new entry: TryStore writes its last access time, MoveFrom renames the blob file in
        let dir := cacheDir n
        let c1 := latPlan cfg fs dir
        let fs1 := applyAll fs c1
        let c2 := mkdirAllPlan fs1 dir ++ [Call.rename (uploadDir u) .data dir .data]
        fin { m with cached := aset m.cached n (latStale cfg fs dir) } (applyAll fs1 c2) (c1 ++ c2) .ok

/-- `SetCacheFileMetadata(n, Persist(true))` -/
def persist (cfg : Cfg) (m : Mem) (fs : FS Name) (n : String) : Out :=
  let l := lockCache cfg m fs n
  if !l.present then ⟨m, [], .notFound⟩ else
  ⟨l.mem, l.calls ++ cawPlan l.fs (cacheDir n) .persist persistTrue, .ok⟩

/-- the tail of metainfo generation: read the cached blob, write `_torrentmeta`.
`src`: the bytes the metainfo is computed from when they are not read from the file (drain) -/
def writeMeta (cfg : Cfg) (m : Mem) (fs : FS Name) (n : String) (src : Option Bytes) : Out :=
  let l := lockCache cfg m fs n
  if !l.present then ⟨m, [], .notFound⟩ else
  match l.fs.file? (cacheDir n) .data with
  | none => ⟨l.mem, l.calls, .errOther⟩
  | some c => ⟨l.mem, l.calls ++ cawPlan l.fs (cacheDir n) .tmeta (cfg.genMI (src.getD c)), .ok⟩

/-- `metainfogen.Generator.Generate` -/
def genmeta (cfg : Cfg) (m : Mem) (fs : FS Name) (n : String) : Out := writeMeta cfg m fs n none

/-- the upload name `writeCacheFile` makes up (`<name>.<uuid>`) -/
def tmpName (n : String) : String := n ++ ".U"

/-- `WriteBlobToCacheWithMetaInfo(n, |b|, write b, pieceLength)`: the refresher's download. With the
memory cache the blob is verified in memory, served from there and drained to disk
(`writeDrainItemToDisk`), which makes the same calls with the metainfo computed from the buffer;
a blob that fails verification falls back to the disk path, which rejects it at the commit. -/
def refresh (cfg : Cfg) (o : Order Name) (m : Mem) (fs : FS Name) (n : String) (b : Bytes) : Out :=
  let tmp := tmpName n
  let r1 := ustart cfg m fs tmp
  if r1.res ≠ .ok then ⟨r1.mem, r1.calls, .errOther⟩ else
  let fs1 := applyAll fs r1.calls
  let r2 := uwrite cfg r1.mem fs1 tmp 0 b
  let fs2 := applyAll fs1 r2.calls
  let r3 := commit cfg o r2.mem fs2 tmp n
  let fs3 := applyAll fs2 r3.calls
  let pre := r1.calls ++ r2.calls ++ r3.calls
  if r3.res ≠ .ok ∧ r3.res ≠ .exist then ⟨r3.mem, pre, r3.res⟩ else
  -- the memory cache takes a blob that verifies; its drain computes the metainfo from the buffer
  let w := writeMeta cfg r3.mem fs3 n (if cfg.mem ∧ (cfg.verify = false ∨ cfg.digest b = n) then some b else none)
  ⟨w.mem, pre ++ w.calls, w.res⟩

/-- `DeleteCacheFile(n)` (TTL clean-up, forced clean-up; an LRU eviction does the same to its victim):
the entry leaves the file map whatever happens; a set persist flag refuses, an unreadable one fails;
otherwise the directory is removed -/
def delete (cfg : Cfg) (o : Order Name) (m : Mem) (fs : FS Name) (n : String) : Out :=
  let l := loadCache cfg m fs n
  if !l.present then ⟨m, [], .notFound⟩ else
  let m' : Mem := { l.mem with cached := adel l.mem.cached n }
  match l.fs.file? (cacheDir n) .persist with
  | some p =>
    if p = persistTrue then ⟨m', l.calls, .persisted⟩
    else if p = persistFalse then ⟨m', l.calls ++ removeAllPlan l.fs o (cacheDir n), .ok⟩
    else ⟨m', l.calls, .errOther⟩
  | none => ⟨m', l.calls ++ removeAllPlan l.fs o (cacheDir n), .ok⟩

/-- `GetCacheFileReader(n)` and reading it to the end -/
def read (cfg : Cfg) (m : Mem) (fs : FS Name) (n : String) : Out :=
  let l := lockCache cfg m fs n
  if !l.present then ⟨m, [], .notFound⟩ else
  match l.fs.file? (cacheDir n) .data with
  | none => ⟨l.mem, l.calls, .errOther⟩
  | some c => ⟨l.mem, l.calls, .bytes c⟩

/-- `GetCacheFileMetadata(n, &TorrentMeta{})` as `getMetaInfo` uses it: a sidecar that does not
decode (empty: created, not yet written; zero-filled: resized, not yet rewritten) counts as missing -/
def getmeta (cfg : Cfg) (m : Mem) (fs : FS Name) (n : String) : Out :=
  let l := loadCache cfg m fs n
  if !l.present then ⟨m, [], .absent⟩ else
  match l.fs.file? (cacheDir n) .tmeta with
  | none => ⟨l.mem, l.calls, .absent⟩
  | some t => ⟨l.mem, l.calls, if cfg.metaOK t then .found t else .absent⟩

/-- `Server.getMetaInfo` (origin/blobserver): a sidecar that decodes is served; otherwise a blob that is
cached gets its metainfo generated from the cached file (`Generate`) and served; a blob that is not
cached is fetched from the backend when the backend has it (`backend = some bytes`: the refresher's
download, answered 202 while it runs — its calls are part of this operation), else 404. -/
def metareq (cfg : Cfg) (o : Order Name) (m : Mem) (fs : FS Name) (n : String) (backend : Option Bytes) : Out :=
  let g := getmeta cfg m fs n
  match g.res with
  | .found t => ⟨g.mem, g.calls, .found t⟩
  | _ =>
    let fs1 := applyAll fs g.calls
    if (loadCache cfg g.mem fs1 n).present then
      let w := genmeta cfg g.mem fs1 n
      let fs2 := applyAll fs1 w.calls
      let g2 := getmeta cfg w.mem fs2 n
      ⟨g2.mem, g.calls ++ w.calls ++ g2.calls, match g2.res with | .found t => .found t | _ => .errOther⟩
    else
      match backend with
      | none => ⟨g.mem, g.calls, .notFound⟩
      | some b =>
        let r := refresh cfg o g.mem fs1 n b
        ⟨r.mem, g.calls ++ r.calls, .accepted⟩

def sortPaths (ps : List Path) : List Path :=
  isort (fun a b => decide (a.getLast?.getD "" ≤ b.getLast?.getD "")) ps

/-- a new process: `NewCAStore` wipes the upload directory and makes sure both directories exist -/
def restartPlan (o : Order Name) (fs : FS Name) : List (Call Name) :=
  let c0 := removeTreePlan fs o sortPaths 3 ["upload"]
  let fs0 := applyAll fs c0
  let c1 := mkdirAllPlan fs0 ["upload"]
  let fs1 := applyAll fs0 c1
  c0 ++ c1 ++ mkdirAllPlan fs1 ["cache"]

/-- `ListCacheFiles`: every entry below the two shard levels, whether or not it holds a blob file -/
def listNames (fs : FS Name) : List String :=
  (fs.paths.filter (fun p => p.length = 4 ∧ p.head? = some "cache")).filterMap (·.getLast?)

inductive Op where
  | ustart (u : String)
  | uwrite (u : String) (off : Nat) (b : Bytes)
  | commit (u n : String)
  | persist (n : String)
  | genmeta (n : String)
  | refresh (n : String) (b : Bytes)
  | read (n : String)
  | getmeta (n : String)
  | metareq (n : String) (backend : Option Bytes)
  | delete (n : String)
  | restart
  deriving DecidableEq, Repr

def exec (cfg : Cfg) (o : Order Name) (m : Mem) (fs : FS Name) : Op → Out
  | .ustart u => ustart cfg m fs u
  | .uwrite u off b => uwrite cfg m fs u off b
  | .commit u n => commit cfg o m fs u n
  | .persist n => persist cfg m fs n
  | .genmeta n => genmeta cfg m fs n
  | .refresh n b => refresh cfg o m fs n b
  | .read n => read cfg m fs n
  | .getmeta n => getmeta cfg m fs n
  | .metareq n backend => metareq cfg o m fs n backend
  | .delete n => delete cfg o m fs n
  | .restart => ⟨{}, restartPlan o fs, .ok⟩

def plan (cfg : Cfg) (o : Order Name) (m : Mem) (fs : FS Name) (op : Op) : List (Call Name) :=
  (exec cfg o m fs op).calls

/-- the tree a fresh installation starts on -/
def initFS : FS Name := ⟨[(["upload"], []), (["cache"], [])]⟩

end KrakenModel.OriginCrash
