import KrakenModel.Model.Retry
/-
  Model of the origin's upload-commit / write-back / deletion paths (C31):
    origin/blobserver/server.go   commitClusterUploadHandler, duplicateCommit…, handleUploadConflict,
                                  writeBack, deleteBlob, forceCleanupHandler / maybeDelete
    lib/persistedretry/writeback/executor.go   Exec (Stat short-cut, upload, clear persist flag)
    lib/store/base/file_entry.go  Delete (refuses while the persist flag is set)
  composed with the retry manager of C30 (`Model.Retry`).

  A task key `k` stands for a (namespace, blob) pair; `dig k` is its blob.  Several keys may share a
  blob (the same layer pushed under two namespaces).  `backend` is keyed by task: "the blob is in
  the backend of that namespace" (namespaces configured with different backends are the worst case).

  Atomic steps (a history is any interleaving of them):
    upload k delay     the blob file is moved into the cache (or is already there: 409 conflict path);
                       a writeBack call for k starts
    wbStep k           next step of the oldest running writeBack call for k:
                         SetCacheFileMetadata(persist) ; Manager.Add = addBegin ; addEnq ;
                         metainfo Generate (fails when the file is gone) ; acknowledge (200 / 409)
    retry o            poller steps, worker take, clock, close of the retry manager
    exec k up          a worker runs the write-back executor on k (`up`: is k's backend reachable)
    delete d           a deletion that respects the persist flag (periodic cleanup, DELETE endpoint)
    fcBegin d          forced cleanup of d up to and including Manager.Find
    fcFinish d downs   the rest: SyncExec of the tasks found, clear the flag, delete
    fcAtomic d downs   both without interleaving
    restart            process crash + start (threads die; files, flags, table, backend survive)
    fetch d            the blob enters the cache without any write-back (internal transfer from another
                       origin, download from the backend): no flag, no task
-/
namespace KrakenModel.OriginWB
open KrakenModel.Retry (Key)

abbrev Digest := Nat

inductive WbPc where
  | setPersist | add | enq | generate | ack
  deriving DecidableEq, Repr

structure Thread where
  key : Key
  delay : Nat
  pc : WbPc
  deriving DecidableEq, Repr

structure Paused where
  dig : Digest
  persisted : Bool
  tasks : List Key
  deriving DecidableEq, Repr

structure State where
  r : Retry.State := {}
  cache : List Digest := []
  persist : List Digest := []
  backend : List Key := []
  acked : List Key := []
  wb : List Thread := []
  fc : List Paused := []
  deriving DecidableEq, Repr

inductive Op where
  | upload (k : Key) (delay : Nat)
  | wbStep (k : Key)
  | retry (o : Retry.Op)
  | exec (k : Key) (up : Bool)
  | delete (d : Digest)
  | fcBegin (d : Digest)
  | fcFinish (d : Digest) (downs : List Key)
  | fcAtomic (d : Digest) (downs : List Key)
  | restart
  | fetch (d : Digest)
  deriving DecidableEq, Repr

def ins (l : List Nat) (x : Nat) : List Nat := if x ∈ l then l else l ++ [x]
def del (l : List Nat) (x : Nat) : List Nat := l.filter (· ≠ x)

/-- the retry-manager steps that happen on their own (not through a writeBack call or an executor run) -/
def internalOp : Retry.Op → Bool
  | .pollFetch | .pollMark | .pollEnq | .take _ | .advance _ | .close => true
  | _ => false

/-- replace / remove the oldest thread of `k` -/
def setPc : List Thread → Key → WbPc → List Thread
  | [], _, _ => []
  | t :: ts, k, pc => if t.key = k then { t with pc := pc } :: ts else t :: setPc ts k pc

def dropThread : List Thread → Key → List Thread
  | [], _ => []
  | t :: ts, k => if t.key = k then ts else t :: dropThread ts k

/-- what the write-back executor does to files and backend for task `t`:
(success?, backend, persist) -/
def runExecutor (dig : Key → Digest) (cache persist : List Digest) (backend : List Key) (t : Key) (up : Bool) :
    Bool × List Key × List Digest :=
  if up && decide (t ∈ backend) then (true, backend, del persist (dig t))       -- Stat: already uploaded
  else if dig t ∉ cache then (true, backend, persist)                            -- cache file missing: dropped
  else if up then (true, ins backend t, del persist (dig t))                     -- uploaded, flag cleared
  else (false, backend, persist)                                                 -- upload failed

/-- `SyncExec` of the tasks a forced cleanup found, in order; stops at the first failure -/
def syncAll (dig : Key → Digest) (cache : List Digest) (downs : List Key) :
    List Key → List Key → List Digest → Bool × List Key × List Digest
  | [], backend, persist => (true, backend, persist)
  | t :: ts, backend, persist =>
    match runExecutor dig cache persist backend t (decide (t ∉ downs)) with
    | (true, b', p') => syncAll dig cache downs ts b' p'
    | (false, b', p') => (false, b', p')

/-- maybeDelete after Find -/
def fcRun (dig : Key → Digest) (s : State) (p : Paused) (downs : List Key) : State :=
  if p.persisted then
    match syncAll dig s.cache downs p.tasks s.backend s.persist with
    | (false, b', p') => { s with backend := b', persist := p' }                  -- "writeback: …" error, nothing deleted
    | (true, b', p') =>
      let persist := del p' p.dig                                                  -- DeleteCacheFileMetadata(persist)
      { s with backend := b', persist := persist,
               cache := if p.dig ∈ persist then s.cache else del s.cache p.dig }   -- DeleteCacheFile (flag-respecting)
  else
    { s with cache := if p.dig ∈ s.persist then s.cache else del s.cache p.dig }

def fcSnapshot (dig : Key → Digest) (s : State) (d : Digest) : Paused :=
  if d ∈ s.persist then
    ⟨d, true, (Retry.keys s.r.rows).filter fun k => dig k = d⟩       -- Find(NameQuery(name))
  else ⟨d, false, []⟩

def takePaused : List Paused → Digest → Option (Paused × List Paused)
  | [], _ => none
  | p :: ps, d =>
    if p.dig = d then some (p, ps)
    else match takePaused ps d with
      | some (q, rest) => some (q, p :: rest)
      | none => none

def step (dig : Key → Digest) (s : State) : Op → State
  | .upload k delay =>
    { s with cache := ins s.cache (dig k), wb := s.wb ++ [⟨k, delay, .setPersist⟩] }
  | .wbStep k =>
    match s.wb.find? (fun t => t.key = k) with
    | none => s
    | some t =>
      match t.pc with
      | .setPersist =>
        if dig k ∈ s.cache then { s with persist := ins s.persist (dig k), wb := setPc s.wb k .add }
        else { s with wb := dropThread s.wb k }                                   -- "set persist metadata" 500
      | .add =>
        match Retry.stepO s.r (.addBegin k t.delay []) with
        | (r', .addedPending) => { s with r := r', wb := setPc s.wb k .enq }
        | (r', .addedFailed) => { s with r := r', wb := setPc s.wb k .generate }
        | (r', .dup) => { s with r := r', wb := setPc s.wb k .generate }
        | (r', _) => { s with r := r', wb := dropThread s.wb k }                  -- manager closed: 500
      | .enq =>
        match Retry.stepO s.r (.addEnq k) with
        | (r', .errNotFound) => { s with r := r', wb := dropThread s.wb k }
        | (r', _) => { s with r := r', wb := setPc s.wb k .generate }
      | .generate =>
        if dig k ∈ s.cache then { s with wb := setPc s.wb k .ack }
        else { s with wb := dropThread s.wb k }                                   -- "generate metainfo" 500
      | .ack => { s with acked := ins s.acked k, wb := dropThread s.wb k }
  | .retry o => if internalOp o then { s with r := Retry.step s.r o } else s
  | .exec k up =>
    match Retry.placeOf s.r.own k with
    | some (.running _) =>
      match runExecutor dig s.cache s.persist s.backend k up with
      | (ok, b', p') => { s with r := Retry.step s.r (.finish k ok), backend := b', persist := p' }
    | _ => s
  | .delete d =>
    if d ∈ s.cache ∧ d ∉ s.persist then { s with cache := del s.cache d } else s
  | .fcBegin d =>
    if d ∈ s.cache then { s with fc := s.fc ++ [fcSnapshot dig s d] } else s
  | .fcFinish d downs =>
    match takePaused s.fc d with
    | none => s
    | some (p, rest) => fcRun dig { s with fc := rest } p downs
  | .fcAtomic d downs =>
    if d ∈ s.cache then fcRun dig s (fcSnapshot dig s d) downs else s
  | .restart =>
    { s with r := Retry.step (Retry.step s.r .crash) (.start []), wb := [], fc := [] }
  | .fetch d => { s with cache := ins s.cache d }

def init (cfg : Retry.Config) : State := { r := Retry.init cfg }

def run (dig : Key → Digest) (cfg : Retry.Config) (ops : List Op) : State :=
  ops.foldl (step dig) (init cfg)

def stored (s : State) (k : Key) : Prop := k ∈ Retry.keys s.r.rows

instance (s : State) (k : Key) : Decidable (stored s k) := by unfold stored; exact inferInstance

end KrakenModel.OriginWB
