import KrakenModel.Util.KV
/-
  Model of a cache file store with an LRU file map and its cleanup (C10).
  Anchors: lib/store/base/file_entry.go (Delete / persist check, metadata sidecars),
  lib/store/base/file_map.go (lruFileMap: TryStore, LoadFor*, Delete, syncRemoveOldestIfNeeded),
  lib/store/base/file_op.go (reloadFileEntryHelper, lockHelper, deleteHelper, createFileHelper),
  lib/store/cleanup.go (ttlBasedCleanup, readyForDeletion, customPolicyBasedCleanup, cachedInAgentPolicy).

  * `files` — the state directory on disk: name → size, mtime, `_persist` sidecar, `_last_access_time`
    sidecar (stored in whole seconds);
  * `map`   — the in-memory lruFileMap, most recently used first, with each entry's `lastAccessTime`;
  * `cap`   — map capacity (0 = no eviction), `res` — `timeResolution` (5 min), `now` — injected clock (ns).

  An entry leaves the map through Delete or through LRU eviction (`syncRemoveOldestIfNeeded`, which
  first tries to delete the *file*: that fails for a persisted file, and the entry is dropped from the
  map either way).  A file that is on disk but not in the map is reloaded by the next operation that
  names it (which can evict another entry).
-/
namespace KrakenModel.FileCleanup
open KrakenModel

abbrev Name := String

structure File where
  size : Nat
  mtime : Int
  persist : Option Bool := none
  lat : Option Int := none
  deriving Repr, DecidableEq

structure State where
  files : List (Name × File) := []
  map : List (Name × Int) := []
  cap : Nat := 0
  res : Int := 300000000000
  now : Int := 0
  deriving Repr, DecidableEq

def sec : Int := 1000000000

/-- `LastAccessTime.Serialize`: whole seconds -/
def truncSec (t : Int) : Int := (t / sec) * sec

def isPersisted (f : File) : Bool := f.persist == some true

/-- `localFileEntry.Delete` on the file `n`: refuses when the persist sidecar says true -/
def entryDelete (s : State) (n : Name) : State × Bool :=
  match KV.get s.files n with
  | none => (s, true)                         -- RemoveAll of a missing directory succeeds
  | some f => if isPersisted f then (s, false) else ({ s with files := KV.del s.files n }, true)

/-- `syncRemoveOldestIfNeeded`: runs (deferred) at the end of every `TryStore` -/
def evictIfNeeded (s : State) : State :=
  if s.cap = 0 ∨ s.map.length ≤ s.cap then s
  else match s.map.getLast? with
    | none => s
    | some (n, _) =>
      let s1 := (entryDelete s n).1            -- an error (persisted) is only logged
      { s1 with map := KV.del s1.map n }

/-- `TryStore` of a name that is not in the map (reload, or creation): the entry goes to the front, the
LAT sidecar is read, or written (= now) when absent; then the deferred eviction check -/
def storeEntry (s : State) (n : Name) : State :=
  match KV.get s.files n with
  | none => s
  | some f =>
    match f.lat with
    | some l => evictIfNeeded { s with map := (n, l) :: s.map }
    | none =>
      evictIfNeeded { s with map := (n, s.now) :: s.map,
                              files := KV.put s.files n { f with lat := some (truncSec s.now) } }

/-- `reloadFileEntryHelper`: nothing if the name is in the map; not-found if it is not on disk either -/
def reload (s : State) (n : Name) : State × Bool :=
  if KV.has s.map n then (s, true)
  else if KV.has s.files n then (storeEntry s n, true)
  else (s, false)

def moveFront (m : List (Name × Int)) (n : Name) : List (Name × Int) :=
  match KV.get m n with
  | none => m
  | some t => (n, t) :: KV.del m n

/-- `syncGetAndTouch`: move to front; refresh the access time (memory and sidecar) if the last refresh is
at least `res` old -/
def touch (s : State) (n : Name) : State :=
  match KV.get s.map n with
  | none => s
  | some t =>
    if s.now - t ≥ s.res then
      { s with map := (n, s.now) :: KV.del s.map n,
               files := match KV.get s.files n with
                 | some f => KV.put s.files n { f with lat := some (truncSec s.now) }
                 | none => s.files }
    else { s with map := moveFront s.map n }

inductive Res where
  | ok | notExist | exist | persisted
  deriving Repr, DecidableEq

/-- `lockHelper` with the peek level (`GetFileStat`, `GetFileMetadata`, `GetFilePath`) -/
def peek (s : State) (n : Name) : State × Res :=
  match reload s n with
  | (s1, false) => (s1, .notExist)
  | (s1, true) => if KV.has s1.map n then ({ s1 with map := moveFront s1.map n }, .ok) else (s1, .notExist)

/-- `lockHelper` with the read / write level (`GetFileReader`, `SetFileMetadata`, `DeleteFileMetadata`, …) -/
def access (s : State) (n : Name) : State × Res :=
  match reload s n with
  | (s1, false) => (s1, .notExist)
  | (s1, true) => if KV.has s1.map n then (touch s1 n, .ok) else (s1, .notExist)

def updFile (s : State) (n : Name) (g : File → File) : State :=
  match KV.get s.files n with
  | some f => { s with files := KV.put s.files n (g f) }
  | none => s

/-- `SetFileMetadata(name, NewPersist(b))` -/
def setPersist (s : State) (n : Name) (b : Bool) : State × Res :=
  match access s n with
  | (s1, .ok) => (updFile s1 n (fun f => { f with persist := some b }), .ok)
  | r => r

/-- `DeleteFileMetadata(name, &Persist{})` -/
def unpersist (s : State) (n : Name) : State × Res :=
  match access s n with
  | (s1, .ok) => (updFile s1 n (fun f => { f with persist := none }), .ok)
  | r => r

/-- `SetFileMetadata(name, NewLastAccessTime(t))` -/
def setLat (s : State) (n : Name) (t : Int) : State × Res :=
  match access s n with
  | (s1, .ok) => (updFile s1 n (fun f => { f with lat := some (truncSec t) }), .ok)
  | r => r

/-- the part of `TryStore` for a new file that runs before the deferred eviction check -/
def createInsert (s : State) (n : Name) (size : Nat) : State :=
  { s with map := (n, s.now) :: s.map,
           files := KV.put s.files n { size := size, mtime := s.now, lat := some (truncSec s.now) } }

/-- `CreateFile(name, state, size)`; the data file's mtime is whatever the harness sets afterwards -/
def create (s : State) (n : Name) (size : Nat) : State × Res :=
  if KV.has s.map n then ((access s n).1, .exist)        -- LoadForRead touches the entry
  else if KV.has s.files n then (storeEntry s n, .exist)
  else
    -- TryStore: entry to the front, LAT sidecar written (now), then the file is created, then eviction
    (evictIfNeeded (createInsert s n size), .ok)

/-- `DeleteFile(name)`: the entry leaves the map even when the file is persisted and stays -/
def delete (s : State) (n : Name) : State × Res :=
  match reload s n with
  | (s1, false) => (s1, .notExist)
  | (s1, true) =>
    if !KV.has s1.map n then (s1, .notExist) else
    let (s2, deleted) := entryDelete s1 n
    ({ s2 with map := KV.del s2.map n }, if deleted then .ok else .persisted)

/-! ### cleanup -/

/-- insertion sort of names (directory listings are sorted by name) -/
def insName (x : Name) : List Name → List Name
  | [] => [x]
  | y :: ys => if x ≤ y then x :: y :: ys else y :: insName x ys

def listNames (s : State) : List Name := (KV.keys s.files).foldr insName []

/-- `readyForDeletion(name, info, tti, ttl)` on the file as found on disk -/
def ready (now : Int) (f : File) (tti ttl : Int) : Bool :=
  (ttl > 0 && now - f.mtime > ttl) ||
  (match f.lat with
   | none => false
   | some l => now - l > tti)

structure Usage where
  total : Nat
  used : Nat
  deriving Repr, DecidableEq

def two64 : Nat := 18446744073709551616

/-- one iteration of the loop of `ttlBasedCleanup` -/
def ttlVisit (tti ttl : Int) (thr : Option Nat) (used : Nat) (acc : State × Nat) (n : Name) : State × Nat :=
  let (s, scanned) := acc
  match peek s n with                                   -- GetFileStat
  | (s1, .ok) =>
    match KV.get s1.files n with
    | none => (s1, scanned)
    | some f =>
      let s2 := (peek s1 n).1                           -- GetFileMetadata(LAT) inside readyForDeletion
      -- `(dInfo.UsedBytes - uint64(scannedBytes)) <= lowThresholdBytes` on uint64
      let breached := match thr with
        | none => false
        | some low => (used + two64 - scanned % two64) % two64 ≤ low
      let s3 := if ready s2.now f tti ttl && !breached then (delete s2 n).1 else s2
      (s3, scanned + f.size)
  | (s1, _) => (s1, scanned)                            -- stat error: logged, skipped

/-- `ttlBasedCleanup(op, tti, ttl, aggroUtilLowerThreshold, diskUsageFn)`; returns the scanned bytes -/
def cleanupTTL (s : State) (tti ttl : Int) (lowerPct : Nat) (u : Usage) : State × Nat :=
  let thr := if lowerPct = 0 then none else some ((u.total * lowerPct % two64) / 100)
  (listNames s).foldl (ttlVisit tti ttl thr u.used) (s, 0)

/-- `fInfo` of the custom policy -/
structure FInfo where
  name : Name
  access : Int
  download : Int
  size : Nat
  deriving Repr, DecidableEq

def absDiff (f : FInfo) : Int := if f.download - f.access < 0 then f.access - f.download else f.download - f.access
/-- `isDownloadedByConsumer` -/
def served (f : FInfo) : Bool := absDiff f > sec
/-- `forSureInAgent` -/
def inAgent (f : FInfo) : Bool := absDiff f > 2700 * sec

/-- `cachedInAgentPolicy(left, right)`: negative = left is deleted first -/
def policyCmp (l r : FInfo) : Int :=
  if served l && !served r then -1
  else if !served l && served r then 1
  else if inAgent l && !inAgent r then -1
  else if !inAgent l && inAgent r then 1
  else l.access - r.access

def insBy (x : FInfo) : List FInfo → List FInfo
  | [] => [x]
  | y :: ys => if policyCmp x y ≤ 0 then x :: y :: ys else y :: insBy x ys

/-- `slices.SortFunc(fInfos, policy)` (ties: the harness never produces them) -/
def sortPolicy (xs : List FInfo) : List FInfo := xs.foldr insBy []

/-- gathering loop of `customPolicyBasedCleanup`: files without a LAT sidecar count for usage but are
not candidates -/
def gatherVisit (acc : State × List FInfo × Nat) (n : Name) : State × List FInfo × Nat :=
  let (s, infos, usage) := acc
  match peek s n with
  | (s1, .ok) =>
    match KV.get s1.files n with
    | none => (s1, infos, usage)
    | some f =>
      let s2 := (peek s1 n).1
      match f.lat with
      | none => (s2, infos, usage + f.size)
      | some l => (s2, infos ++ [{ name := n, access := l, download := f.mtime, size := f.size }], usage + f.size)
  | (s1, _) => (s1, infos, usage)

/-- deletion loop: in policy order until `remain ≤ 0`; a persisted file is skipped and does not count -/
def policyDelete : State → Int → List FInfo → State
  | s, _, [] => s
  | s, remain, f :: rest =>
    if remain ≤ 0 then s
    else match delete s f.name with
      | (s1, .ok) => policyDelete s1 (remain - f.size) rest
      | (s1, _) => policyDelete s1 remain rest

/-- `customPolicyBasedCleanup(op, config, cachedInAgentPolicy, diskUsageFn)`; returns total usage -/
def cleanupPolicy (s : State) (lowerPct : Nat) (u : Usage) : State × Nat :=
  let (s1, infos, usage) := (listNames s).foldl gatherVisit (s, [], 0)
  let minBytes := (u.total * lowerPct % two64) / 100
  (policyDelete s1 ((u.total : Int) - (minBytes : Int)) (sortPolicy infos), usage)

/-- the `CleanupConfig` fields the periodic job uses -/
structure JobCfg where
  tti : Int
  ttl : Int
  aggrThr : Nat          -- AggressiveThreshold (percent; 0 = aggressive mode off)
  aggrTTL : Int
  lower : Nat            -- AggressiveLowerThreshold (percent)
  deriving Repr, DecidableEq

/-- `CleanupConfig.applyDefaults` (done by `addJob`): TTI 0 → 6 h; AggressiveTTL 0 → 1 h when aggressive
cleanup is configured -/
def JobCfg.applyDefaults (c : JobCfg) : JobCfg :=
  { c with tti := if c.tti = 0 then 6 * 3600 * sec else c.tti,
           aggrTTL := if c.aggrThr ≠ 0 ∧ c.aggrTTL = 0 then 3600 * sec else c.aggrTTL }

/-- one run of the periodic job: `addJob`'s goroutine calls `cleanup(op, config.applyDefaults(),
cachedInAgentPolicy)`, which reads the disk usage (`util` percent, `u`) and dispatches: the usage-driven
policy pass when the disk is above the aggressive threshold and a lower threshold is configured, else a
TTL pass with the aggressive TTL (above the threshold) or the normal TTL -/
def jobCleanup (s : State) (c : JobCfg) (util : Nat) (u : Usage) : State × Nat :=
  if (c.applyDefaults.aggrThr ≠ 0 ∧ util ≥ c.applyDefaults.aggrThr) ∧ c.applyDefaults.lower ≠ 0 then
    cleanupPolicy s c.applyDefaults.lower u
  else if c.applyDefaults.aggrThr ≠ 0 ∧ util ≥ c.applyDefaults.aggrThr then
    cleanupTTL s c.applyDefaults.tti c.applyDefaults.aggrTTL c.applyDefaults.lower u
  else cleanupTTL s c.applyDefaults.tti c.applyDefaults.ttl 0 u

inductive Op where
  | create (n : Name) (size : Nat)
  | setMtime (n : Name) (t : Int)
  | read (n : Name)
  | stat (n : Name)
  | persist (n : Name) (b : Bool)
  | unpersist (n : Name)
  | setLat (n : Name) (t : Int)
  | delete (n : Name)
  | tick (dt : Nat)
  | cleanupTTL (tti ttl : Int) (lowerPct : Nat) (u : Usage)
  | cleanupPolicy (lowerPct : Nat) (u : Usage)
  | job (interval : Nat) (c : JobCfg) (util : Nat) (u : Usage)   -- the ticker fires after `interval`
  deriving Repr, DecidableEq

def step (s : State) : Op → State
  | .create n size => (create s n size).1
  | .setMtime n t => updFile s n (fun f => { f with mtime := t })
  | .read n => (access s n).1
  | .stat n => (peek s n).1
  | .persist n b => (setPersist s n b).1
  | .unpersist n => (unpersist s n).1
  | .setLat n t => (setLat s n t).1
  | .delete n => (delete s n).1
  | .tick dt => { s with now := s.now + dt }
  | .cleanupTTL tti ttl p u => (cleanupTTL s tti ttl p u).1
  | .cleanupPolicy p u => (cleanupPolicy s p u).1
  | .job interval c util u => (jobCleanup { s with now := s.now + interval } c util u).1

/-! ### inside an eviction

`syncRemoveOldestIfNeeded` is not atomic for the rest of the store: it locks the oldest entry, runs the
entry's `Delete` (persist check, then removal of the directory) and removes the entry from the map.  Other
operations run in between.  `Order.unmapLast` is the code as it is: the entry stays in the map — locked —
until its file is gone, so every operation that needs this entry waits.  `Order.unmapFirst` is the variant
that drops the entry from the map before deleting the file: operations on that name then load a second,
independently locked entry while the first is still being deleted. -/

inductive Order where
  | unmapLast | unmapFirst
  deriving Repr, DecidableEq

/-- progress of the eviction in flight -/
inductive Ev where
  | idle
  | locked (n : Name)                  -- the oldest entry is locked, `Delete` has not looked at the flag yet
  | decided (n : Name) (del : Bool)    -- the persist check is done: the directory will (not) be removed
  deriving Repr, DecidableEq

structure XState where
  s : State
  ev : Ev := .idle
  deriving Repr, DecidableEq

def Ev.name : Ev → Option Name
  | .idle => none
  | .locked n => some n
  | .decided n _ => some n

/-- does the operation need the entry of `n`?  Passes visit every file. -/
def Op.touches : Op → Name → Bool
  | .create m _, n => m == n
  | .setMtime m _, n => m == n
  | .read m, n => m == n
  | .stat m, n => m == n
  | .persist m _, n => m == n
  | .unpersist m, n => m == n
  | .setLat m _, n => m == n
  | .delete m, n => m == n
  | .tick _, _ => false
  | .cleanupTTL .., _ => true
  | .cleanupPolicy .., _ => true
  | .job .., _ => true

inductive Act where
  | insert (n : Name) (size : Nat)   -- `TryStore` of a new file up to (not including) its deferred eviction check
  | begin               -- an over-capacity map locks its oldest entry
  | check               -- the entry's Delete reads the persist flag
  | finish              -- the directory is removed (if decided so) and the eviction ends
  | api (o : Op)        -- any store operation, by any other goroutine
  deriving Repr, DecidableEq

def xstep (ord : Order) (x : XState) : Act → XState
  | .insert n size =>
    if KV.has x.s.map n || KV.has x.s.files n then x else { x with s := createInsert x.s n size }
  | .begin =>
    match x.ev with
    | .idle =>
      if x.s.cap = 0 ∨ x.s.map.length ≤ x.s.cap then x
      else match x.s.map.getLast? with
        | none => x
        | some (n, _) =>
          { s := if ord = .unmapFirst then { x.s with map := KV.del x.s.map n } else x.s, ev := .locked n }
    | _ => x
  | .check =>
    match x.ev with
    | .locked n =>
      { x with ev := .decided n (match KV.get x.s.files n with | some f => !isPersisted f | none => true) }
    | _ => x
  | .finish =>
    match x.ev with
    | .decided n del =>
      { s := { x.s with files := if del then KV.del x.s.files n else x.s.files, map := KV.del x.s.map n }, ev := .idle }
    | _ => x
  | .api o =>
    match ord, x.ev.name with
    | .unmapLast, some n => if o.touches n then x else { x with s := step x.s o }   -- waits for the entry lock
    | _, _ => { x with s := step x.s o }

def xrun (ord : Order) (x : XState) (acts : List Act) : XState := acts.foldl (xstep ord) x

def init (cap : Nat) (now : Int) : State := { cap := cap, now := now }

def run (cap : Nat) (now : Int) (ops : List Op) : State := ops.foldl step (init cap now)

end KrakenModel.FileCleanup
