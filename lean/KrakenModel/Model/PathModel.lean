/-
  Lexical path model for C11 (core Lean only).  Strings are lists of characters (one per byte, as Go
  strings are byte sequences); the separator is '/' (the servers run on Linux).

  * `clean`     = Go's path/filepath.Clean (purely lexical)
  * `join`      = filepath.Join (drops empty elements, joins with '/', cleans)
  * `pathUnescape` = net/url.PathUnescape (percent decoding of one path segment, error on malformed escapes)
  * `localNameOK`  = the name check of lib/store/base localFileEntryFactory.Create, AS REPAIRED
                     (`oldLocalNameOK` = the check before the fix, which admitted "." and "..")
  * `localPath` / `casPath` = where an entry's data file lives
-/
namespace KrakenModel.PathModel

abbrev Str := List Char

def dot : Str := ['.']
def dotdot : Str := ['.', '.']
def dataName : Str := ['d', 'a', 't', 'a']

/-- split on '/', keeping empty components (always at least one component) -/
def splitSlash : Str → List Str
  | [] => [[]]
  | c :: cs =>
    if c = '/' then [] :: splitSlash cs
    else match splitSlash cs with
      | [] => [[c]]
      | h :: t => (c :: h) :: t

/-- strings.Join(cs, "/") -/
def joinSlash : List Str → Str
  | [] => []
  | [a] => a
  | a :: b :: t => a ++ '/' :: joinSlash (b :: t)

/-- one step of Clean's component processing; the stack is kept top-first -/
def pushComp (rooted : Bool) (stack : List Str) (c : Str) : List Str :=
  if c = [] ∨ c = dot then stack
  else if c = dotdot then
    match stack with
    | [] => if rooted then [] else [dotdot]
    | top :: rest => if top = dotdot then dotdot :: top :: rest else rest
  else c :: stack

def isRooted (s : Str) : Bool := s.head? == some '/'

/-- the components that remain after lexical resolution, first component first -/
def compsOf (rooted : Bool) (s : Str) : List Str := ((splitSlash s).foldl (pushComp rooted) []).reverse

def clean (s : Str) : Str :=
  let cs := compsOf (isRooted s) s
  if isRooted s then '/' :: joinSlash cs
  else if cs.isEmpty then dot else joinSlash cs

def join (elems : List Str) : Str :=
  let ne := elems.filter (fun e => !e.isEmpty)
  if ne.isEmpty then [] else clean (joinSlash ne)

/-! ### percent decoding -/

def hexVal (c : Char) : Option Nat :=
  if '0' ≤ c ∧ c ≤ '9' then some (c.toNat - '0'.toNat)
  else if 'a' ≤ c ∧ c ≤ 'f' then some (c.toNat - 'a'.toNat + 10)
  else if 'A' ≤ c ∧ c ≤ 'F' then some (c.toNat - 'A'.toNat + 10)
  else none

/-- url.PathUnescape: `%XY` → byte, a '%' not followed by two hex digits is an error; '+' is kept -/
def pathUnescape : Str → Option Str
  | [] => some []
  | '%' :: a :: b :: rest =>
    match hexVal a, hexVal b with
    | some x, some y => (pathUnescape rest).map (Char.ofNat (16 * x + y) :: ·)
    | _, _ => none
  | '%' :: _ => none
  | c :: rest => (pathUnescape rest).map (c :: ·)

def hexUpper (n : Nat) : Char :=
  if n < 10 then Char.ofNat ('0'.toNat + n) else Char.ofNat ('A'.toNat + n - 10)

/-- net/url shouldEscape for mode encodePath -/
def pathSafe (c : Char) : Bool :=
  c.isAlphanum || c = '-' || c = '_' || c = '.' || c = '~' ||
  c = '$' || c = '&' || c = '+' || c = ',' || c = '/' || c = ':' || c = ';' || c = '=' || c = '@'

/-- net/url escape(s, encodePath): the canonical encoding of a decoded path -/
def escapePath : Str → Str
  | [] => []
  | c :: rest =>
    if pathSafe c then c :: escapePath rest
    else '%' :: hexUpper (c.toNat / 16 % 16) :: hexUpper (c.toNat % 16) :: escapePath rest

/-- What `httputil.ParseParam` returns for a raw request-path segment `seg` (no '/' in it):
    net/http decodes the request path and keeps the raw form only when it is not the canonical
    encoding of the decoded form (`URL.RawPath`); chi routes on the raw path when it is kept and on
    the decoded path otherwise; ParseParam then unescapes the routed segment (again).
    `none` = the request is answered 400 (malformed escape at either stage). -/
def parseParam (seg : Str) : Option Str :=
  match pathUnescape seg with
  | none => none
  | some p => if escapePath p = seg then pathUnescape p else some p

/-! ### the store's name check and paths -/

def hasPrefix (p s : Str) : Bool := p.isPrefixOf s
def hasSuffix (p s : Str) : Bool := p.isSuffixOf s

/-- localFileEntryFactory.Create before the fix -/
def oldLocalNameOK (name : Str) : Bool :=
  name == clean name &&
  !(hasPrefix ['/'] name || hasSuffix ['/'] name || hasPrefix ['.', '.', '/'] name)

/-- localFileEntryFactory.Create after the fix: "." and ".." are rejected as well -/
def localNameOK (name : Str) : Bool :=
  name == clean name &&
  !(name == dot || name == dotdot ||
    hasPrefix ['/'] name || hasSuffix ['/'] name || hasPrefix ['.', '.', '/'] name)

/-- GetRelativePath of the local factory, then entry.GetPath -/
def localPath (dir name : Str) : Str := join [dir, join [name, dataName]]

/-- a character `hex.DecodeString` accepts (both cases) -/
def isHex (c : Char) : Bool := ('0' ≤ c && c ≤ '9') || ('a' ≤ c && c ≤ 'f') || ('A' ≤ c && c ≤ 'F')

/-- core.ValidateSHA256: 64 characters that hex.DecodeString accepts (upper case included) -/
def validSHA256 (s : Str) : Bool := s.length == 64 && s.all isHex

/-- casFileEntryFactory.GetRelativePath (DefaultShardIDLength = 2), then entry.GetPath -/
def casRelPath (name : Str) : Str :=
  let shards := (List.range 2).filterMap fun i =>
    if i < name.length / 2 then some ((name.drop (2 * i)).take 2) else none
  join [shards.foldl (fun acc d => join [acc, d]) [], name, dataName]

def casPath (dir name : Str) : Str := join [dir, casRelPath name]

/-- component-wise containment of `p` strictly below `d` (both absolute paths): after lexical
    resolution the components of `d` are a proper prefix of those of `p` -/
def Within (d p : Str) : Prop :=
  ∃ rest, rest ≠ [] ∧ compsOf true p = compsOf true d ++ rest

instance (d p : Str) : Decidable (Within d p) :=
  if h : (compsOf true d).isPrefixOf (compsOf true p) ∧ (compsOf true p).length > (compsOf true d).length then
    isTrue (by
      obtain ⟨h1, h2⟩ := h
      obtain ⟨t, ht⟩ := List.isPrefixOf_iff_prefix.mp h1
      refine ⟨t, ?_, ht.symm⟩
      intro e; subst e; simp at ht; rw [ht] at h2; omega)
  else isFalse (by
    intro ⟨rest, hne, he⟩
    apply h
    refine ⟨List.isPrefixOf_iff_prefix.mpr ⟨rest, he.symm⟩, ?_⟩
    rw [he, List.length_append]
    have : 0 < rest.length := List.length_pos_iff.mpr hne
    omega)

end KrakenModel.PathModel
