import KrakenModel.Util.Codec
import KrakenModel.Model.IdCodec
/-
  Model of tracker/peerstore/redis.go (C28).

  * `serializePeer` / `deserializePeer`: the "pid:ip:port:complete" member encoding.  `deserializePeer`
    is the repaired parser (peer id from the left, port and complete bit from the right, so the
    address may contain ':'); `deserializePeerOld` is the former one (exactly four ':'-parts).
  * the store: Redis sets `peerset:<hash>:<window>` flattened to entries (hash, window, member).
    EXPIREAT is always `window + size*maxWindows`, so a key exists iff it has entries and is
    deleted as a whole when the clock reaches that time.  Time is a monotone `Nat` of seconds.
  * `getAll`: GetPeers(h, n) for `n` at least the number of stored members (SRANDMEMBER then
    returns whole sets): decode, drop undecodable members, collapse complete bits per identity.
-/
namespace KrakenModel.RedisPeerStore
open KrakenModel.Codec KrakenModel.IdCodec

structure Peer where
  pid : Bytes
  ip : List Char
  port : Int
  complete : Bool
  deriving DecidableEq, Repr

structure Ident where
  pid : Bytes
  ip : List Char
  port : Int
  deriving DecidableEq, Repr

def Peer.ident (p : Peer) : Ident := { pid := p.pid, ip := p.ip, port := p.port }

def bitStr (b : Bool) : List Char := if b then ['1'] else ['0']

/-- serializePeer: fmt.Sprintf("%s:%s:%d:%d", pid, ip, port, completeBit) -/
def serializePeer (p : Peer) : List Char :=
  hexEncode p.pid ++ ':' :: p.ip ++ ':' :: intStr p.port ++ ':' :: bitStr p.complete

def atoiDigits (neg : Bool) (ds : List Char) : Option Int :=
  if ds.isEmpty ∨ !ds.all Char.isDigit then none
  else
    let v : Int := if neg then -(undec ds : Int) else (undec ds : Int)
    if v < -(2^63 : Int) ∨ v ≥ 2^63 then none else some v

/-- strconv.Atoi: optional sign, at least one digit, only digits, value in the int64 range -/
def atoi (s : List Char) : Option Int :=
  match s with
  | '-' :: t => atoiDigits true t
  | '+' :: t => atoiDigits false t
  | _ => atoiDigits false s

inductive DeErr where
  | parts | peerID | port
  deriving DecidableEq, Repr

def joinColon : List (List Char) → List Char
  | [] => []
  | [x] => x
  | x :: y :: rest => x ++ ':' :: joinColon (y :: rest)

/-- deserializePeer (repaired): `parts[0]` is the peer id, the last two parts are port and complete
bit, everything in between (re-joined with ':') is the address -/
def deserializePeer (s : List Char) : Except DeErr (Ident × Bool) :=
  let parts := splitOn ':' s
  let n := parts.length
  if n < 4 then .error .parts
  else
    match newPeerID (parts.headD []) with
    | .error _ => .error .peerID
    | .ok pid =>
      let ip := joinColon ((parts.drop 1).take (n - 3))
      match atoi ((parts.drop (n - 2)).headD []) with
      | none => .error .port
      | some port => .ok ({ pid := pid, ip := ip, port := port }, decide ((parts.drop (n - 1)).headD [] = ['1']))

/-- the former parser: exactly four parts, so any address containing ':' was rejected -/
def deserializePeerOld (s : List Char) : Except DeErr (Ident × Bool) :=
  match splitOn ':' s with
  | [a, b, c, d] =>
    match newPeerID a with
    | .error _ => .error .peerID
    | .ok pid =>
      match atoi c with
      | none => .error .port
      | some port => .ok ({ pid := pid, ip := b, port := port }, decide (d = ['1']))
  | _ => .error .parts

/-! ### the store -/

structure Cfg where
  size : Nat        -- PeerSetWindowSize in whole seconds
  maxWindows : Nat  -- MaxPeerSetWindows
  deriving DecidableEq, Repr

structure Entry where
  hash : Bytes
  window : Nat
  member : List Char
  deriving DecidableEq, Repr

structure State where
  now : Nat := 0
  entries : List Entry := []
  deriving DecidableEq, Repr

inductive Op where
  | tick (d : Nat)                  -- the clock (and Redis' clock) advances by d seconds
  | update (h : Bytes) (p : Peer)   -- UpdatePeer
  deriving DecidableEq, Repr

/-- curPeerSetWindow: t - t % size -/
def curWindow (c : Cfg) (t : Nat) : Nat := t - t % c.size

def expireAt (c : Cfg) (w : Nat) : Nat := w + c.size * c.maxWindows

/-- Redis deletes a key when the clock reaches its EXPIREAT time -/
def expire (c : Cfg) (now : Nat) (es : List Entry) : List Entry :=
  es.filter fun e => decide (now < expireAt c e.window)

def insertEntry (e : Entry) (es : List Entry) : List Entry := if e ∈ es then es else es ++ [e]

def step (c : Cfg) (s : State) : Op → State
  | .tick d => { now := s.now + d, entries := expire c (s.now + d) s.entries }
  | .update h p =>
    -- SADD + EXPIREAT (an EXPIREAT in the past deletes the key at once)
    let e : Entry := { hash := h, window := curWindow c s.now, member := serializePeer p }
    { s with entries := expire c s.now (insertEntry e s.entries) }

/-- peerSetWindows: cur, cur - size, …  (`maxWindows` of them; Go's int64 arithmetic may go negative,
such windows hold nothing) -/
def queried (c : Cfg) (now : Nat) (w : Nat) : Bool :=
  (List.range c.maxWindows).any fun i => decide ((curWindow c now : Int) - (i : Int) * (c.size : Int) = (w : Int))

/-- collapse: `selected[id] = selected[id] || complete` -/
def collapse : List (Ident × Bool) → List (Ident × Bool) → List (Ident × Bool)
  | [], acc => acc
  | (id, b) :: rest, acc =>
    if acc.any (fun x => x.1 = id) then
      collapse rest (acc.map fun x => if x.1 = id then (x.1, x.2 || b) else x)
    else collapse rest (acc ++ [(id, b)])

def decodeAll (ms : List (List Char)) : List (Ident × Bool) :=
  ms.filterMap fun m => match deserializePeer m with | .ok r => some r | .error _ => none

/-- GetPeers(h, n) with n ≥ number of stored members -/
def getAll (c : Cfg) (s : State) (h : Bytes) : List (Ident × Bool) :=
  collapse (decodeAll ((s.entries.filter fun e => e.hash = h ∧ queried c s.now e.window).map (·.member))) []

/-! ### sampling: GetPeers(h, n) in general

  The windows are visited in a shuffled order; each visit asks `SRANDMEMBER key (n - len(selected))`,
  which returns that many distinct random members of the set (all of them if it has fewer), and folds
  the decoded members into `selected`; the loop stops when `n` identities are selected or every window
  was visited.  A *visit* is (window, picked members); `ValidFrom` says when a sequence of visits is a
  possible execution, `getSample` is what it returns. -/

/-- the Redis set of torrent `h`, window `w` -/
def members (s : State) (h : Bytes) (w : Nat) : List (List Char) :=
  (s.entries.filter fun e => e.hash = h ∧ e.window = w).map (·.member)

def visit (sel : List (Ident × Bool)) (picks : List (List Char)) : List (Ident × Bool) :=
  collapse (decodeAll picks) sel

def sampleFrom (sel : List (Ident × Bool)) (visits : List (Nat × List (List Char))) : List (Ident × Bool) :=
  visits.foldl (fun sel v => visit sel v.2) sel

def getSample (visits : List (Nat × List (List Char))) : List (Ident × Bool) := sampleFrom [] visits

def ValidFrom (c : Cfg) (s : State) (h : Bytes) (n : Nat) :
    List (Ident × Bool) → List Nat → List (Nat × List (List Char)) → Prop
  | sel, visited, [] => n ≤ sel.length ∨ ∀ w, queried c s.now w = true → w ∈ visited ∨ members s h w = []
  | sel, visited, (w, picks) :: rest =>
    sel.length < n ∧ queried c s.now w = true ∧ w ∉ visited ∧ picks.Nodup ∧
    (∀ m, m ∈ picks → m ∈ members s h w) ∧
    picks.length = min (n - sel.length) (members s h w).length ∧
    ValidFrom c s h n (visit sel picks) (w :: visited) rest

end KrakenModel.RedisPeerStore
