import KrakenModel.Model.BackendSpec
/-
  Model of lib/backend/sqlbackend.Client over an abstract `tags` table (rows in insertion order,
  unique on (repository, tag) as the table's unique index demands).

  * `Upload` = `Where(repo, tag).Assign(image_id).FirstOrCreate`: update the image id of the row
    if there is one, else append a row.
  * `Download` / `Stat` = `Where(repo, tag).First`.
  * `List "<repo>/_manifests/tags"` = `SELECT tag WHERE repository = repo ORDER BY tag`.
  * `List ""` = `SELECT DISTINCT(repository) ORDER BY repository` (each reported as `repo:dummy`).
  `ORDER BY` is an insertion sort by the column order.
-/
namespace KrakenModel.SqlBackend
open KrakenModel.BackendSpec

variable {Repo Tag : Type} [DecidableEq Repo] [DecidableEq Tag]

structure Row (Repo Tag : Type) where
  repo : Repo
  tag : Tag
  image : Bytes
  deriving Repr

abbrev Table (Repo Tag : Type) := List (Row Repo Tag)

/-- `FirstOrCreate` with `Assign(image_id)` -/
def upsert : Table Repo Tag → Repo → Tag → Bytes → Table Repo Tag
  | [], r, t, b => [{ repo := r, tag := t, image := b }]
  | row :: rest, r, t, b =>
    if row.repo = r ∧ row.tag = t then { row with image := b } :: rest
    else row :: upsert rest r t b

/-- `Where(repo, tag).First` -/
def first : Table Repo Tag → Repo → Tag → Option Bytes
  | [], _, _ => none
  | row :: rest, r, t => if row.repo = r ∧ row.tag = t then some row.image else first rest r t

/-- insertion into a list sorted by `lt` (duplicates dropped: DISTINCT / unique index) -/
def sortedInsert {α : Type} [DecidableEq α] (lt : α → α → Bool) : List α → α → List α
  | [], a => [a]
  | x :: xs, a => if a = x then x :: xs else if lt a x then a :: x :: xs else x :: sortedInsert lt xs a

def orderBy {α : Type} [DecidableEq α] (lt : α → α → Bool) (l : List α) : List α := l.foldl (sortedInsert lt) []

/-- `SELECT tag WHERE repository = r ORDER BY tag` -/
def tagsQuery (ltTag : Tag → Tag → Bool) (tbl : Table Repo Tag) (r : Repo) : List Tag :=
  orderBy ltTag ((tbl.filter fun row => row.repo = r).map (·.tag))

/-- `SELECT DISTINCT(repository) ORDER BY repository` -/
def catalogQuery (ltRepo : Repo → Repo → Bool) (tbl : Table Repo Tag) : List Repo :=
  orderBy ltRepo (tbl.map (·.repo))

inductive Op (Repo Tag : Type) where
  | upload (r : Repo) (t : Tag) (b : Bytes)
  | other

def step (tbl : Table Repo Tag) : Op Repo Tag → Table Repo Tag
  | .upload r t b => upsert tbl r t b
  | .other => tbl

def run (ops : List (Op Repo Tag)) : Table Repo Tag := ops.foldl step []

/-- the same history as operations on the specification, keyed by (repo, tag) -/
def specOp : Op Repo Tag → BackendSpec.Op (Repo × Tag)
  | .upload r t b => .upload (r, t) b
  | .other => .other

def specOps (ops : List (Op Repo Tag)) : List (BackendSpec.Op (Repo × Tag)) := ops.map specOp

/-- lexicographic key order: repository first, then tag -/
def ltPair (ltRepo : Repo → Repo → Bool) (ltTag : Tag → Tag → Bool) (a b : Repo × Tag) : Bool :=
  ltRepo a.1 b.1 || (a.1 = b.1 && ltTag a.2 b.2)

end KrakenModel.SqlBackend
