/-
  Model of utils/httputil.Send: one `*http.Request` built once, then the retry loop
  (`client.Do(req)`; retry on a transport error, on a retryable status that is not accepted,
  on an explicit RetryCodes status; stop when the backoff says Stop).

  Modelled library behaviour (net/http, validated by the correspondence check):
  * the request body is a reader that an attempt consumes; `remaining` is what is left of it;
  * `http.NewRequest` knows the length of `*bytes.Reader`/`*bytes.Buffer`/`*strings.Reader`
    bodies and gives them a `GetBody` (`rewindable`); any other reader (`plain`) is sent chunked
    with whatever it still yields;
  * an attempt whose known Content-Length does not match what the body yields fails inside the
    client before anything is put on the wire (`localErr`).

  `rewinds = true` is the loop after the repair: before a retry the body is replaced through
  `GetBody`, and a body without `GetBody` ends the loop.  `rewinds = false` is the loop as it
  was (the same request is simply sent again).
-/
namespace KrakenModel.HttpSend

abbrev Byte := Nat

inductive BodyKind where
  | none          -- no body (nil / http.NoBody)
  | rewindable    -- *bytes.Reader, *bytes.Buffer, *strings.Reader
  | plain         -- any other io.Reader (file, LimitReader, store reader, …)
  deriving Repr, DecidableEq

/-- what the server does with one request that reached it -/
inductive Outcome where
  | net                   -- reads the request, then closes the connection without a response
  | status (code : Nat)
  deriving Repr, DecidableEq

structure Req where
  method : String
  url : String
  headers : List (String × String)
  body : List Byte
  deriving Repr, DecidableEq

structure Cfg where
  req : Req
  kind : BodyKind
  accepted : List Nat := [200]
  extra : List Nat := []      -- RetryCodes
  bo : Nat := 0               -- NextBackOff answers before Stop
  rewinds : Bool := true
  deriving Repr, DecidableEq

/-- one `client.Do(req)` as seen from the network -/
inductive Wire where
  | sent (r : Req)
  | localErr
  deriving Repr, DecidableEq

inductive Result where
  | ok (code : Nat)
  | netErr
  | statusErr (code : Nat)
  deriving Repr, DecidableEq

def retryable (c : Nat) : Bool := c = 429 || c = 502 || c = 503 || c = 504

def wantsRetry (cfg : Cfg) : Outcome → Bool
  | .net => true
  | .status c => (retryable c && !cfg.accepted.contains c) || cfg.extra.contains c

def final (cfg : Cfg) : Outcome → Result
  | .net => .netErr
  | .status c => if cfg.accepted.contains c then .ok c else .statusErr c

/-- the request the caller asked for, as it should appear on the wire -/
def original (cfg : Cfg) : Req :=
  match cfg.kind with
  | .none => { cfg.req with body := [] }
  | _ => cfg.req

/-- the body reader at the first attempt -/
def initialBody (cfg : Cfg) : List Byte := (original cfg).body

/-- net/http transport: what one attempt sends, given what the body reader still yields -/
def transmit (cfg : Cfg) (remaining : List Byte) : Wire :=
  match cfg.kind with
  | .none => .sent (original cfg)
  | .rewindable =>
    if remaining.length = cfg.req.body.length then .sent { cfg.req with body := remaining } else .localErr
  | .plain => .sent { cfg.req with body := remaining }

/-- the body reader for the next attempt; `none`: the loop must stop (body cannot be replayed) -/
def nextBody (cfg : Cfg) : Option (List Byte) :=
  if cfg.rewinds then
    match cfg.kind with
    | .none => some []
    | .rewindable => some cfg.req.body     -- req.GetBody()
    | .plain => none
  else some []                             -- same reader again: already drained

/-- the retry loop; `b` = backoff answers left -/
def sendLoop (cfg : Cfg) : Nat → List Outcome → List Byte → List Wire → List Wire × Result
  | b, script, remaining, acc =>
    let w := transmit cfg remaining
    let o := match w with
      | .localErr => Outcome.net
      | .sent _ => script.headD .net
    let script' := match w with
      | .localErr => script
      | .sent _ => script.tail
    let acc' := acc ++ [w]
    if wantsRetry cfg o then
      match nextBody cfg with
      | none => (acc', final cfg o)
      | some rem' =>
        match b with
        | 0 => (acc', final cfg o)
        | b' + 1 => sendLoop cfg b' script' rem' acc'
    else (acc', final cfg o)

/-- `Send`: the wire history and the result -/
def send (cfg : Cfg) (script : List Outcome) : List Wire × Result :=
  sendLoop cfg cfg.bo script (initialBody cfg) []

end KrakenModel.HttpSend
