/-
  Model of utils/httputil.Send: one `*http.Request` built once, then the retry loop
  (`client.Do(req)`; for an https request that failed and with the fallback enabled, one more
  attempt over plain http; retry on a transport error, on a retryable status that is not accepted,
  on an explicit RetryCodes status; stop when the backoff says Stop).

  Modelled library behaviour (net/http, validated by the correspondence check):
  * the request body is a reader that an attempt consumes; `remaining` is what is left of it;
  * `http.NewRequest` knows the length of `*bytes.Reader`/`*bytes.Buffer`/`*strings.Reader`
    bodies and gives them a `GetBody` (`rewindable`); any other reader (`plain`) is sent chunked
    with whatever it still yields;
  * an attempt whose known Content-Length does not match what the body yields fails inside the
    client before anything is put on the wire (`localErr`).

  `rewinds = true` is the code after the repairs: before a retry and before the http fallback
  attempt the body is replaced through `GetBody`; a body without `GetBody` ends the retries and
  gets no fallback attempt.  `plainReplays` is a choice left to the implementation: a reader
  without `GetBody` may also be made replayable (buffered, re-opened, seeked back); the property
  allows both, the correspondence check reads the choice off the implementation's behaviour.
  `rewinds = false` is the loop as it was (the same drained reader is simply sent again).
-/
namespace KrakenModel.HttpSend

abbrev Byte := Nat

inductive BodyKind where
  | none          -- no body (nil / http.NoBody)
  | rewindable    -- *bytes.Reader, *bytes.Buffer, *strings.Reader
  | plain         -- any other io.Reader (file, LimitReader, store reader, …)
  deriving Repr, DecidableEq

/-- what the server side does with one request -/
inductive Outcome where
  | net                   -- reads the whole request, then closes the connection without a response
  | netAfter (k : Nat)    -- reads the head and `k` body bytes, then closes the connection
  | refuse                -- closes the connection before reading anything (TLS handshake included)
  | status (code : Nat)
  deriving Repr, DecidableEq

def Outcome.isErr : Outcome → Bool
  | .status _ => false
  | _ => true

structure Req where
  method : String
  url : String
  headers : List (String × String)
  body : List Byte
  tls : Bool := false      -- https or http
  deriving Repr, DecidableEq

structure Cfg where
  req : Req
  kind : BodyKind
  accepted : List Nat := [200]
  extra : List Nat := []      -- RetryCodes
  bo : Nat := 0               -- NextBackOff answers before Stop
  fallback : Bool := false    -- EnableHTTPFallback (only matters for an https request)
  rewinds : Bool := true
  plainReplays : Bool := false
  deriving Repr, DecidableEq

/-- one `client.Do(req)` as seen from the network -/
inductive Wire where
  | sent (r : Req)
  | localErr
  deriving Repr, DecidableEq

inductive Result where
  | ok (code : Nat)
  | netErr
  | statusErr (code : Nat)
  deriving Repr, DecidableEq

def retryable (c : Nat) : Bool := c = 429 || c = 502 || c = 503 || c = 504

def wantsRetry (cfg : Cfg) : Outcome → Bool
  | .status c => (retryable c && !cfg.accepted.contains c) || cfg.extra.contains c
  | _ => true

def final (cfg : Cfg) : Outcome → Result
  | .status c => if cfg.accepted.contains c then .ok c else .statusErr c
  | _ => .netErr

/-- the request the caller asked for, as it should appear on the wire -/
def original (cfg : Cfg) : Req :=
  match cfg.kind with
  | .none => { cfg.req with body := [] }
  | _ => cfg.req

/-- the body reader at the first attempt -/
def initialBody (cfg : Cfg) : List Byte := (original cfg).body

/-- net/http transport: what one attempt sends over https (`tls`) or http, given what the body
reader still yields -/
def transmit (cfg : Cfg) (tls : Bool) (remaining : List Byte) : Wire :=
  match cfg.kind with
  | .none => .sent { original cfg with tls := tls }
  | .rewindable =>
    if remaining.length = cfg.req.body.length then .sent { cfg.req with body := remaining, tls := tls } else .localErr
  | .plain => .sent { cfg.req with body := remaining, tls := tls }

/-- the body reader for another attempt; `none`: there is no further attempt (the body cannot be
replayed) -/
def nextBody (cfg : Cfg) : Option (List Byte) :=
  if cfg.rewinds then
    match cfg.kind with
    | .none => some []
    | .rewindable => some cfg.req.body     -- req.GetBody()
    | .plain => if cfg.plainReplays then some cfg.req.body else none
  else some []                             -- same reader again: already drained

/-- outcome of an attempt and the rest of the server script (an attempt that failed inside the
client reaches no server) -/
def outcomeOf (w : Wire) (script : List Outcome) : Outcome × List Outcome :=
  match w with
  | .localErr => (.net, script)
  | .sent _ => (script.headD .net, script.tail)

/-- one iteration of the loop: the attempt and, for a failed https attempt with the fallback
enabled, the attempt over plain http -/
def attempt (cfg : Cfg) (script : List Outcome) (remaining : List Byte) (acc : List Wire) :
    Outcome × List Outcome × List Wire :=
  let w := transmit cfg cfg.req.tls remaining
  let (o, script1) := outcomeOf w script
  let acc1 := acc ++ [w]
  if o.isErr && cfg.req.tls && cfg.fallback then
    match nextBody cfg with
    | none => (o, script1, acc1)
    | some rem =>
      -- the code before the repair built the fallback request anew from the drained reader:
      -- an empty body with Content-Length 0 goes out
      let w2 := if cfg.rewinds then transmit cfg false rem else .sent { original cfg with body := [], tls := false }
      let (o2, script2) := outcomeOf w2 script1
      (o2, script2, acc1 ++ [w2])
  else (o, script1, acc1)

/-- the retry loop; `b` = backoff answers left -/
def sendLoop (cfg : Cfg) : Nat → List Outcome → List Byte → List Wire → List Wire × Result
  | b, script, remaining, acc =>
    let (o, script', acc') := attempt cfg script remaining acc
    if wantsRetry cfg o then
      match nextBody cfg with
      | none => (acc', final cfg o)
      | some rem' =>
        match b with
        | 0 => (acc', final cfg o)
        | b' + 1 => sendLoop cfg b' script' rem' acc'
    else (acc', final cfg o)

/-- `Send`: the wire history and the result -/
def send (cfg : Cfg) (script : List Outcome) : List Wire × Result :=
  sendLoop cfg cfg.bo script (initialBody cfg) []

end KrakenModel.HttpSend
