import KrakenModel.Model.AnnounceQueue
/-
  Scheduler-level model of how lib/torrent/scheduler uses its announce queue (C20, second part):
  which `Add` / `Next` / `Ready` / `Eject` calls each scheduler event makes, composed with
  `Model.AnnounceQueue` (the queue itself).

    addTorrent (newTorrentEvent / addIncomingConn, only when there is no control)   Add h
    dispatcherCompleteEvent                                                          Eject h
        (ignored when the control of h belongs to a newer dispatcher — the C17 fix)
    state.removeTorrent (RemoveTorrent, idle preemption)                             Eject h
        (`rep = false`, the code as it was: only when the dispatcher is not complete)
    announceTickEvent        Next until a torrent that is neither saturated nor unknown comes out;
                             saturated ones are skipped and made Ready again afterwards, unknown ones
                             stay pending
    announceResultEvent      Ready h when h still has a control
    announceErrEvent         Ready h

  `ctrl h = some (gen, complete)` is `torrentControls[h]`; completion notices in flight are
  `(h, gen)` pairs as in Model.SchedWaiters.  Which torrents are saturated at a tick is an input.
-/
namespace KrakenModel.SchedQueue
open KrakenModel.AnnounceQueue

structure State where
  ctrl : Hash → Option (Nat × Bool) := fun _ => none
  notices : List (Hash × Nat) := []
  nextGen : Nat := 0
  q : AnnounceQueue.State := {}

inductive Action where
  /-- a download request / incoming connection for torrent `h` (`cached`: the blob is already in the
      cache, so the new dispatcher is complete at once) -/
  | request (h : Hash) (cached : Bool)
  /-- the last piece is written on the dispatcher's goroutine -/
  | finish (h : Hash)
  /-- the completion notice of dispatcher `g` of torrent `h` is applied -/
  | notice (h : Hash) (g : Nat)
  /-- `state.removeTorrent` (RemoveTorrent API or idle preemption) -/
  | remove (h : Hash)
  /-- an announce tick; `sat` = the torrents that are saturated at that moment -/
  | announceTick (sat : List Hash)
  | announceResult (h : Hash)
  | announceErr (h : Hash)
  deriving Repr, DecidableEq

def init : State := {}

/-- the queue calls of one announce tick, given the queue, the saturated torrents and the known ones;
`fuel` bounds the loop (one `Next` per element of the ready list, plus the final empty one) -/
def tickOps (sat known : Hash → Bool) : Nat → AnnounceQueue.State → List Hash → List Op
  | 0, _, skipped => skipped.reverse.map .ready
  | fuel + 1, q, skipped =>
    match (next q).2 with
    | none => .next :: skipped.reverse.map .ready
    | some h =>
      if sat h then .next :: tickOps sat known fuel (next q).1 (h :: skipped)
      else if !known h then .next :: tickOps sat known fuel (next q).1 skipped
      else .next :: skipped.reverse.map .ready

/-- the queue operations an action performs in state `s` -/
def queueOps (rep : Bool) (s : State) : Action → List Op
  | .request h _ => if (s.ctrl h).isSome then [] else [.add h]
  | .finish _ => []
  | .notice h g =>
    if (h, g) ∈ s.notices then
      match s.ctrl h with
      | some (g', _) => if rep && g' != g then [] else [.eject h]
      | none => [.eject h]
    else []
  | .remove h =>
    match s.ctrl h with
    | some (_, complete) => if rep || !complete then [.eject h] else []
    | none => []
  | .announceTick sat =>
    tickOps (fun h => decide (h ∈ sat)) (fun h => (s.ctrl h).isSome) (s.q.ready.length + 1) s.q []
  | .announceResult h => if (s.ctrl h).isSome then [.ready h] else []
  | .announceErr h => [.ready h]

def setCtrl (s : State) (h : Hash) (c : Option (Nat × Bool)) : State :=
  { s with ctrl := fun k => if k = h then c else s.ctrl k }

/-- the effect of an action on the scheduler's own bookkeeping -/
def bookkeeping (s : State) : Action → State
  | .request h cached =>
    if (s.ctrl h).isSome then s
    else
      let s' := setCtrl { s with nextGen := s.nextGen + 1 } h (some (s.nextGen, cached))
      if cached then { s' with notices := s.notices ++ [(h, s.nextGen)] } else s'
  | .finish h =>
    match s.ctrl h with
    | some (g, false) => { setCtrl s h (some (g, true)) with notices := s.notices ++ [(h, g)] }
    | _ => s
  | .notice h g => { s with notices := s.notices.erase (h, g) }
  | .remove h => setCtrl s h none
  | _ => s

def step (rep : Bool) (s : State) (a : Action) : State :=
  let ops := queueOps rep s a
  { bookkeeping s a with q := ops.foldl AnnounceQueue.step s.q }

def runFrom (rep : Bool) (s : State) (sched : List Action) : State := sched.foldl (step rep) s

def run (rep : Bool) (sched : List Action) : State := runFrom rep init sched

/-- every queue operation of a whole schedule, in order -/
def allOps (rep : Bool) : State → List Action → List Op
  | _, [] => []
  | s, a :: as => queueOps rep s a ++ allOps rep (step rep s a) as

end KrakenModel.SchedQueue
