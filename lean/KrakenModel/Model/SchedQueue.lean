import KrakenModel.Model.AnnounceQueue
/-
  Scheduler-level model of how lib/torrent/scheduler uses its announce queue (C20, second part):
  which `Add` / `Next` / `Ready` / `Eject` calls each scheduler event makes, composed with
  `Model.AnnounceQueue` (the queue itself).

    addTorrent (newTorrentEvent / addIncomingConn, only when there is no control)   Add h
    dispatcherCompleteEvent                                                          Eject h
        (ignored when the control of h belongs to a newer dispatcher — the C17 fix)
    state.removeTorrent (RemoveTorrent, idle preemption)                             Eject h
        (`rep = false`, the code as it was: only when the dispatcher is not complete)
    newTorrentEvent on an evicted blob (control complete, torrent on disk not)      Eject h, Add h
    announceTickEvent        Next until a torrent that is neither saturated nor unknown comes out;
                             saturated ones are skipped and made Ready again afterwards, unknown ones
                             stay pending
    announceResultEvent      Ready h when h still has a control
    announceErrEvent         Ready h

  `ctrl h = some (gen, complete)` is `torrentControls[h]`; completion notices in flight are
  `(h, gen)` pairs as in Model.SchedWaiters.  Which torrents are saturated at a tick is an input.
-/
namespace KrakenModel.SchedQueue
open KrakenModel.AnnounceQueue

structure State where
  ctrl : Hash → Option (Nat × Bool) := fun _ => none
  notices : List (Hash × Nat) := []
  nextGen : Nat := 0
  q : AnnounceQueue.State := {}
  /-- announce requests sent to the tracker and not yet answered, per torrent: started by an announce tick,
      but also directly (bypassing the queue) by `newTorrentEvent` ("immediately announce new torrents") and
      by `dispatcherCompleteEvent` ("immediately announce completed torrents") -/
  inflight : Hash → Nat := fun _ => 0

inductive Action where
  /-- a download request for torrent `h` (`newTorrentEvent`); `disk` = the torrent the caller created from
      the archive is complete (the blob is in the cache). With a complete control and `disk = false` (the blob
      was evicted from the cache) the control is removed and the torrent added again. -/
  | request (h : Hash) (disk : Bool)
  /-- an incoming connection for a torrent (`addIncomingConn`): adds the torrent when it has no control -/
  | incoming (h : Hash) (disk : Bool)
  /-- the last piece is written on the dispatcher's goroutine -/
  | finish (h : Hash)
  /-- the completion notice of dispatcher `g` of torrent `h` is applied -/
  | notice (h : Hash) (g : Nat)
  /-- `state.removeTorrent` (RemoveTorrent API or idle preemption) -/
  | remove (h : Hash)
  /-- an announce tick; `sat` = the torrents that are saturated at that moment -/
  | announceTick (sat : List Hash)
  | announceResult (h : Hash)
  | announceErr (h : Hash)
  deriving Repr, DecidableEq

def init : State := {}

/-- the queue calls of one announce tick, given the queue, the saturated torrents and the known ones;
`fuel` bounds the loop (one `Next` per element of the ready list, plus the final empty one) -/
def tickOps (sat known : Hash → Bool) : Nat → AnnounceQueue.State → List Hash → List Op
  | 0, _, skipped => skipped.reverse.map .ready
  | fuel + 1, q, skipped =>
    match (next q).2 with
    | none => .next :: skipped.reverse.map .ready
    | some h =>
      if sat h then .next :: tickOps sat known fuel (next q).1 (h :: skipped)
      else if !known h then .next :: tickOps sat known fuel (next q).1 skipped
      else .next :: skipped.reverse.map .ready

/-- `state.removeTorrent`'s queue call for a control with completeness `complete` -/
def removeOps (rep : Bool) (h : Hash) (complete : Bool) : List Op :=
  if rep || !complete then [.eject h] else []

/-- the torrent an announce tick ends up announcing (the last `Next` result when the loop broke out) -/
def tickAnnounced (sat known : Hash → Bool) : Nat → AnnounceQueue.State → Option Hash
  | 0, _ => none
  | fuel + 1, q =>
    match (next q).2 with
    | none => none
    | some h =>
      if sat h then tickAnnounced sat known fuel (next q).1
      else if !known h then tickAnnounced sat known fuel (next q).1
      else some h

/-- the queue operations an action performs in state `s` -/
def queueOps (rep : Bool) (s : State) : Action → List Op
  | .request h disk =>
    match s.ctrl h with
    | some (_, complete) => if complete && !disk then removeOps rep h complete ++ [.add h] else []
    | none => [.add h]
  | .incoming h _ => if (s.ctrl h).isSome then [] else [.add h]
  | .finish _ => []
  | .notice h g =>
    if (h, g) ∈ s.notices then
      match s.ctrl h with
      | some (g', _) => if rep && g' != g then [] else [.eject h]
      | none => [.eject h]
    else []
  | .remove h =>
    match s.ctrl h with
    | some (_, complete) => removeOps rep h complete
    | none => []
  | .announceTick sat =>
    tickOps (fun h => decide (h ∈ sat)) (fun h => (s.ctrl h).isSome) (s.q.ready.length + 1) s.q []
  | .announceResult h => if s.inflight h = 0 then [] else if (s.ctrl h).isSome then [.ready h] else []
  | .announceErr h => if s.inflight h = 0 then [] else [.ready h]

def setCtrl (s : State) (h : Hash) (c : Option (Nat × Bool)) : State :=
  { s with ctrl := fun k => if k = h then c else s.ctrl k }

def addInflight (s : State) (h : Hash) : State :=
  { s with inflight := fun k => if k = h then s.inflight k + 1 else s.inflight k }

def subInflight (s : State) (h : Hash) : State :=
  { s with inflight := fun k => if k = h then s.inflight k - 1 else s.inflight k }

/-- `addTorrent`: a new control (and, over a cached blob, its completion notice at once) -/
def addCtrl (s : State) (h : Hash) (disk : Bool) : State :=
  let s' := setCtrl { s with nextGen := s.nextGen + 1 } h (some (s.nextGen, disk))
  if disk then { s' with notices := s.notices ++ [(h, s.nextGen)] } else s'

/-- the effect of an action on the scheduler's own bookkeeping -/
def bookkeeping (s : State) : Action → State
  | .request h disk =>
    match s.ctrl h with
    | some (_, complete) =>
      if complete && !disk then addInflight (addCtrl s h false) h     -- evicted: removed, added again, announced
      else if complete then s
      else addInflight s h                                              -- joins the download: announced again
    | none => if disk then addCtrl s h true else addInflight (addCtrl s h false) h
  | .incoming h disk => if (s.ctrl h).isSome then s else addCtrl s h disk
  | .finish h =>
    match s.ctrl h with
    | some (g, false) => { setCtrl s h (some (g, true)) with notices := s.notices ++ [(h, g)] }
    | _ => s
  | .notice h g =>
    if (h, g) ∈ s.notices then
      let s' := { s with notices := s.notices.erase (h, g) }
      match s.ctrl h with
      | some (g', _) => if g' = g then addInflight s' h else s'       -- completion: announced at once
      | none => s'
    else s
  | .remove h => setCtrl s h none
  | .announceTick sat =>
    match tickAnnounced (fun h => decide (h ∈ sat)) (fun h => (s.ctrl h).isSome) (s.q.ready.length + 1) s.q with
    | some h => addInflight s h
    | none => s
  | .announceResult h => subInflight s h
  | .announceErr h => subInflight s h

def step (rep : Bool) (s : State) (a : Action) : State :=
  let ops := queueOps rep s a
  { bookkeeping s a with q := ops.foldl AnnounceQueue.step s.q }

def runFrom (rep : Bool) (s : State) (sched : List Action) : State := sched.foldl (step rep) s

def run (rep : Bool) (sched : List Action) : State := runFrom rep init sched

/-- every queue operation of a whole schedule, in order -/
def allOps (rep : Bool) : State → List Action → List Op
  | _, [] => []
  | s, a :: as => queueOps rep s a ++ allOps rep (step rep s a) as

end KrakenModel.SchedQueue
