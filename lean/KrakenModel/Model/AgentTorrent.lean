/-
  Model of lib/torrent/storage/agentstorage.Torrent on the real CADownloadStore (C03, reused by C19).

  `Torrent.WritePiece(src, pi)` is a small-step program; every goroutine that called it is a
  `Thread` with a program counter.  A schedule is a list of `Action`s: `spawn` (a new call of
  WritePiece starts), `step tid k` (thread `tid` performs its next atomic step; `k` is the number
  of bytes the next `Write` syscall of the `io.Copy` loop carries, so every chunking is covered),
  `reopen` (a new Torrent instance is created over the same store, NewTorrent/restorePieces; only
  when no call is in flight — the code documents concurrent instances as undefined), `recreate`
  (TorrentArchive.DeleteTorrent then CreateTorrent: everything starts over).

  Shared state as in the code: `pieces` (in-memory status vector, each under its own RWMutex),
  `file` (bytes of the download file; the same inode after the rename into the cache directory),
  `inCache` (which state directory the file entry is in), `status` (bytes of the `_status`
  sidecar), `numComplete`, `committed` (atomics).

  The piece checksum `crc` is a parameter (uninterpreted); the driver instantiates it with CRC-32.
-/
namespace KrakenModel.AgentTorrent

abbrev Bytes := List Nat

/-- `core.MetaInfo` as far as the torrent uses it -/
structure MetaInfo where
  pl : Nat              -- info.PieceLength
  length : Nat          -- info.Length
  sums : List Nat       -- info.PieceSums
  deriving Repr, DecidableEq

/-- bytes of piece `i` of a blob cut at piece length `pl` -/
def pieceOf (pl : Nat) (blob : Bytes) (i : Nat) : Bytes := (blob.drop (pl * i)).take pl

/-- number of pieces `calcPieceSums` produces: ⌈len / pl⌉ -/
def numPiecesOf (pl len : Nat) : Nat := (len + (pl - 1)) / pl

/-- what `core.NewMetaInfo` computes for a blob (C02 is about that function; here it is the
    definition of "the metainfo of the blob") -/
def MetaInfo.ofBlob (crc : Bytes → Nat) (pl : Nat) (blob : Bytes) : MetaInfo :=
  { pl := pl, length := blob.length,
    sums := (List.range (numPiecesOf pl blob.length)).map fun i => crc (pieceOf pl blob i) }

def MetaInfo.numPieces (mi : MetaInfo) : Nat := mi.sums.length

/-- `MetaInfo.GetPieceLength(i)` (int64 arithmetic, no clamping) -/
def MetaInfo.pieceLength (mi : MetaInfo) (i : Int) : Int :=
  if i < 0 ∨ i ≥ mi.sums.length then 0
  else if i = (mi.sums.length : Int) - 1 then (mi.length : Int) - (mi.pl : Int) * i
  else mi.pl

inductive PStatus where
  | empty | complete | dirty
  deriving Repr, DecidableEq

/-- result classes of `WritePiece` -/
inductive Res where
  | ok
  | errIndex      -- "invalid piece index"
  | errLength     -- "invalid piece length"
  | errComplete   -- storage.ErrPieceComplete
  | errConflict   -- errWritePieceConflict
  | errSum        -- "write piece: invalid piece sum"
  | errStore      -- any error of the file store (get download writer, seek/copy, metadata, move)
  | panic         -- index out of range (not reachable: every slice access is guarded)
  deriving Repr, DecidableEq

inductive PC where
  | start          -- getPiece bounds check + length check
  | fastComplete   -- piece.complete()
  | fastDirty      -- piece.dirty()
  | tryDirty       -- piece.tryMarkDirty()
  | openFile       -- GetDownloadFileReadWriter + Seek
  | writing        -- io.Copy: one Write per step
  | checksum       -- h.Sum32() != GetPieceSum(pi)
  | setMeta        -- Download().SetMetadataAt(_status, [1], pi)
  | markComplete   -- pieces[pi].markComplete()
  | incNum         -- numComplete.Inc()
  | loadNum        -- numComplete.Load() == len(pieces)
  | move           -- MoveDownloadFileToCache
  | setCommitted   -- committed.Store(true)
  | markEmpty      -- piece.markEmpty() after a failed writePiece
  | done
  deriving Repr, DecidableEq

structure Thread where
  pc : PC := .start
  pi : Int                 -- the index argument as passed
  idx : Nat := 0           -- `pi` as a slice index once the bounds check passed
  payload : Bytes          -- what `src` delivers (src.Length() = payload.length: piecereader.Buffer)
  written : Nat := 0       -- bytes of the payload copied so far
  fail : Res := .ok        -- error to return once the piece has been marked empty again
  result : Option Res := none
  deriving Repr, DecidableEq

structure State where
  mi : MetaInfo
  pieces : List PStatus
  file : Bytes
  inCache : Bool
  status : Bytes
  numComplete : Nat
  committed : Bool
  threads : List Thread
  deriving Repr, DecidableEq

inductive Action where
  | spawn (pi : Int) (payload : Bytes)
  | step (tid : Nat) (k : Nat)
  | reopen
  | recreate      -- TorrentArchive.DeleteTorrent followed by CreateTorrent (only while no call is in flight)
  | tornReopen (n : Nat)   -- the process crashed, the `_status` sidecar was left with n bytes, restart
  deriving Repr, DecidableEq

/-- actions after which pieces that were complete need not be complete any more -/
def Action.destructive : Action → Bool
  | .recreate | .tornReopen _ => true
  | _ => false

/-- pwrite: bytes `d` at offset `off` (a write past the end zero-fills the gap, as POSIX does) -/
def writeAt (f : Bytes) (off : Nat) (d : Bytes) : Bytes :=
  (f ++ List.replicate (off - f.length) 0).take off ++ d ++ f.drop (off + d.length)

/-- `NewTorrent` once the status vector has one entry per piece: restorePieces from the `_status`
    sidecar (or "all complete" when the file is already in the cache directory), commit when every
    piece is complete. -/
def openTorrentCore (s : State) : State :=
  if s.inCache then
    -- GetOrSetMetadata on the download scope fails with a cache-state FileStateError
    { s with pieces := List.replicate s.mi.numPieces .complete, numComplete := s.mi.numPieces,
             committed := true }       -- MoveDownloadFileToCache → os.ErrExist, ignored
  else
    let pieces := s.status.map fun b => if b = 1 then PStatus.complete else PStatus.empty
    let nc := pieces.count .complete
    if nc = pieces.length then
      { s with pieces := pieces, numComplete := nc, inCache := true, committed := true }
    else
      { s with pieces := pieces, numComplete := nc, committed := false }

/-- `NewTorrent`: a `_status` sidecar of the wrong length (left by a crash) describes no piece and is
    reset to "all empty" before the pieces are restored from it. -/
def openTorrent (s : State) : State :=
  if s.inCache ∨ s.status.length = s.mi.numPieces then openTorrentCore s
  else openTorrentCore { s with status := List.replicate s.mi.numPieces 0 }

/-- a freshly created download file (CreateDownloadFile: truncate to length) and its first Torrent -/
def init (mi : MetaInfo) : State :=
  openTorrent
    { mi := mi, pieces := [], file := List.replicate mi.length 0, inCache := false,
      status := List.replicate mi.numPieces 0, numComplete := 0, committed := false, threads := [] }

def Thread.isDone (t : Thread) : Bool := t.pc = .done

def quiescent (s : State) : Bool := s.threads.all Thread.isDone

def setThread (s : State) (tid : Nat) (t : Thread) : State :=
  { s with threads := s.threads.set tid t }

def finish (t : Thread) (r : Res) : Thread := { t with pc := .done, result := some r }

/-- one atomic step of thread `tid` -/
def stepThread (crc : Bytes → Nat) (s : State) (tid : Nat) (k : Nat) : State :=
  match s.threads[tid]? with
  | none => s
  | some t =>
    match t.pc with
    | .start =>
      if t.pi < 0 ∨ t.pi ≥ s.pieces.length then setThread s tid (finish t .errIndex)   -- getPiece
      else if (t.payload.length : Int) ≠ s.mi.pieceLength t.pi then setThread s tid (finish t .errLength)
      else setThread s tid { t with pc := .fastComplete, idx := t.pi.toNat }
    | .fastComplete =>
      match s.pieces[t.idx]? with
      | none => setThread s tid (finish t .panic)
      | some st =>
        if st = .complete then setThread s tid (finish t .errComplete)
        else setThread s tid { t with pc := .fastDirty }
    | .fastDirty =>
      match s.pieces[t.idx]? with
      | none => setThread s tid (finish t .panic)
      | some st =>
        if st = .dirty then setThread s tid (finish t .errConflict)
        else setThread s tid { t with pc := .tryDirty }
    | .tryDirty =>
      match s.pieces[t.idx]? with
      | none => setThread s tid (finish t .panic)
      | some .empty =>
        setThread { s with pieces := s.pieces.set t.idx .dirty } tid { t with pc := .openFile }
      | some .dirty => setThread s tid (finish t .errConflict)
      | some .complete => setThread s tid (finish t .errComplete)
    | .openFile =>
      -- the op only accepts the download state
      if s.inCache then setThread s tid { t with pc := .markEmpty, fail := .errStore }
      else setThread s tid { t with pc := .writing, written := 0 }
    | .writing =>
      if t.written ≥ t.payload.length then setThread s tid { t with pc := .checksum }
      else
        let c := (t.payload.drop t.written).take k
        setThread { s with file := writeAt s.file (s.mi.pl * t.idx + t.written) c } tid
          { t with written := t.written + c.length }
    | .checksum =>
      match s.mi.sums[t.idx]? with
      | none => setThread s tid (finish t .panic)                      -- GetPieceSum does not check bounds
      | some sum =>
        if crc t.payload ≠ sum then setThread s tid { t with pc := .markEmpty, fail := .errSum }
        else setThread s tid { t with pc := .setMeta }
    | .setMeta =>
      if s.inCache ∨ t.idx ≥ s.status.length then
        setThread s tid { t with pc := .markEmpty, fail := .errStore }  -- FileStateError / ReadAt EOF
      else
        setThread { s with status := s.status.set t.idx 1 } tid { t with pc := .markComplete }
    | .markComplete =>
      if t.idx < s.pieces.length then
        setThread { s with pieces := s.pieces.set t.idx .complete } tid { t with pc := .incNum }
      else setThread s tid (finish t .panic)
    | .incNum =>
      setThread { s with numComplete := s.numComplete + 1 } tid { t with pc := .loadNum }
    | .loadNum =>
      if s.numComplete = s.pieces.length then setThread s tid { t with pc := .move }
      else setThread s tid (finish t .ok)
    | .move =>
      -- already in the cache state: os.ErrExist, ignored
      setThread { s with inCache := true } tid { t with pc := .setCommitted }
    | .setCommitted =>
      setThread { s with committed := true } tid (finish t .ok)
    | .markEmpty =>
      if t.idx < s.pieces.length then
        setThread { s with pieces := s.pieces.set t.idx .empty } tid (finish t t.fail)
      else setThread s tid (finish t .panic)
    | .done => s

def step (crc : Bytes → Nat) (s : State) : Action → State
  | .spawn pi payload => { s with threads := s.threads ++ [{ pi := pi, payload := payload }] }
  | .step tid k => stepThread crc s tid k
  | .reopen => if quiescent s then openTorrent s else s
  | .recreate => if quiescent s then init s.mi else s   -- file, sidecars and the old calls' records are gone
  | .tornReopen n =>
    -- a crash left `_status` with n bytes (a prefix of what was there, or zero padded); the restarted
    -- process opens the torrent again (its calls died with it). Only for a file still in the download state.
    if quiescent s ∧ s.inCache = false then
      if n = s.status.length then openTorrent s
      else openTorrent { s with status := s.status.take n ++ List.replicate (n - s.status.length) 0, threads := [] }
    else s

def run (crc : Bytes → Nat) (mi : MetaInfo) (sched : List Action) : State :=
  sched.foldl (step crc) (init mi)

/-! ### observations (`Bitfield`, `BytesDownloaded`, `Complete`, `HasPiece`, `MissingPieces`, `GetPieceReader`) -/

def bitfield (s : State) : List Bool := s.pieces.map (· = .complete)

def bytesDownloaded (s : State) : Nat := min (s.numComplete * s.mi.pl) s.mi.length

def complete (s : State) : Bool := s.committed

def missing (s : State) : List Nat :=
  (List.range s.pieces.length).filter fun i => s.pieces[i]? ≠ some .complete

inductive ReadRes where
  | bytes (b : Bytes)
  | errIndex
  | errNotComplete
  | panic
  deriving Repr, DecidableEq

/-- `GetPieceReader(pi)` followed by reading it to the end (FileReader: seek to the piece offset
    in the file, in whichever state directory it is, and read at most the piece length) -/
def readPiece (s : State) (pi : Int) : ReadRes :=
  if pi < 0 ∨ pi ≥ s.pieces.length then .errIndex
  else match s.pieces[pi.toNat]? with
    | some .complete => .bytes ((s.file.drop (s.mi.pl * pi.toNat)).take (s.mi.pieceLength pi).toNat)
    | _ => .errNotComplete

def hasPiece (s : State) (pi : Int) : Option Bool :=
  if pi < 0 ∨ pi ≥ s.pieces.length then some false
  else some (s.pieces[pi.toNat]? = some .complete)

/-- run thread `tid` until it is done, giving every write the chunk size `k` (fuel-bounded; the
    driver passes a bound above the longest path) -/
def runThread (crc : Bytes → Nat) (k : Nat) : Nat → State → Nat → State
  | 0, s, _ => s
  | fuel + 1, s, tid =>
    match s.threads[tid]? with
    | none => s
    | some t => if t.pc = .done then s else runThread crc k fuel (stepThread crc s tid k) tid

end KrakenModel.AgentTorrent
