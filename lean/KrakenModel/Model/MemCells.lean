import KrakenModel.Model.BlobStore
/-
  C08, the mechanism behind "stale handles fail": the slice cell `*[]byte` that a blob of the memory
  store and all `memory.File` handles of that incarnation share, the blob's `sliceMu`, and the calls on
  it taken apart into the steps the Go code takes.

    store side   `b.sliceMu.Lock(); *b.data = nil; b.sliceMu.Unlock()`        (eviction, Delete)
    handle write `f.sliceMu.Lock(); buf := *f.data; if buf == nil → ErrEvicted;
                  …compute…; *f.data = buf'; f.sliceMu.Unlock()`             (Write, WriteAt)
    handle read  `f.sliceMu.RLock(); buf := *f.data; …; f.sliceMu.RUnlock()`  (Read, ReadAt, Seek, Size)

  Every thread runs one call at a time, one step at a time, in any interleaving (`List CAct`).  With
  `discipline = false` the lock steps do nothing (the lock is not taken): the protocol without its lock.
  `Model.BlobStore` treats a handle call as one atomic step and tells incarnations apart by a ghost
  number; this model is what justifies that: it has no incarnation numbers, only the cell and the lock.
  Core Lean only.
-/
namespace KrakenModel.MemCells
open KrakenModel.BlobStore

/-- where a thread is inside its call -/
inductive Pc where
  | idle
  | wLock (p : Bytes) (off : Nat)                   -- write: before `Lock()`
  | wHeld (p : Bytes) (off : Nat)                   -- … lock held, before `buf := *f.data`
  | wGot (buf : Bytes) (p : Bytes) (off : Nat)      -- … header read (not nil), before `*f.data = buf'`
  | wUnlock                                         -- … before `Unlock()`
  | rLock                                           -- read: before `RLock()`
  | rHeld                                           -- … before `buf := *f.data`
  | rUnlock                                         -- … before `RUnlock()`
  | nLock                                           -- store: before `Lock()`
  | nHeld                                           -- … before `*b.data = nil`
  | nUnlock                                         -- … before `Unlock()`
  deriving DecidableEq, Repr

/-- what a finished call answered -/
inductive Res where
  | evicted
  | wrote
  | read (b : Bytes)
  | niled
  deriving DecidableEq, Repr

structure CState where
  cell : Option Bytes := some []        -- the slice header behind `*[]byte` (none = nil)
  niled : Bool := false                 -- ghost: the store has nil-ed the cell
  wlock : Option Nat := none            -- thread holding the write lock
  rlocks : List Nat := []               -- threads holding the read lock
  pcs : List Pc := []
  results : List (Nat × Res) := []      -- ghost: answers so far (thread, result), latest first
  deriving DecidableEq, Repr

inductive CAct where
  | startWrite (i : Nat) (p : Bytes) (off : Nat)
  | startRead (i : Nat)
  | startNil (i : Nat)
  | step (i : Nat)
  deriving DecidableEq, Repr

def cinit (nThreads : Nat) (data : Bytes) : CState := { cell := some data, pcs := List.replicate nThreads .idle }

def setPc (s : CState) (i : Nat) (pc : Pc) : CState := { s with pcs := s.pcs.set i pc }

/-- one step of thread `i` (no change when the thread has to wait for the lock) -/
def cstep (discipline : Bool) (s : CState) : CAct → CState
  | .startWrite i p off => if s.pcs[i]? = some .idle then setPc s i (.wLock p off) else s
  | .startRead i => if s.pcs[i]? = some .idle then setPc s i .rLock else s
  | .startNil i => if s.pcs[i]? = some .idle then setPc s i .nLock else s
  | .step i =>
    match s.pcs[i]? with
    | some (.wLock p off) =>
      if !discipline then setPc s i (.wHeld p off) else
      if s.wlock.isNone && s.rlocks.isEmpty then setPc { s with wlock := some i } i (.wHeld p off) else s
    | some (.wHeld p off) =>
      match s.cell with
      | none => setPc { s with results := (i, .evicted) :: s.results } i .wUnlock
      | some buf => setPc s i (.wGot buf p off)
    | some (.wGot buf p off) =>
      setPc { s with cell := some (writeAt buf p off), results := (i, .wrote) :: s.results } i .wUnlock
    | some .wUnlock => setPc { s with wlock := if s.wlock = some i then none else s.wlock } i .idle
    | some .rLock =>
      if !discipline then setPc s i .rHeld else
      if s.wlock.isNone then setPc { s with rlocks := i :: s.rlocks } i .rHeld else s
    | some .rHeld =>
      match s.cell with
      | none => setPc { s with results := (i, .evicted) :: s.results } i .rUnlock
      | some buf => setPc { s with results := (i, .read buf) :: s.results } i .rUnlock
    | some .rUnlock => setPc { s with rlocks := s.rlocks.erase i } i .idle
    | some .nLock =>
      if !discipline then setPc s i .nHeld else
      if s.wlock.isNone && s.rlocks.isEmpty then setPc { s with wlock := some i } i .nHeld else s
    | some .nHeld => setPc { s with cell := none, niled := true, results := (i, .niled) :: s.results } i .nUnlock
    | some .nUnlock => setPc { s with wlock := if s.wlock = some i then none else s.wlock } i .idle
    | _ => s

def crun (discipline : Bool) (s : CState) (acts : List CAct) : CState := acts.foldl (cstep discipline) s

end KrakenModel.MemCells
