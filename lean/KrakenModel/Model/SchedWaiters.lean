/-
  Model of how the torrent scheduler answers blob download requests (C17).

  Code modelled (lib/torrent/scheduler): `scheduler.doDownload`, `newTorrentEvent.apply`,
  `dispatcherCompleteEvent.apply`, `preemptionTickEvent.apply` (torrent loop), `removeTorrentEvent.apply`,
  `shutdownEvent.apply`, `state.removeTorrent`, `state.addTorrent`; lib/torrent/scheduler/dispatch:
  `Dispatcher.complete` (`completeOnce` → `go events.DispatcherComplete(d)`), `dispatch.New` on a
  complete torrent.

  * `ctrl h` is `state.torrentControls[h]`: `gen` identifies the dispatcher object (a fresh number per
    `addTorrent`), `complete` is `dispatcher.Complete()`, `waiters` is `torrentControl.errors` (one
    entry per download request that is still waiting, identified by the request's number);
  * `notices` are the completion notices in flight: sent by a dispatcher's goroutine when its torrent
    became complete, not yet applied by the event loop.  Any pending notice may be applied next;
  * `results w` is the log of everything that was ever sent on request `w`'s result channel (or
    returned directly by `Download`), with a ghost flag "the blob was in the cache then";
  * `live` lists the hashes that were ever keys of `torrentControls` (iteration over the Go map =
    iteration over `live`, skipping the absent ones).

  The flag `rep` selects the code as repaired by the `fix:` commit (`true`) or as it was (`false`):
    - `removeTorrent` notified the waiters only of an *incomplete* torrent (now: always, and clears them),
    - `dispatcherCompleteEvent` answered the waiters of whatever control has the same info hash, and
      left them registered (now: only the control of the completed dispatcher itself, and clears them),
    - an idle *seeder* is removed with a nil result for remaining waiters (its blob stays cached).

  A download request is two steps, as in `doDownload`: `create` (the caller's `CreateTorrent`: the torrent
  object is complete iff the blob is cached at that moment) and `apply` (the event loop applies the
  `newTorrentEvent`, which looks at that torrent object, not at the cache); `request` is the two in
  immediate succession.  `evict h` is the store's cleanup deleting a cached blob (also under a live
  control): a later request then takes the branch at the top of `newTorrentEvent.apply` (control complete,
  torrent on disk not): `removeTorrent`, then `addTorrent` again.  `incoming h` is a control created by an
  incoming connection (`addIncomingConn`): no waiter.  The ghost flag `pure` is true as long as no blob was
  evicted and no request was split: in such schedules a complete control always has its blob.
  Not modelled: `addTorrent` errors.
  Time is abstracted: `timeout h` is a preemption tick that finds `h` idle (a tick finding several
  torrents idle is a sequence of such steps); whether a torrent may be found idle is C18's subject.
-/
namespace KrakenModel.SchedWaiters

abbrev Hash := Nat

inductive Res where
  | ok | timeout | removed | stopped | notFound
  deriving Repr, DecidableEq

structure Sent where
  res : Res
  cachedThen : Bool
  deriving Repr, DecidableEq

structure Ctrl where
  gen : Nat
  complete : Bool
  waiters : List Nat
  deriving Repr, DecidableEq

structure State where
  ctrl : Hash → Option Ctrl := fun _ => none
  live : List Hash := []
  cached : Hash → Bool := fun _ => false
  notices : List (Hash × Nat) := []
  stopped : Bool := false
  nextGen : Nat := 0
  nextW : Nat := 0
  results : Nat → List Sent := fun _ => []
  /-- requests whose torrent was created by the caller and whose `newTorrentEvent` is not applied yet:
      torrent and whether the created torrent object is complete -/
  snap : Nat → Option (Hash × Bool) := fun _ => none
  /-- ghost: no eviction and no split request so far -/
  pure : Bool := true
  /-- the torrent's download file exists (created by `CreateTorrent` for a blob that is not cached; gone when
      the download is cancelled or deleted, or when the completed file is moved to the cache). A dispatcher whose
      torrent object is older than the file's disappearance cannot write pieces: it never completes. -/
  dl : Hash → Bool := fun _ => false

inductive Action where
  /-- `Download` of a blob whose metainfo exists: `CreateTorrent`, then `newTorrentEvent` at once -/
  | request (h : Hash)
  /-- the caller's half of `Download`: `CreateTorrent` and handing the event to the loop -/
  | create (h : Hash)
  /-- the event loop applies the `newTorrentEvent` of request `w` -/
  | apply (w : Nat)
  /-- an incoming connection creates a control for `h` when there is none (`addIncomingConn`) -/
  | incoming (h : Hash)
  /-- the store's cleanup evicts the cached blob of `h` -/
  | evict (h : Hash)
  /-- `Download` of a blob unknown to the tracker: returns "not found" without any event -/
  | requestMissing
  /-- the dispatcher's goroutine writes the last piece: the torrent is committed to the cache and the
      completion notice is sent -/
  | finish (h : Hash)
  /-- the event loop applies the completion notice of dispatcher `g` of torrent `h` -/
  | notice (h : Hash) (g : Nat)
  /-- a preemption tick finds torrent `h` idle -/
  | timeout (h : Hash)
  /-- the RemoveTorrent API -/
  | rm (h : Hash)
  /-- `Stop()`: `shutdownEvent` -/
  | shutdown
  deriving Repr, DecidableEq

def init : State := {}

def setCtrl (s : State) (h : Hash) (oc : Option Ctrl) : State :=
  { s with ctrl := fun k => if k = h then oc else s.ctrl k }

def setCached (s : State) (h : Hash) (b : Bool) : State :=
  { s with cached := fun k => if k = h then b else s.cached k }

def setDl (s : State) (h : Hash) (b : Bool) : State :=
  { s with dl := fun k => if k = h then b else s.dl k }

/-- `for _, errc := range ws { errc <- x }` -/
def sendTo (res : Nat → List Sent) (ws : List Nat) (x : Sent) : Nat → List Sent :=
  fun w => res w ++ List.replicate (ws.count w) x

def waitersOf (s : State) (h : Hash) : List Nat :=
  match s.ctrl h with
  | some c => c.waiters
  | none => []

/-- `state.removeTorrent(h, r)` for the existing control `c`; `cachedAfter`: ghost, whether the blob is in
    the cache once the calling event has finished -/
def removeTorrent (rep : Bool) (s : State) (h : Hash) (c : Ctrl) (r : Res) (cachedAfter : Bool) : State :=
  let s' := if rep || !c.complete then { s with results := sendTo s.results c.waiters ⟨r, cachedAfter⟩ } else s
  let s' := if c.complete then s' else setDl (setCached s' h false) h false
  setCtrl s' h none

/-- the caller's half of `doDownload`: a fresh request number; when the loop is stopped `send` fails and
`Download` returns at once, otherwise the created torrent's completeness is remembered with the event -/
def create (s : State) (h : Hash) : State :=
  let w := s.nextW
  let s := setDl { s with nextW := w + 1 } h (s.dl h || !s.cached h)
  if s.stopped then { s with results := sendTo s.results [w] ⟨.stopped, s.cached h⟩ }
  else { s with snap := fun k => if k = w then some (h, s.cached h) else s.snap k }

/-- `state.addTorrent` for request `w` over a torrent object whose completeness is `sc` -/
def addFor (s : State) (h : Hash) (w : Nat) (sc : Bool) : State :=
  let g := s.nextGen
  let s := { s with nextGen := g + 1, live := if h ∈ s.live then s.live else h :: s.live }
  if sc then
    -- `dispatch.New` over a complete torrent completes at once and sends its notice
    { setCtrl s h (some ⟨g, true, []⟩) with
        notices := s.notices ++ [(h, g)], results := sendTo s.results [w] ⟨.ok, s.cached h⟩ }
  else setCtrl s h (some ⟨g, false, [w]⟩)

/-- `newTorrentEvent.apply` for request `w` of torrent `h`, whose torrent object (created by the caller)
has completeness `sc` -/
def handleReq (rep : Bool) (s : State) (h : Hash) (w : Nat) (sc : Bool) : State :=
  if s.stopped then { s with results := sendTo s.results [w] ⟨.stopped, s.cached h⟩ }
  else match s.ctrl h with
    | some c =>
      if c.complete && !sc then
        -- the scheduler thinks the torrent is complete, the torrent just created from disk is not
        -- (the blob was evicted): remove the control, add the torrent again
        addFor (removeTorrent rep s h c .removed (s.cached h)) h w sc
      else if c.complete then { s with results := sendTo s.results [w] ⟨.ok, s.cached h⟩ }
      else setCtrl s h (some { c with waiters := c.waiters ++ [w] })
    | none => addFor s h w sc

/-- the event loop applies the `newTorrentEvent` of request `w` (when the loop was stopped in between, the
caller's `send` fails instead: same answer) -/
def applyReq (rep : Bool) (s : State) (w : Nat) : State :=
  match s.snap w with
  | none => s
  | some (h, sc) => handleReq rep { s with snap := fun k => if k = w then none else s.snap k } h w sc

/-- `Download`: create and apply in immediate succession (the torrent object's completeness is the
cache's at that moment) -/
def request (rep : Bool) (s : State) (h : Hash) : State :=
  handleReq rep (setDl { s with nextW := s.nextW + 1 } h (s.dl h || !s.cached h)) h s.nextW (s.cached h)

/-- `addIncomingConn` for a torrent without a control: `GetTorrent` + `addTorrent(…, false)` -/
def incoming (s : State) (h : Hash) : State :=
  if s.stopped then s
  else match s.ctrl h with
    | some _ => setDl s h (s.dl h || !s.cached h)   -- the torrent is on disk when a peer is accepted for it
    | none =>
      let g := s.nextGen
      let s := { s with nextGen := g + 1, live := if h ∈ s.live then s.live else h :: s.live,
                        dl := fun k => if k = h then !s.cached h else s.dl k }
      if s.cached h then { setCtrl s h (some ⟨g, true, []⟩) with notices := s.notices ++ [(h, g)] }
      else setCtrl s h (some ⟨g, false, []⟩)

def evict (s : State) (h : Hash) : State :=
  if s.cached h then { setCached s h false with pure := false } else s

def requestMissing (s : State) : State :=
  { s with nextW := s.nextW + 1, results := sendTo s.results [s.nextW] ⟨.notFound, false⟩ }

def finish (s : State) (h : Hash) : State :=
  match s.ctrl h with
  | some c =>
    if c.complete || !s.dl h then s
    else
      let s' := setDl (setCached (setCtrl s h (some { c with complete := true })) h true) h false
      if s.stopped then s' else { s' with notices := s.notices ++ [(h, c.gen)] }
  | none => s

def notice (rep : Bool) (s : State) (h : Hash) (g : Nat) : State :=
  if (h, g) ∈ s.notices then
    let s := { s with notices := s.notices.erase (h, g) }
    if s.stopped then s
    else match s.ctrl h with
      | some c =>
        if rep && c.gen != g then s
        else
          let s' := { s with results := sendTo s.results c.waiters ⟨.ok, s.cached h⟩ }
          if rep then setCtrl s' h (some { c with waiters := [] }) else s'
      | none => s
  else s

def timeout (rep : Bool) (s : State) (h : Hash) : State :=
  if s.stopped then s
  else match s.ctrl h with
    | some c => removeTorrent rep s h c (if rep && c.complete then .ok else .timeout) (c.complete && s.cached h)
    | none => s

def rm (rep : Bool) (s : State) (h : Hash) : State :=
  if s.stopped then s
  else
    let s' := match s.ctrl h with
      | some c => removeTorrent rep s h c .removed false
      | none => s
    setDl (setCached s' h false) h false

def shutdown (s : State) : State :=
  if s.stopped then s
  else
    { s with stopped := true,
             results := s.live.foldl (fun res h => sendTo res (waitersOf s h) ⟨.stopped, s.cached h⟩) s.results }

def step (rep : Bool) (s : State) : Action → State
  | .request h => request rep s h
  | .create h => { create s h with pure := false }
  | .apply w => applyReq rep s w
  | .incoming h => incoming s h
  | .evict h => evict s h
  | .requestMissing => requestMissing s
  | .finish h => finish s h
  | .notice h g => notice rep s h g
  | .timeout h => timeout rep s h
  | .rm h => rm rep s h
  | .shutdown => shutdown s

def runFrom (rep : Bool) (s : State) (sched : List Action) : State := sched.foldl (step rep) s

/-- state after a whole schedule -/
def run (rep : Bool) (sched : List Action) : State := runFrom rep init sched

end KrakenModel.SchedWaiters
