import KrakenModel.Model.Rendezvous
/-
  Model of lib/hashring.ring (C21): `Locations` (replica selection over the ordered list of C22) and
  `Refresh` (membership rebuild).  Core Lean only.

  `scan` is the loop
      for i := 0; i < len(nodes) && (len(locs) == 0 || i < MaxReplica); i++ { if healthy.Has(addr) {append} }
  as a structural recursion over the not-yet-visited nodes (`i` = index of the head).
  `MaxReplica` is a Go `int`; `i < MaxReplica` for `i ≥ 0` is `i < MaxReplica.toNat`.
-/
namespace KrakenModel.HashRing
open KrakenModel.Rendezvous

variable {α : Type} [DecidableEq α]

def scan (healthy : α → Bool) (r : Nat) : Nat → List α → List α → List α
  | _, [], locs => locs
  | i, a :: rest, locs =>
    if locs.isEmpty || decide (i < r) then
      scan healthy r (i + 1) rest (if healthy a then locs ++ [a] else locs)
    else locs

inductive Out (α : Type) where
  | ok (locs : List α)
  | panic                     -- `nodes[0]` on an empty ring
  deriving DecidableEq, Repr

/-- `Locations`: `ord` = GetOrderedNodes(shard, len(addrs)) labels, `hs` = the healthy set, `r` = MaxReplica -/
def locations (ord : List α) (hs : List α) (r : Int) : Out α :=
  if hs.isEmpty then
    match ord with
    | [] => .panic
    | a :: _ => .ok [a]
  else .ok (scan (fun a => hs.contains a) r.toNat 0 ord [])

/-- The property's own description of the replica set (independent of the loop):
    no healthy member → the top owner; otherwise the healthy members among the first `r` owners,
    or, when there is none, the single highest-ranked healthy member. -/
def specLocations (ord : List α) (hs : List α) (r : Int) : List α :=
  let healthyMembers := ord.filter (fun a => hs.contains a)
  if healthyMembers.isEmpty then ord.take 1
  else
    let top := (ord.take r.toNat).filter (fun a => hs.contains a)
    if top.isEmpty then healthyMembers.take 1 else top

/-- `Config.applyDefaults` for MaxReplica -/
def effReplica (r : Int) : Int := if r = 0 then 3 else r

/-! ### Refresh: the ring object -/

structure State (α : Type) where
  addrs : List α := []       -- `r.addrs` (a set: duplicate free)
  nodes : List α := []       -- labels of `r.hash.Nodes`, in the order the hosts were added (map iteration order)
  healthy : List α := []     -- `r.healthy`
  hashSet : Bool := false    -- `r.hash != nil` (a fresh ring over an empty host list never builds one)
  deriving Repr

/-- set equality of two duplicate-free lists, as `stringset.Equal` (length, then inclusion) -/
def setEqual (a b : List α) : Bool := a.length == b.length && a.all (fun x => b.contains x)

/-- `Refresh`: `latest` = cluster.Resolve(), `healthy` = filter.Run(latest), `order` = the order in which
    `for addr := range latest` happened to enumerate the hosts (a permutation of `latest`; only used
    when the membership changed). -/
def refresh (s : State α) (latest healthy order : List α) : State α :=
  { addrs := latest
    nodes := if setEqual s.addrs latest then s.nodes else order
    healthy := healthy
    hashSet := s.hashSet || !setEqual s.addrs latest }

structure RefreshOp (α : Type) where
  latest : List α
  healthy : List α
  order : List α

def step (s : State α) (o : RefreshOp α) : State α := refresh s o.latest o.healthy o.order

/-- what a well-formed Refresh looks like: the host list is a set and the enumeration a permutation of it -/
def pre (_ : State α) (o : RefreshOp α) : Prop := o.latest.Nodup ∧ o.order.Perm o.latest

/-- `Locations` on the ring object for a score function of the shard -/
def ringLocations {S : Type} [LE S] [DecidableLE S] (sc : α → S) (s : State α) (r : Int) : Out α :=
  if s.hashSet then locations (ordered sc s.nodes) s.healthy r else .panic   -- nil `r.hash`

end KrakenModel.HashRing
