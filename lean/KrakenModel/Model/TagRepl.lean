import KrakenModel.Model.Retry
/-
  Model of lib/persistedretry/tagreplication.Executor.Exec together with the polling loop it goes
  through (origin/blobclient.Poll as used by clusterClient.ReplicateToRemote) — C33.

  The remote side and the local origin cluster are *scripts*: what each HTTP endpoint answers to its
  1st, 2nd, … request.  A script that is exhausted closes the connection (`netErr`).  Scripts are
  consumed across executions, so the same model describes the retries driven by the retry manager.

    Exec(task):  HEAD remote-index /tags/<tag>          200 → done (already replicated)
                 GET  remote-index /origin               error → fail
                 for each dependency d, in order:  Poll over the origin replicas, in order:
                     POST origin_o /namespace/<tag>/blobs/<d>/remote/<remote origin>
                        200 → d is confirmed in the remote origin cluster
                        202 → ask the same origin again unless the backoff budget is used up
                        other status < 500 → the whole Poll fails immediately
                        5xx / network error → next origin
                 PUT  remote-index /tags/<tag>/digest/<digest>?replicate=true
-/
namespace KrakenModel.TagRepl

inductive Resp where
  | ok          -- 200
  | accepted    -- 202: the blob is still being fetched
  | client      -- another status < 500 (404, 400, …)
  | server      -- 5xx
  | netErr      -- no response
  deriving DecidableEq, Repr

abbrev Digest := Nat
abbrev Replica := Nat

/-- endpoints of the scripted world -/
inductive Endpoint where
  | has | origin | put
  | rep (d : Digest) (o : Replica)
  deriving DecidableEq, Repr

/-- one remote call and its answer, in the order the calls were made -/
structure Ev where
  ep : Endpoint
  resp : Resp
  deriving DecidableEq, Repr

abbrev Scripts := List (Endpoint × List Resp)

/-- next answer of an endpoint; the script is consumed -/
def pop : Scripts → Endpoint → Resp × Scripts
  | [], _ => (.netErr, [])
  | (e, rs) :: rest, ep =>
    if e = ep then
      match rs with
      | [] => (.netErr, (e, []) :: rest)
      | r :: rs' => (r, (e, rs') :: rest)
    else
      let (r, rest') := pop rest ep
      (r, (e, rs) :: rest')

structure Task where
  deps : List Digest
  deriving DecidableEq, Repr

structure Cfg where
  replicas : List Replica := [0]   -- the origins `Resolve(d)` returns, in order
  bo : Nat := 0                    -- answers other than Stop that NextBackOff gives after a Reset
  deriving DecidableEq, Repr

inductive PollOut where
  | success | abort | next
  deriving DecidableEq, Repr

/-- the POLL loop on one origin: at most `budget + 1` requests -/
def pollOne (d : Digest) (o : Replica) : Nat → Scripts → List Ev → PollOut × Scripts × List Ev
  | budget, sc, tr =>
    let (r, sc') := pop sc (.rep d o)
    let tr' := tr ++ [⟨.rep d o, r⟩]
    match r with
    | .ok => (.success, sc', tr')
    | .accepted =>
      match budget with
      | 0 => (.next, sc', tr')            -- backoff timed out on 202 responses
      | b + 1 => pollOne d o b sc' tr'
    | .client => (.abort, sc', tr')
    | .server => (.next, sc', tr')
    | .netErr => (.next, sc', tr')

/-- the ORIGINS loop: true = some origin answered 200 -/
def poll (bo : Nat) (d : Digest) : List Replica → Scripts → List Ev → Bool × Scripts × List Ev
  | [], sc, tr => (false, sc, tr)         -- "all origins unavailable"
  | o :: os, sc, tr =>
    match pollOne d o bo sc tr with
    | (.success, sc', tr') => (true, sc', tr')
    | (.abort, sc', tr') => (false, sc', tr')
    | (.next, sc', tr') => poll bo d os sc' tr'

/-- the dependency loop of Exec: stops at the first dependency that could not be replicated -/
def replicateAll (cfg : Cfg) : List Digest → Scripts → List Ev → Bool × Scripts × List Ev
  | [], sc, tr => (true, sc, tr)
  | d :: ds, sc, tr =>
    match poll cfg.bo d cfg.replicas sc tr with
    | (true, sc', tr') => replicateAll cfg ds sc' tr'
    | (false, sc', tr') => (false, sc', tr')

structure Result where
  ok : Bool
  scripts : Scripts
  trace : List Ev
  deriving DecidableEq, Repr

/-- `Executor.Exec` -/
def exec (cfg : Cfg) (t : Task) (sc : Scripts) : Result :=
  let (h, sc1) := pop sc .has
  let tr1 := [⟨.has, h⟩]
  if h = .ok then ⟨true, sc1, tr1⟩ else      -- "Remote index already has the tag … No-op."
  let (o, sc2) := pop sc1 .origin
  let tr2 := tr1 ++ [⟨.origin, o⟩]
  if o ≠ .ok then ⟨false, sc2, tr2⟩ else
  match replicateAll cfg t.deps sc2 tr2 with
  | (false, sc3, tr3) => ⟨false, sc3, tr3⟩
  | (true, sc3, tr3) =>
    let (p, sc4) := pop sc3 .put
    ⟨p = .ok, sc4, tr3 ++ [⟨.put, p⟩]⟩

/-- one execution of task `k` by a worker of the retry manager against the scripted world:
the executor's result decides between `Remove` and `MarkFailed` -/
def execStep (cfg : Cfg) (s : Retry.State) (k : Retry.Key) (t : Task) (sc : Scripts) : Retry.State × Result :=
  let r := exec cfg t sc
  (Retry.step s (.finish k r.ok), r)

/-! ### the origin side of a replicate request (origin/blobserver replicateToRemote) -/

structure Origin where
  cache : List Digest := []      -- blobs in this origin's cache
  backend : List Digest := []    -- blobs its backend holds
  remote : List Digest := []     -- blobs uploaded to the remote origin cluster
  deriving DecidableEq, Repr

/-- POST /namespace/<ns>/blobs/<d>/remote/<remote>: a cached blob is uploaded to the remote cluster
(200 only after `UploadBlob` returned); an uncached one is fetched from the backend (202) or unknown (404) -/
def replicateToRemote (o : Origin) (d : Digest) (remoteUp : Bool) : Origin × Resp :=
  if d ∈ o.cache then
    if remoteUp then ({ o with remote := if d ∈ o.remote then o.remote else o.remote ++ [d] }, .ok)
    else (o, .server)
  else if d ∈ o.backend then ({ o with cache := o.cache ++ [d] }, .accepted)
  else (o, .client)

/-! ### composition with the retry manager: the executor runs the task *stored in the table* -/

/-- a worker of the retry manager executes task `k`: the dependencies are the payload column of its
row (what `GetPending` / `GetFailed` returned), the world answers by the scripts `sc` -/
def execStored (cfg : Cfg) (s : Retry.State) (k : Retry.Key) (sc : Scripts) : Retry.State × Option (List Digest × Result) :=
  match Retry.payloadOf s.rows k, Retry.placeOf s.own k with
  | some pl, some (.running _) =>
    let r := exec cfg ⟨pl⟩ sc
    (Retry.step s (.finish k r.ok), some (pl, r))
  | _, _ => (s, none)

structure Entry where
  key : Retry.Key
  deps : List Digest
  res : Result
  deriving DecidableEq, Repr

structure CState where
  r : Retry.State := {}
  log : List Entry := []       -- every execution made, oldest first
  deriving DecidableEq, Repr

inductive COp where
  | sys (o : Retry.Op)                    -- any step of the retry manager except the end of an execution
  | run (k : Retry.Key) (sc : Scripts)    -- the end of an execution of k against an arbitrary world
  deriving DecidableEq, Repr

def cstep (cfg : Cfg) (s : CState) : COp → CState
  | .sys (.finish _ _) => s
  | .sys o => { s with r := Retry.step s.r o }
  | .run k sc =>
    match execStored cfg s.r k sc with
    | (r', some (pl, res)) => { r := r', log := s.log ++ [⟨k, pl, res⟩] }
    | (_, none) => s

def crun (cfg : Cfg) (rcfg : Retry.Config) (ops : List COp) : CState :=
  ops.foldl (cstep cfg) { r := Retry.init rcfg }

end KrakenModel.TagRepl
