/-
  Models of utils/dedup (C29): RequestCache, IntervalTrap, Limiter.
  Goroutine interleavings are modelled at the granularity of lock sections; a step that is not
  enabled leaves the state unchanged, so every list of actions is a schedule.  Core Lean only.
-/
namespace KrakenModel.Dedup

/-- association lists: first binding wins -/
def alook {κ ν : Type} [DecidableEq κ] : List (κ × ν) → κ → Option ν
  | [], _ => none
  | (k', v) :: r, k => if k' = k then some v else alook r k

def adel {κ ν : Type} [DecidableEq κ] (m : List (κ × ν)) (k : κ) : List (κ × ν) :=
  m.filter (fun p => p.1 ≠ k)

/-! ## RequestCache

  Start(id, r) = reserve (c.mu section: periodic cleanup of expired errors; pending → ErrRequestPending;
                 unexpired cached error → that error; else pending[id] = true)
               ; reserveWorker: either a worker slot is taken (`workerOk`: the request starts executing
                 in its goroutine and Start returns nil) or the busy timeout fires (`workerBusy`), after
                 which `release` (c.mu section) clears pending and Start returns ErrWorkersBusy.
  The request goroutine: r() returns (`finishOk` / `finishErr`: c.mu section clearing pending and, for
  an error, caching it with the not-found or the error TTL), then `releaseWorker`.
-/
namespace RC

structure Cfg where
  errTTL : Nat
  nfTTL : Nat
  cleanInt : Nat
  workers : Nat
  deriving Repr, DecidableEq

inductive TState where
  | idle
  | reserved (id : Nat)    -- reserve succeeded, in reserveWorker
  | releasing (id : Nat)   -- busy timeout fired, about to release(id)
  deriving Repr, DecidableEq

structure State where
  cfg : Cfg
  now : Nat := 0
  pending : List Nat := []
  errors : List (Nat × (Nat × Nat)) := []   -- id ↦ (error class, expiresAt)
  lastClean : Nat := 0
  execs : List Nat := []                    -- requests executing (goroutine inside r())
  zombies : Nat := 0                        -- finished requests that still hold their worker slot
  lastErr : List (Nat × (Nat × Nat)) := []  -- ghost: id ↦ (error, expiresAt) when the last execution of id failed
  thr : List (Nat × TState) := []
  deriving Repr

def init (cfg : Cfg) : State := { cfg := cfg }

def tget (s : State) (t : Nat) : TState := (alook s.thr t).getD .idle
def tset (s : State) (t : Nat) (x : TState) : State := { s with thr := (t, x) :: s.thr }

/-- occupied worker slots (`len(c.numWorkers)`) -/
def nworkers (s : State) : Nat := s.execs.length + s.zombies

/-- `cachedError.expired`: `now.After(expiresAt)` -/
def expired (now exp : Nat) : Bool := decide (exp < now)

inductive ROut where
  | ok
  | pending
  | cached (e : Nat)
  deriving Repr, DecidableEq

/-- the errors map after the periodic cleanup at the head of `reserve` -/
def cleaned (s : State) : List (Nat × (Nat × Nat)) :=
  if s.cfg.cleanInt < s.now - s.lastClean then s.errors.filter (fun p => !expired s.now p.2.2) else s.errors

def cleanedAt (s : State) : Nat := if s.cfg.cleanInt < s.now - s.lastClean then s.now else s.lastClean

/-- what `reserve(id)` returns in state `s` -/
def reserveOut (s : State) (id : Nat) : ROut :=
  if id ∈ s.pending then .pending
  else match alook (cleaned s) id with
    | some (e, exp) => if expired s.now exp then .ok else .cached e
    | none => .ok

inductive Act where
  | adv (d : Nat)
  | reserve (t id : Nat)
  | workerOk (t : Nat)
  | workerBusy (t : Nat)
  | release (t : Nat)
  | finishOk (id : Nat)
  | finishErr (id e : Nat) (notFound : Bool)
  | releaseWorker
  deriving Repr, DecidableEq

def reserve (s : State) (t id : Nat) : State :=
  match tget s t with
  | .idle =>
    let s1 := { s with errors := cleaned s, lastClean := cleanedAt s }
    match reserveOut s id with
    | .ok => tset { s1 with pending := id :: s1.pending } t (.reserved id)
    | _ => s1
  | _ => s

def step (s : State) : Act → State
  | .adv d => { s with now := s.now + d }
  | .reserve t id => reserve s t id
  | .workerOk t =>
    match tget s t with
    | .reserved id =>
      if nworkers s < s.cfg.workers then tset { s with execs := id :: s.execs } t .idle else s
    | _ => s
  | .workerBusy t =>
    match tget s t with
    | .reserved id => tset s t (.releasing id)
    | _ => s
  | .release t =>
    match tget s t with
    | .releasing id => tset { s with pending := s.pending.erase id } t .idle
    | _ => s
  | .finishOk id =>
    if id ∈ s.execs then
      { s with execs := s.execs.erase id, pending := s.pending.erase id, zombies := s.zombies + 1,
               lastErr := adel s.lastErr id }
    else s
  | .finishErr id e nf =>
    if id ∈ s.execs then
      { s with execs := s.execs.erase id, pending := s.pending.erase id, zombies := s.zombies + 1,
               errors := (id, (e, s.now + (if nf then s.cfg.nfTTL else s.cfg.errTTL))) :: s.errors,
               lastErr := (id, (e, s.now + (if nf then s.cfg.nfTTL else s.cfg.errTTL))) :: s.lastErr }
    else s
  | .releaseWorker => if 0 < s.zombies then { s with zombies := s.zombies - 1 } else s

end RC

/-! ## IntervalTrap

  Trap() = check (RLock: ready?) ; fireBegin (Lock: ready? then task.Run() starts) ; fireEnd
  (task.Run() returned: prev = now, Unlock).  `runs` is ghost: the start times of the task.
-/
namespace IT

inductive TState where
  | idle
  | checked     -- saw `ready` under the read lock, about to take the write lock
  | running     -- holds the write lock, inside task.Run()
  deriving Repr, DecidableEq

structure State where
  interval : Nat
  now : Nat := 0
  prev : Nat := 0
  locked : Bool := false
  runs : List Nat := []
  thr : List (Nat × TState) := []
  deriving Repr

def init (interval start : Nat) : State := { interval := interval, now := start, prev := start }

def tget (s : State) (t : Nat) : TState := (alook s.thr t).getD .idle
def tset (s : State) (t : Nat) (x : TState) : State := { s with thr := (t, x) :: s.thr }

/-- `now.After(prev.Add(interval))` -/
def ready (s : State) : Bool := decide (s.prev + s.interval < s.now)

inductive Act where
  | adv (d : Nat)
  | check (t : Nat)
  | fireBegin (t : Nat)
  | fireEnd (t : Nat)
  deriving Repr, DecidableEq

def step (s : State) : Act → State
  | .adv d => { s with now := s.now + d }
  | .check t =>
    match tget s t with
    | .idle => if s.locked then s else if ready s then tset s t .checked else s
    | _ => s
  | .fireBegin t =>
    match tget s t with
    | .checked =>
      if s.locked then s
      else if ready s then tset { s with locked := true, runs := s.now :: s.runs } t .running
      else tset s t .idle
    | _ => s
  | .fireEnd t =>
    match tget s t with
    | .running => tset { s with locked := false, prev := s.now } t .idle
    | _ => s

end IT

/-! ## Limiter

  Run(input) = [gc.Trap()] ; lookup (l.RLock / l.Lock: find or create the task) ; enter (first t.cond.L
  section of getOutput: garbage-collected task → retry the lookup; unexpired → cached output; running →
  wait on the condition variable; else running = true and the runner is called) ; finish (second
  section: output, expiresAt, running = false, Broadcast) ; waiters `wake` and return the output.
  The garbage collector is the action `gc k` (the t.cond.L section of limiterTaskGC.Run for the task
  of key k: expired and not running → marked deleted and removed from the map); it may happen at any
  time, which over-approximates the IntervalTrap schedule.
  `cfg.retry = false` is the code before the repair (known/C29.json): getOutput does not look at
  `deleted`.
-/
namespace Lim

structure Task where
  key : Nat
  running : Bool := false
  output : Option Nat := none
  exp : Option Nat := none      -- none: the zero time.Time of a new task
  gen : Nat := 0                -- number of Broadcasts so far (ghost)
  deleted : Bool := false
  deriving Repr, DecidableEq

inductive TState where
  | idle
  | want (k : Nat)
  | hold (k tk : Nat)
  | waiting (k tk gen : Nat)
  | exec (k tk : Nat)
  deriving Repr, DecidableEq

structure State where
  retry : Bool
  now : Nat := 1                -- any time after the zero time
  heap : List Task := []
  index : List (Nat × Nat) := []
  thr : List (Nat × TState) := []
  deriving Repr

def init (retry : Bool) : State := { retry := retry }

def tget (s : State) (t : Nat) : TState := (alook s.thr t).getD .idle
def tset (s : State) (t : Nat) (x : TState) : State := { s with thr := (t, x) :: s.thr }

/-- `task.expired(now)` -/
def expired (now : Nat) (tk : Task) : Bool :=
  match tk.exp with
  | none => true
  | some e => decide (e < now)

inductive Act where
  | adv (d : Nat)
  | call (t k : Nat)
  | lookup (t : Nat)
  | enter (t : Nat)
  | finish (t out ttl : Nat)
  | wake (t : Nat)
  | gc (k : Nat)
  deriving Repr, DecidableEq

def lookup (s : State) (t k : Nat) : State :=
  match alook s.index k with
  | some tk => tset s t (.hold k tk)
  | none =>
    tset { s with heap := s.heap ++ [{ key := k }], index := (k, s.heap.length) :: s.index } t
      (.hold k s.heap.length)

inductive EOut where
  | retry
  | cached (o : Option Nat)
  | wait
  | run
  deriving Repr, DecidableEq

/-- the outcome of the first critical section of `getOutput` on task `tk` -/
def enterOut (s : State) (tk : Task) : EOut :=
  if s.retry ∧ tk.deleted then .retry
  else if !expired s.now tk then .cached tk.output
  else if tk.running then .wait
  else .run

def step (s : State) : Act → State
  | .adv d => { s with now := s.now + d }
  | .call t k => match tget s t with
    | .idle => lookup s t k
    | _ => s
  | .lookup t => match tget s t with
    | .want k => lookup s t k
    | _ => s
  | .enter t => match tget s t with
    | .hold k tk =>
      match s.heap[tk]? with
      | none => s
      | some task =>
        match enterOut s task with
        | .retry => tset s t (.want k)
        | .cached _ => tset s t .idle
        | .wait => tset s t (.waiting k tk task.gen)
        | .run => tset { s with heap := s.heap.set tk { task with running := true } } t (.exec k tk)
    | _ => s
  | .finish t out ttl => match tget s t with
    | .exec _ tk =>
      match s.heap[tk]? with
      | none => s
      | some task =>
        tset { s with heap := s.heap.set tk { task with output := some out, exp := some (s.now + ttl),
                                                          running := false, gen := task.gen + 1 } } t .idle
    | _ => s
  | .wake t => match tget s t with
    | .waiting _ tk g =>
      match s.heap[tk]? with
      | none => s
      | some task => if g < task.gen then tset s t .idle else s
    | _ => s
  | .gc k =>
    match alook s.index k with
    | some tk =>
      match s.heap[tk]? with
      | none => s
      | some task =>
        if expired s.now task ∧ !task.running then
          { s with heap := s.heap.set tk { task with deleted := true }, index := adel s.index k }
        else s
    | none => s

/-- the runner executions in flight for key `k`: threads inside `runner.Run(k)` -/
def execsOf (s : State) (k : Nat) (ts : List Nat) : List Nat :=
  ts.filter (fun t => match tget s t with | .exec k' _ => k' = k | _ => false)

end Lim

end KrakenModel.Dedup
