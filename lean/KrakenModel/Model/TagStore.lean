import KrakenModel.Model.Retry
/-
  Model of a build-index node's tag path (C32):
    build-index/tagserver/server.go   putTag (dependency Stat loop, then store.Put), getTagHandler,
                                      duplicatePutTagHandler (store.Put with a delay, no checks), replicateTag
    build-index/tagstore/store.go     Put (disk file, first write wins; persist flag; write-through =
                                      SyncExec, otherwise Manager.Add), Get (disk first, then backend)
    lib/persistedretry/writeback/executor.go   Exec on a tag (Stat short-cut, upload of the disk file)
  composed with the retry manager of C30 (`Model.Retry`; a task key is the tag).

  Tags and digests are numbers.  `disk` and `backend` are association lists (tag ↦ digest).
  Ghost state: `putFor` (every digest handed to store.Put for a tag), `okPut` (tags with an
  acknowledged PUT).  `evict t` is what the cache cleanup job does to an idle tag file (production
  default: TTI 6h): delete it unless its persist flag is set; later GETs then go to the backend.
-/
namespace KrakenModel.TagStore
open KrakenModel.Retry (Key)

abbrev Tag := Key
abbrev Digest := Nat

/-- answer of the origin cluster to `Stat(tag, dependency)` -/
inductive DepRes where
  | ok | notFound | error
  deriving DecidableEq, Repr

structure State where
  r : Retry.State := {}
  writeThrough : Bool := false
  disk : List (Tag × Digest) := []
  backend : List (Tag × Digest) := []
  persist : List Tag := []          -- tags whose disk file carries the persist flag (not evictable)
  putFor : List (Tag × Digest) := []
  okPut : List Tag := []
  deriving DecidableEq, Repr

inductive Op where
  | put (t : Tag) (d : Digest) (deps : List DepRes) (ups : List Bool)
  | dupPut (t : Tag) (d : Digest) (delay : Nat) (ups : List Bool)   -- duplicatePutTagHandler (from a neighbour)
  | get (t : Tag) (up : Bool)
  | retry (o : Retry.Op)
  | exec (t : Tag) (up : Bool)
  | restart
  | evict (t : Tag)
  deriving DecidableEq, Repr

inductive Out where
  | ok | missingDep | checkErr | storageErr | digest (d : Digest) | notFound | none | refused | absent
  deriving DecidableEq, Repr

def lookup (m : List (Tag × Digest)) (t : Tag) : Option Digest :=
  (m.find? fun e => e.1 = t).map (·.2)

/-- the dependency loop of putTag: first failing answer decides -/
def checkDeps : List DepRes → Out
  | [] => .ok
  | .ok :: rest => checkDeps rest
  | .notFound :: _ => .missingDep
  | .error :: _ => .checkErr

/-- `writeTagToDisk`: CreateCacheFile, "file exists" is ignored — the first digest stays -/
def writeDisk (disk : List (Tag × Digest)) (t : Tag) (d : Digest) : List (Tag × Digest) :=
  match lookup disk t with
  | some _ => disk
  | none => disk ++ [(t, d)]

/-- the write-back executor on a tag task: (success?, backend) -/
def runExecutor (disk backend : List (Tag × Digest)) (t : Tag) (up : Bool) : Bool × List (Tag × Digest) :=
  if up && (lookup backend t).isSome then (true, backend)          -- Stat: already there
  else match lookup disk t with
    | none => (true, backend)                                        -- cache file missing: dropped
    | some d => if up then (true, backend ++ [(t, d)]) else (false, backend)

/-- `SyncExec`: at most three attempts -/
def syncExec (disk : List (Tag × Digest)) (t : Tag) : Nat → List Bool → List (Tag × Digest) → Bool × List (Tag × Digest)
  | 0, _, backend => (false, backend)
  | _ + 1, [], backend => (false, backend)
  | fuel + 1, up :: ups, backend =>
    match runExecutor disk backend t up with
    | (true, b') => (true, b')
    | (false, b') => syncExec disk t fuel ups b'

def internalOp : Retry.Op → Bool
  | .pollFetch | .pollMark | .pollEnq | .take _ | .advance _ | .close => true
  | _ => false

def ins (l : List Nat) (x : Nat) : List Nat := if x ∈ l then l else l ++ [x]
def del (l : List Nat) (x : Nat) : List Nat := l.filter (· ≠ x)
def erase (m : List (Tag × Digest)) (t : Tag) : List (Tag × Digest) := m.filter (·.1 ≠ t)

/-- `tagstore.Put(tag, d, delay)`: disk file (first write wins), persist flag, then write-through
(`SyncExec`) or `Manager.Add` of a write-back task with `delay` (a delayed task is stored as failed and
picked up by the poll pass once it is ready) -/
def putStore (s : State) (t : Tag) (d : Digest) (delay : Nat) (ups : List Bool) : State × Out :=
  let s1 := { s with disk := writeDisk s.disk t d, persist := ins s.persist t, putFor := s.putFor ++ [(t, d)] }
  if s.writeThrough then
    match syncExec s1.disk t 3 ups s1.backend with
    | (true, b') => ({ s1 with backend := b', persist := del s1.persist t, okPut := ins s1.okPut t }, .ok)
    | (false, b') => ({ s1 with backend := b' }, .storageErr)
  else
    match Retry.stepO s1.r (.addBegin t delay []) with
    | (_, .closed) => (s1, .storageErr)
    | (r1, _) => ({ s1 with r := Retry.step r1 (.addEnq t), okPut := ins s1.okPut t }, .ok)

/-- `replicateTag` after an acknowledged `PUT ?replicate=true`: one replication task per matching remote,
carrying the dependency list that was just checked (the C33 task) -/
def replicationTasks (o : Out) (t : Tag) (d : Digest) (deps : List Digest) (dests : List Nat) :
    List (Tag × Digest × List Digest × Nat) :=
  if o = .ok then dests.map fun r => (t, d, deps, r) else []

def stepO (s : State) : Op → State × Out
  | .put t d deps ups =>
    match checkDeps deps with
    | .ok => putStore s t d 0 ups
    | o => (s, o)
  | .dupPut t d delay ups => putStore s t d delay ups
  | .get t up =>
    match lookup s.disk t with
    | some d => (s, .digest d)
    | none =>
      if up then
        match lookup s.backend t with
        | some d => (s, .digest d)
        | none => (s, .notFound)
      else (s, .notFound)          -- backend errors are answered 404 as well
  | .retry o => if internalOp o then ({ s with r := Retry.step s.r o }, .none) else (s, .none)
  | .exec t up =>
    match Retry.placeOf s.r.own t with
    | some (.running _) =>
      match runExecutor s.disk s.backend t up with
      | (ok, b') =>
        ({ s with r := Retry.step s.r (.finish t ok), backend := b',
                  persist := if ok then del s.persist t else s.persist }, if ok then .ok else .storageErr)
    | _ => (s, .none)
  | .restart => ({ s with r := Retry.step (Retry.step s.r .crash) (.start []) }, .none)
  | .evict t =>
    -- the cache cleanup job (TTI) on an idle tag file: refuses while the persist flag is set
    match lookup s.disk t with
    | none => (s, .absent)
    | some _ => if t ∈ s.persist then (s, .refused) else ({ s with disk := erase s.disk t }, .ok)

def step (s : State) (o : Op) : State := (stepO s o).1
def out (s : State) (o : Op) : Out := (stepO s o).2

def init (cfg : Retry.Config) (writeThrough : Bool) : State := { r := Retry.init cfg, writeThrough := writeThrough }

def stored (s : State) (t : Tag) : Prop := t ∈ Retry.keys s.r.rows

instance (s : State) (t : Tag) : Decidable (stored s t) := by unfold stored; exact inferInstance

end KrakenModel.TagStore
