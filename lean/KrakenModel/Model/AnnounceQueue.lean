/-
  Model of lib/torrent/scheduler/announcequeue.QueueImpl (C20).
  `ready` = the container/list of info hashes (front first), `pending` = the key set of the
  `pending` map.  `eject` mirrors the code: the scan removes the FIRST occurrence only
  (container/list's Remove clears e.next, so `e = e.Next()` ends the loop).
-/
namespace KrakenModel.AnnounceQueue

abbrev Hash := Nat

structure State where
  ready : List Hash := []
  pending : List Hash := []   -- a set: duplicate-free by invariant
  deriving Repr, DecidableEq

inductive Op where
  | add (h : Hash)
  | next
  | ready (h : Hash)
  | eject (h : Hash)
  deriving Repr, DecidableEq

def init : State := {}

/-- `Next()` – pops the front of the ready list into `pending`. -/
def next (s : State) : State × Option Hash :=
  match s.ready with
  | [] => (s, none)
  | h :: rest => ({ ready := rest, pending := if h ∈ s.pending then s.pending else h :: s.pending }, some h)

def add (s : State) (h : Hash) : State := { s with ready := s.ready ++ [h] }

def ready (s : State) (h : Hash) : State :=
  if h ∈ s.pending then { ready := s.ready ++ [h], pending := s.pending.erase h } else s

def eject (s : State) (h : Hash) : State :=
  { ready := s.ready.erase h, pending := s.pending.erase h }

def step (s : State) : Op → State
  | .add h => add s h
  | .next => (next s).1
  | .ready h => ready s h
  | .eject h => eject s h

/-- what `Next()` returns for the operation (other operations return nothing) -/
def output (s : State) : Op → Option Hash
  | .next => (next s).2
  | _ => none

/-- The documented precondition of `Add`: the torrent is not already in the queue. -/
def pre (s : State) : Op → Prop
  | .add h => h ∉ s.ready ∧ h ∉ s.pending
  | _ => True

instance (s : State) (o : Op) : Decidable (pre s o) := by
  cases o <;> simp only [pre] <;> exact inferInstance

end KrakenModel.AnnounceQueue
