/-
  Model for C25: `stringset.Set.Sample`, `blobclient.Locations`, tagclient `clusterClient.do / doOnce`.
  Core Lean only.

  A Go `range` over a map enumerates the keys in an unspecified order: every loop over a set takes
  the enumeration `enum` (a permutation of the set) as an explicit argument; the theorems quantify
  over all of them, the driver validates the implementation's choice and follows it.

  `sample` models the REPAIRED `Sample` (returns the sample `c`); `sampleReceiver` is what the
  code returned before the fix (the receiver `s`), kept for the regression witness in Spec/C25.
-/
namespace KrakenModel.ClusterSample

variable {α : Type}

/-- the loop `for x := range s { if n == 0 {break}; c.Add(x); n-- }` over enumeration `enum`;
    `n` is a Go int: a negative `n` never reaches 0, so the whole set is copied -/
def sample : Int → List α → List α
  | _, [] => []
  | n, x :: t => if n = 0 then [] else x :: sample (n - 1) t

/-- pre-fix behaviour: `return s` -/
def sampleReceiver (_ : Int) (enum : List α) : List α := enum

/-- outcome of one request to one host -/
inductive Outcome where
  | ok          -- success: the loop stops
  | netErr      -- network error (tagclient: `Failed(addr)`, try the next host)
  | otherErr    -- any other error (tagclient `do`: stop; blobclient `Locations`: try the next host)
  deriving DecidableEq, Repr

structure Run (α : Type) where
  contacted : List α := []      -- hosts a request was sent to, in order
  failed : List α := []         -- hosts reported through `hosts.Failed`
  result : Option Outcome := none   -- outcome of the last request (`none`: no host could be resolved)
  deriving DecidableEq, Repr

/-- `blobclient.Locations` loop: `for addr := range addrs { locs, err = …; if err != nil {continue}; break }`.
    `outcome i a` = what the i-th request, sent to host `a`, results in. -/
def tryUntilOk (outcome : Nat → α → Outcome) : Nat → List α → Run α → Run α
  | _, [], r => r
  | i, a :: t, r =>
    let o := outcome i a
    let r' : Run α := { r with contacted := r.contacted ++ [a], result := some o }
    if o = .ok then r' else tryUntilOk outcome (i + 1) t r'

/-- `blobclient.Locations(p, cluster, d)`: `enum1` enumerates `cluster.Resolve()` inside `Sample(3)`,
    `enum2` enumerates the sampled set in the request loop. -/
def locationsWith (smp : Int → List α → List α) (outcome : Nat → α → Outcome) (enum1 : List α)
    (enum2 : List α → List α) : Run α :=
  let addrs := smp 3 enum1
  if addrs.isEmpty then {} else tryUntilOk outcome 0 (enum2 addrs) {}

def locations (outcome : Nat → α → Outcome) (enum1 : List α) (enum2 : List α → List α) : Run α :=
  locationsWith sample outcome enum1 enum2

/-- tagclient `clusterClient.do` loop: network error → `Failed(addr)`, continue; anything else → break -/
def tryWhileNetErr (outcome : Nat → α → Outcome) : Nat → List α → Run α → Run α
  | _, [], r => r
  | i, a :: t, r =>
    let o := outcome i a
    let r' : Run α := { r with contacted := r.contacted ++ [a], result := some o }
    if o = .netErr then tryWhileNetErr outcome (i + 1) t { r' with failed := r'.failed ++ [a] } else r'

def clusterDoWith (smp : Int → List α → List α) (outcome : Nat → α → Outcome) (enum1 : List α)
    (enum2 : List α → List α) : Run α :=
  let addrs := smp 3 enum1
  if addrs.isEmpty then {} else tryWhileNetErr outcome 0 (enum2 addrs) {}

def clusterDo (outcome : Nat → α → Outcome) (enum1 : List α) (enum2 : List α → List α) : Run α :=
  clusterDoWith sample outcome enum1 enum2

/-- tagclient `clusterClient.doOnce`: `Sample(1)`, then `for addr = range addrs {}` leaves the LAST
    enumerated address in `addr`; one request, no retry -/
def clusterDoOnceWith (smp : Int → List α → List α) (outcome : Nat → α → Outcome) (enum1 : List α)
    (enum2 : List α → List α) : Run α :=
  match (enum2 (smp 1 enum1)).getLast? with
  | none => {}
  | some a =>
    let o := outcome 0 a
    { contacted := [a], failed := if o = .netErr then [a] else [], result := some o }

def clusterDoOnce (outcome : Nat → α → Outcome) (enum1 : List α) (enum2 : List α → List α) : Run α :=
  clusterDoOnceWith sample outcome enum1 enum2

/-! ### origin/blobclient.clusterClient requests: look the replicas up, then talk to the replicas -/

/-- how the request loop of a clusterClient method walks over the replica clients returned by Resolve -/
inductive Walk where
  | untilOk      -- Stat (after a shuffle), GetMetaInfo, PrefetchBlob, UploadBlob: stop at the first success
  | all          -- OverwriteMetaInfo, Owners: every replica
  | one          -- CheckReadiness: one randomly chosen replica
  deriving DecidableEq, Repr

def visitAll (outcome : Nat → α → Outcome) : Nat → List α → Run α → Run α
  | _, [], r => r
  | i, a :: t, r =>
    visitAll outcome (i + 1) t { r with contacted := r.contacted ++ [a], result := some (outcome i a) }

/-- phase 2: `order` = the replica clients in the order the method visits them (Resolve's order, or the
    shuffled order for Stat; for `one` the chosen replica is the head) -/
def replicaPhase (w : Walk) (outcome : Nat → α → Outcome) (order : List α) : Run α :=
  match w with
  | .untilOk => tryUntilOk outcome 0 order {}
  | .all => visitAll outcome 0 order {}
  | .one => match order with
    | [] => {}
    | a :: _ => { contacted := [a], result := some (outcome 0 a) }

/-- a whole clusterClient request: `lookup` = blobclient.Locations over the cluster host list; when it
    succeeds the request continues on the replicas the answering origin named (`replicas`) -/
def clusterRequest (w : Walk) (lookupOutcome replicaOutcome : Nat → α → Outcome)
    (enum1 : List α) (enum2 : List α → List α) (replicas : List α) (order : List α → List α) : Run α × Run α :=
  let l := locations lookupOutcome enum1 enum2
  if l.result = some .ok then (l, replicaPhase w replicaOutcome (order replicas)) else (l, {})

/-- `clusterClient.CheckReadiness` wraps every error of the single client in a fresh
    `fmt.Errorf("build index not ready: …")` before `doOnce` looks at it, so `doOnce` never sees a
    NetworkError there (and never reports `Failed`). -/
def wrapErr : Outcome → Outcome
  | .ok => .ok
  | _ => .otherErr

def checkReadiness (outcome : Nat → α → Outcome) (enum1 : List α) (enum2 : List α → List α) : Run α :=
  clusterDoOnce (fun i a => wrapErr (outcome i a)) enum1 enum2

end KrakenModel.ClusterSample
