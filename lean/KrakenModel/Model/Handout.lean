import KrakenModel.Model.PeerStore
/-
  Model of the tracker's announce handler (tracker/trackerserver/announce.go: `announce`,
  `getPeerHandout`) and of tracker/peerhandoutpolicy (`SortPeers`, the two assignment policies),
  on top of the peer-store model (C27).

      announce(d, h, peer):  UpdatePeer(h, peer)                       -- error only logged
                             if peer.Complete → (nil, nil)
                             peers  := GetPeers(h, PeerHandoutLimit)    -- limit 0 is defaulted to 50
                             peers ++= GetOrigins(d)
                             if len(peers) == 0 → 500 "no peers available"
                             SortPeers(peer, peers)

  `SortPeers` drops the announcer and sorts with `sort.Slice` (not stable): its result is *some*
  permutation of the remaining peers that is ordered by priority — `Admissible` — and the theorems
  are about every such result.  The announcer is recognised by its peer id (the repaired
  behaviour, see known/C26.json: the original code compared `*core.PeerInfo` pointers, and the
  peers returned by the store are fresh objects, so the announcer was never recognised).
-/
namespace KrakenModel.Handout
open KrakenModel.PeerStore

inductive Policy where
  | default
  | completeness
  deriving Repr, DecidableEq

/-- `assignPriority` -/
def prio : Policy → Info → Nat
  | .default, _ => 0
  | .completeness, p => if p.origin then 1 else if p.complete then 0 else 2

/-- `config.applyDefaults` -/
def effLimit (cfg : Int) : Int := if cfg = 0 then 50 else cfg

/-- what `SortPeers` keeps: everything but the announcer -/
def candidates (src : Info) (peers origins : List Info) : List Info :=
  (peers ++ origins).filter (fun p => p.id ≠ src.id)

def Sorted (pol : Policy) (l : List Info) : Prop := l.Pairwise (fun a b => prio pol a ≤ prio pol b)

/-- an admissible result of `SortPeers(src, peers ++ origins)` -/
def Admissible (pol : Policy) (src : Info) (peers origins out : List Info) : Prop :=
  out.Perm (candidates src peers origins) ∧ Sorted pol out

/-- one admissible result (a stable sort) -/
def sortStable (pol : Policy) (l : List Info) : List Info :=
  l.mergeSort (fun a b => decide (prio pol a ≤ prio pol b))

inductive Result where
  | handout (l : List Info)   -- 200
  | noPeers                   -- 500 "no peers available"
  deriving Repr, DecidableEq

/-- `getPeerHandout`, given what the store and the origin store returned and the sort's output -/
def respond (src : Info) (peers origins out : List Info) : Result :=
  if src.complete then .handout []
  else if peers ++ origins = [] then .noPeers
  else .handout out

instance (pol : Policy) (l : List Info) : Decidable (Sorted pol l) := by
  unfold Sorted; exact inferInstance

end KrakenModel.Handout
