import KrakenModel.Model.PeerStore
/-
  Model of the tracker's announce handler (tracker/trackerserver/announce.go: `announce`,
  `getPeerHandout`) and of tracker/peerhandoutpolicy (`SortPeers`, the two assignment policies),
  on top of the peer-store model (C27).

      announce(d, h, peer):  UpdatePeer(h, peer)                       -- error only logged
                             if peer.Complete → (nil, nil)
                             peers  := GetPeers(h, PeerHandoutLimit)    -- limit 0 is defaulted to 50
                             peers ++= GetOrigins(d)
                             if len(peers) == 0 → 500 "no peers available"
                             SortPeers(peer, peers)

  `SortPeers` drops the announcer, keeps every other peer id once and sorts with `sort.Slice` (not
  stable): its result is *some* permutation of the remaining peers that is ordered by priority —
  `Admissible` — and the theorems are about every such result.  The announcer is recognised by its
  peer id and duplicates of a peer id are dropped (the repaired behaviour, see known/C26.json: the
  original code compared `*core.PeerInfo` pointers, so the announcer was never recognised, and handed
  out a peer id as often as the stores listed it).
-/
namespace KrakenModel.Handout
open KrakenModel.PeerStore

inductive Policy where
  | default
  | completeness
  deriving Repr, DecidableEq

/-- `assignPriority` -/
def prio : Policy → Info → Nat
  | .default, _ => 0
  | .completeness, p => if p.origin then 1 else if p.complete then 0 else 2

/-- `config.applyDefaults` -/
def effLimit (cfg : Int) : Int := if cfg = 0 then 50 else cfg

/-- the `seen` map of `SortPeers`: a peer id is kept once, at its first occurrence -/
def dedupAux (seen : List Nat) : List Info → List Info
  | [] => []
  | x :: xs => if x.id ∈ seen then dedupAux seen xs else x :: dedupAux (x.id :: seen) xs

def dedupById (l : List Info) : List Info := dedupAux [] l

/-- what `SortPeers` keeps: everything but the announcer, each peer id once -/
def candidates (src : Info) (peers origins : List Info) : List Info :=
  dedupById ((peers ++ origins).filter (fun p => p.id ≠ src.id))

def Sorted (pol : Policy) (l : List Info) : Prop := l.Pairwise (fun a b => prio pol a ≤ prio pol b)

/-- an admissible result of `SortPeers(src, peers ++ origins)` -/
def Admissible (pol : Policy) (src : Info) (peers origins out : List Info) : Prop :=
  out.Perm (candidates src peers origins) ∧ Sorted pol out

/-- one admissible result (a stable sort) -/
def sortStable (pol : Policy) (l : List Info) : List Info :=
  l.mergeSort (fun a b => decide (prio pol a ≤ prio pol b))

inductive Result where
  | handout (l : List Info)   -- 200
  | noPeers                   -- 500 "no peers available"
  deriving Repr, DecidableEq

/-- `getPeerHandout`, given what the store and the origin store returned and the sort's output -/
def respond (src : Info) (peers origins out : List Info) : Result :=
  if src.complete then .handout []
  else if peers ++ origins = [] then .noPeers
  else .handout out

instance (pol : Policy) (l : List Info) : Decidable (Sorted pol l) := by
  unfold Sorted; exact inferInstance

structure Cfg where
  limit : Int      -- PeerHandoutLimit as configured
  pol : Policy
  deriving Repr, DecidableEq

/-- `Server.announce` run by thread `t` with nothing interleaved, on the peer-store model:
UpdatePeer(h, src); completion short-circuit; GetPeers(h, effLimit) drawing permutation `perm`;
origins appended; SortPeers (here: the stable sort — any `Admissible` order is a possible answer).
`none`: `perm` is not a permutation of the stored peers' indexes. -/
def announceSeq (cfg : Cfg) (s : State) (t : Nat) (h : Hash) (src : Info) (origins : List Info)
    (perm : List Nat) : State × Option Result :=
  let s1 := (updateSeq t h src.id ⟨src.ip, src.port, src.complete⟩).foldl step s
  let s2 := step s1 (.getA t h (effLimit cfg.limit))
  let r : Option (List Info) :=
    match alook s1.index h with
    | none => some []                       -- GetPeers of an unknown torrent: nil
    | some _ => getOut s2 t perm
  (step s2 (.getB t perm), r.map fun peers => respond src peers origins (sortStable cfg.pol (candidates src peers origins)))

end KrakenModel.Handout
