/-
  Model of the active health check filter of lib/healthcheck (state.go, filter.go) (C23), as
  repaired by the `fix:` commit: `sync` forgets every host that is no longer listed (it used to
  prune only `healthy`/`trend`, never `all`, and only for hosts that were healthy), and the
  single-host shortcut of `Run` syncs the membership too.  The behaviour before the repair is
  kept as `syncOld` / `runOld` for the witness theorem.

  `state.all`, `state.healthy` and `state.trend` are modelled as one record per host in `all`
  (`healthy` = flag, `trend[h]` = field, 0 when the Go map has no entry); in both versions of the
  code `healthy` and the keys of `trend` are subsets of `all`.
  `Run` checks the hosts concurrently; the per-host updates touch disjoint records, the model
  applies them in list order (`update_comm` in Spec/C23 shows the order is irrelevant).
-/
namespace KrakenModel.Health

abbrev Host := Nat

structure Config where
  fails : Int
  passes : Int
  deriving Repr, DecidableEq

/-- `FilterConfig.applyDefaults` (the timeout is not modelled: a timed-out check is a failed one) -/
def Config.applyDefaults (c : Config) : Config :=
  { fails := if c.fails = 0 then 3 else c.fails, passes := if c.passes = 0 then 2 else c.passes }

structure Rec where
  host : Host
  healthy : Bool
  trend : Int
  deriving Repr, DecidableEq

abbrev State := List Rec

def find (s : State) (h : Host) : Option Rec := s.find? (·.host == h)

/-- `sync(addrs)` (repaired): new hosts start healthy, hosts not listed are forgotten -/
def sync (s : State) (addrs : List Host) : State :=
  let kept := s.filter fun r => addrs.contains r.host
  kept ++ (addrs.filter fun a => !(s.any (·.host == a))).map fun a => ⟨a, true, 0⟩

/-- `sync(addrs)` before the repair: new hosts (not in `all`) start healthy; a healthy host that is
not listed loses `healthy` and its trend but stays in `all`; an unhealthy one is left untouched. -/
def syncOld (s : State) (addrs : List Host) : State :=
  (s.map fun r => if r.healthy && !addrs.contains r.host then { r with healthy := false, trend := 0 } else r) ++
    (addrs.filter fun a => !(s.any (·.host == a))).map fun a => ⟨a, true, 0⟩

/-- `failed(addr)` on the host's record -/
def failedRec (cfg : Config) (r : Rec) : Rec :=
  let t := max (min (r.trend - 1) (-1)) (-cfg.fails)
  { r with trend := t, healthy := if t = -cfg.fails && r.healthy then false else r.healthy }

/-- `passed(addr)` on the host's record -/
def passedRec (cfg : Config) (r : Rec) : Rec :=
  let t := min (max (r.trend + 1) 1) cfg.passes
  { r with trend := t, healthy := if t = cfg.passes then true else r.healthy }

/-- one check result applied to the state (`failed` / `passed`); hosts are in `all` after `sync` -/
def update (cfg : Config) (s : State) (h : Host) (ok : Bool) : State :=
  s.map fun r => if r.host == h then (if ok then passedRec cfg r else failedRec cfg r) else r

/-- the address set as a duplicate-free list (a `stringset.Set` has no duplicates) -/
def dedup : List Host → List Host
  | [] => []
  | a :: l => if l.contains a then dedup l else a :: dedup l

def healthyOf (s : State) : List Host := (s.filter (·.healthy)).map (·.host)

/-- `Filter.Run(addrs)` with the check outcomes `ok`: new state, hosts returned, hosts checked -/
def run (cfg : Config) (s : State) (addrs : List Host) (ok : Host → Bool) : State × List Host × List Host :=
  let as := dedup addrs
  if as.length = 1 then (sync s as, as, [])
  else
    let s1 := sync s as
    let s2 := as.foldl (fun s a => update cfg s a (ok a)) s1
    (s2, healthyOf s2, as)

/-- `Filter.Run` before the repair -/
def runOld (cfg : Config) (s : State) (addrs : List Host) (ok : Host → Bool) : State × List Host × List Host :=
  let as := dedup addrs
  if as.length = 1 then (s, as, [])
  else
    let s1 := syncOld s as
    let s2 := as.foldl (fun s a => update cfg s a (ok a)) s1
    (s2, healthyOf s2, as)

/-- one `Run`: the listed hosts and those whose check passes -/
structure Round where
  addrs : List Host
  oks : List Host
  deriving Repr, DecidableEq

def step (cfg : Config) (s : State) (r : Round) : State := (run cfg s r.addrs (r.oks.contains ·)).1

def output (cfg : Config) (s : State) (r : Round) : List Host := (run cfg s r.addrs (r.oks.contains ·)).2.1

/-! ### the documented hysteresis, per host (the specification the code is compared with) -/

/-- what a `Run` is for one host -/
inductive Ev where
  | absent               -- the host is not listed
  | single               -- the host is the only one listed: reported healthy, not checked
  | check (ok : Bool)    -- listed with others: checked
  deriving Repr, DecidableEq

def evOf (h : Host) (r : Round) : Ev :=
  let as := dedup r.addrs
  if !as.contains h then .absent else if as.length = 1 then .single else .check (r.oks.contains h)

/-- `none`: not listed; `some (healthy, n)`: `n` = consecutive failed checks while healthy /
consecutive passed checks while unhealthy -/
abbrev Sp := Option (Bool × Nat)

def spCheck (F P : Nat) : Bool × Nat → Bool → Bool × Nat
  | (true, k), false => if k + 1 ≥ F then (false, 0) else (true, k + 1)
  | (true, _), true => (true, 0)
  | (false, k), true => if k + 1 ≥ P then (true, 0) else (false, k + 1)
  | (false, _), false => (false, 0)

/-- a host that is not known (first time, or left and rejoined) starts healthy -/
def spStep (F P : Nat) : Sp → Ev → Sp
  | _, .absent => none
  | none, .single => some (true, 0)
  | some x, .single => some x
  | none, .check ok => some (spCheck F P (true, 0) ok)
  | some x, .check ok => some (spCheck F P x ok)

/-- is the host in the set returned by the `Run` that produced state `σ` with event `e` -/
def spReported : Sp → Ev → Bool
  | _, .absent => false
  | _, .single => true
  | some (b, _), .check _ => b
  | none, .check _ => false

def spRun (F P : Nat) (h : Host) (rounds : List Round) : Sp := (rounds.map (evOf h)).foldl (spStep F P) none

end KrakenModel.Health
