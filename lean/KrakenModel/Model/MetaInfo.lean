import KrakenModel.Util.Codec
/-
  Model of core/metainfo.go, core/piece_hash.go, lib/metainfogen/config.go (C02).

  * `chunks n data`           the specification: consecutive pieces of length `n`
  * `streamLoop`/`sumsStream` calcPieceSums (the io.CopyN loop; io.CopyN(h, r, n) is modelled by its
                              library contract: it moves the next `min n remaining` bytes, whatever
                              the sizes of the reader's individual reads)
  * `bytesLoop`/`sumsBytes`   calcPieceSumsFromBytes (the offset loop)
  * `Info`, `MetaInfo`        the `info` struct (a nil slice is `none`), assembleMetaInfo
  * `getPieceLength`          MetaInfo.GetPieceLength
  * `serializeInfo`/`parseInfo`/`deserialize`  MetaInfo.Serialize / DeserializeMetaInfo for the JSON
                              text that encoding/json emits for metaInfoJSON (canonical form)
  * `bencode`                 github.com/jackpal/bencode-go Marshal of `info` (sorted keys)
  * `Range`, `mkTable`, `get` newPieceLengthConfig / pieceLengthConfig.get

  The checksum `crc` (CRC-32/IEEE in the code) and `sha1` are parameters.
-/
namespace KrakenModel.MetaInfo
open KrakenModel.Codec

abbrev Bytes := List Nat

/-! ### specification: consecutive chunks -/

def chunksAux {α : Type} (n : Nat) : Nat → List α → List (List α)
  | 0, _ => []
  | _ + 1, [] => []
  | fuel + 1, a :: as => (a :: as).take n :: chunksAux n fuel ((a :: as).drop n)

/-- `data` cut into consecutive pieces of length `n` (the last may be shorter; none for `[]`) -/
def chunks {α : Type} (n : Nat) (data : List α) : List (List α) := chunksAux n data.length data

/-! ### the two piece-sum loops -/

/-- the `for { … io.CopyN … }` loop of calcPieceSums; `none` = fuel exhausted -/
def streamLoop (crc : Bytes → Nat) (pl : Nat) : Nat → Bytes → Nat → List Nat → Option (Nat × List Nat)
  | 0, _, _, _ => none
  | fuel + 1, rest, len, sums =>
    let piece := rest.take pl          -- n, err := io.CopyN(h, blob, pieceLength)
    let n := piece.length
    if n = 0 then some (len + n, sums)
    else if n < pl then some (len + n, sums ++ [crc piece])
    else streamLoop crc pl fuel (rest.drop pl) (len + n) (sums ++ [crc piece])

/-- the `for offset := 0; offset < n; offset += pieceLength` loop of calcPieceSumsFromBytes -/
def bytesLoop (crc : Bytes → Nat) (pl n : Nat) (data : Bytes) : Nat → Nat → List Nat → Option (List Nat)
  | 0, offset, sums => if offset < n then none else some sums
  | fuel + 1, offset, sums =>
    if offset < n then
      let e := if offset + pl > n then n else offset + pl
      bytesLoop crc pl n data fuel (offset + pl) (sums ++ [crc ((data.drop offset).take (e - offset))])
    else some sums

inductive SumsResult where
  | errPieceLength                 -- "piece length must be positive"
  | errRead                        -- "read blob: …" (the reader failed with a non-EOF error)
  | outOfFuel                      -- not reachable with the fuel used below (theorem)
  | ok (length : Nat) (sums : Option (List Nat))   -- `none` = nil slice
  deriving DecidableEq, Repr

/-- a Go slice built by `append` on a nil slice: nil iff nothing was appended -/
def toSlice (l : List Nat) : Option (List Nat) := if l.isEmpty then none else some l

/-- calcPieceSums.  `failing` = the reader returns a non-EOF error at some point (it then never
reports EOF before, so the loop always reaches the error). -/
def sumsStream (crc : Bytes → Nat) (pl : Int) (data : Bytes) (failing : Bool := false) : SumsResult :=
  if pl ≤ 0 then .errPieceLength
  else if failing then .errRead
  else match streamLoop crc pl.toNat (data.length + 1) data 0 [] with
    | none => .outOfFuel
    | some (len, sums) => .ok len (toSlice sums)

/-- calcPieceSumsFromBytes -/
def sumsBytes (crc : Bytes → Nat) (pl : Int) (data : Bytes) : SumsResult :=
  if pl ≤ 0 then .errPieceLength
  else if data.length = 0 then .ok 0 none
  else match bytesLoop crc pl.toNat data.length data data.length 0 [] with
    | none => .outOfFuel
    | some sums => .ok data.length (some sums)

/-! ### info / MetaInfo -/

structure Info where
  pieceLength : Int
  pieceSums : Option (List Nat)      -- `none` = nil slice (JSON null), `some []` = empty non-nil
  name : List Char
  length : Int
  deriving DecidableEq, Repr

def Info.sums (i : Info) : List Nat := match i.pieceSums with | none => [] | some l => l

structure MetaInfo where
  info : Info
  infoHash : Nat
  digest : List Char                 -- the hex of the digest
  deriving DecidableEq, Repr

def bencInt (i : Int) : List Char := 'i' :: intStr i ++ ['e']
def bencStr (s : List Char) : List Char := dec s.length ++ ':' :: s

/-- bencode.Marshal(info): dictionary with the keys in sorted order -/
def bencode (i : Info) : List Char :=
  ['d'] ++ bencStr ['L','e','n','g','t','h'] ++ bencInt i.length
    ++ bencStr ['N','a','m','e'] ++ bencStr i.name
    ++ bencStr ['P','i','e','c','e','L','e','n','g','t','h'] ++ bencInt i.pieceLength
    ++ bencStr ['P','i','e','c','e','S','u','m','s'] ++ 'l' :: (i.sums.flatMap fun (s : Nat) => bencInt (s : Int)) ++ ['e']
    ++ ['e']

/-- assembleMetaInfo -/
def assemble (sha1 : List Char → Nat) (d : List Char) (length : Nat) (sums : Option (List Nat)) (pl : Int) : MetaInfo :=
  let info : Info := { pieceLength := pl, pieceSums := sums, name := d, length := length }
  { info, infoHash := sha1 (bencode info), digest := d }

inductive GenResult where
  | errPieceLength | errRead | outOfFuel
  | ok (mi : MetaInfo)
  deriving DecidableEq, Repr

def ofSums (sha1 : List Char → Nat) (d : List Char) (pl : Int) : SumsResult → GenResult
  | .errPieceLength => .errPieceLength
  | .errRead => .errRead
  | .outOfFuel => .outOfFuel
  | .ok len sums => .ok (assemble sha1 d len sums pl)

/-- core.NewMetaInfo -/
def newMetaInfo (sha1 : List Char → Nat) (crc : Bytes → Nat) (d : List Char) (data : Bytes) (pl : Int)
    (failing : Bool := false) : GenResult :=
  ofSums sha1 d pl (sumsStream crc pl data failing)

/-- core.NewMetaInfoFromBytes -/
def newMetaInfoFromBytes (sha1 : List Char → Nat) (crc : Bytes → Nat) (d : List Char) (data : Bytes) (pl : Int) : GenResult :=
  ofSums sha1 d pl (sumsBytes crc pl data)

/-- MetaInfo.GetPieceLength(i) -/
def getPieceLength (info : Info) (i : Int) : Int :=
  let n : Int := info.sums.length
  if i < 0 ∨ i ≥ n then 0
  else if i = n - 1 then info.length - info.pieceLength * i
  else info.pieceLength

/-! ### JSON -/

def sumsStr : Option (List Nat) → List Char
  | none => ['n','u','l','l']
  | some [] => ['[',']']
  | some (a :: as) => '[' :: dec a ++ (as.flatMap fun x => ',' :: dec x) ++ [']']

def kPieceLength : List Char := ['{','"','I','n','f','o','"',':','{','"','P','i','e','c','e','L','e','n','g','t','h','"',':']
def kPieceSums : List Char := [',','"','P','i','e','c','e','S','u','m','s','"',':']
def kName : List Char := [',','"','N','a','m','e','"',':','"']
def kLength : List Char := ['"',',','"','L','e','n','g','t','h','"',':']
def kEnd : List Char := ['}','}']

/-- json.Marshal(&metaInfoJSON{mi.info}) -/
def serializeInfo (i : Info) : List Char :=
  kPieceLength ++ intStr i.pieceLength ++ kPieceSums ++ sumsStr i.pieceSums ++ kName ++ i.name
    ++ kLength ++ intStr i.length ++ kEnd

/-- characters encoding/json writes and reads verbatim inside a string -/
def jsonPlain (c : Char) : Bool :=
  decide (32 ≤ c.toNat) && decide (c.toNat < 127) && decide (c.toNat ≠ 34) && decide (c.toNat ≠ 92) &&
  decide (c.toNat ≠ 60) && decide (c.toNat ≠ 62) && decide (c.toNat ≠ 38)

/-- ranges of the Go field types and no character of the name needing an escape -/
def Info.wf (i : Info) : Bool :=
  decide (-(2^63 : Int) ≤ i.pieceLength) && decide (i.pieceLength < 2^63) &&
  decide (-(2^63 : Int) ≤ i.length) && decide (i.length < 2^63) &&
  i.sums.all (fun s => decide (s < 2^32)) && i.name.all jsonPlain

/-- scanner of `d,d,…,d]` (digits are collected in `cur`) -/
def scanSums : List Char → List Char → List Nat → Option (List Nat × List Char)
  | [], _, _ => none
  | c :: cs, cur, acc =>
    if c.isDigit then scanSums cs (cur ++ [c]) acc
    else if c = ',' then (if cur.isEmpty then none else scanSums cs [] (acc ++ [undec cur]))
    else if c = ']' then
      (if cur.isEmpty then (if acc.isEmpty then some ([], cs) else none) else some (acc ++ [undec cur], cs))
    else none

def readSums (s : List Char) : Option (Option (List Nat) × List Char) :=
  match lit ['n','u','l','l'] s with
  | some r => some (none, r)
  | none =>
    match lit ['['] s with
    | none => none
    | some r => (scanSums r [] []).map fun (l, r') => (some l, r')

/-- structural reader for the shape written by `serializeInfo` (no canonicity / range checks) -/
def readInfo (s : List Char) : Option Info := do
  let s ← lit kPieceLength s
  let (pl, s) ← readInt s
  let s ← lit kPieceSums s
  let (sums, s) ← readSums s
  let s ← lit kName s
  let name := s.takeWhile (· != '"')
  let s := s.dropWhile (· != '"')
  let s ← lit kLength s
  let (len, s) ← readInt s
  let s ← lit kEnd s
  if s.isEmpty then some { pieceLength := pl, pieceSums := sums, name := name, length := len } else none

/-- json.Unmarshal into metaInfoJSON, restricted to canonical texts: `some i` exactly when the text is
what `serializeInfo` writes for a well-formed `i`; `none` = not canonical (no claim about Go). -/
def parseInfo (s : List Char) : Option Info :=
  match readInfo s with
  | none => none
  | some i => if i.wf ∧ serializeInfo i = s then some i else none

/-- core.ValidateSHA256: 64 characters accepted by hex.DecodeString -/
def validSHA256Hex (s : List Char) : Bool := s.length == 64 && s.all isHex

inductive DeserResult where
  | noncanon                      -- text outside the canonical form: the model makes no claim
  | errName                       -- "parse name: …"
  | ok (mi : MetaInfo)
  deriving DecidableEq, Repr

/-- core.DeserializeMetaInfo -/
def deserialize (sha1 : List Char → Nat) (s : List Char) : DeserResult :=
  match parseInfo s with
  | none => .noncanon
  | some i =>
    if validSHA256Hex i.name then .ok { info := i, infoHash := sha1 (bencode i), digest := i.name }
    else .errName

/-! ### piece-length table -/

structure Range where
  fileSize : Int
  pieceLength : Int
  deriving DecidableEq, Repr

/-- int64(x) of a uint64 (datasize.ByteSize) -/
def toInt64 (x : Nat) : Int := if x % 2^64 < 2^63 then (x % 2^64 : Nat) else (x % 2^64 : Nat) - (2^64 : Int)

/-- sort.Slice(ranges, fileSize <) as an insertion sort (keys are distinct, so every correct sort
gives the same list) -/
def insertRange (r : Range) : List Range → List Range
  | [] => [r]
  | x :: xs => if r.fileSize ≤ x.fileSize then r :: x :: xs else x :: insertRange r xs

def isort : List Range → List Range
  | [] => []
  | r :: rs => insertRange r (isort rs)

/-- newPieceLengthConfig: `none` = "no piece lengths configured".  The argument lists the map's
entries (distinct keys), in any order. -/
def mkTable (m : List (Nat × Nat)) : Option (List Range) :=
  if m.isEmpty then none
  else some (isort (m.map fun (k, v) => ({ fileSize := toInt64 k, pieceLength := toInt64 v } : Range)))

def getLoop (size : Int) : List Range → Int → Int
  | [], pl => pl
  | r :: rs, pl => if size < r.fileSize then pl else getLoop size rs r.pieceLength

inductive GetResult where
  | panic                          -- c.ranges[0] on an empty table
  | ok (pieceLength : Int)
  deriving DecidableEq, Repr

/-- pieceLengthConfig.get -/
def get (t : List Range) (size : Int) : GetResult :=
  match t with
  | [] => .panic
  | r :: _ => .ok (getLoop size t r.pieceLength)

end KrakenModel.MetaInfo
