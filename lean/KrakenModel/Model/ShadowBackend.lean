import KrakenModel.Model.BackendSpec
/-
  Model of lib/backend/shadowbackend.Client over two wrapped backends, each of which behaves like
  the storage-contract specification (`BackendSpec.Store`).

  * `Upload` refuses a source that is not an `io.ReadSeeker`; otherwise it uploads the source to
    the active backend (which drains it), seeks the source back to 0 and uploads it to the shadow
    backend.  The source is a reader with a position so that the rewind is part of the model.
  * `Download` and `List` read the active backend only.
  * `Stat` asks both: not found unless both have the name, else the active backend's answer.
-/
namespace KrakenModel.ShadowBackend
open KrakenModel.BackendSpec

variable {Name : Type} [DecidableEq Name]

/-- an upload source: the bytes and the read position -/
structure Source where
  data : Bytes
  pos : Nat := 0
  seekable : Bool := true
  deriving Repr, DecidableEq

/-- a wrapped backend's Upload reads the source to its end -/
def Source.readAll (r : Source) : Bytes × Source := (r.data.drop r.pos, { r with pos := r.data.length })

def Source.rewind (r : Source) : Source := { r with pos := 0 }

structure State (Name : Type) where
  active : Store Name := []
  shadow : Store Name := []

inductive UploadResult where
  | ok | refused
  deriving Repr, DecidableEq

/-- `Client.Upload` -/
def upload (lt : Name → Name → Bool) (s : State Name) (n : Name) (src : Source) : State Name × UploadResult :=
  if !src.seekable then (s, .refused) else
  let (b1, src1) := src.readAll
  let active := put lt s.active n b1
  let (b2, _) := src1.rewind.readAll
  ({ active := active, shadow := put lt s.shadow n b2 }, .ok)

/-- `Client.Download`: the active backend only -/
def sdownload (s : State Name) (n : Name) : DownloadResult := download s.active n

/-- `Client.Stat`: both are asked; any "not found" makes the answer "not found" -/
def sstat (s : State Name) (n : Name) : Option Nat :=
  match stat s.active n, stat s.shadow n with
  | some a, some _ => some a
  | _, _ => none

/-- `Client.List`: the active backend only -/
def slist (matchesP : Name → Bool) (s : State Name) : List Name := list matchesP s.active

inductive Op (Name : Type) where
  | upload (n : Name) (src : Source)
  | uploadActive (n : Name) (b : Bytes)      -- someone writes the active backend directly
  | uploadShadow (n : Name) (b : Bytes)      -- someone writes the shadow backend directly
  | other

def step (lt : Name → Name → Bool) (s : State Name) : Op Name → State Name
  | .upload n src => (upload lt s n src).1
  | .uploadActive n b => { s with active := put lt s.active n b }
  | .uploadShadow n b => { s with shadow := put lt s.shadow n b }
  | .other => s

def run (lt : Name → Name → Bool) (ops : List (Op Name)) : State Name := ops.foldl (step lt) {}

end KrakenModel.ShadowBackend
