/-
  Model of lib/persistedretry.manager over a persistent task table
  (lib/persistedretry/writeback.Store, lib/persistedretry/tagreplication.Store on SQLite).
  Shared by C30 (the manager itself), C31 (origin write-back), C32 (build-index write-back) and
  C33 (tag replication).

  Persistent part: `rows` (the SQLite table, scan order = insertion order), `now` (wall clock).
  Volatile part (lost by a crash): `own` — which goroutine / channel currently holds each task that
  is `pending` in the table — and the poller's local variables `todo`.

  Every operation of the code is split at its store calls and channel operations, so that a history
  (`List Op`) is an interleaving of the atomic steps of concurrent `Add` callers, the retry poller,
  the workers, the clock and process crashes / starts:

    Add(t)        = addBegin (closed check, Ready, AddPending|AddFailed) ; addEnq (channel send or,
                    when the channel is full, MarkFailed)
    pollRetries() = pollFetch (GetFailed) ; for each task: pollMark (Ready && since(lastAttempt) >
                    RetryInterval → MarkPending) ; pollEnq (channel send or MarkFailed)
    worker        = take (channel receive) ; finish k ok (Executor.Exec returned; Remove | MarkFailed)
    Close()       = close (closed := true) ... process exit = crash
    process start = start invalid (tagreplication.NewStore purges tasks whose destination is no longer
                    configured; NewManager marks every pending task failed)

  An operation that is not enabled in a state leaves it unchanged (`Out.notEnabled`).
  Store calls on a missing row are explicit (`Out.errNotFound`), never defaulted.
-/
namespace KrakenModel.Retry

abbrev Key := Nat

inductive Status where
  | pending | failed
  deriving DecidableEq, Repr

structure Row where
  key : Key
  status : Status
  failures : Nat
  createdAt : Nat
  lastAttempt : Option Nat   -- none = the zero time.Time of a task that was never attempted
  delay : Nat
  payload : List Nat := []   -- the task's other columns (digest, dependencies, …): what the executor is handed
  deriving DecidableEq, Repr

inductive Pool where
  | inc | ret      -- the `incoming` and the `retries` channel with their worker pools
  deriving DecidableEq, Repr

/-- where a task that is pending in the table currently lives in the process -/
inductive Place where
  | adding               -- an Add caller between AddPending and its channel send
  | retrying             -- the poller between MarkPending and its channel send
  | queued (p : Pool)    -- in a channel buffer
  | running (p : Pool)   -- held by a worker that is inside Executor.Exec
  deriving DecidableEq, Repr

inductive Mode where
  | up | closing | down
  deriving DecidableEq, Repr

structure Config where
  capIn : Nat := 1          -- IncomingBuffer
  capRe : Nat := 1          -- RetryBuffer
  nIn : Nat := 1            -- NumIncomingWorkers
  nRe : Nat := 1            -- NumRetryWorkers
  retryInterval : Nat := 0
  deriving DecidableEq, Repr

structure State where
  cfg : Config := {}
  mode : Mode := .up
  now : Nat := 0
  rows : List Row := []
  own : List (Key × Place) := []   -- arrival order; a channel's content is the sub-list with its tag
  todo : List Row := []            -- the poller's fetched-but-not-yet-examined failed tasks
  deriving DecidableEq, Repr

inductive Op where
  | addBegin (k : Key) (delay : Nat) (payload : List Nat)
  | addEnq (k : Key)
  | pollFetch
  | pollMark
  | pollEnq
  | take (p : Pool)
  | finish (k : Key) (ok : Bool)
  | advance (dt : Nat)
  | close
  | crash
  | start (invalid : List Key)
  deriving DecidableEq, Repr

inductive Out where
  | ok | closed | dup | addedPending | addedFailed | enqueued | overflow
  | fetched (n : Nat) | marked (k : Key) | skipped (k : Key) | taken (k : Key)
  | removed | markedFailed | errNotFound | notEnabled
  deriving DecidableEq, Repr

/-! ### the task table -/

def hasKey (rows : List Row) (k : Key) : Bool := rows.any (fun r => r.key == k)

def newRow (k : Key) (st : Status) (now delay : Nat) (payload : List Nat := []) : Row :=
  { key := k, status := st, failures := 0, createdAt := now, lastAttempt := none, delay := delay, payload := payload }

def failRow (now : Nat) (r : Row) : Row :=
  { r with status := .failed, failures := r.failures + 1, lastAttempt := some now }

/-- `UPDATE … SET last_attempt = CURRENT_TIMESTAMP, failures = failures + 1, status = "failed"` -/
def markFailed (rows : List Row) (k : Key) (now : Nat) : List Row :=
  rows.map fun r => if r.key = k then failRow now r else r

/-- `UPDATE … SET status = "pending"` -/
def markPending (rows : List Row) (k : Key) : List Row :=
  rows.map fun r => if r.key = k then { r with status := .pending } else r

/-- `DELETE FROM … WHERE key` -/
def remove (rows : List Row) (k : Key) : List Row := rows.filter fun r => r.key ≠ k

/-- `Task.Ready`: `time.Since(CreatedAt) >= Delay` -/
def ready (r : Row) (now : Nat) : Bool := decide (r.delay ≤ now - r.createdAt)

/-- `time.Since(t.GetLastAttempt()) > RetryInterval` (always true for the zero time) -/
def due (cfg : Config) (r : Row) (now : Nat) : Bool :=
  match r.lastAttempt with
  | none => true
  | some t => decide (cfg.retryInterval < now - t)

/-! ### ownership of pending tasks inside the process -/

def place (own : List (Key × Place)) (k : Key) (p : Place) : List (Key × Place) :=
  own.filter (fun e => e.1 ≠ k) ++ [(k, p)]

def dropKey (own : List (Key × Place)) (k : Key) : List (Key × Place) :=
  own.filter fun e => e.1 ≠ k

def withTag (own : List (Key × Place)) (p : Place) : List Key :=
  (own.filter fun e => e.2 = p).map (·.1)

def queue (own : List (Key × Place)) (p : Pool) : List Key := withTag own (.queued p)
def running (own : List (Key × Place)) (p : Pool) : List Key := withTag own (.running p)

def placeOf (own : List (Key × Place)) (k : Key) : Option Place :=
  (own.find? fun e => e.1 = k).map (·.2)

def cap (cfg : Config) : Pool → Nat
  | .inc => cfg.capIn
  | .ret => cfg.capRe

def workers (cfg : Config) : Pool → Nat
  | .inc => cfg.nIn
  | .ret => cfg.nRe

/-- `enqueue`: non-blocking channel send; on a full channel the task is marked failed in the table. -/
def enqueue (s : State) (k : Key) (p : Pool) : State × Out :=
  if (queue s.own p).length < cap s.cfg p then
    ({ s with own := place s.own k (.queued p) }, .enqueued)
  else if hasKey s.rows k then
    ({ s with own := dropKey s.own k, rows := markFailed s.rows k s.now }, .overflow)
  else
    ({ s with own := dropKey s.own k }, .errNotFound)

def stepO (s : State) : Op → State × Out
  | .addBegin k d pl =>
    match s.mode with
    | .up =>
      if hasKey s.rows k then (s, .dup)       -- ErrTaskExists: "No-op on duplicate tasks"
      else if d = 0 then
        ({ s with rows := s.rows ++ [newRow k .pending s.now d pl], own := place s.own k .adding },
          .addedPending)
      else ({ s with rows := s.rows ++ [newRow k .failed s.now d pl] }, .addedFailed)
    | _ => (s, .closed)
  | .addEnq k =>
    if placeOf s.own k = some .adding then enqueue s k .inc else (s, .notEnabled)
  | .pollFetch =>
    if s.mode ≠ .down ∧ s.todo = [] ∧ withTag s.own .retrying = [] then
      let fs := s.rows.filter fun r => r.status = .failed
      ({ s with todo := fs }, .fetched fs.length)
    else (s, .notEnabled)
  | .pollMark =>
    match s.todo with
    | [] => (s, .notEnabled)
    | r :: rest =>
      if withTag s.own .retrying ≠ [] then (s, .notEnabled)
      else if ready r s.now && due s.cfg r s.now then
        if hasKey s.rows r.key then
          ({ s with todo := rest, rows := markPending s.rows r.key,
                    own := place s.own r.key .retrying }, .marked r.key)
        else ({ s with todo := rest }, .errNotFound)
      else ({ s with todo := rest }, .skipped r.key)
  | .pollEnq =>
    match withTag s.own .retrying with
    | [] => (s, .notEnabled)
    | k :: _ => enqueue s k .ret
  | .take p =>
    match queue s.own p with
    | [] => (s, .notEnabled)
    | k :: _ =>
      if (running s.own p).length < workers s.cfg p then
        ({ s with own := place s.own k (.running p) }, .taken k)
      else (s, .notEnabled)
  | .finish k ok =>
    match placeOf s.own k with
    | some (.running _) =>
      if ok then ({ s with own := dropKey s.own k, rows := remove s.rows k }, .removed)
      else if hasKey s.rows k then
        ({ s with own := dropKey s.own k, rows := markFailed s.rows k s.now }, .markedFailed)
      else ({ s with own := dropKey s.own k }, .errNotFound)
    | _ => (s, .notEnabled)
  | .advance dt => ({ s with now := s.now + dt }, .ok)
  | .close =>
    match s.mode with
    | .up => ({ s with mode := .closing }, .ok)
    | _ => (s, .notEnabled)
  | .crash =>
    match s.mode with
    | .down => (s, .notEnabled)
    | _ => ({ s with mode := .down, own := [], todo := [] }, .ok)
  | .start invalid =>
    match s.mode with
    | .down =>
      let kept := s.rows.filter fun r => r.key ∉ invalid
      let rows := kept.map fun r => if r.status = .pending then failRow s.now r else r
      ({ s with mode := .up, rows := rows, own := [], todo := [] }, .ok)
    | _ => (s, .notEnabled)

def step (s : State) (o : Op) : State := (stepO s o).1
def out (s : State) (o : Op) : Out := (stepO s o).2

/-- `Config.applyDefaults` (lib/persistedretry/config.go) on the fields the model has: a field the user
left unset is 0; worker counts default to 4 / 2, channel sizes to 1000 unless the `Testing` flag is set -/
def applyDefaults (raw : Config) (testing : Bool) : Config :=
  { raw with
    nIn := if raw.nIn = 0 then 4 else raw.nIn,
    nRe := if raw.nRe = 0 then 2 else raw.nRe,
    capIn := if !testing && raw.capIn = 0 then 1000 else raw.capIn,
    capRe := if !testing && raw.capRe = 0 then 1000 else raw.capRe }

def init (cfg : Config) : State := { cfg := cfg }

/-! ### views used by the specifications -/

def keys (rows : List Row) : List Key := rows.map (·.key)

def stored (s : State) (k : Key) : Prop := k ∈ keys s.rows

def statusOf (rows : List Row) (k : Key) : Option Status :=
  (rows.find? fun r => r.key = k).map (·.status)

instance (s : State) (k : Key) : Decidable (stored s k) := by unfold stored; exact inferInstance

/-- the payload (digest, dependencies, … = what the executor is handed) stored for a key -/
def payloadOf (rows : List Row) (k : Key) : Option (List Nat) :=
  (rows.find? fun r => r.key = k).map (·.payload)

/-! ### `SyncExec`: in-place retries with a bounded number of attempts (no persistence) -/

/-- `backoff.Retry(op, WithMaxRetries(bo, maxRetries))`: the executor is run until it succeeds or
`maxRetries + 1` attempts have failed; `outcomes` are the executor results in order (a missing entry
counts as failure).  Returns (success, number of attempts made). -/
def syncExec (maxRetries : Nat) (outcomes : List Bool) : Bool × Nat :=
  go (maxRetries + 1) outcomes 0
where
  go : Nat → List Bool → Nat → Bool × Nat
    | 0, _, n => (false, n)
    | _ + 1, [], n => (false, n)
    | fuel + 1, o :: os, n => if o then (true, n + 1) else go fuel os (n + 1)

end KrakenModel.Retry
