/-
  Specification of the storage contract of lib/backend.Client (C37) and of S3-style pagination.

  * A store is an association list kept sorted by name (strictly increasing for `lt`), so its key
    list is the listing order of a key-ordered backend (S3 keys, SQL `ORDER BY`).
  * `Upload` = `put` (replace or add), `Download` = `lookup`, `Stat` = length of `lookup`,
    `List prefix` = the keys that `matches prefix` (the matching relation is a parameter: directory
    semantics for testfs, string-prefix semantics for S3, repository equality for SQL).
  * `serverPage` is one ListObjectsV2 answer: the keys strictly after the continuation token, at
    most `k` of them, and a token (the last key returned) iff more keys remain.
  * `clientPage` is s3backend.Client.List's callback loop: it keeps requesting server pages (the
    server may answer with fewer keys than asked for: `cap`), keeps the keys that convert back to
    a name, until it has at least `maxKeys` names (paginated) or the server has no more pages.
  * `listAll` follows the continuation tokens from the start until there is none.
-/
namespace KrakenModel.BackendSpec

abbrev Bytes := List Nat

section
variable {Name : Type} [DecidableEq Name]

abbrev Store (Name : Type) := List (Name × Bytes)

def put (lt : Name → Name → Bool) : Store Name → Name → Bytes → Store Name
  | [], n, b => [(n, b)]
  | (m, c) :: rest, n, b =>
    if n = m then (n, b) :: rest
    else if lt n m then (n, b) :: (m, c) :: rest
    else (m, c) :: put lt rest n b

def lookup : Store Name → Name → Option Bytes
  | [], _ => none
  | (m, c) :: rest, n => if n = m then some c else lookup rest n

def keys (s : Store Name) : List Name := s.map (·.1)

inductive Op (Name : Type) where
  | upload (n : Name) (b : Bytes)
  | other                       -- Download / Stat / List: no effect on the store
  deriving Repr

def step (lt : Name → Name → Bool) (s : Store Name) : Op Name → Store Name
  | .upload n b => put lt s n b
  | .other => s

def run (lt : Name → Name → Bool) (ops : List (Op Name)) : Store Name := ops.foldl (step lt) []

/-- the bytes of the last `upload n _` of a history -/
def lastUpload : List (Op Name) → Name → Option Bytes
  | [], _ => none
  | .upload m b :: rest, n =>
    match lastUpload rest n with
    | some b' => some b'
    | none => if n = m then some b else none
  | .other :: rest, n => lastUpload rest n

inductive DownloadResult where
  | bytes (b : Bytes)
  | notFound
  deriving Repr, DecidableEq

def download (s : Store Name) (n : Name) : DownloadResult :=
  match lookup s n with
  | some b => .bytes b
  | none => .notFound

def stat (s : Store Name) (n : Name) : Option Nat := (lookup s n).map List.length

def list (matchesP : Name → Bool) (s : Store Name) : List Name := (keys s).filter matchesP

/-- the keys strictly after a continuation token -/
def after (lt : Name → Name → Bool) (ks : List Name) : Option Name → List Name
  | none => ks
  | some t => ks.filter (fun x => lt t x)

/-- one ListObjectsV2 answer over the (sorted) matching keys -/
def serverPage (lt : Name → Name → Bool) (ks : List Name) (k : Nat) (tok : Option Name) :
    List Name × Option Name :=
  let rest := after lt ks tok
  let pg := rest.take k
  (pg, if k < rest.length then pg.getLast? else none)

/-- s3backend.Client.List's page callback loop.  The server is asked for pages of `pageSize` keys
(it may answer with fewer: `cap`); the keys of a page that convert back to a name (`conv`; the
others — foreign objects under the prefix, nil keys — are skipped but were counted by the server)
are appended; with `limit = some n` (a paginated List, n = MaxKeys = pageSize) the loop stops as
soon as `n` names are collected and hands the server's continuation token back, with
`limit = none` (a List without pagination) it reads every page.  `fuel` bounds the server pages. -/
def clientPage (lt : Name → Name → Bool) (conv : Name → Bool) (ks : List Name) (pageSize cap : Nat)
    (limit : Option Nat) : Nat → Option Name → List Name → List Name × Option Name
  | 0, tok, acc => (acc, tok)
  | fuel + 1, tok, acc =>
    let (pg, next) := serverPage lt ks (min pageSize cap) tok
    let acc' := acc ++ pg.filter conv
    let more := match limit with
      | none => true
      | some n => decide (acc'.length < n)
    if more then
      match next with
      | none => (acc', none)                 -- no more pages: the token stays empty
      | some t => clientPage lt conv ks pageSize cap limit fuel (some t) acc'
    else (acc', next)

/-- follow the continuation tokens: the pages a caller of the paginated List receives -/
def listAll (lt : Name → Name → Bool) (conv : Name → Bool) (ks : List Name) (maxKeys cap : Nat) :
    Nat → Option Name → List (List Name)
  | 0, _ => []
  | fuel + 1, tok =>
    let (pg, next) := clientPage lt conv ks maxKeys cap (some maxKeys) (ks.length + 1) tok []
    match next with
    | none => [pg]
    | some t => pg :: listAll lt conv ks maxKeys cap fuel (some t)

end

end KrakenModel.BackendSpec
