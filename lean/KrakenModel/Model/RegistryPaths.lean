import KrakenModel.Util.Codec
import KrakenModel.Model.NamePath
/-
  Model of lib/dockerregistry/paths.go (C38).

  Every function there is a regexp over the registry storage path.  The regexps are modelled by their
  meaning on the list of '/'-separated path elements (`splitOn '/' path`):

    `^.+/` …            the elements before the marker, joined, are a non-empty string
    `…/([^/]+)/…`       one element
    `[0-9a-z]+` etc.    an element over that class, non-empty
    `…$`                the match ends at the last element, so anchored patterns are read from the end
    `.+` in the middle  one or more characters: a non-empty joined run of elements
    `.` never matches a newline: where a `.+` run contains '\n' the result is `unsupported`

  `getRepo` is GetRepo after the repairs (lazy `^.+?/repositories/(.+?)/(?:_manifests|_layers|_uploads)(?:/|$)`:
  first "repositories" element with something before it, then up to the first later element that is one
  of the three markers); `getRepoOld` is the former greedy reading (last / last, marker as a prefix).

  `layoutKinds` is NOT a model of the code: it is the registry storage layout itself (which entries
  exist, built from which valid components), used to state and monitor "paths that do not follow the
  layout are rejected".
-/
namespace KrakenModel.RegistryPaths
open KrakenModel.Codec

abbrev Str := List Char

/-- elements joined with '/' (shared with the namepath model) -/
abbrev joinSlash : List Str → Str := KrakenModel.NamePath.joinSlash

abbrev hasNewline (s : Str) : Bool := KrakenModel.NamePath.hasNewline s

/-! ### element names -/

def sRepositories : Str := ['r','e','p','o','s','i','t','o','r','i','e','s']
def sManifests : Str := ['_','m','a','n','i','f','e','s','t','s']
def sLayers : Str := ['_','l','a','y','e','r','s']
def sUploads : Str := ['_','u','p','l','o','a','d','s']
def sBlobs : Str := ['b','l','o','b','s']
def sSha256 : Str := ['s','h','a','2','5','6']
def sTags : Str := ['t','a','g','s']
def sRevisions : Str := ['r','e','v','i','s','i','o','n','s']
def sCurrent : Str := ['c','u','r','r','e','n','t']
def sIndex : Str := ['i','n','d','e','x']
def sLink : Str := ['l','i','n','k']
def sData : Str := ['d','a','t','a']
def sStartedat : Str := ['s','t','a','r','t','e','d','a','t']
def sHashstates : Str := ['h','a','s','h','s','t','a','t','e','s']

/-! ### character classes -/

def isLowerAlnum (c : Char) : Bool :=
  (decide (48 ≤ c.toNat) && decide (c.toNat ≤ 57)) || (decide (97 ≤ c.toNat) && decide (c.toNat ≤ 122))

def isAlnum (c : Char) : Bool := isLowerAlnum c || (decide (65 ≤ c.toNat) && decide (c.toNat ≤ 90))

def isDigitC (c : Char) : Bool := decide (48 ≤ c.toNat) && decide (c.toNat ≤ 57)

def startsWith (p s : Str) : Bool := (lit p s).isSome

/-- `[0-9a-z]+` -/
def lowerAlnum1 (s : Str) : Bool := !s.isEmpty && s.all isLowerAlnum
/-- `[a-zA-Z0-9]+` -/
def alnum1 (s : Str) : Bool := !s.isEmpty && s.all isAlnum
/-- `[0-9]+` -/
def digits1 (s : Str) : Bool := !s.isEmpty && s.all isDigitC

/-- `^.+/`: what precedes the marker is a non-empty string -/
def nonEmptyPrefix (pre : List Str) : Bool := !(joinSlash pre).isEmpty && !pre.isEmpty

inductive Res (α : Type) where
  | noMatch                 -- InvalidRegistryPathError
  | unsupported             -- a `.` would have to match a newline: not modelled
  | ok (a : α)
  deriving DecidableEq, Repr

/-- guard for the `.+` prefix: no newline -/
def withPrefix {α : Type} (pre : List Str) (r : Res α) : Res α :=
  if !nonEmptyPrefix pre then .noMatch
  else if hasNewline (joinSlash pre) then .unsupported
  else r

/-! ### the anchored extractors, read from the end of the element list -/

/-- GetBlobDigest's regexp `^.+/blobs/sha256/[0-9a-z]{2}/([0-9a-z]+)/data$` : the captured element -/
def blobDigestRe (path : Str) : Res Str :=
  match (splitOn '/' path).reverse with
  | d :: h :: sh :: s :: b :: pre =>
    if d = sData ∧ lowerAlnum1 h ∧ sh.length = 2 ∧ sh.all isLowerAlnum ∧ s = sSha256 ∧ b = sBlobs then
      withPrefix pre.reverse (.ok h)
    else .noMatch
  | _ => .noMatch

/-- GetLayerDigest's regexp `^.+/_layers/sha256/([0-9a-z]+)/(?:link|data)$` : digest element and last element -/
def layerRe (path : Str) : Res (Str × Str) :=
  match (splitOn '/' path).reverse with
  | l :: h :: s :: m :: pre =>
    if (l = sLink ∨ l = sData) ∧ lowerAlnum1 h ∧ s = sSha256 ∧ m = sLayers then withPrefix pre.reverse (.ok (h, l))
    else .noMatch
  | _ => .noMatch

/-- GetManifestTag's regexp `^.+/_manifests/tags/([^/]+)/(current|index/sha256/[0-9a-z]+)/link$` : tag, isCurrent -/
def manifestTagRe (path : Str) : Res (Str × Bool) :=
  match (splitOn '/' path).reverse with
  | l :: c :: t :: tg :: m :: pre =>
    if l = sLink ∧ c = sCurrent ∧ !t.isEmpty ∧ tg = sTags ∧ m = sManifests then withPrefix pre.reverse (.ok (t, true))
    else match l :: c :: t :: tg :: m :: pre with
      | l :: h :: s :: i :: t :: tg :: m :: pre' =>
        if l = sLink ∧ lowerAlnum1 h ∧ s = sSha256 ∧ i = sIndex ∧ !t.isEmpty ∧ tg = sTags ∧ m = sManifests then
          withPrefix pre'.reverse (.ok (t, false))
        else .noMatch
      | _ => .noMatch
  | _ => .noMatch

/-- `tags/.+/index` as the elements between `_manifests` and `sha256` -/
def tagsIndexMid (after : List Str) : Bool :=
  match after with
  | tg :: mid => tg == sTags && mid.getLast? == some sIndex && !(joinSlash mid.dropLast).isEmpty && decide (mid.length ≥ 2)
  | [] => false

/-- candidates for `^.+/_manifests/(?:revisions|tags/.+/index)/sha256/([0-9a-z]+)/link$`, scanning the position of
`_manifests` from the right (the greedy `^.+` prefers the last one); `rest` = elements before `sha256` -/
def manifestDigestScan (h : Str) : List Str → List Str → Res Str
  | [], _ => .noMatch
  | x :: before, after =>
    -- `before` (reversed) are the elements left of x, `after` the elements between x and "sha256"
    if x = sManifests ∧ (after = [sRevisions] ∨ tagsIndexMid after) ∧ nonEmptyPrefix before.reverse then
      if hasNewline (joinSlash before.reverse) ∨ hasNewline (joinSlash after) then .unsupported else .ok h
    else manifestDigestScan h before (x :: after)

/-- GetManifestDigest's regexp -/
def manifestDigestRe (path : Str) : Res Str :=
  match (splitOn '/' path).reverse with
  | l :: h :: s :: rest =>
    if l = sLink ∧ lowerAlnum1 h ∧ s = sSha256 then manifestDigestScan h rest [] else .noMatch
  | _ => .noMatch

/-- tail of the uploads patterns after `_uploads/<uuid>/` -/
inductive UploadTail where
  | data | startedat
  | hashstates (algo : Str) (offset : Option Str)
  deriving DecidableEq, Repr

def uploadTail? : List Str → Option UploadTail
  | [d] => if d = sData then some .data else if d = sStartedat then some .startedat else none
  | [hs, a] => if hs = sHashstates ∧ alnum1 a then some (.hashstates a none) else none
  | [hs, a, o] => if hs = sHashstates ∧ alnum1 a ∧ digits1 o then some (.hashstates a (some o)) else none
  | _ => none

/-- scan `_uploads` from the right (the greedy `^.+` prefers the last one) for `_uploads/<uuid>/<tail>` with an
accepted tail -/
def uploadScan (accept : List Str → Option UploadTail) : List Str → List Str → Res (Str × UploadTail)
  | [], _ => .noMatch
  | x :: before, after =>
    match after with
    | u :: tail =>
      match (if x = sUploads ∧ !u.isEmpty then accept tail else none) with
      | some t => if !nonEmptyPrefix before.reverse then uploadScan accept before (x :: after)
                  else if hasNewline (joinSlash before.reverse) then .unsupported else .ok (u, t)
      | none => uploadScan accept before (x :: after)
    | [] => uploadScan accept before (x :: after)

/-- `^.+/_uploads/([^/]+)/(?:data$|startedat$|hashstates/[a-zA-Z0-9]+(?:/[0-9]+)?$)` -/
def uploadRe (path : Str) : Res (Str × UploadTail) := uploadScan uploadTail? (splitOn '/' path).reverse []

/-! ### the exported functions -/

/-- core.NewSHA256DigestFromHex on the captured element -/
def digestOk (h : Str) : Bool := h.length == 64 && h.all isHex

inductive DigestRes where
  | noMatch | unsupported | badDigest
  | ok (hex : Str)
  deriving DecidableEq, Repr

def toDigest : Res Str → DigestRes
  | .noMatch => .noMatch
  | .unsupported => .unsupported
  | .ok h => if digestOk h then .ok h else .badDigest

def getBlobDigest (path : Str) : DigestRes := toDigest (blobDigestRe path)
def getLayerDigest (path : Str) : DigestRes :=
  toDigest (match layerRe path with | .ok (h, _) => .ok h | .noMatch => .noMatch | .unsupported => .unsupported)
def getManifestDigest (path : Str) : DigestRes := toDigest (manifestDigestRe path)
def getManifestTag (path : Str) : Res (Str × Bool) := manifestTagRe path

def getUploadUUID (path : Str) : Res Str :=
  match uploadRe path with
  | .ok (u, _) => .ok u
  | .noMatch => .noMatch
  | .unsupported => .unsupported

/-- GetUploadAlgoAndOffset: `^.+/_uploads/[^/]+/hashstates/([a-zA-Z0-9]+)/([0-9]+)$` -/
def getUploadAlgoAndOffset (path : Str) : Res (Str × Str) :=
  match (splitOn '/' path).reverse with
  | o :: a :: hs :: u :: up :: pre =>
    if digits1 o ∧ alnum1 a ∧ hs = sHashstates ∧ !u.isEmpty ∧ up = sUploads then withPrefix pre.reverse (.ok (a, o))
    else .noMatch
  | _ => .noMatch

/-- `/(?:_manifests|_layers|_uploads)(?:/|$)`: the element is exactly one of the three markers -/
def isMarker (c : Str) : Bool := c == sManifests || c == sLayers || c == sUploads

/-- elements up to (excluding) the first marker element at index ≥ 1 whose joined prefix is non-empty -/
def firstMarker : List Str → List Str → Option (List Str)
  | [], _ => none
  | d :: ds, acc =>
    if isMarker d ∧ !acc.isEmpty ∧ !(joinSlash acc).isEmpty then some acc
    else firstMarker ds (acc ++ [d])

/-- GetRepo (repaired, lazy): first `repositories` element with a non-empty prefix, then up to the first marker -/
def getRepoScan : List Str → List Str → Res Str
  | [], _ => .noMatch
  | x :: rest, pre =>
    if x = sRepositories ∧ nonEmptyPrefix pre then
      match firstMarker rest [] with
      | some g => if hasNewline (joinSlash pre) ∨ hasNewline (joinSlash g) then .unsupported else .ok (joinSlash g)
      | none => getRepoScan rest (pre ++ [x])
    else getRepoScan rest (pre ++ [x])

def getRepo (path : Str) : Res Str := getRepoScan (splitOn '/' path) []

/-- the former marker test: the element merely starts with one of the three names -/
def isMarkerPrefix (c : Str) : Bool := startsWith sManifests c || startsWith sLayers c || startsWith sUploads c

/-- elements up to (excluding) the LAST marker element (greedy group) -/
def lastMarker (ds : List Str) : Option (List Str) :=
  let idx := (List.range ds.length).reverse.find? fun j =>
    j ≥ 1 && isMarkerPrefix (ds.getD j []) && !(joinSlash (ds.take j)).isEmpty
  idx.map fun j => ds.take j

/-- the former GetRepo (greedy): LAST `repositories` element, then up to the LAST marker -/
def getRepoOld (path : Str) : Res Str :=
  let cs := splitOn '/' path
  let idx := (List.range cs.length).reverse.find? fun i =>
    cs.getD i [] = sRepositories && nonEmptyPrefix (cs.take i) && (lastMarker (cs.drop (i + 1))).isSome
  match idx with
  | none => .noMatch
  | some i => match lastMarker (cs.drop (i + 1)) with
    | some g => if hasNewline (joinSlash (cs.take i)) ∨ hasNewline (joinSlash g) then .unsupported else .ok (joinSlash g)
    | none => .noMatch

/-! ### ParsePath -/

inductive PType where
  | manifests | uploads | layers | blobs
  deriving DecidableEq, Repr

/-- `^.+/_manifests/(tags|revisions)(?:/.+/link)?$`: scan `_manifests` from the right -/
def matchManifestsScan : List Str → List Str → Res Str
  | [], _ => .noMatch
  | x :: before, after =>
    match after with
    | st :: tail =>
      if x = sManifests ∧ (st = sTags ∨ st = sRevisions) ∧
          (tail = [] ∨ (tail.getLast? = some sLink ∧ tail.length ≥ 2 ∧ !(joinSlash tail.dropLast).isEmpty)) ∧
          nonEmptyPrefix before.reverse then
        if hasNewline (joinSlash before.reverse) ∨ hasNewline (joinSlash tail) then .unsupported else .ok st
      else matchManifestsScan before (x :: after)
    | [] => matchManifestsScan before (x :: after)

def matchManifests (path : Str) : Res Str := matchManifestsScan (splitOn '/' path).reverse []

/-- tail accepted by matchUploadsPath's first regexp `…/(data$|startedat$|hashstates)`: not anchored after `hashstates` -/
def uploadTailLoose? : List Str → Option UploadTail
  | [] => none
  | d :: rest =>
    if rest.isEmpty ∧ d = sData then some .data
    else if rest.isEmpty ∧ d = sStartedat then some .startedat
    else if startsWith sHashstates d then some (.hashstates [] none)
    else none

def hashTail? (t : List Str) : Option UploadTail :=
  match uploadTail? t with
  | some (.hashstates a o) => some (.hashstates a o)
  | _ => none

/-- matchUploadsPath: the first regexp picks the subtype; for `hashstates` the whole path must also match
`^.+/_uploads/[^/]+/hashstates/[a-zA-Z0-9]+(?:/[0-9]+)?$` -/
def matchUploads (path : Str) : Res Str :=
  match uploadScan uploadTailLoose? (splitOn '/' path).reverse [] with
  | .ok (_, .data) => .ok sData
  | .ok (_, .startedat) => .ok sStartedat
  | .ok (_, .hashstates _ _) =>
    (match uploadScan hashTail? (splitOn '/' path).reverse [] with
     | .ok _ => .ok sHashstates
     | .noMatch => .noMatch
     | .unsupported => .unsupported)
  | .noMatch => .noMatch
  | .unsupported => .unsupported

def parsePath (path : Str) : Res (PType × Str) :=
  match matchManifests path with
  | .ok st => .ok (.manifests, st)
  | .unsupported => .unsupported
  | .noMatch =>
    match matchUploads path with
    | .ok st => .ok (.uploads, st)
    | .unsupported => .unsupported
    | .noMatch =>
      match layerRe path with
      | .ok (_, l) => .ok (.layers, l)
      | .unsupported => .unsupported
      | .noMatch =>
        match blobDigestRe path with
        | .ok _ => .ok (.blobs, sData)
        | .unsupported => .unsupported
        | .noMatch => .noMatch

/-! ### the storage layout (specification, independent of the regexps) -/

def validHexB (h : Str) : Bool := lowerAlnum1 h && digestOk h
def isTagFirst (c : Char) : Bool := isAlnum c || c == '_'
def isTagChar (c : Char) : Bool := isAlnum c || c == '_' || c == '.' || c == '-'

/-- the Docker tag grammar `[A-Za-z0-9_][A-Za-z0-9_.-]{0,127}`: 1 to 128 characters -/
def validTagB (t : Str) : Bool :=
  match t with
  | [] => false
  | c :: cs => isTagFirst c && cs.all isTagChar && decide (cs.length ≤ 127)

def isLowerHex (c : Char) : Bool :=
  (decide (48 ≤ c.toNat) && decide (c.toNat ≤ 57)) || (decide (97 ≤ c.toNat) && decide (c.toNat ≤ 102))

/-- an upload id is a UUID in its canonical text form: 36 characters, '-' at 8, 13, 18, 23, lower-case hex elsewhere -/
def validUUIDB (u : Str) : Bool :=
  decide (u.length = 36) &&
  (List.range 36).all fun i =>
    let c := u.getD i ' '
    if i = 8 ∨ i = 13 ∨ i = 18 ∨ i = 23 then c == '-' else isLowerHex c

/-- Docker limits a repository name to 255 characters in total -/
def maxRepoLength : Nat := 255

/-- a storage root: something non-empty, no marker element, no newline -/
def goodRoot (pre : List Str) : Bool :=
  nonEmptyPrefix pre && pre.all (fun c => !isMarker c) && !hasNewline (joinSlash pre)

/-- `<root>/repositories/<repo>`: the root has no element `repositories`; the repository has at least one
element, none empty, none a marker -/
def goodRepoDir (front : List Str) : Bool :=
  let pre := front.takeWhile (fun c => c != sRepositories)
  match front.dropWhile (fun c => c != sRepositories) with
  | _ :: repo => goodRoot pre && !repo.isEmpty && repo.all (fun c => !c.isEmpty && !isMarker c) && !hasNewline (joinSlash repo)
      && decide ((joinSlash repo).length ≤ maxRepoLength)
  | [] => false

/-! one recogniser per layout entry, on the reversed element list -/

/-- …/_manifests/tags , …/_manifests/revisions -/
def leManifestsDir : List Str → Option (PType × Str)
  | st :: m :: front => if (st = sTags ∨ st = sRevisions) ∧ m = sManifests ∧ goodRepoDir front.reverse then some (.manifests, st) else none
  | _ => none

/-- …/_manifests/tags/<tag>/current/link -/
def leTagCurrent : List Str → Option (PType × Str)
  | l :: c :: t :: tg :: m :: front =>
    if l = sLink ∧ c = sCurrent ∧ validTagB t ∧ tg = sTags ∧ m = sManifests ∧ goodRepoDir front.reverse then some (.manifests, sTags) else none
  | _ => none

/-- …/_manifests/tags/<tag>/index/sha256/<digest>/link -/
def leTagIndex : List Str → Option (PType × Str)
  | l :: h :: s :: i :: t :: tg :: m :: front =>
    if l = sLink ∧ validHexB h ∧ s = sSha256 ∧ i = sIndex ∧ validTagB t ∧ tg = sTags ∧ m = sManifests ∧ goodRepoDir front.reverse
    then some (.manifests, sTags) else none
  | _ => none

/-- …/_manifests/revisions/sha256/<digest>/link -/
def leRevision : List Str → Option (PType × Str)
  | l :: h :: s :: rv :: m :: front =>
    if l = sLink ∧ validHexB h ∧ s = sSha256 ∧ rv = sRevisions ∧ m = sManifests ∧ goodRepoDir front.reverse then some (.manifests, sRevisions) else none
  | _ => none

/-- …/_layers/sha256/<digest>/link|data -/
def leLayer : List Str → Option (PType × Str)
  | l :: h :: s :: m :: front =>
    if (l = sLink ∨ l = sData) ∧ validHexB h ∧ s = sSha256 ∧ m = sLayers ∧ goodRepoDir front.reverse then some (.layers, l) else none
  | _ => none

/-- <root>/blobs/sha256/<first two characters>/<digest>/data -/
def leBlob : List Str → Option (PType × Str)
  | d :: h :: sh :: s :: b :: front =>
    if d = sData ∧ validHexB h ∧ sh = h.take 2 ∧ s = sSha256 ∧ b = sBlobs ∧ goodRoot front.reverse then some (.blobs, sData) else none
  | _ => none

/-- …/_uploads/<id>/data|startedat -/
def leUploadFile : List Str → Option (PType × Str)
  | d :: u :: m :: front =>
    if (d = sData ∨ d = sStartedat) ∧ validUUIDB u ∧ m = sUploads ∧ goodRepoDir front.reverse then some (.uploads, d) else none
  | _ => none

/-- …/_uploads/<id>/hashstates/<algorithm> -/
def leUploadHash : List Str → Option (PType × Str)
  | a :: hs :: u :: m :: front =>
    if alnum1 a ∧ hs = sHashstates ∧ validUUIDB u ∧ m = sUploads ∧ goodRepoDir front.reverse then some (.uploads, sHashstates) else none
  | _ => none

/-- …/_uploads/<id>/hashstates/<algorithm>/<offset> -/
def leUploadHashOffset : List Str → Option (PType × Str)
  | o :: a :: hs :: u :: m :: front =>
    if digits1 o ∧ alnum1 a ∧ hs = sHashstates ∧ validUUIDB u ∧ m = sUploads ∧ goodRepoDir front.reverse then some (.uploads, sHashstates) else none
  | _ => none

def layoutEntries : List (List Str → Option (PType × Str)) :=
  [leManifestsDir, leTagCurrent, leTagIndex, leRevision, leLayer, leBlob, leUploadFile, leUploadHash, leUploadHashOffset]

/-- the layout entries (kind, subtype) a path is a well-formed instance of -/
def layoutKinds (path : Str) : List (PType × Str) :=
  layoutEntries.filterMap fun f => f (splitOn '/' path).reverse

end KrakenModel.RegistryPaths
