import KrakenModel.Model.MetaInfo
/-
  Model of lib/metainfogen.Generator.Generate on a store that may already hold a metainfo sidecar for the
  blob (C02).  The sidecar is the serialised text (what `_torrentmeta` contains); `old` is whatever was
  there before — metainfo generated under another piece-length table, written by SetCacheFileMetadata, or
  nothing.  Generate always rehashes the blob with the piece length the CURRENT table selects for the
  blob's size and overwrites the sidecar.
-/
namespace KrakenModel.MetaInfoGen
open KrakenModel.MetaInfo

inductive Outcome where
  | panic            -- empty table
  | errCreate        -- "create metainfo: …" (piece length ≤ 0)
  | errOther
  | ok
  deriving DecidableEq, Repr

/-- `Generate(d)` for the blob `data`: outcome and the sidecar afterwards -/
def generate (sha1 : List Char → Nat) (crc : Bytes → Nat) (t : List Range) (d : List Char) (data : Bytes)
    (old : Option (List Char)) : Outcome × Option (List Char) :=
  match get t data.length with
  | .panic => (.panic, old)
  | .ok pl =>
    match newMetaInfo sha1 crc d data pl with
    | .ok mi => (.ok, some (serializeInfo mi.info))      -- SetCacheFileMetadata overwrites
    | .errPieceLength => (.errCreate, old)
    | _ => (.errOther, old)

end KrakenModel.MetaInfoGen
