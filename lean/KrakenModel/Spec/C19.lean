import KrakenModel.Proof.C19Progress
/-
  C19  A swarm with a reachable seeder converges to the exact blob.

  Statements are about `Model.Swarm` (peers = C03 torrents + connection / request bookkeeping).
  A schedule / fault sequence is any list of swarm actions: connect, disconnect, leave, request,
  deliver (honest bytes or, from a corrupting peer, arbitrary bytes), tstep (one atomic step of a
  WritePiece call at some peer), resolve.  Any number of seeders (any of them corrupting), any
  number of agents, any connection and pipeline limits, any blob, piece length and checksum.
  Hypothesis of the byte-identity statements: checksum separation for the corrupt payloads.
-/
namespace KrakenModel.Spec.C19
open KrakenModel KrakenModel.AgentTorrent KrakenModel.Swarm KrakenModel.Proof.C03 KrakenModel.Proof.C19

def SepSched (crc : Bytes → Nat) (pl : Nat) (blob : Bytes) (sched : List Swarm.Action) : Prop :=
  ∀ a ∈ sched, SepSwarmAction crc pl blob a

instance (crc : Bytes → Nat) (pl : Nat) (blob : Bytes) (sched : List Swarm.Action) :
    Decidable (SepSched crc pl blob sched) := by unfold SepSched; exact inferInstance

theorem runFrom_ok {crc : Bytes → Nat} {pl : Nat} {blob : Bytes} (hpl : 0 < pl) :
    ∀ (sched : List Swarm.Action) (s : Swarm), SwarmOK crc pl blob s → SepSched crc pl blob sched →
      SwarmOK crc pl blob (sched.foldl (Swarm.step crc) s) := by
  intro sched
  induction sched with
  | nil => intro s hs _; exact hs
  | cons a rest ih =>
    intro s hs hsep
    exact ih _ (swarm_step_ok hpl hs a (hsep a (List.mem_cons_self ..)))
      (fun b hb => hsep b (List.mem_cons_of_mem _ hb))

section
variable (crc : Bytes → Nat) (pl : Nat) (blob : Bytes) (hpl : 0 < pl) (cfg : Cfg) (seeders : List Bool)
  (agents : Nat) (sched : List Swarm.Action) (hsep : SepSched crc pl blob sched)
include hpl hsep

/-- every peer keeps the C03 invariants after every schedule and fault sequence -/
theorem swarm_ok :
    SwarmOK crc pl blob (Swarm.run crc (initSwarm cfg (MetaInfo.ofBlob crc pl blob) blob seeders agents) sched) :=
  runFrom_ok hpl sched _ (init_ok crc pl blob cfg seeders agents) hsep

/-- **C19 (1) safety** Whatever the schedule, the departures and the corrupted deliveries: a peer
    that reports its download complete has the file in its cache, every piece complete, and the
    cached file is byte-identical to the blob. -/
theorem complete_peer_holds_blob (a : Nat) (p : Peer)
    (hp : (Swarm.run crc (initSwarm cfg (MetaInfo.ofBlob crc pl blob) blob seeders agents) sched).peers[a]? = some p)
    (hc : complete p.tor = true) :
    p.tor.inCache = true ∧ p.tor.file = blob ∧
    ∀ i, i < numPiecesOf pl blob.length → p.tor.pieces[i]? = some .complete := by
  have hg := (swarm_ok crc pl blob hpl cfg seeders agents sched hsep a p hp).1
  have hic := hg.committed_cache hc
  have hall := all_complete_of_num hg (hg.cache_num hic)
  exact ⟨hic, file_eq_blob_of_all_complete hpl hg hall, fun i hi => hall i (by rw [hg.len_pieces]; exact hi)⟩

/-- **C19 (2)** Every piece any peer announces / serves (complete in its bitfield) holds the blob's
    bytes, so an honest peer only ever puts the blob's bytes on the wire. -/
theorem served_bytes_are_blob (a : Nat) (p : Peer)
    (hp : (Swarm.run crc (initSwarm cfg (MetaInfo.ofBlob crc pl blob) blob seeders agents) sched).peers[a]? = some p)
    (hh : p.corrupt = false) (i : Nat) (g x : Bytes) (hw : wirePayload p i g = some x) : x = pieceOf pl blob i := by
  have hg := (swarm_ok crc pl blob hpl cfg seeders agents sched hsep a p hp).1
  unfold wirePayload at hw
  rw [hh] at hw
  simp only [Bool.false_eq_true, if_false] at hw
  cases hr : readPiece p.tor (i : Int) with
  | bytes y => rw [hr] at hw; cases hw; exact readPiece_complete hpl hg i _ hr
  | errIndex => rw [hr] at hw; cases hw
  | errNotComplete => rw [hr] at hw; cases hw
  | panic => rw [hr] at hw; cases hw

/-- **C19 (3)** A corrupted delivery (any action at all) never changes a complete piece of any
    peer: the piece stays complete with the same bytes. -/
theorem complete_piece_untouched (act : Swarm.Action) (hact : SepSwarmAction crc pl blob act) (a : Nat) (p p' : Peer)
    (hp : (Swarm.run crc (initSwarm cfg (MetaInfo.ofBlob crc pl blob) blob seeders agents) sched).peers[a]? = some p)
    (hp' : (Swarm.step crc (Swarm.run crc (initSwarm cfg (MetaInfo.ofBlob crc pl blob) blob seeders agents) sched) act).peers[a]? = some p')
    (i : Nat) (hc : p.tor.pieces[i]? = some .complete) :
    (p'.tor.file.drop (pl * i)).take pl = pieceOf pl blob i ∧ (p.tor.file.drop (pl * i)).take pl = pieceOf pl blob i := by
  have hs := swarm_ok crc pl blob hpl cfg seeders agents sched hsep
  have hg := (hs a p hp).1
  have hs' := swarm_step_ok hpl hs act hact
  have hg' := (hs' a p' hp').1
  refine ⟨?_, complete_piece_bytes hg i hc⟩
  have hmono : p'.tor.pieces[i]? = some PStatus.complete := by
    have key := peer_tor_step crc _ act a p p' hp hp'
    rcases key with h | ⟨ta, hnr, h⟩
    · rw [h]; exact hc
    · rw [h]; exact complete_mono hg ta hnr i hc
  exact complete_piece_bytes hg' i hmono

/-- **C19 (4)** A WritePiece call (a delivery) at any peer that returned `ok` carried exactly the
    blob's piece: a corrupted payload is never accepted, by any peer, under any schedule. -/
theorem accepted_delivery_is_blob_piece (a : Nat) (p : Peer)
    (hp : (Swarm.run crc (initSwarm cfg (MetaInfo.ofBlob crc pl blob) blob seeders agents) sched).peers[a]? = some p)
    (tid : Nat) (t : Thread) (ht : p.tor.threads[tid]? = some t) (hd : t.pc = .done) (hok : t.result = some .ok) :
    t.payload = pieceOf pl blob t.idx ∧ t.pi = (t.idx : Int) := by
  have hr := (swarm_ok crc pl blob hpl cfg seeders agents sched hsep a p hp).2.1 tid t ht
  simp only [RT, hd, hok, ResMeaning] at hr
  exact ⟨hr.2.1, hr.1.2.2⟩

end


section
variable (crc : Bytes → Nat) (pl : Nat) (blob : Bytes) (hpl : 0 < pl) (cfg : Cfg) (seeders : List Bool)
  (agents : Nat) (sched : List Swarm.Action) (hsep : SepSched crc pl blob sched)
include hpl hsep

/-- **C19 (6) progress in possibility form — PARTIAL** (real time-outs, TCP and the tracker's random
    handouts are not in the model; fairness is not proved, only that the enabled path exists).
    After every schedule and fault sequence: if agent `a` is present and misses piece `i` (empty,
    or dirty under some in-flight write), and some present, honest peer `b` reports the download
    complete (a reachable seeder) and the fetch can be started (`CanFetch`: the request is already
    outstanding, or `a` has a free pipeline slot towards `b` and is connected to it or both are
    below their connection limit), then there is a finite sequence of enabled swarm actions after
    which `a` holds piece `i`, has lost no complete piece, and misses strictly fewer pieces. -/
theorem progress_possible (a b i : Nat) (pa pb : Peer)
    (ha : (Swarm.run crc (initSwarm cfg (MetaInfo.ofBlob crc pl blob) blob seeders agents) sched).peers[a]? = some pa)
    (hb : (Swarm.run crc (initSwarm cfg (MetaInfo.ofBlob crc pl blob) blob seeders agents) sched).peers[b]? = some pb)
    (hab : a ≠ b) (hpa : pa.present = true) (hpb : pb.present = true) (hhon : pb.corrupt = false)
    (hseed : complete pb.tor = true) (hi : i < numPiecesOf pl blob.length)
    (hmiss : pa.tor.pieces[i]? ≠ some .complete)
    (hf : CanFetch (Swarm.run crc (initSwarm cfg (MetaInfo.ofBlob crc pl blob) blob seeders agents) sched) a b i pa pb) :
    ∃ (acts : List Swarm.Action) (pa' : Peer), SepSched crc pl blob acts ∧
      (acts.foldl (Swarm.step crc)
        (Swarm.run crc (initSwarm cfg (MetaInfo.ofBlob crc pl blob) blob seeders agents) sched)).peers[a]? = some pa' ∧
      pa'.tor.pieces[i]? = some .complete ∧
      (∀ (j : Nat), pa.tor.pieces[j]? = some .complete → pa'.tor.pieces[j]? = some .complete) ∧
      missingCount pa' < missingCount pa := by
  have hs := swarm_ok crc pl blob hpl cfg seeders agents sched hsep
  have hgb := (hs b pb hb).1
  have hhas : hasPieceB pb i = true := by
    have hall := all_complete_of_num hgb (hgb.cache_num (hgb.committed_cache hseed))
    simp [hasPieceB, hall i (by rw [hgb.len_pieces]; exact hi)]
  exact fetch_possible hpl hs a b i pa pb ha hb hab hpa hpb hhon hhas hi hmiss hf

end

/-- **C19 (5)** The rejected delivery is followed by the request being marked invalid: resolving a
    delivery whose WritePiece returned an error other than ErrPieceComplete puts (sender, piece)
    into the receiver's invalid set and frees the request (so that it is re-sent elsewhere). -/
theorem rejected_delivery_marked_invalid (crc : Bytes → Nat) (s : Swarm) (a tid : Nat) (pa : Peer) (d : Delivery) (r : Res)
    (ha : s.peers[a]? = some pa) (hd : pa.inflight.find? (·.tid = tid) = some d)
    (hr : (pa.tor.threads[tid]?).bind (·.result) = some r) (h1 : r ≠ .ok) (h2 : r ≠ .errComplete) :
    ∃ pa', (Swarm.step crc s (.resolve a tid)).peers[a]? = some pa' ∧ (d.src, d.piece) ∈ pa'.invalid ∧
      pa'.tor = pa.tor := by
  have hlt : a < s.peers.length := lt_of_getElem?_some ha
  simp only [Swarm.step, ha, hd, hr]
  cases r <;> first | exact absurd rfl h1 | exact absurd rfl h2 |
    exact ⟨{ pa with inflight := pa.inflight.filter (·.tid ≠ tid), reqs := pa.reqs.erase (d.src, d.piece),
                     invalid := (d.src, d.piece) :: pa.invalid },
           by simp only [setPeer]; exact List.getElem?_set_self hlt, List.mem_cons_self .., rfl⟩

/-! ### non-vacuity -/

def toyCrc (p : Bytes) : Nat := p.foldl (fun a b => (a * 31 + b) % 65521) 7

/-- one honest seeder (0), one corrupting seeder (1), two agents (2, 3): agent 2 first gets a
    corrupted piece 0 from peer 1 (rejected, marked invalid), then fetches both pieces from the
    seeder; agent 3 fetches piece 1 from agent 2 and piece 0 from the seeder; the seeder leaves
    only after that -/
def exSwarm : Swarm := initSwarm { maxConns := 2, pipeline := 2 } (MetaInfo.ofBlob toyCrc 2 [1, 2, 3]) [1, 2, 3] [false, true] 2

def exSched : List Swarm.Action :=
  [.connect 2 1, .request 2 1 0, .deliver 2 1 0 [9, 9]] ++ List.replicate 12 (.tstep 2 0 2) ++ [.resolve 2 0,
   .connect 2 0, .request 2 0 0, .request 2 0 1, .deliver 2 0 1 [], .deliver 2 0 0 []] ++
  List.replicate 14 (.tstep 2 1 1) ++ List.replicate 14 (.tstep 2 2 2) ++ [.resolve 2 1, .resolve 2 2,
   .disconnect 2 1, .connect 3 2, .request 3 2 1, .deliver 3 2 1 []] ++ List.replicate 14 (.tstep 3 0 2) ++
  [.resolve 3 0, .connect 3 0, .request 3 0 0, .deliver 3 0 0 []] ++ List.replicate 14 (.tstep 3 1 2) ++
  [.resolve 3 1, .leave 0]

set_option maxRecDepth 100000 in
example : SepSched toyCrc 2 [1, 2, 3] exSched := by decide
set_option maxRecDepth 100000 in
example : ((Swarm.run toyCrc exSwarm exSched).peers.map fun p => (complete p.tor, p.tor.file, p.present)) =
    [(true, [1, 2, 3], false), (true, [1, 2, 3], true), (true, [1, 2, 3], true), (true, [1, 2, 3], true)] := by decide
-- the corrupted delivery was rejected and marked invalid at agent 2, nothing complete at that point
set_option maxRecDepth 100000 in
example : ((Swarm.run toyCrc exSwarm (exSched.take 16)).peers[2]?.map fun p =>
    (p.invalid, bitfield p.tor, p.tor.threads.map (·.result))) = some ([(1, 0)], [false, false], [some .errSum]) := by decide

end KrakenModel.Spec.C19
