import KrakenModel.Proof.C19Slots
/-
  C19  A swarm with a reachable seeder converges to the exact blob.

  Statements are about `Model.Swarm` (peers = C03 torrents + connection / request bookkeeping).
  A schedule / fault sequence is any list of swarm actions: connect, disconnect, leave, request,
  deliver (honest bytes or, from a corrupting peer, arbitrary bytes), tstep (one atomic step of a
  WritePiece call at some peer), resolve.  Any number of seeders (any of them corrupting), any
  number of agents, any connection and pipeline limits, any blob, piece length and checksum.
  Hypothesis of the byte-identity statements: checksum separation for the corrupt payloads.
-/
namespace KrakenModel.Spec.C19
open KrakenModel KrakenModel.AgentTorrent KrakenModel.Swarm KrakenModel.Proof.C03 KrakenModel.Proof.C19

def SepSched (crc : Bytes → Nat) (pl : Nat) (blob : Bytes) (sched : List Swarm.Action) : Prop :=
  ∀ a ∈ sched, SepSwarmAction crc pl blob a

instance (crc : Bytes → Nat) (pl : Nat) (blob : Bytes) (sched : List Swarm.Action) :
    Decidable (SepSched crc pl blob sched) := by unfold SepSched; exact inferInstance

theorem runFrom_ok {crc : Bytes → Nat} {pl : Nat} {blob : Bytes} (hpl : 0 < pl) :
    ∀ (sched : List Swarm.Action) (s : Swarm), SwarmOK crc pl blob s → SepSched crc pl blob sched →
      SwarmOK crc pl blob (sched.foldl (Swarm.step crc) s) := by
  intro sched
  induction sched with
  | nil => intro s hs _; exact hs
  | cons a rest ih =>
    intro s hs hsep
    exact ih _ (swarm_step_ok hpl hs a (hsep a (List.mem_cons_self ..)))
      (fun b hb => hsep b (List.mem_cons_of_mem _ hb))

section
variable (crc : Bytes → Nat) (pl : Nat) (blob : Bytes) (hpl : 0 < pl) (cfg : Cfg) (seeders : List Bool)
  (agents : Nat) (sched : List Swarm.Action) (hsep : SepSched crc pl blob sched)
include hpl hsep

/-- every peer keeps the C03 invariants after every schedule and fault sequence -/
theorem swarm_ok :
    SwarmOK crc pl blob (Swarm.run crc (initSwarm cfg (MetaInfo.ofBlob crc pl blob) blob seeders agents) sched) :=
  runFrom_ok hpl sched _ (init_ok crc pl blob cfg seeders agents) hsep

/-- **C19 (1) safety** Whatever the schedule, the departures and the corrupted deliveries: a peer
    that reports its download complete has the file in its cache, every piece complete, and the
    cached file is byte-identical to the blob. -/
theorem complete_peer_holds_blob (a : Nat) (p : Peer)
    (hp : (Swarm.run crc (initSwarm cfg (MetaInfo.ofBlob crc pl blob) blob seeders agents) sched).peers[a]? = some p)
    (hc : complete p.tor = true) :
    p.tor.inCache = true ∧ p.tor.file = blob ∧
    ∀ i, i < numPiecesOf pl blob.length → p.tor.pieces[i]? = some .complete := by
  have hg := (swarm_ok crc pl blob hpl cfg seeders agents sched hsep a p hp).1
  have hic := hg.committed_cache hc
  have hall := all_complete_of_num hg (hg.cache_num hic)
  exact ⟨hic, file_eq_blob_of_all_complete hpl hg hall, fun i hi => hall i (by rw [hg.len_pieces]; exact hi)⟩

/-- **C19 (2)** Every piece any peer announces / serves (complete in its bitfield) holds the blob's
    bytes, so an honest peer only ever puts the blob's bytes on the wire. -/
theorem served_bytes_are_blob (a : Nat) (p : Peer)
    (hp : (Swarm.run crc (initSwarm cfg (MetaInfo.ofBlob crc pl blob) blob seeders agents) sched).peers[a]? = some p)
    (hh : p.corrupt = false) (i : Nat) (g x : Bytes) (hw : wirePayload p i g = some x) : x = pieceOf pl blob i := by
  have hg := (swarm_ok crc pl blob hpl cfg seeders agents sched hsep a p hp).1
  unfold wirePayload at hw
  rw [hh] at hw
  simp only [Bool.false_eq_true, if_false] at hw
  cases hr : readPiece p.tor (i : Int) with
  | bytes y => rw [hr] at hw; cases hw; exact readPiece_complete hpl hg i _ hr
  | errIndex => rw [hr] at hw; cases hw
  | errNotComplete => rw [hr] at hw; cases hw
  | panic => rw [hr] at hw; cases hw

/-- **C19 (3)** A corrupted delivery (any action at all) never changes a complete piece of any
    peer: the piece stays complete with the same bytes. -/
theorem complete_piece_untouched (act : Swarm.Action) (hact : SepSwarmAction crc pl blob act) (a : Nat) (p p' : Peer)
    (hp : (Swarm.run crc (initSwarm cfg (MetaInfo.ofBlob crc pl blob) blob seeders agents) sched).peers[a]? = some p)
    (hp' : (Swarm.step crc (Swarm.run crc (initSwarm cfg (MetaInfo.ofBlob crc pl blob) blob seeders agents) sched) act).peers[a]? = some p')
    (i : Nat) (hc : p.tor.pieces[i]? = some .complete) :
    (p'.tor.file.drop (pl * i)).take pl = pieceOf pl blob i ∧ (p.tor.file.drop (pl * i)).take pl = pieceOf pl blob i := by
  have hs := swarm_ok crc pl blob hpl cfg seeders agents sched hsep
  have hg := (hs a p hp).1
  have hs' := swarm_step_ok hpl hs act hact
  have hg' := (hs' a p' hp').1
  refine ⟨?_, complete_piece_bytes hg i hc⟩
  have hmono : p'.tor.pieces[i]? = some PStatus.complete := by
    have key := peer_tor_step crc _ act a p p' hp hp'
    rcases key with h | ⟨ta, hnr, h⟩
    · rw [h]; exact hc
    · rw [h]; exact complete_mono hg ta hnr i hc
  exact complete_piece_bytes hg' i hmono

/-- **C19 (4)** A WritePiece call (a delivery) at any peer that returned `ok` carried exactly the
    blob's piece: a corrupted payload is never accepted, by any peer, under any schedule. -/
theorem accepted_delivery_is_blob_piece (a : Nat) (p : Peer)
    (hp : (Swarm.run crc (initSwarm cfg (MetaInfo.ofBlob crc pl blob) blob seeders agents) sched).peers[a]? = some p)
    (tid : Nat) (t : Thread) (ht : p.tor.threads[tid]? = some t) (hd : t.pc = .done) (hok : t.result = some .ok) :
    t.payload = pieceOf pl blob t.idx ∧ t.pi = (t.idx : Int) := by
  have hr := (swarm_ok crc pl blob hpl cfg seeders agents sched hsep a p hp).2.1 tid t ht
  simp only [RT, hd, hok, ResMeaning] at hr
  exact ⟨hr.2.1, hr.1.2.2⟩

end


section
variable (crc : Bytes → Nat) (pl : Nat) (blob : Bytes) (hpl : 0 < pl) (cfg : Cfg) (seeders : List Bool)
  (agents : Nat) (sched : List Swarm.Action) (hsep : SepSched crc pl blob sched)
include hpl hsep

/-- **C19 (6) progress in possibility form — PARTIAL** (real time-outs, TCP and the tracker's random
    handouts are not in the model; fairness is not proved, only that the enabled path exists).
    After every schedule and fault sequence: if agent `a` is present and misses piece `i` (empty,
    or dirty under some in-flight write), and some present, honest peer `b` reports the download
    complete (a reachable seeder) and the fetch can be started (`CanFetch`: the request is already
    outstanding, or `a` has a free pipeline slot towards `b` and is connected to it or both are
    below their connection limit), then there is a finite sequence of enabled swarm actions after
    which `a` holds piece `i`, has lost no complete piece, and misses strictly fewer pieces. -/
theorem progress_possible (a b i : Nat) (pa pb : Peer)
    (ha : (Swarm.run crc (initSwarm cfg (MetaInfo.ofBlob crc pl blob) blob seeders agents) sched).peers[a]? = some pa)
    (hb : (Swarm.run crc (initSwarm cfg (MetaInfo.ofBlob crc pl blob) blob seeders agents) sched).peers[b]? = some pb)
    (hab : a ≠ b) (hpa : pa.present = true) (hpb : pb.present = true) (hhon : pb.corrupt = false)
    (hseed : complete pb.tor = true) (hi : i < numPiecesOf pl blob.length)
    (hmiss : pa.tor.pieces[i]? ≠ some .complete)
    (hf : CanFetch (Swarm.run crc (initSwarm cfg (MetaInfo.ofBlob crc pl blob) blob seeders agents) sched) a b i pa pb) :
    ∃ (acts : List Swarm.Action) (pa' : Peer), SepSched crc pl blob acts ∧
      (acts.foldl (Swarm.step crc)
        (Swarm.run crc (initSwarm cfg (MetaInfo.ofBlob crc pl blob) blob seeders agents) sched)).peers[a]? = some pa' ∧
      pa'.tor.pieces[i]? = some .complete ∧
      (∀ (j : Nat), pa.tor.pieces[j]? = some .complete → pa'.tor.pieces[j]? = some .complete) ∧
      missingCount pa' < missingCount pa := by
  have hs := swarm_ok crc pl blob hpl cfg seeders agents sched hsep
  have hgb := (hs b pb hb).1
  have hhas : hasPieceB pb i = true := by
    have hall := all_complete_of_num hgb (hgb.cache_num (hgb.committed_cache hseed))
    simp [hasPieceB, hall i (by rw [hgb.len_pieces]; exact hi)]
  exact fetch_possible hpl hs a b i pa pb ha hb hab hpa hpb hhon hhas hi hmiss hf

end

theorem run_connsOK (crc : Bytes → Nat) :
    ∀ (sched : List Swarm.Action) (s : Swarm), ConnsOK s → ConnsOK (sched.foldl (Swarm.step crc) s) := by
  intro sched
  induction sched with
  | nil => intro s hs; exact hs
  | cons a rest ih => intro s hs; exact ih _ (step_connsOK crc hs a)

/-- **C19 (6b) slot accounting** After every schedule and fault sequence (no hypothesis at all): the
    connection lists are duplicate free, never contain the peer itself and respect the limit, and
    every connection entry points to a peer that exists and has not left — a connection that ended
    (its peer left, either end dropped it) does not occupy a slot.  This is what makes the slots of
    `progress_always_possible` real; the real scheduler's `connClosedEvent` / `DeleteActive` is tied to it
    by the controlled-scheduler machine `cslot` (monitor `closed-conn-keeps-slot`). -/
theorem conns_are_live (crc : Bytes → Nat) (cfg : Cfg) (mi : MetaInfo) (blob : Bytes) (seeders : List Bool) (agents : Nat)
    (sched : List Swarm.Action) :
    ConnsOK (Swarm.run crc (initSwarm cfg mi blob seeders agents) sched) ∧
    ConnsLive (Swarm.run crc (initSwarm cfg mi blob seeders agents) sched) := by
  have key : ∀ (sched : List Swarm.Action) (s : Swarm), ConnsOK s → ConnsLive s →
      ConnsOK (sched.foldl (Swarm.step crc) s) ∧ ConnsLive (sched.foldl (Swarm.step crc) s) := by
    intro sched
    induction sched with
    | nil => intro s h1 h2; exact ⟨h1, h2⟩
    | cons a rest ih => intro s h1 h2; exact ih _ (step_connsOK crc h1 a) (step_live_conns crc h1 h2 a)
  exact key sched _ (init_connsOK cfg mi blob seeders agents) (init_live_conns cfg mi blob seeders agents)

/-- **C19 (6c)** A departing peer frees every slot it held: afterwards nobody lists it as a connection,
    it lists none itself, and no other peer's connection list grew. -/
theorem departure_frees_slots (crc : Bytes → Nat) (cfg : Cfg) (mi : MetaInfo) (blob : Bytes) (seeders : List Bool) (agents : Nat)
    (sched : List Swarm.Action) (b : Nat) (pb : Peer)
    (hb : (Swarm.run crc (initSwarm cfg mi blob seeders agents) sched).peers[b]? = some pb) (a : Nat) (pa' : Peer)
    (ha' : (Swarm.step crc (Swarm.run crc (initSwarm cfg mi blob seeders agents) sched) (.leave b)).peers[a]? = some pa') :
    b ∉ pa'.conns ∧ (a = b → pa'.conns = [] ∧ pa'.present = false) ∧
    (∀ pa, (Swarm.run crc (initSwarm cfg mi blob seeders agents) sched).peers[a]? = some pa →
      pa'.conns.length ≤ pa.conns.length) :=
  leave_frees_slots crc (conns_are_live crc cfg mi blob seeders agents sched).1 b pb hb a pa' ha'

section
variable (crc : Bytes → Nat) (pl : Nat) (blob : Bytes) (hpl : 0 < pl) (cfg : Cfg) (seeders : List Bool)
  (agents : Nat) (sched : List Swarm.Action) (hsep : SepSched crc pl blob sched)
include hpl hsep

/-- **C19 (7) progress without the `CanFetch` hypothesis — still PARTIAL (possibility form).**
    After every schedule and fault sequence, whatever the connection tables, pipelines and
    blacklists look like: if agent `a` is present and misses piece `i`, some other present, honest
    peer `b` reports complete, and the limits are not zero, then there is a finite sequence of
    enabled actions — first only the scheduler's own time-driven ones (connections dropped, which
    forgets their requests: preemption / ConnTTI / ConnTTL / ClearPeer; two blacklist entries
    expiring), then connect / request / deliver / the WritePiece steps — after which `a` holds piece
    `i`, has lost none and misses strictly fewer pieces.  So no reachable state is a dead end for a
    reachable seeder; that the real scheduler takes such a path in time is decided by the swarms. -/
theorem progress_always_possible (a b i : Nat) (pa pb : Peer)
    (ha : (Swarm.run crc (initSwarm cfg (MetaInfo.ofBlob crc pl blob) blob seeders agents) sched).peers[a]? = some pa)
    (hb : (Swarm.run crc (initSwarm cfg (MetaInfo.ofBlob crc pl blob) blob seeders agents) sched).peers[b]? = some pb)
    (hab : a ≠ b) (hpa : pa.present = true) (hpb : pb.present = true) (hhon : pb.corrupt = false)
    (hseed : complete pb.tor = true) (hi : i < numPiecesOf pl blob.length)
    (hmiss : pa.tor.pieces[i]? ≠ some .complete) (hpipe : 0 < cfg.pipeline) (hmax : 0 < cfg.maxConns) :
    ∃ (acts : List Swarm.Action) (pa' : Peer), SepSched crc pl blob acts ∧
      (acts.foldl (Swarm.step crc)
        (Swarm.run crc (initSwarm cfg (MetaInfo.ofBlob crc pl blob) blob seeders agents) sched)).peers[a]? = some pa' ∧
      pa'.tor.pieces[i]? = some .complete ∧
      (∀ (j : Nat), pa.tor.pieces[j]? = some .complete → pa'.tor.pieces[j]? = some .complete) ∧
      missingCount pa' < missingCount pa := by
  have hs := swarm_ok crc pl blob hpl cfg seeders agents sched hsep
  have hc : ConnsOK (Swarm.run crc (initSwarm cfg (MetaInfo.ofBlob crc pl blob) blob seeders agents) sched) :=
    run_connsOK crc sched _ (init_connsOK cfg _ blob seeders agents)
  have hcfg : ∀ (sched : List Swarm.Action) (s : Swarm), (sched.foldl (Swarm.step crc) s).cfg = s.cfg := by
    intro sched
    induction sched with
    | nil => intro s; rfl
    | cons x rest ih =>
      intro s
      simp only [List.foldl]
      rw [ih]
      cases x <;> simp only [Swarm.step]
      case connect x y => cases s.peers[x]? <;> cases s.peers[y]? <;> simp only <;> (try split) <;> rfl
      case disconnect x y => rw [dropEnd_cfg, dropEnd_cfg]
      case unblacklist x y => cases s.peers[x]? <;> rfl
      case dialfail x y => cases s.peers[x]? <;> rfl
      case expire x y j => cases s.peers[x]? <;> simp only <;> (try split) <;> rfl
      case resend x f y j => cases s.peers[x]? <;> cases s.peers[y]? <;> simp only <;> (try split) <;> rfl
      case reqfail x y j => cases s.peers[x]? <;> rfl
      case leave x => cases s.peers[x]? <;> rfl
      case request x y j => cases s.peers[x]? <;> cases s.peers[y]? <;> simp only <;> (try split) <;> rfl
      case deliver x y j g =>
        cases s.peers[x]? <;> cases hy : s.peers[y]? <;> simp only <;> (try split) <;> (try split) <;> rfl
      case tstep x tid k => cases s.peers[x]? <;> rfl
      case resolve x tid =>
        cases hx : s.peers[x]? with
        | none => rfl
        | some px =>
          simp only
          cases px.inflight.find? (·.tid = tid) <;> cases (px.tor.threads[tid]?).bind (·.result) <;> simp only <;>
            (try rfl)
          rename_i d r
          cases r <;> rfl
  have hc0 : (Swarm.run crc (initSwarm cfg (MetaInfo.ofBlob crc pl blob) blob seeders agents) sched).cfg = cfg := by
    unfold Swarm.run; rw [hcfg]; rfl
  obtain ⟨acts1, pa1, pb1, hsep1, _, _, ha1, hb1, ta, pra, _, tb, prb, cb, hf⟩ :=
    slots_freeable crc pl blob hc a b i pa pb ha hb hab (by rw [hc0]; exact hpipe) (by rw [hc0]; exact hmax)
  have hs1 := swarmOK_foldl hpl acts1 _ hs hsep1
  have hgb := (hs b pb hb).1
  have hhas : hasPieceB pb1 i = true := by
    have hall := all_complete_of_num hgb (hgb.cache_num (hgb.committed_cache hseed))
    simp [hasPieceB, tb, hall i (by rw [hgb.len_pieces]; exact hi)]
  obtain ⟨acts2, pa2, hsep2, ha2, hc2, hm2, hlt2⟩ :=
    fetch_possible hpl hs1 a b i pa1 pb1 ha1 hb1 hab (by rw [pra]; exact hpa) (by rw [prb]; exact hpb)
      (by rw [cb]; exact hhon) hhas hi (by rw [ta]; exact hmiss) hf
  refine ⟨acts1 ++ acts2, pa2, ?_, ?_, hc2, ?_, ?_⟩
  · intro act hact
    rcases List.mem_append.mp hact with h | h
    · exact hsep1 act h
    · exact hsep2 act h
  · rw [List.foldl_append]; exact ha2
  · intro j hj; exact hm2 j (by rw [ta]; exact hj)
  · have : missingCount pa1 = missingCount pa := by unfold missingCount; rw [ta]
    omega

end

/-- **C19 (5)** The rejected delivery is followed by the request being marked invalid: resolving a
    delivery whose WritePiece returned an error other than ErrPieceComplete moves the request
    (sender, piece) — if there is one, outstanding or already timed out, as `MarkInvalid` requires —
    into the receiver's invalid set (from where `resend` only re-sends it to other peers, (5b)); the
    receiver's torrent is untouched.  An unsolicited payload leaves no trace in the request book. -/
theorem rejected_delivery_marked_invalid (crc : Bytes → Nat) (s : Swarm) (a tid : Nat) (pa : Peer) (d : Delivery) (r : Res)
    (ha : s.peers[a]? = some pa) (hd : pa.inflight.find? (·.tid = tid) = some d)
    (hr : (pa.tor.threads[tid]?).bind (·.result) = some r) (h1 : r ≠ .ok) (h2 : r ≠ .errComplete)
    (hreq : (d.src, d.piece) ∈ pa.reqs ∨ (d.src, d.piece) ∈ pa.expired) :
    ∃ pa', (Swarm.step crc s (.resolve a tid)).peers[a]? = some pa' ∧ (d.src, d.piece) ∈ pa'.invalid ∧
      pa'.tor = pa.tor ∧ (∀ q, q ∈ pa'.reqs → q ∈ pa.reqs) := by
  have hlt : a < s.peers.length := lt_of_getElem?_some ha
  have key : (d.src, d.piece) ∈ (markInvalid { pa with inflight := pa.inflight.filter (·.tid ≠ tid) } d.src d.piece).invalid ∧
      (markInvalid { pa with inflight := pa.inflight.filter (·.tid ≠ tid) } d.src d.piece).tor = pa.tor ∧
      (∀ q, q ∈ (markInvalid { pa with inflight := pa.inflight.filter (·.tid ≠ tid) } d.src d.piece).reqs → q ∈ pa.reqs) := by
    unfold markInvalid
    simp only
    have hn : pa.reqs.count (d.src, d.piece) + pa.expired.count (d.src, d.piece) ≠ 0 := by
      rcases hreq with h | h
      · have := List.count_pos_iff.mpr h; omega
      · have := List.count_pos_iff.mpr h; omega
    rw [if_neg hn]
    refine ⟨?_, rfl, fun q hq => (List.mem_filter.mp hq).1⟩
    apply List.mem_append_left
    rw [List.mem_replicate]
    exact ⟨hn, rfl⟩
  simp only [Swarm.step, ha, hd, hr]
  cases r <;> first | exact absurd rfl h1 | exact absurd rfl h2 |
    exact ⟨_, by simp only [setPeer]; exact List.getElem?_set_self hlt, key.1, key.2.1, key.2.2⟩

/-- **C19 (5b)** `resendFailedPieceRequests` in the model: re-sending the failed request `(f, i)` never
    goes to the peer `f` that failed it, and whenever a resend adds a request `(b, i)` it is justified by
    a failed (invalid or expired) request of another peer for the same piece, `a` still misses the piece,
    is connected to `b` and has a free pipeline slot.  (The guard is what the dispatch-level harness ties
    to `Dispatcher.resendFailedPieceRequests`; the ordinary request path has no such guard, neither in
    the code — `validRequest` only looks at pending requests — nor in the model.) -/
theorem resend_avoids_failed_peer (crc : Bytes → Nat) (s : Swarm) (a f b i : Nat) (pa pa' : Peer)
    (ha : s.peers[a]? = some pa) (ha' : (Swarm.step crc s (.resend a f b i)).peers[a]? = some pa') :
    pa' = pa ∨
    (pa'.reqs = (b, i) :: pa.reqs ∧ b ≠ f ∧ ((f, i) ∈ pa.invalid ∨ (f, i) ∈ pa.expired) ∧
      b ∈ pa.conns ∧ hasPieceB pa i = false ∧ (b, i) ∉ pa.reqs ∧ pa'.invalid = pa.invalid ∧ pa'.tor = pa.tor) := by
  simp only [Swarm.step, ha] at ha'
  cases hb : s.peers[b]? with
  | none => rw [hb] at ha'; simp only at ha'; rw [ha] at ha'; cases ha'; exact Or.inl rfl
  | some pb =>
    rw [hb] at ha'; simp only at ha'
    split at ha'
    · rename_i hc
      simp only [setPeer] at ha'
      rw [List.getElem?_set_self (lt_of_getElem?_some ha)] at ha'
      cases ha'
      refine Or.inr ⟨rfl, hc.2.1, hc.1, hc.2.2.2.1, ?_, hc.2.2.2.2.2.2.2, rfl, rfl⟩
      have := hc.2.2.2.2.1
      cases h : hasPieceB pa i
      · rfl
      · exact absurd h this
    · rw [ha] at ha'; cases ha'; exact Or.inl rfl

/-- in particular a resend aimed at the failing peer itself does nothing -/
theorem resend_to_failed_peer_is_noop (crc : Bytes → Nat) (s : Swarm) (a f i : Nat) :
    Swarm.step crc s (.resend a f f i) = s := by
  simp only [Swarm.step]
  cases ha : s.peers[a]? with
  | none => rfl
  | some pa =>
    cases hf : s.peers[f]? with
    | none => rfl
    | some pf =>
      simp only
      rw [if_neg]
      intro h; exact h.2.1 rfl

/-! ### non-vacuity -/

def toyCrc (p : Bytes) : Nat := p.foldl (fun a b => (a * 31 + b) % 65521) 7

/-- one honest seeder (0), one corrupting seeder (1), two agents (2, 3): agent 2 first gets a
    corrupted piece 0 from peer 1 (rejected, marked invalid), then fetches both pieces from the
    seeder; agent 3 fetches piece 1 from agent 2 and piece 0 from the seeder; the seeder leaves
    only after that -/
def exSwarm : Swarm := initSwarm { maxConns := 2, pipeline := 2 } (MetaInfo.ofBlob toyCrc 2 [1, 2, 3]) [1, 2, 3] [false, true] 2

def exSched : List Swarm.Action :=
  [.connect 2 1, .request 2 1 0, .deliver 2 1 0 [9, 9]] ++ List.replicate 12 (.tstep 2 0 2) ++ [.resolve 2 0,
   .connect 2 0, .request 2 0 0, .request 2 0 1, .deliver 2 0 1 [], .deliver 2 0 0 []] ++
  List.replicate 14 (.tstep 2 1 1) ++ List.replicate 14 (.tstep 2 2 2) ++ [.resolve 2 1, .resolve 2 2,
   .disconnect 2 1, .connect 3 2, .request 3 2 1, .deliver 3 2 1 []] ++ List.replicate 14 (.tstep 3 0 2) ++
  [.resolve 3 0, .connect 3 0, .request 3 0 0, .deliver 3 0 0 []] ++ List.replicate 14 (.tstep 3 1 2) ++
  [.resolve 3 1, .leave 0]

set_option maxRecDepth 100000 in
example : SepSched toyCrc 2 [1, 2, 3] exSched := by decide
set_option maxRecDepth 100000 in
example : ((Swarm.run toyCrc exSwarm exSched).peers.map fun p => (complete p.tor, p.tor.file, p.present)) =
    [(true, [1, 2, 3], false), (true, [1, 2, 3], true), (true, [1, 2, 3], true), (true, [1, 2, 3], true)] := by decide
-- the corrupted delivery was rejected and marked invalid at agent 2, nothing complete at that point
set_option maxRecDepth 100000 in
example : ((Swarm.run toyCrc exSwarm (exSched.take 16)).peers[2]?.map fun p =>
    (p.invalid, bitfield p.tor, p.tor.threads.map (·.result))) = some ([(1, 0)], [false, false], [some .errSum]) := by decide

end KrakenModel.Spec.C19
