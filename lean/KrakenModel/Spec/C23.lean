import KrakenModel.Util.LTS
import KrakenModel.Model.Health
import KrakenModel.Proof.C23
/-
  C23  Active health checks follow the documented hysteresis.
  Statements are about `Model.Health`, which the correspondence check ties to
  lib/healthcheck (`NewFilter(...).Run`, public API, scripted `Checker`).
  A history is a list of `Run` calls (`Round`: the listed hosts and which checks pass).  The
  specification is the per-host automaton `spStep` (Model/Health.lean): a host not known — listed
  for the first time or again after having been absent from a `Run` — starts healthy; it turns
  unhealthy exactly after `Fails` consecutive failed checks and healthy again exactly after
  `Passes` consecutive passed checks; a host that is the only one listed is reported and not checked.
  The code is the repaired one (fix commit in /repo); the behaviour before is `runOld`, refuted
  in `not_rejoin_healthy_old`.
-/
namespace KrakenModel.Spec.C23
open KrakenModel KrakenModel.Health KrakenModel.Proof.C23

def sys (cfg : Config) : Sys State Round := { init := [], step := step cfg }

theorem rel_none {cfg : Config} {x : Option Rec} (h : Rel cfg x none) : x = none := by
  cases x with
  | none => rfl
  | some r => simp [Rel] at h

theorem rel_some {cfg : Config} {x : Option Rec} {y : Bool × Nat} (h : Rel cfg x (some y)) :
    ∃ r, x = some r ∧ r.healthy = y.1 := by
  cases x with
  | none => simp [Rel] at h
  | some r =>
    obtain ⟨b, k⟩ := y
    cases b <;> simp only [Rel] at h <;> exact ⟨r, rfl, h.1⟩

/-- One `Run`: the record of every host keeps simulating the documented automaton, and the host is
in the returned set exactly when the automaton reports it. -/
theorem round_refines (cfg : Config) (hf : 1 ≤ cfg.fails) (hp : 1 ≤ cfg.passes) (s : State) (hk : Keys s)
    (σ : Sp) (h : Host) (r : Round) (hr : Rel cfg (find s h) σ) :
    Keys (step cfg s r) ∧
    Rel cfg (find (step cfg s r) h) (spStep cfg.fails.toNat cfg.passes.toNat σ (evOf h r)) ∧
    (h ∈ output cfg s r ↔ spReported (spStep cfg.fails.toNat cfg.passes.toNat σ (evOf h r)) (evOf h r) = true) := by
  have hnd := nodup_dedup r.addrs
  simp only [step, output, run, evOf]
  by_cases hone : (dedup r.addrs).length = 1
  · -- the single-host shortcut
    simp only [hone, if_true]
    refine ⟨keys_sync hk _ hnd, ?_⟩
    rw [find_sync]
    by_cases hc : (dedup r.addrs).contains h = true
    · simp only [hc, if_true, Bool.not_true, Bool.false_eq_true, if_false]
      have hm : h ∈ dedup r.addrs := by simpa using hc
      cases σ with
      | none =>
        rw [rel_none hr]
        exact ⟨rel_fresh cfg hf h, by simp [spStep, spReported, hm]⟩
      | some x =>
        obtain ⟨r0, h0, _⟩ := rel_some hr
        rw [h0] at hr ⊢
        exact ⟨hr, by simp [spStep, spReported, hm]⟩
    · have hm : h ∉ dedup r.addrs := by simpa using hc
      simp only [hc, Bool.not_false, if_true, if_false]
      exact ⟨by simp [spStep, Rel], by simp [spStep, spReported, hm]⟩
  · -- the general path: sync, then one check per listed host
    simp only [hone, if_false]
    have hk2 : Keys ((dedup r.addrs).foldl (fun s a => update cfg s a (r.oks.contains a)) (sync s (dedup r.addrs))) :=
      keys_fold _ _ _ (keys_sync hk _ hnd)
    refine ⟨hk2, ?_⟩
    rw [mem_healthyOf hk2, find_fold cfg _ _ hnd, find_sync]
    by_cases hc : (dedup r.addrs).contains h = true
    · have hm : h ∈ dedup r.addrs := by simpa using hc
      simp only [hc, hm, if_true, Bool.not_true, Bool.false_eq_true, if_false]
      cases σ with
      | none =>
        rw [rel_none hr]
        have h1 := rel_check cfg hf hp (fresh h) (true, 0) (r.oks.contains h) (rel_fresh cfg hf h)
        refine ⟨by simpa [spStep] using h1, ?_⟩
        obtain ⟨r1, hr1, hh1⟩ := rel_some h1
        simp only [Option.some.injEq] at hr1
        simp only [Option.map_some, spStep, Option.some.injEq, exists_eq_left']
        rw [← hr1] at hh1
        generalize spCheck cfg.fails.toNat cfg.passes.toNat (true, 0) (r.oks.contains h) = y at hh1 ⊢
        obtain ⟨b, k⟩ := y
        simpa [spReported] using hh1
      | some x =>
        obtain ⟨r0, h0, _⟩ := rel_some hr
        rw [h0] at hr ⊢
        have h1 := rel_check cfg hf hp r0 x (r.oks.contains h) hr
        refine ⟨by simpa [spStep] using h1, ?_⟩
        obtain ⟨r1, hr1, hh1⟩ := rel_some h1
        simp only [Option.some.injEq] at hr1
        simp only [Option.map_some, spStep, Option.some.injEq, exists_eq_left']
        rw [← hr1] at hh1
        generalize spCheck cfg.fails.toNat cfg.passes.toNat x (r.oks.contains h) = y at hh1 ⊢
        obtain ⟨b, k⟩ := y
        simpa [spReported] using hh1
    · have hm : h ∉ dedup r.addrs := by simpa using hc
      simp only [hc, hm, Bool.not_false, if_true, if_false]
      exact ⟨by simp [spStep, Rel], by simp [spStep, spReported]⟩

/-- simulation along a whole history -/
theorem history_refines (cfg : Config) (hf : 1 ≤ cfg.fails) (hp : 1 ≤ cfg.passes) (h : Host) :
    ∀ (rounds : List Round) (s : State) (σ : Sp), Keys s → Rel cfg (find s h) σ →
      Keys ((sys cfg).runFrom s rounds) ∧
      Rel cfg (find ((sys cfg).runFrom s rounds) h)
        ((rounds.map (evOf h)).foldl (spStep cfg.fails.toNat cfg.passes.toNat) σ) := by
  intro rounds
  induction rounds with
  | nil => intro s σ hk hr; exact ⟨hk, hr⟩
  | cons r rs ih =>
    intro s σ hk hr
    have h1 := round_refines cfg hf hp s hk σ h r hr
    simp only [Sys.runFrom, List.foldl_cons, List.map_cons]
    exact ih _ _ h1.1 h1.2.1

/-- **C23 (1)** For every history of `Run` calls (any hosts, leaving and rejoining, any check
outcomes), all `Fails ≥ 1`, `Passes ≥ 1`: a host is in the set returned by the last `Run` exactly
when the documented per-host automaton, run over the host's own history, reports it healthy. -/
theorem hysteresis_refines (cfg : Config) (hf : 1 ≤ cfg.fails) (hp : 1 ≤ cfg.passes)
    (rounds : List Round) (last : Round) (h : Host) :
    h ∈ output cfg ((sys cfg).run rounds) last ↔
      spReported (spRun cfg.fails.toNat cfg.passes.toNat h (rounds ++ [last])) (evOf h last) = true := by
  have h1 := history_refines cfg hf hp h rounds (sys cfg).init none (by simp [sys, Keys]) (by simp [sys, find, Rel])
  have h2 := round_refines cfg hf hp _ h1.1 _ h last h1.2
  have : spRun cfg.fails.toNat cfg.passes.toNat h (rounds ++ [last]) =
      spStep cfg.fails.toNat cfg.passes.toNat (spRun cfg.fails.toNat cfg.passes.toNat h rounds) (evOf h last) := by
    simp [spRun, List.foldl_append]
  rw [this]
  exact h2.2.2

/-- **C23 (2)** A list with a single host always reports it healthy (and checks nothing). -/
theorem single_host_reported (cfg : Config) (s : State) (h : Host) (oks : List Host) :
    (run cfg s [h] (oks.contains ·)).2 = ([h], []) := by
  simp [run, dedup]

/-- **C23 (3)** A host that is listed for the first time, or again after a `Run` in which it was
not listed, starts healthy: it is reported by that `Run` unless `Fails = 1` and its check fails
(one failed check is then the documented threshold). -/
theorem rejoin_starts_healthy (cfg : Config) (hf : 1 ≤ cfg.fails) (hp : 1 ≤ cfg.passes)
    (rounds : List Round) (away join : Round) (h : Host)
    (haway : h ∉ away.addrs) (hjoin : h ∈ join.addrs) (hok : 2 ≤ cfg.fails ∨ h ∈ join.oks) :
    h ∈ output cfg ((sys cfg).run (rounds ++ [away])) join := by
  rw [hysteresis_refines cfg hf hp]
  have hev : evOf h away = .absent := by
    have : h ∉ dedup away.addrs := by rw [mem_dedup]; exact haway
    simp [evOf, this]
  have hsp : spRun cfg.fails.toNat cfg.passes.toNat h (rounds ++ [away] ++ [join]) =
      spStep cfg.fails.toNat cfg.passes.toNat none (evOf h join) := by
    simp only [spRun, List.map_append, List.foldl_append, List.map_cons, List.map_nil, List.foldl_cons,
      List.foldl_nil, hev]
    cases (List.foldl (spStep cfg.fails.toNat cfg.passes.toNat) none (List.map (evOf h) rounds)) <;> rfl
  rw [hsp]
  have hj : h ∈ dedup join.addrs := by rw [mem_dedup]; exact hjoin
  have hjc : (dedup join.addrs).contains h = true := by simpa using hj
  by_cases hone : (dedup join.addrs).length = 1
  · have hev2 : evOf h join = .single := by simp [evOf, hj, hone]
    rw [hev2]; rfl
  · have hev2 : evOf h join = .check (join.oks.contains h) := by simp [evOf, hj, hone]
    rw [hev2]
    rcases hok with h2 | hm
    · have hnot : ¬ (0 + 1 ≥ cfg.fails.toNat) := by omega
      cases hc : join.oks.contains h
      · show spReported (some (if 0 + 1 ≥ cfg.fails.toNat then (false, 0) else (true, 0 + 1))) (.check false) = true
        rw [if_neg hnot]; rfl
      · rfl
    · have : join.oks.contains h = true := by simpa using hm
      rw [this]; rfl

theorem new_host_starts_healthy (cfg : Config) (hf : 1 ≤ cfg.fails) (hp : 1 ≤ cfg.passes)
    (join : Round) (h : Host) (hjoin : h ∈ join.addrs) (hok : 2 ≤ cfg.fails ∨ h ∈ join.oks) :
    h ∈ output cfg (sys cfg).init join := by
  have := rejoin_starts_healthy cfg hf hp [] ⟨[], []⟩ join h (by simp) hjoin hok
  simpa [Sys.run, sys, step, run, dedup, sync] using this

/-- what the documented automaton says: from healthy, `n ≤ Fails` consecutive failed checks make
the host unhealthy exactly when `n = Fails` … -/
theorem spec_fail_streak (F P : Nat) (n : Nat) (hn : n ≤ F) (hF : 1 ≤ F) :
    (List.replicate n (Ev.check false)).foldl (spStep F P) (some (true, 0)) =
      if n = F then some (false, 0) else some (true, n) := by
  induction n with
  | zero => have : ¬ (0 = F) := by omega
            simp [this]
  | succ m ih =>
    have ih' := ih (by omega)
    have hm : ¬ (m = F) := by omega
    rw [List.replicate_succ', List.foldl_append, ih']
    simp only [hm, if_false, List.foldl_cons, List.foldl_nil, spStep, spCheck]
    by_cases he : m + 1 = F
    · have : m + 1 ≥ F := by omega
      simp [he, this]
    · have : ¬ (m + 1 ≥ F) := by omega
      simp [he, this]

/-- … and from unhealthy, `n ≤ Passes` consecutive passed checks make it healthy exactly when
`n = Passes`; a failed check in between restarts the count (`spCheck`). -/
theorem spec_pass_streak (F P : Nat) (n : Nat) (hn : n ≤ P) (hP : 1 ≤ P) :
    (List.replicate n (Ev.check true)).foldl (spStep F P) (some (false, 0)) =
      if n = P then some (true, 0) else some (false, n) := by
  induction n with
  | zero => have : ¬ (0 = P) := by omega
            simp [this]
  | succ m ih =>
    have ih' := ih (by omega)
    have hm : ¬ (m = P) := by omega
    rw [List.replicate_succ', List.foldl_append, ih']
    simp only [hm, if_false, List.foldl_cons, List.foldl_nil, spStep, spCheck]
    by_cases he : m + 1 = P
    · have : m + 1 ≥ P := by omega
      simp [he, this]
    · have : ¬ (m + 1 ≥ P) := by omega
      simp [he, this]

/-- trailing run of outcome `b` in a trace given latest-first -/
def trail (b : Bool) (l : List Bool) : Nat := (l.takeWhile (· == b)).length

/-- **C23 (1b)** What the automaton's counter means, for every check trace since the host
(re)appeared (`l` lists the outcomes latest first): while healthy the counter is the number of
checks that failed in a row up to now (and is below `Fails`), while unhealthy it is the number of
checks that passed in a row up to now (and is below `Passes`). -/
theorem spec_counter_is_streak (F P : Nat) (hF : 1 ≤ F) (hP : 1 ≤ P) (l : List Bool) :
    let σ := l.foldr (fun x σ => spCheck F P σ x) (true, 0)
    (σ.1 = true → σ.2 = trail false l ∧ σ.2 < F) ∧ (σ.1 = false → σ.2 = trail true l ∧ σ.2 < P) := by
  induction l with
  | nil => simp [trail]; omega
  | cons x l ih =>
    simp only [List.foldr_cons]
    generalize l.foldr (fun x σ => spCheck F P σ x) (true, 0) = σ at ih ⊢
    obtain ⟨b, k⟩ := σ
    simp only at ih
    cases b <;> cases x
    · -- unhealthy, failed
      simp [spCheck, trail]; omega
    · -- unhealthy, passed
      have h := ih.2 rfl
      by_cases hk : k + 1 ≥ P
      · simp [spCheck, hk, trail]; omega
      · simp only [spCheck, hk, if_false]
        refine ⟨by simp, fun _ => ?_⟩
        simp only [trail, List.takeWhile_cons, beq_self_eq_true, if_true, List.length_cons] at h ⊢
        omega
    · -- healthy, failed
      have h := ih.1 rfl
      by_cases hk : k + 1 ≥ F
      · simp [spCheck, hk, trail]; omega
      · simp only [spCheck, hk, if_false]
        refine ⟨fun _ => ?_, by simp⟩
        simp only [trail, List.takeWhile_cons, beq_self_eq_true, if_true, List.length_cons] at h ⊢
        omega
    · -- healthy, passed
      simp [spCheck, trail]; omega

/-- … hence a healthy host is reported unhealthy by a check exactly when that check is the
`Fails`-th failure in a row, and an unhealthy host is reported healthy again exactly when it is the
`Passes`-th pass in a row — whatever happened before. -/
theorem spec_trips_exactly (F P : Nat) (hF : 1 ≤ F) (hP : 1 ≤ P) (l : List Bool) (x : Bool) :
    let σ := l.foldr (fun x σ => spCheck F P σ x) (true, 0)
    let σ' := (x :: l).foldr (fun x σ => spCheck F P σ x) (true, 0)
    (σ.1 = true → (σ'.1 = false ↔ (x = false ∧ trail false (x :: l) = F))) ∧
    (σ.1 = false → (σ'.1 = true ↔ (x = true ∧ trail true (x :: l) = P))) := by
  have ih := spec_counter_is_streak F P hF hP l
  simp only [List.foldr_cons]
  generalize l.foldr (fun x σ => spCheck F P σ x) (true, 0) = σ at ih ⊢
  obtain ⟨b, k⟩ := σ
  simp only at ih
  cases b <;> cases x
  · simp [spCheck]
  · have h := ih.2 rfl
    by_cases hk : k + 1 ≥ P
    · simp only [spCheck, hk, if_true, trail, List.takeWhile_cons, beq_self_eq_true, List.length_cons] at h ⊢
      simp at h ⊢; omega
    · simp only [spCheck, hk, if_false, trail, List.takeWhile_cons, beq_self_eq_true, if_true, List.length_cons] at h ⊢
      simp at h ⊢; omega
  · have h := ih.1 rfl
    by_cases hk : k + 1 ≥ F
    · simp only [spCheck, hk, if_true, trail, List.takeWhile_cons, beq_self_eq_true, List.length_cons] at h ⊢
      simp at h ⊢; omega
    · simp only [spCheck, hk, if_false, trail, List.takeWhile_cons, beq_self_eq_true, if_true, List.length_cons] at h ⊢
      simp at h ⊢; omega
  · simp [spCheck]

/-- the chronological form: the automaton over check events since the host appeared is `spCheck`
folded over the outcomes -/
theorem spec_checks_fold (F P : Nat) (es : List Bool) (σ : Bool × Nat) :
    (es.map Ev.check).foldl (spStep F P) (some σ) = some (es.foldl (spCheck F P) σ) := by
  induction es generalizing σ with
  | nil => rfl
  | cons e es ih => simp only [List.map_cons, List.foldl_cons, spStep]; exact ih _

/-- `Run` checks the hosts concurrently: the per-host updates commute, so the order is irrelevant. -/
theorem update_comm (cfg : Config) (s : State) (a b : Host) (oka okb : Bool) (hab : a ≠ b) :
    update cfg (update cfg s a oka) b okb = update cfg (update cfg s b okb) a oka := by
  simp only [update_eq, List.map_map]
  apply List.map_congr_left
  intro r _
  simp only [Function.comp]
  by_cases ha : r.host = a <;> by_cases hb : r.host = b
  · exact absurd (ha.symm.trans hb) hab
  · simp [ha, hab, upd_host]
  · have hba : ¬ (b = a) := fun e => hab e.symm
    simp [hb, hba]
    intro hx
    rw [upd_host, hb] at hx
    exact absurd hx hba
  · simp [ha, hb]

/-- The behaviour before the repair: a host that failed, left and rejoined is not re-initialised
healthy (it stays out although its check passes), refuting the property for `runOld`. -/
theorem not_rejoin_healthy_old :
    let cfg : Config := ⟨1, 2⟩
    let s1 := (runOld cfg [] [0, 1] ([1].contains ·)).1
    let s2 := (runOld cfg s1 [1, 2] ([1, 2].contains ·)).1
    0 ∉ (runOld cfg s2 [0, 1] ([0, 1].contains ·)).2.1 := by decide

-- non-vacuity: the same history on the repaired model reports the rejoined host
example : output ⟨1, 2⟩ ((sys ⟨1, 2⟩).run [⟨[0, 1], [1]⟩, ⟨[1, 2], [1, 2]⟩]) ⟨[0, 1], [0, 1]⟩ = [1, 0] := by decide
example : output ⟨1, 2⟩ ((sys ⟨1, 2⟩).run [⟨[0, 1], [1]⟩]) ⟨[0, 1], [0, 1]⟩ = [1] := by decide
example : output ⟨1, 2⟩ ((sys ⟨1, 2⟩).run [⟨[0, 1], [1]⟩, ⟨[0, 1], [0, 1]⟩]) ⟨[0, 1], [0, 1]⟩ = [0, 1] := by decide
example : spRun 1 2 0 [⟨[0, 1], [1]⟩, ⟨[0, 1], [0, 1]⟩] = some (false, 1) := by decide
example : output ⟨2, 1⟩ ((sys ⟨2, 1⟩).run [⟨[0, 1], []⟩, ⟨[0, 1], []⟩]) ⟨[0], []⟩ = [0] := by decide

end KrakenModel.Spec.C23
