import KrakenModel.Util.LTS
import KrakenModel.Proof.C03Live
/-
  C03  An agent commits a blob only after every piece is verified.

  Statements are about `Model.AgentTorrent` (agentstorage.Torrent on the CADownloadStore), which
  the correspondence check ties to the real code.  A *schedule* is any list of actions
  `spawn pi payload` (a goroutine calls `WritePiece(payload, pi)`), `step tid k` (thread `tid`
  performs its next atomic step, a write carrying `k` bytes), `reopen` (a new Torrent instance
  over the same store), `recreate` (DeleteTorrent + CreateTorrent): every number of writers, every payload sequence, every interleaving and
  every chunking of the file writes is a schedule.  `crc`, the blob and the piece length are
  arbitrary; the metainfo is the blob's (`MetaInfo.ofBlob`, what `core.NewMetaInfo` computes).

  Hypothesis carried by the byte-identity theorems (DESIGN.md §5): checksum separation on the
  payloads of the schedule (`SepSched`).  `separation_needed` shows it cannot be dropped.
-/
namespace KrakenModel.Spec.C03
open KrakenModel KrakenModel.AgentTorrent KrakenModel.Proof.C03

/-- checksum separation on the payloads that occur in the schedule: a payload offered for piece
    `pi` that has the piece's length and checksum is the blob's piece -/
def SepSched (crc : Bytes → Nat) (pl : Nat) (blob : Bytes) (sched : List Action) : Prop :=
  ∀ a ∈ sched, SepAction crc pl blob a

instance (crc : Bytes → Nat) (pl : Nat) (blob : Bytes) (sched : List Action) :
    Decidable (SepSched crc pl blob sched) := by unfold SepSched; exact inferInstance

theorem runFrom_good {crc : Bytes → Nat} {pl : Nat} {blob : Bytes} (hpl : 0 < pl) :
    ∀ (sched : List Action) (s : State), Good crc pl blob s → SepSched crc pl blob sched →
      Good crc pl blob (sched.foldl (step crc) s) := by
  intro sched
  induction sched with
  | nil => intro s hg _; exact hg
  | cons a rest ih =>
    intro s hg hsep
    exact ih (step crc s a) (step_good hpl hg a (hsep a (List.mem_cons_self ..)))
      (fun b hb => hsep b (List.mem_cons_of_mem _ hb))

/-- the invariant holds after every schedule -/
theorem run_good (crc : Bytes → Nat) (pl : Nat) (blob : Bytes) (hpl : 0 < pl) (sched : List Action)
    (hsep : SepSched crc pl blob sched) : Good crc pl blob (run crc (MetaInfo.ofBlob crc pl blob) sched) :=
  runFrom_good hpl sched _ (init_good crc pl blob) hsep

section
variable (crc : Bytes → Nat) (pl : Nat) (blob : Bytes) (hpl : 0 < pl) (sched : List Action)
  (hsep : SepSched crc pl blob sched)
include hpl hsep

/-- **C03 (1)** Every piece the torrent reports complete (`Bitfield`, `HasPiece`) holds exactly
    the blob's bytes for that piece, after every schedule. -/
theorem complete_piece_verified (i : Nat)
    (hc : (run crc (MetaInfo.ofBlob crc pl blob) sched).pieces[i]? = some .complete) :
    ((run crc (MetaInfo.ofBlob crc pl blob) sched).file.drop (pl * i)).take pl = pieceOf pl blob i :=
  complete_piece_bytes (run_good crc pl blob hpl sched hsep) i hc

/-- **C03 (2)** The file is in the cache directory only if every piece is complete, and then it is
    byte-identical to the blob. -/
theorem cache_file_is_blob (hic : (run crc (MetaInfo.ofBlob crc pl blob) sched).inCache = true) :
    (∀ i, i < numPiecesOf pl blob.length →
        (run crc (MetaInfo.ofBlob crc pl blob) sched).pieces[i]? = some .complete) ∧
    (run crc (MetaInfo.ofBlob crc pl blob) sched).file = blob := by
  have hg := run_good crc pl blob hpl sched hsep
  have hall := all_complete_of_num hg (hg.cache_num hic)
  exact ⟨fun i hi => hall i (by rw [hg.len_pieces]; exact hi), file_eq_blob_of_all_complete hpl hg hall⟩

/-- **C03 (3)** `Complete()` is reported only after the move into the cache, hence only when every
    piece is verified and the cached file is the blob. -/
theorem committed_only_verified (hcm : complete (run crc (MetaInfo.ofBlob crc pl blob) sched) = true) :
    (run crc (MetaInfo.ofBlob crc pl blob) sched).inCache = true ∧
    (∀ i, i < numPiecesOf pl blob.length →
        (run crc (MetaInfo.ofBlob crc pl blob) sched).pieces[i]? = some .complete) ∧
    (run crc (MetaInfo.ofBlob crc pl blob) sched).file = blob := by
  have hg := run_good crc pl blob hpl sched hsep
  have hic := hg.committed_cache hcm
  exact ⟨hic, cache_file_is_blob crc pl blob hpl sched hsep hic⟩

/-- **C03 (4)** At most one writer holds a piece: two different threads that are past
    `tryMarkDirty` and have not yet released the piece work on different pieces. -/
theorem exclusive_writer (a b : Nat) (ta tb : Thread)
    (ha : (run crc (MetaInfo.ofBlob crc pl blob) sched).threads[a]? = some ta)
    (hb : (run crc (MetaInfo.ofBlob crc pl blob) sched).threads[b]? = some tb) (hab : a ≠ b)
    (hha : holds ta.pc = true) (hhb : holds tb.pc = true) : ta.idx ≠ tb.idx :=
  (run_good crc pl blob hpl sched hsep).excl a b ta tb ha hb hab hha hhb

/-- **C03 (5)** Whatever happens next (any action except deleting the torrent or a crash that tears the `_status` sidecar: a write of any payload
    to any index by any thread, a chunk of a concurrent write, a reopen), a complete piece stays complete and its bytes
    do not change — in particular a corrupt or duplicate payload for a complete piece never
    reaches the file. -/
theorem complete_piece_stable (a : Action) (ha : SepAction crc pl blob a) (hnr : a.destructive = false) (i : Nat)
    (hc : (run crc (MetaInfo.ofBlob crc pl blob) sched).pieces[i]? = some .complete) :
    (step crc (run crc (MetaInfo.ofBlob crc pl blob) sched) a).pieces[i]? = some .complete ∧
    ((step crc (run crc (MetaInfo.ofBlob crc pl blob) sched) a).file.drop (pl * i)).take pl =
      ((run crc (MetaInfo.ofBlob crc pl blob) sched).file.drop (pl * i)).take pl := by
  have hg := run_good crc pl blob hpl sched hsep
  have hg' := step_good hpl hg a ha
  have hc' := complete_mono hg a hnr i hc
  exact ⟨hc', by rw [complete_piece_bytes hg' i hc', complete_piece_bytes hg i hc]⟩

/-- **C03 (6)** A piece is dirty only while a writer holds it: when no call is in flight every piece
    is empty or complete (a failed write has returned its piece to empty). -/
theorem quiescent_no_dirty (hq : quiescent (run crc (MetaInfo.ofBlob crc pl blob) sched) = true) (i : Nat) :
    (run crc (MetaInfo.ofBlob crc pl blob) sched).pieces[i]? ≠ some .dirty := by
  intro hd
  obtain ⟨a, u, hu, huh, _⟩ := (run_good crc pl blob hpl sched hsep).owned i hd
  rw [quiescent_done hq a u hu] at huh
  simp [holds] at huh

/-- **C03 (7)** Progress accounting: `numComplete` counts exactly the complete pieces, up to the
    writers that have marked their piece complete and not yet incremented the counter; with no
    call in flight `BytesDownloaded` is `min (#complete · pieceLength) length`. -/
theorem progress_matches :
    (run crc (MetaInfo.ofBlob crc pl blob) sched).numComplete +
        (run crc (MetaInfo.ofBlob crc pl blob) sched).threads.countP (fun t => t.pc = .incNum) =
      (run crc (MetaInfo.ofBlob crc pl blob) sched).pieces.count .complete ∧
    (quiescent (run crc (MetaInfo.ofBlob crc pl blob) sched) = true →
      bytesDownloaded (run crc (MetaInfo.ofBlob crc pl blob) sched) =
        min ((run crc (MetaInfo.ofBlob crc pl blob) sched).pieces.count .complete * pl) blob.length) := by
  have hg := run_good crc pl blob hpl sched hsep
  refine ⟨hg.num, ?_⟩
  intro hq
  have h0 := quiescent_countP hq
  have hn := hg.num
  rw [h0] at hn
  have hnc : (run crc (MetaInfo.ofBlob crc pl blob) sched).numComplete =
    (run crc (MetaInfo.ofBlob crc pl blob) sched).pieces.count .complete := by omega
  unfold bytesDownloaded
  rw [hg.mi_eq, hnc]
  rfl

/-- **C03 (8)** Sizes never change: the status vector and the `_status` sidecar have one entry per
    piece and the data file keeps the blob's length (no write lands outside the file). -/
theorem sizes_fixed :
    (run crc (MetaInfo.ofBlob crc pl blob) sched).pieces.length = numPiecesOf pl blob.length ∧
    (run crc (MetaInfo.ofBlob crc pl blob) sched).status.length = numPiecesOf pl blob.length ∧
    (run crc (MetaInfo.ofBlob crc pl blob) sched).file.length = blob.length :=
  let hg := run_good crc pl blob hpl sched hsep
  ⟨hg.len_pieces, hg.len_status, hg.len_file⟩

end


/-- the second and third invariant (meaning of results, commit on its way) hold after every schedule -/
theorem run_results (crc : Bytes → Nat) (pl : Nat) (blob : Bytes) (hpl : 0 < pl) (sched : List Action)
    (hsep : SepSched crc pl blob sched) :
    RTAll pl blob (run crc (MetaInfo.ofBlob crc pl blob) sched) ∧
    Live (run crc (MetaInfo.ofBlob crc pl blob) sched) := by
  have key : ∀ (sched : List Action) (s : State), Good crc pl blob s → RTAll pl blob s → Live s →
      SepSched crc pl blob sched →
      RTAll pl blob (sched.foldl (step crc) s) ∧ Live (sched.foldl (step crc) s) := by
    intro sched
    induction sched with
    | nil => intro s _ hr hl _; exact ⟨hr, hl⟩
    | cons a rest ih =>
      intro s hg hr hl hsep
      exact ih (step crc s a) (step_good hpl hg a (hsep a (List.mem_cons_self ..)))
        (RTAll_step hpl hg a hr) (step_live hg a hl) (fun b hb => hsep b (List.mem_cons_of_mem _ hb))
  exact key sched _ (init_good crc pl blob) (RTAll_init _) (init_live _) hsep

section
variable (crc : Bytes → Nat) (pl : Nat) (blob : Bytes) (hpl : 0 < pl) (sched : List Action)
  (hsep : SepSched crc pl blob sched)
include hpl hsep

/-- **C03 (9)** What the outcome of every `WritePiece` call means, for every schedule.
    `ok`: the payload was exactly the blob's piece and that piece is (and stays) complete;
    a panic or a store error never occurs;
    "invalid piece sum": the payload was not the blob's piece; "invalid piece length": valid index,
    wrong length; "invalid piece index": index negative or ≥ number of pieces; `ErrPieceComplete`: the piece is
    complete (hence verified, by (1)); conflict: valid index and length. -/
theorem result_meaning (tid : Nat) (t : Thread)
    (ht : (run crc (MetaInfo.ofBlob crc pl blob) sched).threads[tid]? = some t) (hd : t.pc = .done) :
    ResMeaning pl blob (run crc (MetaInfo.ofBlob crc pl blob) sched) t t.result := by
  have h := (run_results crc pl blob hpl sched hsep).1 tid t ht
  simp only [RT, hd] at h
  exact h

/-- **C03 (9a)** An accepted write delivered exactly the blob's piece. -/
theorem accepted_is_blob_piece (tid : Nat) (t : Thread)
    (ht : (run crc (MetaInfo.ofBlob crc pl blob) sched).threads[tid]? = some t) (hok : t.result = some .ok)
    (hd : t.pc = .done) :
    t.idx < numPiecesOf pl blob.length ∧ t.pi = (t.idx : Int) ∧ t.payload = pieceOf pl blob t.idx ∧
    (run crc (MetaInfo.ofBlob crc pl blob) sched).pieces[t.idx]? = some .complete := by
  have h := result_meaning crc pl blob hpl sched hsep tid t ht hd
  rw [hok] at h
  exact ⟨h.1.1, h.1.2.2, h.2.1, h.2.2⟩

/-- **C03 (9b)** No call panics, whatever the index (negative, too large) and the payload, and none
    fails internally (the file is never moved away under a writer, the sidecar is never short);
    every finished call has a result. -/
theorem no_panic_no_store_error (tid : Nat) (t : Thread)
    (ht : (run crc (MetaInfo.ofBlob crc pl blob) sched).threads[tid]? = some t) (hd : t.pc = .done) :
    t.result ≠ some .panic ∧ t.result ≠ some .errStore ∧ t.result ≠ none := by
  have h := result_meaning crc pl blob hpl sched hsep tid t ht hd
  refine ⟨?_, ?_, ?_⟩
  · intro hp; rw [hp] at h; exact h
  · intro hp; rw [hp] at h; exact h
  · intro hp; rw [hp] at h; exact h

/-- **C03 (9c)** Observations never panic either: `GetPieceReader` and `HasPiece` answer for every
    integer index (in every state). -/
theorem observations_total (s : State) (pi : Int) : readPiece s pi ≠ .panic ∧ hasPiece s pi ≠ none := by
  constructor
  · unfold readPiece
    split
    · intro h; cases h
    · split <;> intro h <;> cases h
  · unfold hasPiece
    split <;> intro h <;> cases h

/-- **C03 (10)** The commit is not missed: with no call in flight, if every piece is complete then
    `Complete()` is true (and by (3) the cached file is the blob). -/
theorem quiescent_all_complete_committed
    (hq : quiescent (run crc (MetaInfo.ofBlob crc pl blob) sched) = true)
    (hall : ∀ i, i < numPiecesOf pl blob.length →
      (run crc (MetaInfo.ofBlob crc pl blob) sched).pieces[i]? = some .complete) :
    complete (run crc (MetaInfo.ofBlob crc pl blob) sched) = true := by
  have hg := run_good crc pl blob hpl sched hsep
  have hl := (run_results crc pl blob hpl sched hsep).2
  have hcnt : (run crc (MetaInfo.ofBlob crc pl blob) sched).pieces.count .complete =
      (run crc (MetaInfo.ofBlob crc pl blob) sched).pieces.length := by
    rw [List.count_eq_length]
    intro b hb
    obtain ⟨i, hi, hbi⟩ := List.getElem_of_mem hb
    have := hall i (by rw [← hg.len_pieces]; exact hi)
    rw [List.getElem?_eq_getElem hi, hbi] at this
    exact (Option.some.inj this).symm
  have hn := hg.num
  rw [quiescent_countP hq, hcnt] at hn
  rcases hl (by omega) with hc | ⟨a, u, hu, hcu⟩
  · exact hc
  · rw [quiescent_done hq a u hu] at hcu; simp [committing] at hcu

end

/-! ### the hypothesis is necessary, and the theorems are not vacuous -/

/-- With a colliding checksum a wrong payload is committed: separation cannot be dropped. -/
theorem separation_needed :
    ∃ (crc : Bytes → Nat) (pl : Nat) (blob : Bytes) (sched : List Action), 0 < pl ∧
      complete (run crc (MetaInfo.ofBlob crc pl blob) sched) = true ∧
      (run crc (MetaInfo.ofBlob crc pl blob) sched).file ≠ blob :=
  ⟨fun _ => 0, 2, [1, 2], [.spawn 0 [9, 9]] ++ (List.replicate 14 (.step 0 2)), by decide, by decide, by decide⟩

/-- a toy checksum for the examples -/
def toyCrc (p : Bytes) : Nat := p.foldl (fun a b => (a * 31 + b) % 65521) 7

/-- two writers race for piece 0 (one corrupt, one correct), a third writes the short last piece,
    a late duplicate and two invalid indexes arrive; chunks of 1 byte -/
def exSched : List Action :=
  [.spawn 0 [9, 9], .spawn 0 [1, 2], .spawn 2 [5], .spawn 1 [3, 4], .spawn 3 [1], .spawn (-1) [1],
   .step 0 1, .step 1 1, .step 0 1, .step 0 1, .step 0 1, .step 1 1, .step 1 1, .step 0 1, .step 0 1,
   .step 0 1, .step 0 1, .step 0 1, .step 0 1,           -- thread 0: bad checksum, piece 0 empty again
   .step 4 1, .step 5 1] ++
  List.replicate 14 (.step 2 1) ++ List.replicate 14 (.step 3 1) ++
  [.spawn 0 [1, 2]] ++ List.replicate 16 (.step 6 1) ++ [.spawn 1 [7, 7]] ++ List.replicate 3 (.step 7 2)

set_option maxRecDepth 100000 in
example : SepSched toyCrc 2 [1, 2, 3, 4, 5] exSched := by decide
set_option maxRecDepth 100000 in
example : (run toyCrc (MetaInfo.ofBlob toyCrc 2 [1, 2, 3, 4, 5]) exSched).threads.map (·.result) =
    [some .errSum, some .errConflict, some .ok, some .ok, some .errIndex, some .errIndex, some .ok,
     some .errComplete] := by decide
set_option maxRecDepth 100000 in
example : complete (run toyCrc (MetaInfo.ofBlob toyCrc 2 [1, 2, 3, 4, 5]) exSched) = true := by decide
set_option maxRecDepth 100000 in
example : (run toyCrc (MetaInfo.ofBlob toyCrc 2 [1, 2, 3, 4, 5]) exSched).file = [1, 2, 3, 4, 5] := by decide
-- mid-way: the corrupt bytes are in the file while piece 0 is dirty, nothing is reported complete
set_option maxRecDepth 100000 in
example : (run toyCrc (MetaInfo.ofBlob toyCrc 2 [1, 2, 3, 4, 5]) (exSched.take 16)).file = [9, 9, 0, 0, 0] ∧
    bitfield (run toyCrc (MetaInfo.ofBlob toyCrc 2 [1, 2, 3, 4, 5]) (exSched.take 16)) = [false, false, false] := by
  decide

end KrakenModel.Spec.C03
