import KrakenModel.Model.RedisPeerStore
import KrakenModel.Proof.C28
/-
  C28  The Redis peer store round-trips every announced peer.
  Statements are about `Model.RedisPeerStore`, tied by the correspondence check to
  tracker/peerstore/redis.go (the member codec in-package, the store against an in-process Redis).
  `deserializePeer` is the parser after the repair (address taken between the first and the last two
  ':'); `deserializePeerOld` is the former one and is kept only to state what was wrong.
-/
namespace KrakenModel.Spec.C28
open KrakenModel.RedisPeerStore KrakenModel.Codec KrakenModel.IdCodec KrakenModel.Proof.C28

/-- a peer that can announce: 20-byte id, any address string whatsoever, a Go `int` port -/
def GoodPeer (p : Peer) : Prop :=
  p.pid.length = 20 ∧ (∀ b ∈ p.pid, b < 256) ∧ -(2^63 : Int) ≤ p.port ∧ p.port < 2^63

instance (p : Peer) : Decidable (GoodPeer p) := by unfold GoodPeer; exact inferInstance

/-- **C28 member round trip**: for every peer id, every address string (IPv4, IPv6 in any spelling,
host names, the empty string, any number of ':'), every port and completion flag, decoding the
encoded member gives back identity and flag. -/
theorem peer_roundtrip (p : Peer) (g : GoodPeer p) :
    deserializePeer (serializePeer p) = .ok (p.ident, p.complete) := by
  obtain ⟨hlen, hb, hp1, hp2⟩ := g
  have hsplit := splitOn_serialize p hb
  have hk := splitOn_length_pos ':' p.ip
  unfold deserializePeer
  simp only [hsplit]
  generalize hq : splitOn ':' p.ip = ipParts at hk
  have hn : ([hexEncode p.pid] ++ ipParts ++ [intStr p.port, bitStr p.complete]).length = ipParts.length + 3 := by
    simp only [List.length_append, List.length_cons, List.length_nil]; omega
  rw [hn]
  have h4 : ¬ (ipParts.length + 3 < 4) := by omega
  simp only [h4, if_false]
  have hhead : ([hexEncode p.pid] ++ ipParts ++ [intStr p.port, bitStr p.complete]).headD [] = hexEncode p.pid := rfl
  have hpid : newPeerID (hexEncode p.pid) = .ok p.pid := by
    simp [newPeerID, KrakenModel.Proof.C39.hexDecode_hexEncode p.pid hb, hlen]
  rw [hhead, hpid]
  have hj : joinColon ipParts = p.ip := by rw [← hq]; exact joinColon_splitOn p.ip
  cases hc : p.complete <;> simp [bitStr, Peer.ident, atoi_intStr p.port hp1 hp2, hj]

/-- the defect that was repaired: the former parser rejected (and `GetPeers` silently dropped) every
peer whose address contains ':' — e.g. the IPv6 loopback address -/
theorem old_parser_drops_ipv6 :
    deserializePeerOld (serializePeer { pid := List.replicate 20 7, ip := [':', ':', '1'], port := 6881, complete := true })
      = .error .parts := by decide

/-- for addresses without ':' the repaired parser decodes exactly what the former one did -/
theorem old_parser_agrees_without_colon (p : Peer) (g : GoodPeer p) (h : ':' ∉ p.ip) :
    deserializePeerOld (serializePeer p) = deserializePeer (serializePeer p) := by
  rw [peer_roundtrip p g]
  obtain ⟨hlen, hb, hp1, hp2⟩ := g
  have hpid : newPeerID (hexEncode p.pid) = .ok p.pid := by
    simp [newPeerID, KrakenModel.Proof.C39.hexDecode_hexEncode p.pid hb, hlen]
  unfold deserializePeerOld
  rw [splitOn_serialize p hb, splitOn_of_not_mem ':' p.ip h]
  simp only [List.cons_append, List.nil_append, hpid, atoi_intStr p.port hp1 hp2]
  cases hc : p.complete <;> simp [bitStr, Peer.ident]

/-- **C28 store round trip**: in any state of the store, after `UpdatePeer(h, p)` and any later
history of announcements and clock advances that stays before the expiry time of p's window,
`GetPeers(h, n)` (n at least the number of stored members) returns p's identity — peer id, address and
port exactly as announced — exactly once, flagged complete if p announced complete, and flagged
complete only if some live announcement of that identity said so. -/
theorem announced_peer_is_returned (c : Cfg) (hs : 1 ≤ c.size) (hm : 1 ≤ c.maxWindows)
    (s0 : State) (h : Bytes) (p : Peer) (g : GoodPeer p) (later : List Op)
    (hlive : (runFrom c (step c s0 (.update h p)) later).now < expireAt c (curWindow c s0.now)) :
    let s2 := runFrom c (step c s0 (.update h p)) later
    ∃ flag, (p.ident, flag) ∈ getAll c s2 h ∧ (p.complete = true → flag = true) ∧
      (flag = true → ∃ e ∈ s2.entries, e.hash = h ∧ queried c s2.now e.window = true ∧
        deserializePeer e.member = .ok (p.ident, true)) ∧
      ((getAll c s2 h).map (·.1)).Nodup := by
  intro s2
  let e0 : Entry := { hash := h, window := curWindow c s0.now, member := serializePeer p }
  have h1 : e0 ∈ (step c s0 (.update h p)).entries := by
    simp only [step]
    exact mem_expire (mem_insertEntry _ _ _ (Or.inr rfl)) (now_lt_expireAt_cur c hs hm s0.now)
  have h2 : e0 ∈ s2.entries := persists c e0 later _ h1 hlive
  have hle : s0.now ≤ s2.now := by
    exact now_mono c later (step c s0 (.update h p))
  have hq : queried c s2.now e0.window = true := queried_of_lt_expire c s0.now s2.now hle hlive
  have hdec : (p.ident, p.complete) ∈ decodeAll ((s2.entries.filter fun e => e.hash = h ∧ queried c s2.now e.window).map (·.member)) := by
    unfold decodeAll
    rw [List.mem_filterMap]
    refine ⟨serializePeer p, List.mem_map.mpr ⟨e0, List.mem_filter.mpr ⟨h2, by simp [hq, e0]⟩, rfl⟩, ?_⟩
    rw [peer_roundtrip p g]
  obtain ⟨flag, hmem, himp⟩ := collapse_mem _ [] p.ident p.complete (Or.inr hdec)
  refine ⟨flag, hmem, himp, ?_, collapse_nodup _ [] (by simp)⟩
  intro hf
  subst hf
  rcases collapse_true_src _ [] p.ident hmem with hx | hx
  · cases hx
  · unfold decodeAll at hx
    obtain ⟨m, hm', hdm⟩ := List.mem_filterMap.mp hx
    obtain ⟨e, he, rfl⟩ := List.mem_map.mp hm'
    obtain ⟨he1, he2⟩ := List.mem_filter.mp he
    simp only [decide_eq_true_eq] at he2
    refine ⟨e, he1, he2.1, he2.2, ?_⟩
    split at hdm
    · rename_i r hr; cases hdm; exact hr
    · cases hdm

/-- nothing is returned that was not announced: every returned identity decodes from a live member -/
theorem returned_was_announced (c : Cfg) (s : State) (h : Bytes) (id : Ident) (flag : Bool)
    (hr : (id, flag) ∈ getAll c s h) :
    ∃ e ∈ s.entries, e.hash = h ∧ queried c s.now e.window = true ∧ ∃ b, deserializePeer e.member = .ok (id, b) := by
  -- membership in `collapse` comes from the decoded list
  have key : ∀ (l acc : List (Ident × Bool)), (id, flag) ∈ collapse l acc →
      (∃ b, (id, b) ∈ acc) ∨ (∃ b, (id, b) ∈ l) := by
    intro l
    induction l with
    | nil => intro acc hm; exact Or.inl ⟨flag, hm⟩
    | cons x rest ih =>
      intro acc hm
      obtain ⟨xid, xb⟩ := x
      simp only [collapse] at hm
      split at hm
      · rcases ih _ hm with ⟨b, hb⟩ | ⟨b, hb⟩
        · obtain ⟨y, hy, hye⟩ := List.mem_map.mp hb
          obtain ⟨yid, yb⟩ := y
          by_cases he : yid = xid
          · simp only [he, if_true, Prod.mk.injEq] at hye
            exact Or.inl ⟨yb, by rw [← hye.1, ← he]; exact hy⟩
          · simp only [he, if_false, Prod.mk.injEq] at hye
            exact Or.inl ⟨yb, by rw [← hye.1]; exact hy⟩
        · exact Or.inr ⟨b, List.mem_cons_of_mem _ hb⟩
      · rcases ih _ hm with ⟨b, hb⟩ | ⟨b, hb⟩
        · rcases List.mem_append.mp hb with hb' | hb'
          · exact Or.inl ⟨b, hb'⟩
          · simp only [List.mem_singleton, Prod.mk.injEq] at hb'
            exact Or.inr ⟨xb, by rw [hb'.1]; simp⟩
        · exact Or.inr ⟨b, List.mem_cons_of_mem _ hb⟩
  unfold getAll at hr
  rcases key _ [] hr with ⟨b, hb⟩ | ⟨b, hb⟩
  · cases hb
  · unfold decodeAll at hb
    obtain ⟨m, hm', hdm⟩ := List.mem_filterMap.mp hb
    obtain ⟨e, he, rfl⟩ := List.mem_map.mp hm'
    obtain ⟨he1, he2⟩ := List.mem_filter.mp he
    simp only [decide_eq_true_eq] at he2
    refine ⟨e, he1, he2.1, he2.2, b, ?_⟩
    split at hdm
    · rename_i r hr'; cases hdm; exact hr'
    · cases hdm

/-! ### the sampling regime: `GetPeers(h, n)` for every n, every shuffle and every SRANDMEMBER draw -/

/-- **C28 sampling (1)**: at most n identities, no identity twice. -/
theorem sample_at_most_n (c : Cfg) (s : State) (h : Bytes) (n : Nat) (visits : List (Nat × List (List Char)))
    (hv : ValidFrom c s h n [] [] visits) :
    (getSample visits).length ≤ n ∧ ((getSample visits).map (·.1)).Nodup := by
  refine ⟨sampleFrom_le c s h n visits [] [] (Nat.zero_le _) hv, ?_⟩
  unfold getSample sampleFrom
  have key : ∀ (vs : List (Nat × List (List Char))) (sel : List (Ident × Bool)), (sel.map (·.1)).Nodup →
      ((vs.foldl (fun sel v => visit sel v.2) sel).map (·.1)).Nodup := by
    intro vs
    induction vs with
    | nil => intro sel h; exact h
    | cons v rest ih => intro sel h; exact ih _ (collapse_nodup _ _ h)
  exact key visits [] (by simp)

/-- **C28 sampling (2)**: every returned identity decodes from a stored member of a queried (live)
window of that torrent — nothing is invented. -/
theorem sample_from_live (c : Cfg) (s : State) (h : Bytes) (n : Nat) (visits : List (Nat × List (List Char)))
    (hv : ValidFrom c s h n [] [] visits) (id : Ident) (hid : id ∈ (getSample visits).map (·.1)) :
    ∃ w m b, queried c s.now w = true ∧ m ∈ members s h w ∧ deserializePeer m = .ok (id, b) := by
  rcases sampleFrom_src c s h n visits [] [] hv id hid with h' | h'
  · simp at h'
  · exact h'

/-- **C28 sampling (3)** lower bound: if n ≥ 1 and some queried window of the torrent holds members
(all members written by `UpdatePeer` decode), the answer is not empty — whatever the shuffle and
the draws. -/
theorem sample_nonempty (c : Cfg) (s : State) (h : Bytes) (n : Nat) (hn : 1 ≤ n) (w : Nat)
    (hq : queried c s.now w = true) (hne : members s h w ≠ [])
    (hdec : ∀ m, m ∈ members s h w → ∃ r, deserializePeer m = .ok r)
    (visits : List (Nat × List (List Char))) (hv : ValidFrom c s h n [] [] visits) :
    getSample visits ≠ [] :=
  sampleFrom_nonempty c s h n hn w hq hne hdec visits [] [] hv (Or.inr (by simp))

/-- **C28 sampling (4)** lower bound: the first window visited contributes `min n |set|` drawn members,
and every identity they decode to is returned: with a first window of at least n single-encoded
identities the answer has exactly n peers. -/
theorem sample_first_window (c : Cfg) (s : State) (h : Bytes) (n : Nat) (w : Nat) (picks : List (List Char))
    (rest : List (Nat × List (List Char))) (hv : ValidFrom c s h n [] [] ((w, picks) :: rest)) :
    picks.length = min n (members s h w).length ∧
    ∀ id, id ∈ (decodeAll picks).map (·.1) → id ∈ (getSample ((w, picks) :: rest)).map (·.1) := by
  obtain ⟨_, _, _, _, _, h6, _⟩ := hv
  refine ⟨by simpa using h6, ?_⟩
  intro id hid
  unfold getSample
  simp only [sampleFrom, List.foldl_cons]
  apply sampleFrom_mono
  unfold visit
  exact (collapse_ids _ _ _).mpr (Or.inr hid)

/-! ### the completion flag (known finding `stale-complete`) -/

/-- the property as stated: a returned peer carries the completion flag it announced — i.e. the flag
of its *latest* live announcement (here: `p` is announced last, nothing of that identity follows) -/
def flag_is_latest_target : Prop :=
  ∀ (c : Cfg) (s0 : State) (h : Bytes) (p : Peer), 1 ≤ c.size → 1 ≤ c.maxWindows → GoodPeer p →
    ∀ flag, (p.ident, flag) ∈ getAll c (step c s0 (.update h p)) h → flag = p.complete

def exStale : Peer := { pid := List.replicate 20 18, ip := ['1','0','.','0','.','0','.','1'], port := 0, complete := true }

/-- refuted: a peer announces complete, then (restarted, cache evicted) incomplete — both members are
live and `GetPeers` ORs the bits, so it is handed out as a seeder -/
theorem not_flag_is_latest : ¬ flag_is_latest_target := by
  intro hT
  have := hT { size := 10, maxWindows := 3 } (step { size := 10, maxWindows := 3 } { now := 1005 } (.update [1] exStale))
    [1] { exStale with complete := false } (by decide) (by decide) (by decide) true (by decide)
  cases this

/-- what does hold (partial): the flag returned for a live announcement is at least the announced one,
and it is `true` only if some live announcement of that identity said so (`announced_peer_is_returned`);
in particular a peer none of whose live announcements was complete is returned incomplete. -/
theorem flag_is_latest_partial (c : Cfg) (hs : 1 ≤ c.size) (hm : 1 ≤ c.maxWindows)
    (s0 : State) (h : Bytes) (p : Peer) (g : GoodPeer p) (later : List Op)
    (hlive : (runFrom c (step c s0 (.update h p)) later).now < expireAt c (curWindow c s0.now)) :
    ∃ flag, (p.ident, flag) ∈ getAll c (runFrom c (step c s0 (.update h p)) later) h ∧
      (p.complete = true → flag = true) ∧
      (flag = true → ∃ e ∈ (runFrom c (step c s0 (.update h p)) later).entries, e.hash = h ∧
        deserializePeer e.member = .ok (p.ident, true)) := by
  obtain ⟨flag, h1, h2, h3, _⟩ := announced_peer_is_returned c hs hm s0 h p g later hlive
  refine ⟨flag, h1, h2, fun hf => ?_⟩
  obtain ⟨e, he, he1, _, he3⟩ := h3 hf
  exact ⟨e, he, he1, he3⟩

/-! ### non-vacuity -/

def exCfg : Cfg := { size := 10, maxWindows := 3 }
def exV6 : Peer := { pid := List.replicate 20 171, ip := ['f','e','8','0',':',':','1','%','e','t','h','0'], port := 6881, complete := true }
def exV4 : Peer := { pid := List.replicate 20 18, ip := ['1','0','.','0','.','0','.','1'], port := 0, complete := false }
example : GoodPeer exV6 ∧ GoodPeer exV4 := by decide
example : deserializePeer (serializePeer exV6) = .ok (exV6.ident, true) := by decide
example : deserializePeerOld (serializePeer exV6) = .error .parts := by decide
example : deserializePeer ['a', ':', 'b', ':', 'c'] = .error .parts := by decide
example : atoi ['-','0','7'] = some (-7) ∧ atoi ['+','5'] = some 5 ∧ atoi ['5','x'] = none ∧ atoi [] = none ∧ atoi ['-'] = none := by decide
example : getAll exCfg (runFrom exCfg { now := 1005 } [.update [1] exV6, .tick 8, .update [1] exV4, .tick 16]) [1]
    = [(exV6.ident, true), (exV4.ident, false)] := by decide
-- at now = 1030 the window of the first announcement (1000, expiring at 1030) is gone, the second one is still there
example : getAll exCfg (runFrom exCfg { now := 1005 } [.update [1] exV6, .tick 8, .update [1] exV4, .tick 17]) [1]
    = [(exV4.ident, false)] := by decide

end KrakenModel.Spec.C28
