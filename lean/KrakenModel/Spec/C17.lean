import KrakenModel.Proof.C17
/-
  C17  Every blob download request returns exactly once.

  Statements are about `Model.SchedWaiters`, which the correspondence check ties to
  lib/torrent/scheduler (events applied to the real scheduler state in chosen orders, the
  dispatcher's asynchronous completion notice held back by a recording event loop).

  A schedule is a `List Action`: download requests (the n-th request of the schedule is request
  number n), torrent completion on the dispatcher's goroutine, application of a pending completion
  notice, a preemption tick finding a torrent idle, RemoveTorrent, shutdown — in any order, any
  length, any number of torrents.  `run true` is the code as repaired by the `fix:` commit, `run false`
  the code as it was; the same statements are refuted for the latter by concrete schedules.
-/
namespace KrakenModel.Spec.C17
open KrakenModel.SchedWaiters KrakenModel.Proof.C17

/-- the scheduler is at rest: it has been stopped, or no download is in progress and no completion
notice is in flight (every control is complete and its notice has been applied) -/
def quiescentB (s : State) : Bool :=
  s.stopped || s.live.all fun h =>
    match s.ctrl h with
    | some c => c.complete && !(s.notices.contains (h, c.gen))
    | none => true

def Quiescent (s : State) : Prop := quiescentB s = true

instance (s : State) : Decidable (Quiescent s) := by unfold Quiescent; exact inferInstance

def isRequest : Action → Bool
  | .request _ => true
  | .requestMissing => true
  | _ => false

/-- The requests of a schedule are numbered `0 … nextW-1` in order: `w < nextW` ranges over exactly
the `Download` calls that were made. -/
theorem requests_numbered (rep : Bool) (sched : List Action) :
    (run rep sched).nextW = sched.countP isRequest := by
  have key : ∀ (sched : List Action) (s : State),
      (runFrom rep s sched).nextW = s.nextW + sched.countP isRequest := by
    intro sched
    induction sched with
    | nil => intro s; simp [runFrom]
    | cons a as ih =>
      intro s
      simp only [runFrom, List.foldl_cons] at ih ⊢
      rw [ih (step rep s a), List.countP_cons]
      have : (step rep s a).nextW = s.nextW + (if isRequest a = true then 1 else 0) := by
        cases a <;> simp only [step, isRequest]
        case request h =>
          simp only [request]
          split
          · simp
          · split
            · split <;> simp [setCtrl]
            · split <;> simp [setCtrl]
        case requestMissing => simp [requestMissing]
        case finish h =>
          simp only [finish]
          split
          · split
            · simp
            · split <;> simp [setCtrl, setCached]
          · simp
        case notice h g =>
          simp only [notice]
          split
          · split
            · simp
            · split
              · split
                · simp
                · split <;> simp [setCtrl]
              · simp
          · simp
        case timeout h =>
          simp only [timeout, removeTorrent]
          split
          · simp
          · split
            · split <;> split <;> simp [setCtrl, setCached]
            · simp
        case rm h =>
          simp only [rm, removeTorrent]
          split
          · simp
          · split
            · split <;> split <;> simp [setCtrl, setCached]
            · simp [setCached]
        case shutdown =>
          simp only [shutdown]; split <;> simp
      omega
  have := key sched init
  simpa [run, init] using this

/-- **C17 (1)** No request ever gets a second result, in any schedule. -/
theorem at_most_once (sched : List Action) (w : Nat) : ((run true sched).results w).length ≤ 1 :=
  good_at_most_once _ (run_good sched) w

/-- **C17 (2)** No request is ever lost: at every point of every schedule a request has its one result,
or the scheduler is running and the request is still registered with a live torrent control (which
every one of removal, timeout, completion notice and shutdown answers, see (5)). -/
theorem never_lost (sched : List Action) (w : Nat) (hw : w < (run true sched).nextW) :
    ((run true sched).results w).length = 1 ∨
    ((run true sched).stopped = false ∧ (run true sched).results w = [] ∧ Tracked (run true sched) w) :=
  good_never_lost _ (run_good sched) w hw

/-- A complete torrent with registered requests always has its completion notice in flight: the
window between completion and its event can be entered, but never with the notice gone. -/
theorem completion_notice_in_flight (sched : List Action) (h : Hash) (c : Ctrl)
    (hs : (run true sched).stopped = false) (hc : (run true sched).ctrl h = some c)
    (hcc : c.complete = true) (hw : c.waiters ≠ []) : (h, c.gen) ∈ (run true sched).notices :=
  (run_good sched).complete_notice hs h c hc hcc hw

/-- **C17 (3)** Exactly once: whenever the scheduler is at rest (stopped, or nothing in progress and
no notice in flight) every request made so far has exactly one result. -/
theorem exactly_once (sched : List Action) (q : Quiescent (run true sched)) :
    ∀ w, w < (run true sched).nextW → ((run true sched).results w).length = 1 := by
  intro w hw
  have g := run_good sched
  rcases never_lost sched w hw with h1 | ⟨hs, _, h, c, hc, hwc⟩
  · exact h1
  · exfalso
    simp only [Quiescent, quiescentB, hs, Bool.false_or, List.all_eq_true] at q
    have := q h (g.live_mem h c hc)
    simp only [hc, Bool.and_eq_true, Bool.not_eq_true', List.contains_eq_mem, decide_eq_false_iff_not] at this
    have hne : c.waiters ≠ [] := fun e => by rw [e] at hwc; cases hwc
    exact this.2 (g.complete_notice hs h c hc this.1 hne)

/-- In particular after `Stop()` every request has exactly one result. -/
theorem exactly_once_after_shutdown (sched : List Action) :
    ∀ w, w < (run true (sched ++ [.shutdown])).nextW → ((run true (sched ++ [.shutdown])).results w).length = 1 := by
  apply exactly_once
  have : (run true (sched ++ [.shutdown])).stopped = true := by
    simp only [run, runFrom, List.foldl_append, List.foldl_cons, List.foldl_nil, step, shutdown]
    split <;> simp_all
  simp [Quiescent, quiescentB, this]

/-- **C17 (4)** A request is told "success" only when the blob is in the local cache at that moment. -/
theorem success_implies_cached (sched : List Action) (w : Nat) (x : Sent)
    (hx : x ∈ (run true sched).results w) (hok : x.res = .ok) : x.cachedThen = true :=
  (run_good sched).ok_cached w x hx hok

/-- **C17 (5)** Progress: a registered request is answered by each of the events that end the wait —
the torrent's removal as idle, RemoveTorrent, shutdown, and (once the torrent is complete, when by
`completion_notice_in_flight` the notice is in flight) the application of the completion notice. -/
theorem waiting_request_is_answered (sched : List Action) (h : Hash) (c : Ctrl) (w : Nat)
    (hs : (run true sched).stopped = false) (hc : (run true sched).ctrl h = some c) (hw : w ∈ c.waiters) :
    let s := run true sched
    ((step true s (.timeout h)).results w).length = 1 ∧
    ((step true s (.rm h)).results w).length = 1 ∧
    ((step true s .shutdown).results w).length = 1 ∧
    ((h, c.gen) ∈ s.notices → ((step true s (.notice h c.gen)).results w).length = 1) := by
  intro s
  have g : Good s := run_good sched
  have hlt : w < s.nextW := (g.w_fresh hs h c w hc hw).1
  refine ⟨?_, ?_, ?_, ?_⟩
  · apply answered_after s _ g w hlt
    right
    apply untracked_of s _ g h c w hc hw
    · intro k hk; simp [step, timeout_ctrl s h c hs hc, hk]
    · intro c' hc'; simp [step, timeout_ctrl s h c hs hc] at hc'
  · apply answered_after s _ g w hlt
    right
    apply untracked_of s _ g h c w hc hw
    · intro k hk; simp [step, rm_ctrl s h c hs hc, hk]
    · intro c' hc'; simp [step, rm_ctrl s h c hs hc] at hc'
  · apply answered_after s _ g w hlt
    left
    simp only [step, shutdown]; split <;> simp_all
  · intro hm
    apply answered_after s _ g w hlt
    right
    apply untracked_of s _ g h c w hc hw
    · intro k hk; simp [step, notice_ctrl s h c hs hc hm, hk]
    · intro c' hc'
      simp [step, notice_ctrl s h c hs hc hm] at hc'
      subst hc'; simp

-- The same statements about the code as it was (`rep = false`): each is refuted by a schedule that
-- the harness replays against the real code on every run (corpus/C17/fixed-*.ops).

def exactly_once_target (rep : Bool) : Prop :=
  ∀ sched, Quiescent (run rep sched) → ∀ w, w < (run rep sched).nextW → ((run rep sched).results w).length = 1

def at_most_once_target (rep : Bool) : Prop := ∀ sched w, ((run rep sched).results w).length ≤ 1

def success_implies_cached_target (rep : Bool) : Prop :=
  ∀ sched w x, x ∈ (run rep sched).results w → x.res = .ok → x.cachedThen = true

theorem exactly_once_repaired : exactly_once_target true := fun sched q => exactly_once sched q
theorem at_most_once_repaired : at_most_once_target true := fun sched w => at_most_once sched w
theorem success_implies_cached_repaired : success_implies_cached_target true :=
  fun sched w x hx hok => success_implies_cached sched w x hx hok

/-- removal (here: idle-seeder preemption) between completion and its event: the request is never answered -/
theorem not_exactly_once_original : ¬ exactly_once_target false := by
  intro h
  have := h [.request 0, .finish 0, .timeout 0, .notice 0 0] (by decide) 0 (by decide)
  revert this; decide

/-- waiters were not cleared on completion: shutdown sends a second result -/
theorem not_at_most_once_original : ¬ at_most_once_target false := by
  intro h
  have := h [.request 0, .finish 0, .notice 0 0, .shutdown] 0
  revert this; decide

/-- the notice of a removed dispatcher answers the waiter of the torrent's new control with "success" -/
theorem not_success_implies_cached_original : ¬ success_implies_cached_target false := by
  intro h
  have := h [.request 0, .finish 0, .rm 0, .request 0, .notice 0 0] 1 ⟨.ok, false⟩ (by decide) rfl
  revert this; decide

-- Non-vacuity on the repaired model: the three schedules above now end at rest with one result each.
example : Quiescent (run true [.request 0, .finish 0, .timeout 0, .notice 0 0]) := by decide
example : (run true [.request 0, .finish 0, .timeout 0, .notice 0 0]).results 0 = [⟨.ok, true⟩] := by decide
example : (run true [.request 0, .request 0, .finish 0, .rm 0, .notice 0 0]).results 1 = [⟨.removed, false⟩] := by decide
example : (run true [.request 0, .finish 0, .notice 0 0, .shutdown]).results 0 = [⟨.ok, true⟩] := by decide
example : (run true [.request 0, .finish 0, .rm 0, .request 0, .notice 0 0]).results 1 = [] := by decide
example : Tracked (run true [.request 0, .finish 0, .rm 0, .request 0, .notice 0 0]) 1 :=
  ⟨0, ⟨1, false, [1]⟩, by decide, by decide⟩
example : ¬ Quiescent (run true [.request 0, .finish 0, .rm 0, .request 0, .notice 0 0]) := by decide
example : (run true [.request 0, .request 1, .requestMissing, .timeout 0, .shutdown, .request 1]).nextW = 4 := by decide
example : ((List.range 4).map fun w => ((run true [.request 0, .request 1, .requestMissing, .timeout 0, .shutdown, .request 1]).results w).map (·.res))
    = [[.timeout], [.stopped], [.notFound], [.stopped]] := by decide

end KrakenModel.Spec.C17
