import KrakenModel.Proof.C17
/-
  C17  Every blob download request returns exactly once.

  Statements are about `Model.SchedWaiters`, which the correspondence check ties to
  lib/torrent/scheduler (events applied to the real scheduler state in chosen orders, the
  dispatcher's asynchronous completion notice held back by a recording event loop).

  A schedule is a `List Action`: download requests (the n-th request of the schedule is request
  number n), torrent completion on the dispatcher's goroutine, application of a pending completion
  notice, a preemption tick finding a torrent idle, RemoveTorrent, shutdown — in any order, any
  length, any number of torrents.  `run true` is the code as repaired by the `fix:` commit, `run false`
  the code as it was; the same statements are refuted for the latter by concrete schedules.
-/
namespace KrakenModel.Spec.C17
open KrakenModel.SchedWaiters KrakenModel.Proof.C17

/-- the scheduler is at rest: every request's event has been applied, and it has been stopped or no download
is in progress and no completion notice is in flight (every control is complete and its notice applied) -/
def quiescentB (s : State) : Bool :=
  (List.range s.nextW).all (fun w => (s.snap w).isNone) &&
  (s.stopped || s.live.all fun h =>
    match s.ctrl h with
    | some c => c.complete && !(s.notices.contains (h, c.gen))
    | none => true)

def Quiescent (s : State) : Prop := quiescentB s = true

instance (s : State) : Decidable (Quiescent s) := by unfold Quiescent; exact inferInstance

def isRequest : Action → Bool
  | .request _ => true
  | .create _ => true
  | .requestMissing => true
  | _ => false

/-- The requests of a schedule are numbered `0 … nextW-1` in order: `w < nextW` ranges over exactly
the `Download` calls that were made. -/
theorem requests_numbered (rep : Bool) (sched : List Action) :
    (run rep sched).nextW = sched.countP isRequest := by
  have key : ∀ (sched : List Action) (s : State),
      (runFrom rep s sched).nextW = s.nextW + sched.countP isRequest := by
    intro sched
    induction sched with
    | nil => intro s; simp [runFrom]
    | cons a as ih =>
      intro s
      simp only [runFrom, List.foldl_cons] at ih ⊢
      rw [ih (step rep s a), List.countP_cons]
      have : (step rep s a).nextW = s.nextW + (if isRequest a = true then 1 else 0) := by
        cases a <;> simp only [step, isRequest]
        case request h => simp [request, handleReq_nextW, setDl]
        case create h => simp only [create]; split <;> simp [setDl]
        case apply w =>
          simp only [applyReq]; split
          · simp
          · rw [handleReq_nextW]; simp
        case incoming h =>
          simp only [incoming]
          split
          · simp
          · split
            · simp [setDl]
            · split <;> simp [setCtrl]
        case evict h => simp only [evict]; split <;> simp [setCached]
        case requestMissing => simp [requestMissing]
        case finish h =>
          simp only [finish]
          split
          · split
            · simp
            · split <;> simp [setCtrl, setCached, setDl]
          · simp
        case notice h g =>
          simp only [notice]
          split
          · split
            · simp
            · split
              · split
                · simp
                · split <;> simp [setCtrl]
              · simp
          · simp
        case timeout h =>
          simp only [timeout]
          split
          · simp
          · split
            · rw [removeTorrent_nextW]; simp
            · simp
        case rm h =>
          simp only [rm]
          split
          · simp
          · split
            · simp [setCached, setDl, removeTorrent_nextW]
            · simp [setCached, setDl]
        case shutdown =>
          simp only [shutdown]; split <;> simp
      omega
  have := key sched init
  simpa [run, init] using this

/-- **C17 (1)** No request ever gets a second result, in any schedule. -/
theorem at_most_once (sched : List Action) (w : Nat) : ((run true sched).results w).length ≤ 1 :=
  good_at_most_once _ (run_good sched) w

/-- **C17 (2)** No request is ever lost: at every point of every schedule a request has its one result,
or it has none yet and either the scheduler is running and the request is registered with a live torrent
control (which every one of removal, timeout, completion notice and shutdown answers, see (5)), or its
`newTorrentEvent` has not been applied yet (applying it answers or registers it). -/
theorem never_lost (sched : List Action) (w : Nat) (hw : w < (run true sched).nextW) :
    ((run true sched).results w).length = 1 ∨
    ((run true sched).results w = [] ∧
      (((run true sched).stopped = false ∧ Tracked (run true sched) w) ∨ ((run true sched).snap w).isSome = true)) :=
  good_never_lost _ (run_good sched) w hw

/-- A complete torrent with registered requests always has its completion notice in flight: the
window between completion and its event can be entered, but never with the notice gone. -/
theorem completion_notice_in_flight (sched : List Action) (h : Hash) (c : Ctrl)
    (hs : (run true sched).stopped = false) (hc : (run true sched).ctrl h = some c)
    (hcc : c.complete = true) (hw : c.waiters ≠ []) : (h, c.gen) ∈ (run true sched).notices :=
  (run_good sched).complete_notice hs h c hc hcc hw

/-- **C17 (3)** Exactly once: whenever the scheduler is at rest (stopped, or nothing in progress and
no notice in flight) every request made so far has exactly one result. -/
theorem exactly_once (sched : List Action) (q : Quiescent (run true sched)) :
    ∀ w, w < (run true sched).nextW → ((run true sched).results w).length = 1 := by
  intro w hw
  have g := run_good sched
  simp only [Quiescent, quiescentB, Bool.and_eq_true, List.all_eq_true, List.mem_range] at q
  rcases never_lost sched w hw with h1 | ⟨_, h2 | h2⟩
  · exact h1
  · obtain ⟨hs, h, c, hc, hwc⟩ := h2
    exfalso
    have q2 := q.2
    simp only [hs, Bool.false_or, List.all_eq_true] at q2
    have := q2 h (g.live_mem h c hc)
    simp only [hc, Bool.and_eq_true, Bool.not_eq_true', List.contains_eq_mem, decide_eq_false_iff_not] at this
    have hne : c.waiters ≠ [] := fun e => by rw [e] at hwc; cases hwc
    exact this.2 (g.complete_notice hs h c hc this.1 hne)
  · have := q.1 w hw
    cases hx : (run true sched).snap w <;> simp_all

/-- In particular after `Stop()` every request whose event reached the loop has exactly one result (a request
still on its way gets "stopped" from its failed send, which is `apply` after the stop). -/
theorem exactly_once_after_shutdown (sched : List Action) (w : Nat)
    (hw : w < (run true (sched ++ [.shutdown])).nextW) (hsn : (run true (sched ++ [.shutdown])).snap w = none) :
    ((run true (sched ++ [.shutdown])).results w).length = 1 := by
  have g := run_good (sched ++ [.shutdown])
  have hst : (run true (sched ++ [.shutdown])).stopped = true := by
    simp only [run, runFrom, List.foldl_append, List.foldl_cons, List.foldl_nil, step, shutdown]
    split <;> simp_all
  exact g.answered w hw (by simp) hsn (Or.inl hst)

/-- **C17 (4)** In every schedule without cache eviction and without a split request (`pure`: the blob of a
complete control is in the cache, and a request's torrent object is as fresh as the event), a request is told
"success" only when the blob is in the local cache at that moment.  The two excluded situations are real and
are stated (and refuted) below as `success_implies_cached_target`. -/
theorem success_implies_cached (sched : List Action) (hp : (run true sched).pure = true) (w : Nat) (x : Sent)
    (hx : x ∈ (run true sched).results w) (hok : x.res = .ok) : x.cachedThen = true :=
  (run_good sched).ok_cached hp w x hx hok

def noEvictNoSplit : Action → Bool
  | .evict _ => false
  | .create _ => false
  | _ => true

/-- `pure` is exactly "no eviction and no split request happened" -/
theorem pure_of_plain (rep : Bool) (sched : List Action) (hs : sched.all noEvictNoSplit = true) :
    (run rep sched).pure = true := by
  have key : ∀ (sched : List Action) (s : State), s.pure = true → sched.all noEvictNoSplit = true →
      (runFrom rep s sched).pure = true := by
    intro sched
    induction sched with
    | nil => intro s h _; exact h
    | cons a as ih =>
      intro s h hall
      simp only [List.all_cons, Bool.and_eq_true] at hall
      apply ih _ _ hall.2
      have hpure : ∀ (t : State) (k : Hash) (w : Nat) (sc : Bool), (handleReq rep t k w sc).pure = t.pure := by
        intro t k w sc
        unfold handleReq addFor removeTorrent
        split
        · rfl
        · split
          · split
            · cases sc <;> (repeat' split) <;> simp [setCtrl, setCached, setDl]
            · split <;> simp [setCtrl]
          · cases sc <;> simp [setCtrl]
      cases a <;> simp only [step, noEvictNoSplit] at hall ⊢
      case request k => simp [request, hpure, setDl, h]
      case apply w => simp only [applyReq]; split <;> simp [hpure, h]
      case incoming k =>
        simp only [incoming]
        split
        · exact h
        · split
          · simp [setDl, h]
          · split <;> simp [setCtrl, h]
      case requestMissing => simp [requestMissing, h]
      case finish k =>
        simp only [finish]
        split
        · split
          · exact h
          · split <;> simp [setCtrl, setCached, setDl, h]
        · exact h
      case notice k g =>
        simp only [notice]
        split
        · split
          · exact h
          · split
            · split
              · exact h
              · split <;> simp [setCtrl, h]
            · exact h
        · exact h
      case timeout k =>
        simp only [timeout, removeTorrent]
        split
        · exact h
        · split
          · split <;> split <;> simp [setCtrl, setCached, setDl, h]
          · exact h
      case rm k =>
        simp only [rm, removeTorrent]
        split
        · exact h
        · split
          · split <;> split <;> simp [setCtrl, setCached, setDl, h]
          · simp [setCached, setDl, h]
      case shutdown => simp only [shutdown]; split <;> simp [h]
      case create k => have h1 := hall.1; simp at h1
      case evict k => have h1 := hall.1; simp at h1
  exact key sched init rfl hs

theorem snap_kept (s : State) (a : Action)
    (ha : (∃ h, a = .timeout h) ∨ (∃ h, a = .rm h) ∨ a = .shutdown ∨ (∃ h g, a = .notice h g)) :
    (step true s a).snap = s.snap := by
  rcases ha with ⟨h, rfl⟩ | ⟨h, rfl⟩ | rfl | ⟨h, g, rfl⟩
  · simp only [step, timeout, removeTorrent]
    split
    · rfl
    · split
      · split <;> split <;> simp [setCtrl, setCached, setDl]
      · rfl
  · simp only [step, rm, removeTorrent]
    split
    · rfl
    · split
      · split <;> split <;> simp [setCtrl, setCached, setDl]
      · simp [setCached, setDl]
  · simp only [step, shutdown]; split <;> rfl
  · simp only [step, notice]
    split
    · split
      · rfl
      · split
        · split
          · rfl
          · split <;> simp [setCtrl]
        · rfl
    · rfl

/-- **C17 (5)** Progress: a registered request is answered by each of the events that end the wait —
the torrent's removal as idle, RemoveTorrent, shutdown, and (once the torrent is complete, when by
`completion_notice_in_flight` the notice is in flight) the application of the completion notice. -/
theorem waiting_request_is_answered (sched : List Action) (h : Hash) (c : Ctrl) (w : Nat)
    (hs : (run true sched).stopped = false) (hc : (run true sched).ctrl h = some c) (hw : w ∈ c.waiters) :
    let s := run true sched
    ((step true s (.timeout h)).results w).length = 1 ∧
    ((step true s (.rm h)).results w).length = 1 ∧
    ((step true s .shutdown).results w).length = 1 ∧
    ((h, c.gen) ∈ s.notices → ((step true s (.notice h c.gen)).results w).length = 1) := by
  intro s
  have g : Good s := run_good sched
  have hlt : w < s.nextW := (g.w_fresh hs h c w hc hw).1
  have hsn : s.snap w = none := tracked_no_snap s g h c w hc hw
  refine ⟨?_, ?_, ?_, ?_⟩
  · apply answered_after s _ g w hlt (by rw [snap_kept s _ (Or.inl ⟨h, rfl⟩)]; exact hsn)
    right
    apply untracked_of s _ g h c w hc hw
    · intro k hk; simp [step, timeout_ctrl s h c hs hc, hk]
    · intro c' hc'; simp [step, timeout_ctrl s h c hs hc] at hc'
  · apply answered_after s _ g w hlt (by rw [snap_kept s _ (Or.inr (Or.inl ⟨h, rfl⟩))]; exact hsn)
    right
    apply untracked_of s _ g h c w hc hw
    · intro k hk; simp [step, rm_ctrl s h c hs hc, hk]
    · intro c' hc'; simp [step, rm_ctrl s h c hs hc] at hc'
  · apply answered_after s _ g w hlt (by rw [snap_kept s _ (Or.inr (Or.inr (Or.inl rfl)))]; exact hsn)
    left
    simp only [step, shutdown]; split <;> simp_all
  · intro hm
    apply answered_after s _ g w hlt (by rw [snap_kept s _ (Or.inr (Or.inr (Or.inr ⟨h, c.gen, rfl⟩)))]; exact hsn)
    right
    apply untracked_of s _ g h c w hc hw
    · intro k hk; simp [step, notice_ctrl s h c hs hc hm, hk]
    · intro c' hc'
      simp [step, notice_ctrl s h c hs hc hm] at hc'
      subst hc'; simp

/-- an unapplied request is answered or registered by applying its event -/
theorem pending_request_is_handled (sched : List Action) (w : Nat)
    (hsn : ((run true sched).snap w).isSome = true) :
    ((step true (run true sched) (.apply w)).snap w) = none := by
  simp only [step, applyReq]
  cases hx : (run true sched).snap w with
  | none => simp [hx] at hsn
  | some x =>
    obtain ⟨h, sc⟩ := x
    have : ∀ (t : State) (k : Hash) (w' : Nat) (b : Bool), (handleReq true t k w' b).snap = t.snap := by
      intro t k w' b
      unfold handleReq addFor removeTorrent
      split
      · rfl
      · split
        · split
          · cases b <;> (repeat' split) <;> simp [setCtrl, setCached, setDl]
          · split <;> simp [setCtrl]
        · cases b <;> simp [setCtrl]
    simp [this]

-- The same statements about the code as it was (`rep = false`): each is refuted by a schedule that
-- the harness replays against the real code on every run (corpus/C17/fixed-*.ops).

def exactly_once_target (rep : Bool) : Prop :=
  ∀ sched, Quiescent (run rep sched) → ∀ w, w < (run rep sched).nextW → ((run rep sched).results w).length = 1

def at_most_once_target (rep : Bool) : Prop := ∀ sched w, ((run rep sched).results w).length ≤ 1

/-- success ⇒ cached over the schedules without cache eviction and without split requests -/
def success_implies_cached_plain_target (rep : Bool) : Prop :=
  ∀ sched, sched.all noEvictNoSplit = true →
    ∀ w x, x ∈ (run rep sched).results w → x.res = .ok → x.cachedThen = true

/-- success ⇒ cached over ALL schedules (with eviction under a live control, and with other events falling
between a request's `CreateTorrent` and the application of its event) -/
def success_implies_cached_target (rep : Bool) : Prop :=
  ∀ sched w x, x ∈ (run rep sched).results w → x.res = .ok → x.cachedThen = true

theorem exactly_once_repaired : exactly_once_target true := fun sched q => exactly_once sched q
theorem at_most_once_repaired : at_most_once_target true := fun sched w => at_most_once sched w
theorem success_implies_cached_partial : success_implies_cached_plain_target true :=
  fun sched hs w x hx hok => success_implies_cached sched (pure_of_plain true sched hs) w x hx hok

/-- known finding `success-after-eviction`: the blob is evicted between the torrent's completion and the
application of its completion event — the waiters are told "success" -/
theorem not_success_implies_cached_eviction : ¬ success_implies_cached_target true := by
  intro h
  have := h [.request 0, .finish 0, .evict 0, .notice 0 0] 0 ⟨.ok, false⟩ (by decide) rfl
  revert this; decide

/-- known finding `success-from-stale-torrent-object`: `CreateTorrent` saw the blob cached, RemoveTorrent
deleted it before the request's event was applied, `addTorrent` then runs over the stale complete object -/
theorem not_success_implies_cached_split : ¬ success_implies_cached_target true := by
  intro h
  have := h [.request 0, .finish 0, .notice 0 0, .create 0, .rm 0, .apply 1] 1 ⟨.ok, false⟩ (by decide) rfl
  revert this; decide

/-- removal (here: idle-seeder preemption) between completion and its event: the request is never answered -/
theorem not_exactly_once_original : ¬ exactly_once_target false := by
  intro h
  have := h [.request 0, .finish 0, .timeout 0, .notice 0 0] (by decide) 0 (by decide)
  revert this; decide

/-- waiters were not cleared on completion: shutdown sends a second result -/
theorem not_at_most_once_original : ¬ at_most_once_target false := by
  intro h
  have := h [.request 0, .finish 0, .notice 0 0, .shutdown] 0
  revert this; decide

/-- the notice of a removed dispatcher answers the waiter of the torrent's new control with "success" -/
theorem not_success_implies_cached_original : ¬ success_implies_cached_plain_target false := by
  intro h
  have := h [.request 0, .finish 0, .rm 0, .request 0, .notice 0 0] (by decide) 1 ⟨.ok, false⟩ (by decide) rfl
  revert this; decide

-- Non-vacuity on the repaired model: the three schedules above now end at rest with one result each.
example : Quiescent (run true [.request 0, .finish 0, .timeout 0, .notice 0 0]) := by decide
example : (run true [.request 0, .finish 0, .timeout 0, .notice 0 0]).results 0 = [⟨.ok, true⟩] := by decide
example : (run true [.request 0, .request 0, .finish 0, .rm 0, .notice 0 0]).results 1 = [⟨.removed, false⟩] := by decide
example : (run true [.request 0, .finish 0, .notice 0 0, .shutdown]).results 0 = [⟨.ok, true⟩] := by decide
example : (run true [.request 0, .finish 0, .rm 0, .request 0, .notice 0 0]).results 1 = [] := by decide
example : Tracked (run true [.request 0, .finish 0, .rm 0, .request 0, .notice 0 0]) 1 :=
  ⟨0, ⟨1, false, [1]⟩, by decide, by decide⟩
example : ¬ Quiescent (run true [.request 0, .finish 0, .rm 0, .request 0, .notice 0 0]) := by decide
example : (run true [.request 0, .request 1, .requestMissing, .timeout 0, .shutdown, .request 1]).nextW = 4 := by decide
example : ((List.range 4).map fun w => ((run true [.request 0, .request 1, .requestMissing, .timeout 0, .shutdown, .request 1]).results w).map (·.res))
    = [[.timeout], [.stopped], [.notFound], [.stopped]] := by decide

-- eviction under a live control: the next request removes the control (answering whoever still waits) and
-- starts the download again; a split request is the same as an atomic one when nothing falls in between
example : ((run true [.request 0, .finish 0, .notice 0 0, .evict 0, .request 0]).ctrl 0) = some ⟨1, false, [1]⟩ := by decide
example : (run true [.request 0, .finish 0, .evict 0, .request 0]).results 0 = [⟨.removed, false⟩] := by decide
example : (run true [.create 0, .apply 0]).ctrl 0 = (run true [.request 0]).ctrl 0 := by decide
example : (run true [.create 0, .shutdown, .apply 0]).results 0 = [⟨.stopped, false⟩] := by decide
example : ¬ Quiescent (run true [.create 0]) := by decide
example : (run true [.incoming 0, .request 0]).ctrl 0 = some ⟨0, false, [0]⟩ := by decide

end KrakenModel.Spec.C17
