import KrakenModel.Model.MetaInfo
import KrakenModel.Model.MetaInfoGen
import KrakenModel.Model.RefreshPL
import KrakenModel.Proof.C02
/-
  C02  Torrent metainfo exactly describes its blob.
  Statements are about `Model.MetaInfo`, which the correspondence check ties to core/metainfo.go,
  core/piece_hash.go and lib/metainfogen.  `crc` (the piece checksum) and `sha1` are arbitrary
  functions: every theorem holds for whatever checksum the code uses.
-/
namespace KrakenModel.Spec.C02
open KrakenModel.MetaInfo KrakenModel.Codec KrakenModel.Proof.C02

variable (crc : Bytes → Nat) (sha1 : List Char → Nat)

/-! ### (1) the specification `chunks`: consecutive pieces, only the last may be shorter -/

/-- the pieces, concatenated, are the blob -/
theorem chunks_join {α : Type} (n : Nat) (hn : 0 < n) (data : List α) : (chunks n data).flatten = data :=
  chunks_flatten n hn data.length data (Nat.le_refl _)

/-- piece `i` is the `n` bytes at offset `i*n` (cut at the end of the blob), and exists iff that
offset is inside the blob -/
theorem chunks_piece {α : Type} (n : Nat) (hn : 0 < n) (data : List α) (i : Nat) :
    (chunks n data)[i]? = if i * n < data.length then some ((data.drop (i * n)).take n) else none :=
  chunks_getElem? n hn i data

/-- number of pieces = ⌈len / n⌉ -/
theorem chunks_count {α : Type} (n : Nat) (hn : 0 < n) (data : List α) :
    (chunks n data).length = (data.length + n - 1) / n :=
  chunks_length n hn data.length data (Nat.le_refl _)

/-- an empty blob has no piece, and only an empty blob -/
theorem chunks_nil_iff {α : Type} (n : Nat) (hn : 0 < n) (data : List α) : chunks n data = [] ↔ data = [] := by
  constructor
  · intro h
    cases data with
    | nil => rfl
    | cons a as => rw [chunks_cons_eq n hn _ (by simp)] at h; cases h
  · intro h; subst h; rfl

/-- every piece but the last has exactly `n` bytes; the last has between 1 and `n` -/
theorem chunks_piece_lengths {α : Type} (n : Nat) (hn : 0 < n) (data : List α) (i : Nat) (c : List α)
    (h : (chunks n data)[i]? = some c) :
    1 ≤ c.length ∧ c.length ≤ n ∧ (i + 1 < (chunks n data).length → c.length = n) ∧
    (i + 1 = (chunks n data).length → c.length = data.length - i * n) := by
  rw [chunks_piece n hn] at h
  split at h
  · rename_i hlt
    cases h
    have hnext := chunks_piece n hn data (i + 1)
    have e : (i + 1) * n = i * n + n := Nat.succ_mul i n
    simp only [List.length_take, List.length_drop]
    refine ⟨by omega, by omega, ?_, ?_⟩
    · intro hi
      have : (chunks n data)[i + 1]? ≠ none := by
        intro hn'; rw [List.getElem?_eq_none_iff] at hn'; omega
      rw [hnext] at this
      split at this
      · omega
      · exact absurd rfl this
    · intro hi
      have : (chunks n data)[i + 1]? = none := by rw [List.getElem?_eq_none_iff]; omega
      rw [hnext] at this
      split at this
      · cases this
      · omega
  · cases h

/-- the piece lengths add up to the blob length -/
theorem chunks_lengths_sum {α : Type} (n : Nat) (hn : 0 < n) (data : List α) :
    ((chunks n data).map List.length).sum = data.length := by
  rw [← List.length_flatten, chunks_join n hn]

/-! ### (2) both generators compute exactly `chunks` -/

theorem stream_eq_chunks (pl : Int) (hpl : 0 < pl) (data : Bytes) :
    sumsStream crc pl data = .ok data.length (toSlice ((chunks pl.toNat data).map crc)) := by
  have h1 : ¬ pl ≤ 0 := by omega
  simp only [sumsStream, h1, if_false, Bool.false_eq_true]
  rw [streamLoop_spec crc pl.toNat (by omega) _ _ _ _ (Nat.lt_succ_self _)]
  simp

theorem bytes_eq_chunks (pl : Int) (hpl : 0 < pl) (data : Bytes) :
    sumsBytes crc pl data = .ok data.length (toSlice ((chunks pl.toNat data).map crc)) := by
  have h1 : ¬ pl ≤ 0 := by omega
  simp only [sumsBytes, h1, if_false]
  cases hd : data with
  | nil => rfl
  | cons a as =>
    have := bytesLoop_spec crc pl.toNat (by omega) (a :: as) (a :: as).length 0 [] (by omega)
    simp only [List.drop_zero, List.nil_append] at this
    simp only [List.length_cons, Nat.add_one_ne_zero, if_false]
    simp only [List.length_cons] at this
    rw [this, chunks_cons_eq _ (by omega) _ (by simp)]
    simp [toSlice]

/-- **C02 generators agree**: for every blob and every positive piece length the streaming and the
in-memory generator return the blob's length and the checksums of its consecutive pieces. -/
theorem generators_agree (pl : Int) (hpl : 0 < pl) (data : Bytes) :
    sumsStream crc pl data = .ok data.length (toSlice ((chunks pl.toNat data).map crc)) ∧
    sumsBytes crc pl data = .ok data.length (toSlice ((chunks pl.toNat data).map crc)) :=
  ⟨stream_eq_chunks crc pl hpl data, bytes_eq_chunks crc pl hpl data⟩

/-- … and NewMetaInfo / NewMetaInfoFromBytes are identical for every piece length (also the
rejected ones ≤ 0), digest and blob. -/
theorem newMetaInfo_eq_fromBytes (d : List Char) (data : Bytes) (pl : Int) :
    newMetaInfo sha1 crc d data pl = newMetaInfoFromBytes sha1 crc d data pl := by
  by_cases hpl : 0 < pl
  · simp only [newMetaInfo, newMetaInfoFromBytes, stream_eq_chunks crc pl hpl, bytes_eq_chunks crc pl hpl]
  · have : pl ≤ 0 := by omega
    simp [newMetaInfo, newMetaInfoFromBytes, sumsStream, sumsBytes, this]

/-- **C02 describes the blob**: the generated metainfo records the blob length, the piece length, the
digest, and one checksum per consecutive piece. -/
theorem metainfo_describes_blob (d : List Char) (data : Bytes) (pl : Int) (hpl : 0 < pl) :
    ∃ mi, newMetaInfo sha1 crc d data pl = .ok mi ∧ newMetaInfoFromBytes sha1 crc d data pl = .ok mi ∧
      mi.info.length = data.length ∧ mi.info.pieceLength = pl ∧ mi.info.name = d ∧ mi.digest = d ∧
      mi.info.sums = (chunks pl.toNat data).map crc ∧ mi.infoHash = sha1 (bencode mi.info) := by
  refine ⟨assemble sha1 d data.length (toSlice ((chunks pl.toNat data).map crc)) pl, ?_, ?_, rfl, rfl, rfl, rfl, ?_, rfl⟩
  · simp [newMetaInfo, stream_eq_chunks crc pl hpl, ofSums]
  · simp [newMetaInfoFromBytes, bytes_eq_chunks crc pl hpl, ofSums]
  · simp only [assemble, Info.sums, toSlice]
    cases (chunks pl.toNat data).map crc <;> rfl

/-- a failing reader is reported, never turned into metainfo -/
theorem failing_reader_is_error (d : List Char) (data : Bytes) (pl : Int) :
    ∀ mi, newMetaInfo sha1 crc d data pl true ≠ .ok mi := by
  intro mi
  simp only [newMetaInfo, sumsStream]
  split <;> simp [ofSums]

/-! ### (3) GetPieceLength -/

/-- **C02 piece lengths**: `GetPieceLength(i)` of generated metainfo is the length of the i-th piece of
the blob, and 0 outside `0 … numPieces-1` (including negative `i`). -/
theorem pieceLength_spec (d : List Char) (data : Bytes) (pl : Int) (hpl : 0 < pl) (mi : MetaInfo)
    (h : newMetaInfoFromBytes sha1 crc d data pl = .ok mi) (i : Int) :
    getPieceLength mi.info i =
      if i < 0 then 0 else match (chunks pl.toNat data)[i.toNat]? with
        | some c => (c.length : Int)
        | none => 0 := by
  obtain ⟨mi', _, h2, hlen, hplen, _, _, hsums, _⟩ := metainfo_describes_blob crc sha1 d data pl hpl
  rw [h] at h2; cases h2
  have hn : 0 < pl.toNat := by omega
  have hcnt : mi.info.sums.length = (chunks pl.toNat data).length := by rw [hsums]; simp
  unfold getPieceLength
  rw [hcnt, hlen, hplen]
  by_cases hneg : i < 0
  · simp [hneg]
  · simp only [hneg, false_or, if_false]
    obtain ⟨k, rfl⟩ := Int.eq_ofNat_of_zero_le (by omega : 0 ≤ i)
    simp only [Int.toNat_natCast]
    cases hc : (chunks pl.toNat data)[k]? with
    | none =>
      have := List.getElem?_eq_none_iff.mp hc
      have : (k : Int) ≥ ((chunks pl.toNat data).length : Int) := by omega
      simp [this]
    | some c =>
      have hk : k < (chunks pl.toNat data).length := by
        apply Classical.byContradiction; intro hge
        have := List.getElem?_eq_none_iff.mpr (Nat.le_of_not_lt hge)
        rw [this] at hc; cases hc
      obtain ⟨_, _, hfull, hlast⟩ := chunks_piece_lengths pl.toNat hn data k c hc
      have hnot : ¬ ((k : Int) ≥ ((chunks pl.toNat data).length : Int)) := by omega
      simp only [hnot, if_false]
      by_cases hl : (k : Int) = ((chunks pl.toNat data).length : Int) - 1
      · simp only [hl, if_true]
        have hk1 : k + 1 = (chunks pl.toNat data).length := by omega
        have hcl := hlast hk1
        have hoff : k * pl.toNat < data.length := by
          have := chunks_piece pl.toNat hn data k
          rw [hc] at this
          split at this
          · assumption
          · cases this
        have hpl' : pl = (pl.toNat : Int) := by omega
        rw [← hl, hcl]
        rw [hpl']
        simp only [Int.toNat_natCast]
        rw [← Int.natCast_mul, Nat.mul_comm]
        omega
      · simp only [hl, if_false]
        have := hfull (by omega)
        omega

/-! ### (4) serialisation round trip -/

/-- **C02 parse ∘ serialize**: every well-formed info (field values inside the Go types' ranges, name
without characters that need a JSON escape — hex names qualify) parses back to itself. -/
theorem parse_serialize (i : Info) (wf : i.wf = true) : parseInfo (serializeInfo i) = some i := by
  have hn : i.name.all jsonPlain = true := by
    simp only [Info.wf, Bool.and_eq_true] at wf; exact wf.2
  simp [parseInfo, readInfo_serializeInfo i hn, wf]

/-- `parseInfo` is DEFINED as "read the shape, then check that re-serialising gives the input": this lemma only
restates that definition (it says nothing about encoding/json and is not a headline result); the content of the
round trip is `parse_serialize` (via `readInfo_serializeInfo`) and the byte-for-byte tie to `Serialize`. -/
theorem parse_sound (s : List Char) (i : Info) (h : parseInfo s = some i) :
    serializeInfo i = s ∧ i.wf = true := by
  unfold parseInfo at h
  split at h
  · cases h
  · split at h
    · rename_i hc; cases h; exact ⟨hc.2, hc.1⟩
    · cases h

/-- the invariants of every MetaInfo value the code can construct -/
def GoodMI (mi : MetaInfo) : Prop :=
  mi.info.wf = true ∧ validSHA256Hex mi.info.name = true ∧ mi.digest = mi.info.name ∧
  mi.infoHash = sha1 (bencode mi.info)

instance (mi : MetaInfo) : Decidable (GoodMI sha1 mi) := by unfold GoodMI; exact inferInstance

/-- **C02 round trip**: deserialising the serialisation of a metainfo yields the same metainfo: same
info (piece layout), same info hash, same digest. -/
theorem deserialize_serialize (mi : MetaInfo) (g : GoodMI sha1 mi) :
    deserialize sha1 (serializeInfo mi.info) = .ok mi := by
  obtain ⟨hwf, hname, hd, hh⟩ := g
  cases mi with
  | mk info ih dg =>
    simp only at hd hh hwf hname
    simp [deserialize, parse_serialize info hwf, hname, hd, hh]

/-- consequence of the definition of `parseInfo` (see `parse_sound`): whatever the MODEL's deserialize accepts is a
good metainfo whose serialisation is the input.  Not a statement about the Go decoder. -/
theorem deserialize_good (s : List Char) (mi : MetaInfo) (h : deserialize sha1 s = .ok mi) :
    GoodMI sha1 mi ∧ serializeInfo mi.info = s := by
  unfold deserialize at h
  split at h
  · cases h
  · rename_i i hp
    obtain ⟨hs, hwf⟩ := parse_sound s i hp
    split at h
    · rename_i hv; cases h; exact ⟨⟨hwf, hv, rfl, rfl⟩, hs⟩
    · cases h

/-- generated metainfo is good whenever the digest is a sha256 hex and the sizes fit the Go types -/
theorem generated_good (d : List Char) (data : Bytes) (pl : Int) (hpl : 0 < pl) (hpl63 : pl < 2^63)
    (hlen : data.length < 2^63) (hd : validSHA256Hex d = true) (hcrc : ∀ b, crc b < 2^32) (mi : MetaInfo)
    (h : newMetaInfoFromBytes sha1 crc d data pl = .ok mi) : GoodMI sha1 mi := by
  obtain ⟨mi', _, h2, hl, hp, hn, hdg, hs, hh⟩ := metainfo_describes_blob crc sha1 d data pl hpl
  rw [h] at h2; cases h2
  refine ⟨?_, by rw [hn]; exact hd, by rw [hdg, hn], hh⟩
  simp only [Info.wf, Bool.and_eq_true, decide_eq_true_eq, List.all_eq_true]
  rw [hl, hp, hn, hs]
  refine ⟨⟨⟨⟨⟨by omega, hpl63⟩, by omega⟩, by omega⟩, ?_⟩, ?_⟩
  · intro s hs'
    obtain ⟨b, _, rfl⟩ := List.mem_map.mp hs'
    exact hcrc b
  · intro c hc
    simp only [validSHA256Hex, Bool.and_eq_true, List.all_eq_true] at hd
    exact isHex_jsonPlain (hd.2 c hc)

/-- **C02 end to end**: generate (either way), serialize, deserialize → the same metainfo. -/
theorem generate_roundtrip (d : List Char) (data : Bytes) (pl : Int) (hpl : 0 < pl) (hpl63 : pl < 2^63)
    (hlen : data.length < 2^63) (hd : validSHA256Hex d = true) (hcrc : ∀ b, crc b < 2^32) (mi : MetaInfo)
    (h : newMetaInfo sha1 crc d data pl = .ok mi) :
    deserialize sha1 (serializeInfo mi.info) = .ok mi := by
  rw [newMetaInfo_eq_fromBytes] at h
  exact deserialize_serialize sha1 mi (generated_good crc sha1 d data pl hpl hpl63 hlen hd hcrc mi h)

/-! ### (5) piece-length table -/

/-- **C02 table lookup**: on a table sorted by strictly increasing threshold, `get` returns the piece
length of the largest threshold not above the size, and the first entry's when every threshold is
above it (the code's fallback); it panics only on an empty table. -/
theorem table_get (t : List Range) (hs : t.Pairwise (fun a b => a.fileSize < b.fileSize)) (size : Int) :
    get t size = match t with
      | [] => .panic
      | r0 :: _ => .ok (match (t.filter (fun r => decide (r.fileSize ≤ size))).getLast? with
          | some r => r.pieceLength
          | none => r0.pieceLength) := by
  cases t with
  | nil => rfl
  | cons r rs =>
    simp only [MetaInfo.get, getLoop_spec size _ _ hs]
    cases ((r :: rs).filter (fun r => decide (r.fileSize ≤ size))).getLast? <;> rfl

/-- the table built from a configuration map with distinct thresholds is a strictly sorted
permutation of the map's entries, and never empty -/
theorem mkTable_sorted (m : List (Nat × Nat)) (hne : m ≠ [])
    (hd : (m.map fun kv => toInt64 kv.1).Nodup) :
    ∃ t, mkTable m = some t ∧ t ≠ [] ∧ t.Pairwise (fun a b => a.fileSize < b.fileSize) ∧
      t.Perm (m.map fun kv => ({ fileSize := toInt64 kv.1, pieceLength := toInt64 kv.2 } : Range)) := by
  have he : m.isEmpty = false := by cases m <;> simp_all
  refine ⟨_, by simp only [mkTable, he]; rfl, ?_, ?_, isort_perm _⟩
  · intro h0
    have := (isort_perm (m.map fun kv => ({ fileSize := toInt64 kv.1, pieceLength := toInt64 kv.2 } : Range))).length_eq
    rw [h0] at this
    cases m with
    | nil => exact hne rfl
    | cons a as => simp at this
  · have hsorted := isort_sorted (m.map fun kv => ({ fileSize := toInt64 kv.1, pieceLength := toInt64 kv.2 } : Range))
    have hperm := isort_perm (m.map fun kv => ({ fileSize := toInt64 kv.1, pieceLength := toInt64 kv.2 } : Range))
    have hnd : ((isort (m.map fun kv => ({ fileSize := toInt64 kv.1, pieceLength := toInt64 kv.2 } : Range))).map (·.fileSize)).Nodup := by
      have := (hperm.map (·.fileSize)).nodup_iff.mpr (by simpa [List.map_map, Function.comp_def] using hd)
      exact this
    have hnd' := List.pairwise_map.mp hnd
    exact (hsorted.and hnd').imp (fun ⟨h1, h2⟩ => by omega)

/-! ### non-vacuity -/

example : chunks 3 [1,2,3,4,5,6,7] = [[1,2,3],[4,5,6],[7]] := by decide
example : chunks 3 [1,2,3,4,5,6] = [[1,2,3],[4,5,6]] := by decide
example : sumsStream List.sum 3 [1,2,3,4,5,6,7] = .ok 7 (some [6,15,7]) := by decide
example : sumsBytes List.sum 3 [1,2,3,4,5,6,7] = .ok 7 (some [6,15,7]) := by decide
example : sumsStream List.sum 3 [] = .ok 0 none ∧ sumsBytes List.sum 3 [] = .ok 0 none := by decide
example : sumsStream List.sum 0 [1] = .errPieceLength ∧ sumsBytes List.sum (-1) [1] = .errPieceLength := by decide

def exInfo : Info := { pieceLength := 4, pieceSums := some [10, 4294967295], name := ['a','B','0'], length := 7 }
example : exInfo.wf = true := by decide
example : parseInfo (serializeInfo exInfo) = some exInfo := by decide
example : parseInfo (serializeInfo { exInfo with pieceSums := none }) = some { exInfo with pieceSums := none } := by decide
example : parseInfo (serializeInfo { exInfo with pieceSums := some [] }) = some { exInfo with pieceSums := some [] } := by decide
-- a leading zero, a sum out of range and a missing brace are not canonical
example : parseInfo (kPieceLength ++ ['0','4'] ++ kPieceSums ++ ['[',']'] ++ kName ++ kLength ++ ['1'] ++ kEnd) = none := by decide
example : parseInfo (serializeInfo { exInfo with pieceSums := some [4294967296] }) = none := by decide
example : parseInfo ((serializeInfo exInfo).dropLast) = none := by decide

example : get [⟨0, 1⟩, ⟨10, 4⟩, ⟨20, 8⟩] 9 = .ok 1 ∧ get [⟨0, 1⟩, ⟨10, 4⟩, ⟨20, 8⟩] 10 = .ok 4 ∧
    get [⟨0, 1⟩, ⟨10, 4⟩, ⟨20, 8⟩] 1000 = .ok 8 ∧ get [⟨5, 2⟩, ⟨10, 4⟩] 3 = .ok 2 ∧ get [] 3 = .panic := by decide
example : mkTable [(20, 8), (0, 1), (10, 4)] = some [⟨0, 1⟩, ⟨10, 4⟩, ⟨20, 8⟩] := by decide

/-! ### the refresh call site (appended in round 2, finding C02-1) -/
section refresh
open KrakenModel.RefreshPL

/-- **C02 (last clause, at `Refresher.Refresh`)** Whatever size the backend's Stat reported, the metainfo
stored for a refreshed blob uses the piece length the table gives for the blob's *own* length: the store
keeps the pre-selected piece length only when the two sizes agree, otherwise the refresher generates the
metainfo from the stored blob.  Together with `table_get` this is "the largest threshold not above the
blob's size". -/
theorem refresh_piece_length (t : List Range) (stat len : Nat) : refreshPL t stat len = get t len := by
  unfold refreshPL storePL
  split
  · rename_i r h
    split at h
    · rename_i e; cases h; rw [e]
    · cases h
  · rfl

/-- Before the repair (`/repo` 49c8d02) the piece length chosen for the Stat size was kept: the clause failed
whenever the two sizes fall into different table ranges (witness: the audit's experiment). -/
theorem not_refresh_piece_length_old :
    ¬ ∀ (t : List Range) (stat len : Nat), refreshPLOld t stat len = get t len := by
  intro h
  have := h [⟨0, 4⟩, ⟨50, 32⟩] 3 100
  revert this
  decide

example : refreshPL [⟨0, 4⟩, ⟨50, 32⟩] 3 100 = .ok 32 ∧ refreshPL [⟨0, 4⟩, ⟨50, 32⟩] 100 100 = .ok 32 ∧
    refreshPL [⟨0, 4⟩, ⟨50, 32⟩] 100 3 = .ok 4 := by decide

end refresh

/-! ### Generate on a store that already holds a metainfo sidecar -/

section generate_existing
open KrakenModel.MetaInfoGen

/-- **C02 Generate overwrites**: whatever sidecar the store holds for the blob beforehand (`old` is arbitrary: metainfo
generated under another piece-length table, written directly, garbage, or nothing), a successful `Generate` leaves the
serialisation of the metainfo that describes the blob with the piece length the CURRENT table selects for its size. -/
theorem generate_overwrites_any_sidecar (crc : Bytes → Nat) (sha1 : List Char → Nat) (t : List Range) (d : List Char)
    (data : Bytes) (old : Option (List Char)) (pl : Int) (hget : MetaInfo.get t data.length = .ok pl) (hpl : 0 < pl) :
    ∃ mi : KrakenModel.MetaInfo.MetaInfo, generate sha1 crc t d data old = (.ok, some (serializeInfo mi.info)) ∧
      mi.info.pieceLength = pl ∧ mi.info.length = data.length ∧ mi.info.name = d ∧
      mi.info.sums = (chunks pl.toNat data).map crc := by
  obtain ⟨mi, h1, _, hlen, hp, hn, _, hs, _⟩ := metainfo_describes_blob crc sha1 d data pl hpl
  exact ⟨mi, by simp [generate, hget, h1], hp, hlen, hn, hs⟩

/-- … and reading that sidecar back yields exactly that metainfo (same info hash, digest, layout): the end-to-end
round trip of `Generate` for an arbitrary pre-existing sidecar. -/
theorem generate_roundtrip_any_sidecar (crc : Bytes → Nat) (sha1 : List Char → Nat) (t : List Range) (d : List Char)
    (data : Bytes) (old : Option (List Char)) (pl : Int) (hget : MetaInfo.get t data.length = .ok pl) (hpl : 0 < pl)
    (hpl63 : pl < 2^63) (hlen : data.length < 2^63) (hd : validSHA256Hex d = true) (hcrc : ∀ b, crc b < 2^32) :
    ∃ (mi : KrakenModel.MetaInfo.MetaInfo) (ser : List Char), generate sha1 crc t d data old = (.ok, some ser) ∧ deserialize sha1 ser = .ok mi ∧
      mi.info.pieceLength = pl ∧ mi.info.length = data.length ∧ mi.digest = d ∧
      mi.info.sums = (chunks pl.toNat data).map crc := by
  obtain ⟨mi, h1, _, hl, hp, _, hdg, hs, _⟩ := metainfo_describes_blob crc sha1 d data pl hpl
  refine ⟨mi, serializeInfo mi.info, by simp [generate, hget, h1], ?_, hp, hl, hdg, hs⟩
  exact generate_roundtrip crc sha1 d data pl hpl hpl63 hlen hd hcrc mi h1

/-- the sidecar that was there does not influence the result -/
theorem generate_ignores_old (crc : Bytes → Nat) (sha1 : List Char → Nat) (t : List Range) (d : List Char) (data : Bytes)
    (old old' : Option (List Char)) (h : (generate sha1 crc t d data old).1 = .ok) :
    generate sha1 crc t d data old = generate sha1 crc t d data old' := by
  unfold generate at h ⊢
  split <;> simp_all
  split <;> simp_all

example : generate (fun _ => 0) List.sum [⟨0, 10⟩, ⟨20, 25⟩] ['a'] (List.replicate 30 1) (some ['s','t','a','l','e'])
    = generate (fun _ => 0) List.sum [⟨0, 10⟩, ⟨20, 25⟩] ['a'] (List.replicate 30 1) none := by decide

end generate_existing

end KrakenModel.Spec.C02
