import KrakenModel.Proof.C14
/-
  C14  No input from a remote peer can crash or corrupt a peer.

  Statements are about `Model.PeerInput` (connection read path, handshake decoding, dispatcher message
  handlers over agent and origin torrents), which the correspondence check ties to
  lib/torrent/scheduler/conn, lib/torrent/scheduler/dispatch and lib/torrent/storage.  They quantify over
  every frame / every handshake / every message with every value of every integer field (arbitrary `Int`s,
  sub-messages present or absent) and every sequence of such inputs from any number of peers; `true` selects
  the code as repaired by the `fix:` commits, `false` the code as it was, for which each statement is refuted
  by a concrete input that the harness replays against the real code on every run.
-/
namespace KrakenModel.Spec.C14
open KrakenModel.PeerInput KrakenModel.Proof.C14

-- ------------------------------------------------------------------ connection read path

/-- **C14 (1)** Whatever follows the length prefix — any declared length, any number of bytes, any
decoded message — reading it never panics, allocates at most the 32 KiB message buffer plus one piece
of the connection's torrent, and a piece payload is delivered only when its declared length is at most
the torrent's piece length and that many bytes really followed the message. -/
theorem read_message_safe (maxPiece : Nat) (f : Frame) :
    (readMessage true maxPiece f).out.isPanic = false ∧
    (∀ a ∈ (readMessage true maxPiece f).allocs, a ≤ max maxMessageSize maxPiece) ∧
    (∀ n, (readMessage true maxPiece f).out = .msg 2 (some n) → n ≤ maxPiece ∧ f.dlen + n ≤ f.avail) :=
  read_cases maxPiece f

/-- input is either delivered as a message or ends the connection -/
theorem read_message_rejects_or_delivers (maxPiece : Nat) (f : Frame) :
    (∃ t p, (readMessage true maxPiece f).out = .msg t p) ∨
    (readMessage true maxPiece f).out ∈ [.closeTooLarge, .closeShortBody, .closeUnmarshal, .closeBadPayload, .closeShortPayload] := by
  have h := (read_message_safe maxPiece f).1
  cases ho : (readMessage true maxPiece f).out <;> simp_all [WireOut.isPanic]

-- ------------------------------------------------------------------ handshake

/-- **C14 (2)** Decoding a handshake allocates no more than the bitfield bytes it was given (+7), and
an accepted bitfield has exactly the declared length, which the bytes cover. -/
theorem handshake_safe (i : HsIn) :
    (∀ a ∈ (handshake true i).allocs, a ≤ i.bf.bytes + 7 ∨ ∃ rb, i.rbf = some rb ∧ a ≤ rb.bytes + 7) ∧
    (∀ n, (handshake true i).out = some n → n = i.bf.bits ∧ n ≤ 8 * i.bf.bytes) := by
  have h1 := unmarshal_cases i.bf
  simp only [handshake]
  split
  · simp
  · cases hr : (unmarshalBitfield true i.bf).1 with
    | none =>
      dsimp only
      refine ⟨?_, by simp⟩
      intro a ha; exact Or.inl (h1.1 a ha)
    | some len =>
      have hl := h1.2 len hr
      dsimp only
      cases hrb : i.rbf with
      | none =>
        dsimp only
        refine ⟨fun a ha => Or.inl (h1.1 a ha), ?_⟩
        intro n hn; simp at hn; subst hn; exact ⟨hl.1, hl.2.1⟩
      | some rb =>
        dsimp only
        have h2 := unmarshal_cases rb
        have hall : ∀ a ∈ (unmarshalBitfield true i.bf).2 ++ (unmarshalBitfield true rb).2,
            a ≤ i.bf.bytes + 7 ∨ ∃ rb', some rb = some rb' ∧ a ≤ rb'.bytes + 7 := by
          intro a ha
          rcases List.mem_append.mp ha with ha | ha
          · exact Or.inl (h1.1 a ha)
          · exact Or.inr ⟨rb, rfl, h2.1 a ha⟩
        cases hr2 : (unmarshalBitfield true rb).1 with
        | none => dsimp only; exact ⟨hall, by simp⟩
        | some _ =>
          dsimp only
          refine ⟨hall, ?_⟩
          intro n hn; simp at hn; subst hn; exact ⟨hl.1, hl.2.1⟩

/-- in particular a handshake that fits the 32 KiB message cap allocates less than 32 KiB + 8 per bitfield -/
theorem handshake_alloc_bounded (i : HsIn) (hb : i.bf.bytes ≤ maxMessageSize)
    (hr : ∀ rb, i.rbf = some rb → rb.bytes ≤ maxMessageSize) :
    ∀ a ∈ (handshake true i).allocs, a ≤ maxMessageSize + 7 := by
  intro a ha
  rcases (handshake_safe i).1 a ha with h | ⟨rb, hrb, h⟩
  · omega
  · have := hr rb hrb; omega

-- ------------------------------------------------------------------ dispatcher

/-- an input to the dispatcher: a peer that finished its handshake with a bitfield, or a message from a
connected peer -/
inductive DOp where
  | addPeer (k : Nat) (len : Nat) (bits : List Nat)
  | msg (k : Nat) (m : Msg)
  deriving Repr, DecidableEq

/-- a handshake bitfield is a bitset: its set bits lie below its length (the length itself is arbitrary) -/
def DOp.WellFormed : DOp → Prop
  | .addPeer _ len bits => ∀ b ∈ bits, b < len
  | .msg _ _ => True

instance (o : DOp) : Decidable o.WellFormed := by
  cases o <;> simp only [DOp.WellFormed] <;> exact inferInstance

def dstep (rep : Bool) (s : DState) : DOp → DRes
  | .addPeer k len bits => addPeer rep s k len bits
  | .msg k m => dispatch rep s k m

/-- the results of a whole sequence of inputs, each applied to the state the previous one left -/
def dtrace (rep : Bool) : DState → List DOp → List DRes
  | _, [] => []
  | s, o :: os => dstep rep s o :: dtrace rep (dstep rep s o).st os

theorem effectOk_same (s s' : DState) (h : SameTorrent s s') (e : Effect) : EffectOk s' e ↔ EffectOk s e := by
  obtain ⟨h1, h2, h3, _⟩ := h
  cases e <;> simp [EffectOk, validIdx, pieceLength, blobLength, h1, h2, h3]

/-- **C14 (3)** For every well-formed dispatcher state over an agent or an origin torrent and every
sequence of inputs from remote peers — handshake bitfields of any length, every message type with its
sub-message absent or with arbitrary index / offset / length / payload — no step panics; the state stays
well formed (every peer bitfield no longer than the torrent, torrent pieces inside the torrent); and every
effect on the torrent or its bookkeeping has a piece index inside `[0, numPieces)`, reads and writes cover
exactly that piece and lie inside the blob. -/
theorem dispatcher_safe (s0 : DState) (w : WFD s0) (ops : List DOp) (hw : ∀ o ∈ ops, o.WellFormed) :
    ∀ r ∈ dtrace true s0 ops,
      r.out.isPanic = false ∧ WFD r.st ∧ SameTorrent s0 r.st ∧ ∀ e ∈ r.effects, EffectOk s0 e := by
  induction ops generalizing s0 with
  | nil => intro r hr; cases hr
  | cons o os ih =>
    intro r hr
    have hstep : StepOk s0 (dstep true s0 o) := by
      cases o with
      | addPeer k len bits => exact addPeer_ok s0 k len bits w (hw (DOp.addPeer k len bits) (by simp))
      | msg k m => exact dispatch_ok s0 k m w
    simp only [dtrace, List.mem_cons] at hr
    rcases hr with hr | hr
    · subst hr
      exact ⟨hstep.no_panic, hstep.wf, hstep.same, hstep.effects⟩
    · have := ih (dstep true s0 o).st hstep.wf (fun o' ho' => hw o' (List.mem_cons_of_mem _ ho')) r hr
      obtain ⟨a, b, c, d⟩ := this
      obtain ⟨e1, e2, e3, e4⟩ := hstep.same
      obtain ⟨c1, c2, c3, c4⟩ := c
      refine ⟨a, b, ⟨by rw [c1, e1], by rw [c2, e2], by rw [c3, e3], by rw [c4, e4]⟩, ?_⟩
      intro e he
      exact (effectOk_same s0 _ hstep.same e).mp (d e he)

/-- a single message, as the statement sketch of the design has it: any state, any message -/
theorem dispatch_total (s : DState) (w : WFD s) (k : Nat) (m : Msg) :
    (dispatch true s k m).out.isPanic = false ∧ ∀ e ∈ (dispatch true s k m).effects, EffectOk s e :=
  ⟨(dispatch_ok s k m w).no_panic, (dispatch_ok s k m w).effects⟩

-- ------------------------------------------------------------------ the code as it was

def read_message_target (rep : Bool) : Prop :=
  ∀ maxPiece f, (readMessage rep maxPiece f).out.isPanic = false ∧
    ∀ a ∈ (readMessage rep maxPiece f).allocs, a ≤ max maxMessageSize maxPiece

def handshake_target (rep : Bool) : Prop :=
  ∀ i : HsIn, i.bf.bytes ≤ maxMessageSize → (∀ rb, i.rbf = some rb → rb.bytes ≤ maxMessageSize) →
    ∀ a ∈ (handshake rep i).allocs, a ≤ maxMessageSize + 7

def dispatch_total_target (rep : Bool) : Prop :=
  ∀ s, WFD s → ∀ o : DOp, o.WellFormed → (dstep rep s o).out.isPanic = false

theorem read_message_repaired : read_message_target true :=
  fun mp f => ⟨(read_message_safe mp f).1, (read_message_safe mp f).2.1⟩
theorem handshake_repaired : handshake_target true := fun i hb hr => handshake_alloc_bounded i hb hr
theorem dispatch_total_repaired : dispatch_total_target true := by
  intro s w o ho
  cases o with
  | addPeer k len bits => exact (addPeer_ok s k len bits w ho).no_panic
  | msg k m => exact (dispatch_ok s k m w).no_panic

def agent3 : DState :=
  { origin := false, np := 3, pieceLen := 4, lastLen := 4, pieces := [0, 2],
    peers := fun k => if k = 0 then some { len := 3, bits := [0] } else none }
def origin3 : DState := { agent3 with origin := true, pieces := [0, 1, 2] }

theorem wf_peers (s : DState) (hp : s.peers = fun k => if k = 0 then some { len := 3, bits := [0] } else none)
    (hn : s.np = 3) :
    (∀ k p, s.peers k = some p → p.len ≤ s.np) ∧ (∀ k p, s.peers k = some p → ∀ b ∈ p.bits, b < p.len) := by
  constructor
  · intro k p h; rw [hp] at h; dsimp only at h; split at h
    · injection h with h; subst h; simp [hn]
    · cases h
  · intro k p h; rw [hp] at h; dsimp only at h; split at h
    · injection h with h; subst h; simp
    · cases h

theorem wf_agent3 : WFD agent3 :=
  ⟨by decide, by decide, by decide, by decide, (wf_peers agent3 rfl rfl).1, (wf_peers agent3 rfl rfl).2⟩
theorem wf_origin3 : WFD origin3 :=
  ⟨by decide, by decide, by decide, by decide, (wf_peers origin3 rfl rfl).1, (wf_peers origin3 rfl rfl).2⟩

/-- PIECE_PAYLOAD without a body: nil-pointer panic in the read loop -/
theorem not_read_message_original_nil_body : ¬ read_message_target false := by
  intro h
  have := (h 1024 { dlen := 2, avail := 2, parse := some { typ := 2, pp := none } }).1
  revert this; decide

/-- a declared payload length of 64 MiB is allocated on a torrent with 1 KiB pieces (and -1 panics) -/
theorem not_read_message_original_length : ¬ read_message_target false := by
  intro h
  have := (h 1024 { dlen := 9, avail := 9, parse := some { typ := 2, pp := some (0, 0, 67108864) } }).2 67108864 (by decide)
  revert this; decide

/-- 16 bytes of handshake declare 2^30 bits: 128 MiB are allocated -/
theorem not_handshake_original : ¬ handshake_target false := by
  intro h
  have := h { isBitfieldType := true, body := true, pidOk := true, ihOk := true, nameOk := true, bf := { short := false, bits := 1073741824, bytes := 8 }, rbf := none } (by decide) (by simp) 134217728 (by decide)
  revert this; decide

/-- each of these inputs panicked the dispatcher -/
theorem not_dispatch_total_original : ¬ dispatch_total_target false := by
  intro h
  have := h agent3 wf_agent3 (.msg 0 (.error none)) trivial
  revert this; decide

theorem original_panics :
    (dstep false agent3 (.msg 0 (.announce none))).out.isPanic = true ∧
    (dstep false agent3 (.msg 0 (.request none))).out.isPanic = true ∧
    (dstep false agent3 (.msg 0 (.payload none 0 true))).out.isPanic = true ∧
    (dstep false agent3 (.msg 0 (.announce (some (-1))))).out.isPanic = true ∧
    (dstep false agent3 (.msg 0 (.request (some (-1, 0, 0))))).out.isPanic = true ∧
    (dstep false agent3 (.msg 0 (.payload (some (-1, 0, 0)) 0 true))).out.isPanic = true ∧
    (dstep false origin3 (.msg 0 (.request (some (-1, 0, 0))))).out.isPanic = true ∧
    (dstep false agent3 (.addPeer 1 41 [0, 40])).out.isPanic = true := by decide

-- Non-vacuity on the repaired model: well-formed input is served, malformed input is rejected without effect.
example : (dstep true agent3 (.msg 0 (.request (some (2, 0, 4))))).out = .ok (.payload 2 4) := by decide
example : (dstep true agent3 (.msg 0 (.request (some (1, 0, 4))))).out = .ok (.error 1) := by decide
example : (dstep true agent3 (.msg 0 (.request (some (-1, 0, 0))))).out = .ok (.error (-1)) := by decide
example : (dstep true agent3 (.msg 0 (.payload (some (1, 0, 4)) 4 true))).st.pieces = [0, 1, 2] := by decide
example : (dstep true agent3 (.msg 0 (.payload (some (-1, 0, 0)) 0 true))).st.pieces = [0, 2] := by decide
example : (dstep true agent3 (.msg 0 (.announce (some 2)))).effects = [.setBit 2, .count 2] := by decide
example : (dstep true agent3 (.addPeer 1 41 [0, 40])).out = .err := by decide
example : (dstep true agent3 (.addPeer 1 3 [0, 2])).out = .ok .none := by decide
example : (readMessage true 1024 { dlen := 7, avail := 1031, parse := some { typ := 2, pp := some (0, 0, 1024) } }).out
    = .msg 2 (some 1024) := by decide
example : (readMessage true 1024 { dlen := 7, avail := 1031, parse := some { typ := 2, pp := some (0, 0, 1025) } }).out
    = .closeBadPayload := by decide
private def hs3 (bits bytes : Nat) : HsIn :=
  { isBitfieldType := true, body := true, pidOk := true, ihOk := true, nameOk := true,
    bf := { short := false, bits := bits, bytes := bytes }, rbf := none }
example : (handshake true (hs3 3 8)).out = some 3 := by decide
example : (handshake true (hs3 65 8)).out = none := by decide
example : (handshake true (hs3 1073741824 8)).allocs = [] := by decide

end KrakenModel.Spec.C14
