import KrakenModel.Proof.C14
/-
  C14  No input from a remote peer can crash or corrupt a peer.

  Statements are about `Model.PeerInput` (connection read path, handshake decoding, dispatcher message
  handlers over agent and origin torrents), which the correspondence check ties to
  lib/torrent/scheduler/conn, lib/torrent/scheduler/dispatch and lib/torrent/storage.  They quantify over
  every frame / every handshake / every message with every value of every integer field (arbitrary `Int`s,
  sub-messages present or absent) and every sequence of such inputs from any number of peers; `true` selects
  the code as repaired by the `fix:` commits, `false` the code as it was, for which each statement is refuted
  by a concrete input that the harness replays against the real code on every run.
-/
namespace KrakenModel.Spec.C14
open KrakenModel.PeerInput KrakenModel.Proof.C14

-- ------------------------------------------------------------------ connection read path

/-- **C14 (1)** Whatever follows the length prefix — any declared length, any number of bytes, any
decoded message — reading it never panics, allocates at most the 32 KiB message buffer plus one piece
of the connection's torrent, and a piece payload is delivered only when its declared length is at most
the torrent's piece length and that many bytes really followed the message. -/
theorem read_message_safe (maxPiece : Nat) (f : Frame) :
    (readMessage true maxPiece f).out.isPanic = false ∧
    (∀ a ∈ (readMessage true maxPiece f).allocs, a ≤ max maxMessageSize maxPiece) ∧
    (∀ n, (readMessage true maxPiece f).out = .msg 2 (some n) → n ≤ maxPiece ∧ f.dlen + n ≤ f.avail) :=
  read_cases maxPiece f

/-- input is either delivered as a message or ends the connection -/
theorem read_message_rejects_or_delivers (maxPiece : Nat) (f : Frame) :
    (∃ t p, (readMessage true maxPiece f).out = .msg t p) ∨
    (readMessage true maxPiece f).out ∈ [.closeTooLarge, .closeShortBody, .closeUnmarshal, .closeBadPayload, .closeShortPayload] := by
  have h := (read_message_safe maxPiece f).1
  cases ho : (readMessage true maxPiece f).out <;> simp_all [WireOut.isPanic]

-- ------------------------------------------------------------------ handshake

/-- **C14 (2)** Decoding a handshake allocates no more than the bitfield bytes it was given (+7), and
an accepted bitfield has exactly the declared length, which the bytes cover, and the set bits of the words
that were received (which may lie beyond that length: the decoder does not clear them). -/
theorem handshake_safe (i : HsIn) :
    (∀ a ∈ (handshake true i).allocs, a ≤ i.bf.bytes + 7 ∨ ∃ rb, i.rbf = some rb ∧ a ≤ rb.bytes + 7) ∧
    (∀ n sb, (handshake true i).out = some (n, sb) → n = i.bf.bits ∧ sb = i.bf.setBits ∧ n ≤ 8 * i.bf.bytes) := by
  have h1 := unmarshal_cases i.bf
  simp only [handshake]
  split
  · simp
  · cases hr : (unmarshalBitfield true i.bf).1 with
    | none =>
      dsimp only
      refine ⟨?_, by simp⟩
      intro a ha; exact Or.inl (h1.1 a ha)
    | some v =>
      obtain ⟨len, sb0⟩ := v
      have hl := h1.2 len sb0 hr
      dsimp only
      cases hrb : i.rbf with
      | none =>
        dsimp only
        refine ⟨fun a ha => Or.inl (h1.1 a ha), ?_⟩
        intro n sb hn; simp at hn; obtain ⟨e1, e2⟩ := hn; subst e1; subst e2; exact ⟨hl.1, hl.2.1, hl.2.2.1⟩
      | some rb =>
        dsimp only
        have h2 := unmarshal_cases rb
        have hall : ∀ a ∈ (unmarshalBitfield true i.bf).2 ++ (unmarshalBitfield true rb).2,
            a ≤ i.bf.bytes + 7 ∨ ∃ rb', some rb = some rb' ∧ a ≤ rb'.bytes + 7 := by
          intro a ha
          rcases List.mem_append.mp ha with ha | ha
          · exact Or.inl (h1.1 a ha)
          · exact Or.inr ⟨rb, rfl, h2.1 a ha⟩
        cases hr2 : (unmarshalBitfield true rb).1 with
        | none => dsimp only; exact ⟨hall, by simp⟩
        | some _ =>
          dsimp only
          refine ⟨hall, ?_⟩
          intro n sb hn; simp at hn; obtain ⟨e1, e2⟩ := hn; subst e1; subst e2; exact ⟨hl.1, hl.2.1, hl.2.2.1⟩

/-- in particular a handshake that fits the 32 KiB message cap allocates less than 32 KiB + 8 per bitfield -/
theorem handshake_alloc_bounded (i : HsIn) (hb : i.bf.bytes ≤ maxMessageSize)
    (hr : ∀ rb, i.rbf = some rb → rb.bytes ≤ maxMessageSize) :
    ∀ a ∈ (handshake true i).allocs, a ≤ maxMessageSize + 7 := by
  intro a ha
  rcases (handshake_safe i).1 a ha with h | ⟨rb, hrb, h⟩
  · omega
  · have := hr rb hrb; omega

-- ------------------------------------------------------------------ dispatcher

/-- an input to the dispatcher: a peer that finished its handshake with a bitfield, or a message from a
connected peer -/
inductive DOp where
  | addPeer (k : Nat) (len : Nat) (bits : List Nat)
  | msg (k : Nat) (m : Msg)
  /-- the peer's connection ended (`removePeer`) -/
  | close (k : Nat)
  deriving Repr, DecidableEq

def dstep (rep : Bool) (s : DState) : DOp → DRes
  | .addPeer k len bits => addPeer rep s k len bits
  | .msg k m => dispatch rep s k m
  | .close k => removePeer s k

/-- the results of a whole sequence of inputs, each applied to the state the previous one left -/
def dtrace (rep : Bool) : DState → List DOp → List DRes
  | _, [] => []
  | s, o :: os => dstep rep s o :: dtrace rep (dstep rep s o).st os

theorem effectOk_same (s s' : DState) (h : SameTorrent s s') (e : Effect) : EffectOk s' e ↔ EffectOk s e := by
  obtain ⟨h1, h2, h3, _⟩ := h
  cases e <;> simp [EffectOk, validIdx, pieceLength, blobLength, h1, h2, h3]

/-- **C14 (3)** For every well-formed dispatcher state over an agent or an origin torrent and every
sequence of inputs from remote peers — handshake bitfields of any length with ANY bits set (also at or
beyond their own length, as the wire decoder produces them), every message type with its
sub-message absent or with arbitrary index / offset / length / payload, connections ending at any point — no step panics; the state stays
well formed (every peer bitfield no longer than the torrent, torrent pieces inside the torrent); and every
effect on the torrent or its bookkeeping has a piece index inside `[0, numPieces)`, reads and writes cover
exactly that piece and lie inside the blob. -/
theorem dispatcher_safe (s0 : DState) (w : WFD s0) (ops : List DOp) :
    ∀ r ∈ dtrace true s0 ops,
      r.out.isPanic = false ∧ WFD r.st ∧ SameTorrent s0 r.st ∧ ∀ e ∈ r.effects, EffectOk s0 e := by
  induction ops generalizing s0 with
  | nil => intro r hr; cases hr
  | cons o os ih =>
    intro r hr
    have hstep : StepOk s0 (dstep true s0 o) := by
      cases o with
      | addPeer k len bits => exact addPeer_ok s0 k len bits w
      | msg k m => exact dispatch_ok s0 k m w
      | close k => exact removePeer_ok s0 k w
    simp only [dtrace, List.mem_cons] at hr
    rcases hr with hr | hr
    · subst hr
      exact ⟨hstep.no_panic, hstep.wf, hstep.same, hstep.effects⟩
    · have := ih (dstep true s0 o).st hstep.wf r hr
      obtain ⟨a, b, c, d⟩ := this
      obtain ⟨e1, e2, e3, e4⟩ := hstep.same
      obtain ⟨c1, c2, c3, c4⟩ := c
      refine ⟨a, b, ⟨by rw [c1, e1], by rw [c2, e2], by rw [c3, e3], by rw [c4, e4]⟩, ?_⟩
      intro e he
      exact (effectOk_same s0 _ hstep.same e).mp (d e he)

/-- a single message, as the statement sketch of the design has it: any state, any message -/
theorem dispatch_total (s : DState) (w : WFD s) (k : Nat) (m : Msg) :
    (dispatch true s k m).out.isPanic = false ∧ ∀ e ∈ (dispatch true s k m).effects, EffectOk s e :=
  ⟨(dispatch_ok s k m w).no_panic, (dispatch_ok s k m w).effects⟩

/-- **C14 (4)** End to end, handshake to dispatcher: whatever bitfield the handshake decoder accepts — its
length and its set bits exactly as the decoder produces them from the wire — handing it to `addPeer` of any
well-formed dispatcher never panics, keeps the state well formed and counts only pieces of the torrent. No
hypothesis relates the set bits to the declared length. -/
theorem handshake_to_dispatcher_safe (i : HsIn) (len : Nat) (bits : List Nat)
    (hh : (handshake true i).out = some (len, bits)) (s : DState) (w : WFD s) (k : Nat) :
    (addPeer true s k len bits).out.isPanic = false ∧ WFD (addPeer true s k len bits).st ∧
    ∀ e ∈ (addPeer true s k len bits).effects, EffectOk s e := by
  have _ := hh
  exact ⟨(addPeer_ok s k len bits w).no_panic, (addPeer_ok s k len bits w).wf, (addPeer_ok s k len bits w).effects⟩

/-- a peer is only ever registered with a bitfield whose set bits lie below its length, which is at most the
number of pieces: bits beyond the declared length are rejected, not trusted -/
theorem addPeer_accepts_only_clean (s : DState) (k len : Nat) (bits : List Nat)
    (hok : (addPeer true s k len bits).out = .ok .none) : len ≤ s.np ∧ ∀ b ∈ bits, b < len := by
  unfold addPeer at hok
  split at hok
  · cases hok
  · rename_i hl
    simp only [Bool.true_and, Bool.or_eq_true, decide_eq_true_eq, List.any_eq_true, not_or, Nat.not_lt, not_exists,
      not_and, Nat.not_le] at hl
    exact hl

-- ------------------------------------------------------------------ scheduler: incoming handshakes

/-- the connection bookkeeping after a whole sequence of incoming connection attempts (each runs to its end:
accepted and active, or rejected / failed / closed) -/
def incomingAll (rep : Bool) (cfg : ConnState.Config) : ConnState.State → Nat → List InConn → ConnState.State
  | s, _, [] => s
  | s, cid, i :: is => incomingAll rep cfg (incoming rep cfg s cid i).1 (cid + 1) is

/-- **C14 (5)** Scheduler level: whatever handshakes remote peers send — any peer id, any claimed info hash
(the torrent's own, another live torrent's, nobody's), naming a torrent the agent has or not, decodable or
not, with a bitfield the dispatcher accepts or not — once the attempts have run to their end no pending
entry exists that was not there before: nothing a remote peer sends can leave a reservation behind, so the
connection state cannot grow without bound and no torrent's connection capacity can be held by forged
handshakes. -/
theorem incoming_no_pending_leak (cfg : ConnState.Config) (s : ConnState.State) (cid : Nat) (is : List InConn)
    (h p : Nat) (hp : ConnState.lookup (incomingAll true cfg s cid is) h p = some .pending) :
    ConnState.lookup s h p = some .pending := by
  induction is generalizing s cid with
  | nil => exact hp
  | cons i is ih => exact incoming_pending_sub cfg s cid i h p (ih _ _ hp)

def incoming_no_pending_leak_target (rep : Bool) : Prop :=
  ∀ cfg s cid is h p, ConnState.lookup (incomingAll rep cfg s cid is) h p = some .pending →
    ConnState.lookup s h p = some .pending

theorem incoming_no_pending_leak_repaired : incoming_no_pending_leak_target true :=
  fun cfg s cid is h p hp => incoming_no_pending_leak cfg s cid is h p hp

def cfg2 : ConnState.Config := { max := 2, maxMutual := 2, disableBlacklist := false, blacklistDuration := 30 }

/-- the code as it was: a handshake naming torrent 0 and claiming info hash 1 leaves (peer 7, hash 1) pending -/
theorem not_incoming_no_pending_leak_original : ¬ incoming_no_pending_leak_target false := by
  intro h
  have := h cfg2 {} 0 [{ peer := 7, claim := 1, real := some 0, decodable := true, bfOk := true }] 1 7 (by decide)
  revert this; decide

-- non-vacuity: an honest handshake becomes active, a forged one is failed and leaves nothing
example : (incoming true cfg2 {} 0 { peer := 7, claim := 0, real := some 0, decodable := true, bfOk := true }).2 = .active := by decide
example : ConnState.lookup (incoming true cfg2 {} 0 { peer := 7, claim := 0, real := some 0, decodable := true, bfOk := true }).1 0 7
    = some (.active 0) := by decide
example : (incoming true cfg2 {} 0 { peer := 7, claim := 1, real := some 0, decodable := true, bfOk := true }) = ({}, .failed) := by decide

-- ------------------------------------------------------------------ the code as it was

def read_message_target (rep : Bool) : Prop :=
  ∀ maxPiece f, (readMessage rep maxPiece f).out.isPanic = false ∧
    ∀ a ∈ (readMessage rep maxPiece f).allocs, a ≤ max maxMessageSize maxPiece

def handshake_target (rep : Bool) : Prop :=
  ∀ i : HsIn, i.bf.bytes ≤ maxMessageSize → (∀ rb, i.rbf = some rb → rb.bytes ≤ maxMessageSize) →
    ∀ a ∈ (handshake rep i).allocs, a ≤ maxMessageSize + 7

def dispatch_total_target (rep : Bool) : Prop :=
  ∀ s, WFD s → ∀ o : DOp, (dstep rep s o).out.isPanic = false

theorem read_message_repaired : read_message_target true :=
  fun mp f => ⟨(read_message_safe mp f).1, (read_message_safe mp f).2.1⟩
theorem handshake_repaired : handshake_target true := fun i hb hr => handshake_alloc_bounded i hb hr
theorem dispatch_total_repaired : dispatch_total_target true := by
  intro s w o
  cases o with
  | addPeer k len bits => exact (addPeer_ok s k len bits w).no_panic
  | msg k m => exact (dispatch_ok s k m w).no_panic
  | close k => exact (removePeer_ok s k w).no_panic

def agent3 : DState :=
  { origin := false, np := 3, pieceLen := 4, lastLen := 4, pieces := [0, 2],
    peers := fun k => if k = 0 then some { len := 3, bits := [0] } else none }
def origin3 : DState := { agent3 with origin := true, pieces := [0, 1, 2] }

theorem wf_peers (s : DState) (hp : s.peers = fun k => if k = 0 then some { len := 3, bits := [0] } else none)
    (hn : s.np = 3) :
    (∀ k p, s.peers k = some p → p.len ≤ s.np) ∧ (∀ k p, s.peers k = some p → ∀ b ∈ p.bits, b < p.len) := by
  constructor
  · intro k p h; rw [hp] at h; dsimp only at h; split at h
    · injection h with h; subst h; simp [hn]
    · cases h
  · intro k p h; rw [hp] at h; dsimp only at h; split at h
    · injection h with h; subst h; simp
    · cases h

theorem wf_agent3 : WFD agent3 :=
  ⟨by decide, by decide, by decide, by decide, (wf_peers agent3 rfl rfl).1, (wf_peers agent3 rfl rfl).2⟩
theorem wf_origin3 : WFD origin3 :=
  ⟨by decide, by decide, by decide, by decide, (wf_peers origin3 rfl rfl).1, (wf_peers origin3 rfl rfl).2⟩

/-- PIECE_PAYLOAD without a body: nil-pointer panic in the read loop -/
theorem not_read_message_original_nil_body : ¬ read_message_target false := by
  intro h
  have := (h 1024 { dlen := 2, avail := 2, parse := some { typ := 2, pp := none } }).1
  revert this; decide

/-- a declared payload length of 64 MiB is allocated on a torrent with 1 KiB pieces (and -1 panics) -/
theorem not_read_message_original_length : ¬ read_message_target false := by
  intro h
  have := (h 1024 { dlen := 9, avail := 9, parse := some { typ := 2, pp := some (0, 0, 67108864) } }).2 67108864 (by decide)
  revert this; decide

/-- 16 bytes of handshake declare 2^30 bits: 128 MiB are allocated -/
theorem not_handshake_original : ¬ handshake_target false := by
  intro h
  have := h { isBitfieldType := true, body := true, pidOk := true, ihOk := true, nameOk := true, bf := { short := false, bits := 1073741824, bytes := 8 }, rbf := none } (by decide) (by simp) 134217728 (by decide)
  revert this; decide

/-- each of these inputs panicked the dispatcher -/
theorem not_dispatch_total_original : ¬ dispatch_total_target false := by
  intro h
  have := h agent3 wf_agent3 (.msg 0 (.error none))
  revert this; decide

theorem original_panics :
    (dstep false agent3 (.msg 0 (.announce none))).out.isPanic = true ∧
    (dstep false agent3 (.msg 0 (.request none))).out.isPanic = true ∧
    (dstep false agent3 (.msg 0 (.payload none 0 true))).out.isPanic = true ∧
    (dstep false agent3 (.msg 0 (.announce (some (-1))))).out.isPanic = true ∧
    (dstep false agent3 (.msg 0 (.request (some (-1, 0, 0))))).out.isPanic = true ∧
    (dstep false agent3 (.msg 0 (.payload (some (-1, 0, 0)) 0 true))).out.isPanic = true ∧
    (dstep false origin3 (.msg 0 (.request (some (-1, 0, 0))))).out.isPanic = true ∧
    (dstep false agent3 (.addPeer 1 41 [0, 40])).out.isPanic = true ∧
    (dstep false agent3 (.addPeer 1 3 [0, 40])).out.isPanic = true := by decide

-- Non-vacuity on the repaired model: well-formed input is served, malformed input is rejected without effect.
example : (dstep true agent3 (.msg 0 (.request (some (2, 0, 4))))).out = .ok (.payload 2 4) := by decide
example : (dstep true agent3 (.msg 0 (.request (some (1, 0, 4))))).out = .ok (.error 1) := by decide
example : (dstep true agent3 (.msg 0 (.request (some (-1, 0, 0))))).out = .ok (.error (-1)) := by decide
example : (dstep true agent3 (.msg 0 (.payload (some (1, 0, 4)) 4 true))).st.pieces = [0, 1, 2] := by decide
example : (dstep true agent3 (.msg 0 (.payload (some (-1, 0, 0)) 0 true))).st.pieces = [0, 2] := by decide
example : (dstep true agent3 (.msg 0 (.announce (some 2)))).effects = [.setBit 2, .count 2] := by decide
example : (dstep true agent3 (.addPeer 1 41 [0, 40])).out = .err := by decide
example : (dstep true agent3 (.addPeer 1 3 [0, 40])).out = .err := by decide   -- dirty last word: rejected
example : (dstep true agent3 (.addPeer 1 3 [0, 2])).out = .ok .none := by decide
example : (readMessage true 1024 { dlen := 7, avail := 1031, parse := some { typ := 2, pp := some (0, 0, 1024) } }).out
    = .msg 2 (some 1024) := by decide
example : (readMessage true 1024 { dlen := 7, avail := 1031, parse := some { typ := 2, pp := some (0, 0, 1025) } }).out
    = .closeBadPayload := by decide
private def hs3 (bits bytes : Nat) : HsIn :=
  { isBitfieldType := true, body := true, pidOk := true, ihOk := true, nameOk := true,
    bf := { short := false, bits := bits, bytes := bytes }, rbf := none }
example : (handshake true (hs3 3 8)).out = some (3, []) := by decide
example : (handshake true (hs3 65 8)).out = none := by decide
example : (handshake true (hs3 1073741824 8)).allocs = [] := by decide

end KrakenModel.Spec.C14
