import KrakenModel.Util.LTS
import KrakenModel.Model.MemCache
import KrakenModel.Model.CAStoreMem
import KrakenModel.Model.LRUCache
import KrakenModel.Proof.C13
/-
  C13  Memory caches stay within budget and their accounting balances.

  Part A: utils/cache.BlobMemoryCache (`Model.MemCache`) — on its own, with the reservations held by
  its callers as ghost state (`Proof.C13.Mem.G`), and composed with its only caller, the write-through
  path of lib/store.CAStore (`Model.CAStoreMem`).  Part B: utils/cache.LRUCache (`Model.LRUCache`).
  All histories are unbounded lists of operations with arbitrary sizes, names, times.
-/
namespace KrakenModel.Spec.C13
open KrakenModel KrakenModel.Proof.C13

/-! ## Part A — BlobMemoryCache -/
section A
open KrakenModel.MemCache

/-- **C13 (A1)** `TryReserve` admits a reservation only if the accounted bytes plus the request fit the
budget — in exact arithmetic, for every state and every size (sizes up to and beyond 2^64 included:
the comparison does not add, nothing wraps) — and then accounts exactly the request. -/
theorem reserve_within_budget (m : MemCache.State) (size : Nat) (h : (tryReserve m size).2 = true) :
    m.total + size ≤ m.maxSize ∧ (tryReserve m size).1.total = m.total + size ∧
    (tryReserve m size).1.entries = m.entries := by
  obtain ⟨heq, hle⟩ := tryReserve_ok h
  exact ⟨hle, by rw [heq], by rw [heq]⟩

/-- a refused reservation changes nothing -/
theorem reserve_refused_unchanged (m : MemCache.State) (size : Nat) (h : (tryReserve m size).2 = false) :
    (tryReserve m size).1 = m := by
  unfold tryReserve at h ⊢
  split
  · rfl
  · rename_i hc; simp [hc] at h

def msys (max : Nat) : Sys Mem.G Mem.MOp := { init := { m := MemCache.init max }, step := Mem.step }

/-- **C13 (A2)** For every history of reserve / release / add / remove / removeBatch / expiry-scan calls,
by any callers and without any discipline, the accounted bytes never exceed `MaxSize`. -/
theorem total_within_budget (max : Nat) (ops : List Mem.MOp) :
    ((msys max).run ops).m.total ≤ max := by
  have h := Sys.run_inv (msys max) (fun g => g.m.total ≤ g.m.maxSize ∧ g.m.maxSize = max)
    ⟨Nat.zero_le _, rfl⟩
    (fun g o hg => by
      have := Mem.step_le g o hg.1
      exact ⟨this.1, this.2.trans hg.2⟩) ops
  have h1 := h.1
  rw [h.2] at h1
  exact h1

/-- **C13 (A3)** Balance: for every history in which callers release only reservations they hold and add
only entries whose length equals a reservation they hold, accounted bytes = bytes of the stored entries
+ outstanding reservations; hence stored + reserved bytes never exceed `MaxSize`, and entry names are
distinct. -/
theorem accounting_balanced (max : Nat) (ops : List Mem.MOp)
    (hw : (msys max).WFHist Mem.pre (msys max).init ops) :
    let g := (msys max).run ops
    g.m.total = stored g.m + g.out.sum ∧ stored g.m + g.out.sum ≤ max ∧ (KV.keys g.m.entries).Nodup := by
  have hg : Mem.GoodAcct ((msys max).run ops) :=
    Sys.runFrom_inv_pre (msys max) Mem.pre Mem.GoodAcct (fun g o h hp => Mem.step_good g o h hp) ops (msys max).init
      ⟨by simp [msys, MemCache.init, stored], by simp [msys, MemCache.init, KV.keys]⟩ hw
  have hle := total_within_budget max ops
  exact ⟨hg.bal, by rw [← hg.bal]; exact hle, hg.nodup⟩

/-- The discipline is necessary: an entry longer than its reservation unbalances the account for good
(this is what the write-through caller did before the repair). -/
theorem undisciplined_add_unbalances :
    let e : Entry := { data := [0, 0, 0, 0, 0], mi := { name := "", length := 0, pieceLength := 0, sums := [] }, createdAt := 0 }
    let g := (msys 8).run [.reserve 3, .add "a" e 3, .remove "a"]
    g.m.total = 0 ∧ ((msys 8).run [.reserve 3, .add "a" e 3]).m.total = 3 ∧ stored ((msys 8).run [.reserve 3, .add "a" e 3]).m = 5 := by
  decide

end A

section Store
open KrakenModel.CAStoreMem
open KrakenModel.MemCache (stored Entry)
variable (H : Bytes → Name) (crc : Bytes → Nat)

/-- **C13 (A4)** The write-through caller composed with the cache: after every history of store
operations (uploads, commits, cache writes, write-through refreshes whose Stat size, streamed length and
content are unrelated, failing or duplicate writes, drain ticks, TTL sweeps) no reservation is left
behind: accounted bytes = bytes of the entries in memory, within `MaxSize`, names distinct.  No
assumption on the hash, the configuration or the sizes. -/
theorem store_accounting_balanced (cfg : Cfg) (ops : List Op) :
    let s := run H crc cfg ops
    s.mem.total = stored s.mem ∧ s.mem.total ≤ s.mem.maxSize ∧ (KV.keys s.mem.entries).Nodup := by
  suffices h : ∀ (s : CAStoreMem.State), Store.Acct s → Store.Acct (ops.foldl (step H crc) s) by
    have := h (init cfg) ⟨by simp [init, MemCache.init, stored], by simp [init, MemCache.init, KV.keys], Nat.zero_le _⟩
    exact ⟨this.bal, this.le, this.nodup⟩
  induction ops with
  | nil => intro s hs; exact hs
  | cons o ops ih => intro s hs; exact ih _ (Store.apply_acct hs o)

/-- **C13 (A5)** Every write-through call either leaves the memory cache exactly as it found it — the
reservation was refused, or it was made and released again because the write failed, the stream had
the wrong length or digest, or the name was already cached — or it succeeded through the memory path and
added exactly one entry whose length is the reserved size. -/
theorem write_through_releases (s : CAStoreMem.State) (name : Name) (size : Nat) (atts : List Attempt) (pl : Int) :
    (writeBlob H crc s name size atts pl).1.mem = s.mem ∨
    ((writeBlob H crc s name size atts pl).2 = .ok ∧
     ∃ e : Entry, e.size = size ∧
       (writeBlob H crc s name size atts pl).1.mem = { s.mem with entries := (name, e) :: s.mem.entries, total := s.mem.total + size }) :=
  Store.writeBlob_mem s name size atts pl

/-- in particular a failed write-through call returns its reservation -/
theorem failed_write_releases (s : CAStoreMem.State) (name : Name) (size : Nat) (atts : List Attempt) (pl : Int)
    (hf : (writeBlob H crc s name size atts pl).2 ≠ .ok) : (writeBlob H crc s name size atts pl).1.mem = s.mem := by
  rcases write_through_releases H crc s name size atts pl with h | ⟨hok, _⟩
  · exact h
  · exact absurd hok hf

end Store

/-! ## Part B — LRUCache -/
section B
open KrakenModel.LRUCache LRU

/-- time of the last `Add` of each key that was not deleted or cleared since (ghost) -/
def track (f : String → Option Int) : Op → String → Option Int
  | .add t k => fun x => if x = k then some t else f x
  | .delete k => fun x => if x = k then none else f x
  | .clear => fun _ => none

def lastAdd (ops : List Op) : String → Option Int := ops.foldl track (fun _ => none)

structure GoodLRU (s : LRUCache.State) (f : String → Option Int) : Prop where
  nodup : (keys s.entries).Nodup
  bounded : s.entries.length ≤ s.cfg.size
  stamped : ∀ p ∈ s.entries, f p.1 = some (p.2 - s.cfg.ttl)

theorem step_cfg (s : LRUCache.State) (o : Op) : (LRUCache.step s o).cfg = s.cfg := by
  cases o with
  | add now k => simp only [LRUCache.step, LRUCache.add]; split <;> rfl
  | delete k => rfl
  | clear => rfl

theorem step_goodLRU (s : LRUCache.State) (f : String → Option Int) (o : Op) (h : GoodLRU s f) :
    GoodLRU (LRUCache.step s o) (track f o) := by
  obtain ⟨hn, hb, hst⟩ := h
  cases o with
  | add now k =>
    simp only [LRUCache.step, LRUCache.add, track]
    split
    · rename_i e he
      have hsub := eraseKey_sublist s.entries k
      have hnk := eraseKey_not_key hn k
      refine ⟨?_, ?_, ?_⟩
      · simp only [keys, List.map_append, List.map_cons, List.map_nil]
        rw [List.nodup_append]
        refine ⟨List.Nodup.sublist (keys_sublist hsub) hn, by simp, ?_⟩
        intro a ha b hb; simp at hb; subst hb; intro e; subst e; exact hnk ha
      · have := eraseKey_length he
        simp only [List.length_append, List.length_cons, List.length_nil]; omega
      · intro p hp
        rcases List.mem_append.mp hp with hp | hp
        · have hne : p.1 ≠ k := fun e => hnk (List.mem_map.mpr ⟨p, hp, e⟩)
          simp only [hne, if_false]
          exact hst p (hsub.subset hp)
        · simp at hp; subst hp; simp
    · rename_i hnone
      have hk : k ∉ keys s.entries := find_none_not_key hnone
      have hsub : (enforce s.cfg.size (live (s.entries ++ [(k, now + s.cfg.ttl)]) now)).Sublist (s.entries ++ [(k, now + s.cfg.ttl)]) :=
        (enforce_sublist _ _).trans (live_sublist _ _)
      have hnd : (keys (s.entries ++ [(k, now + s.cfg.ttl)])).Nodup := by
        simp only [keys, List.map_append, List.map_cons, List.map_nil]
        rw [List.nodup_append]
        refine ⟨hn, by simp, ?_⟩
        intro a ha b hb; simp at hb; subst hb; intro e; subst e; exact hk ha
      refine ⟨List.Nodup.sublist (keys_sublist hsub) hnd, enforce_length _ _, ?_⟩
      intro p hp
      rcases List.mem_append.mp (hsub.subset hp) with hp | hp
      · have hne : p.1 ≠ k := fun e => hk (List.mem_map.mpr ⟨p, hp, e⟩)
        simp only [hne, if_false]
        exact hst p hp
      · simp at hp; subst hp; simp
  | delete k =>
    simp only [LRUCache.step, LRUCache.delete, track]
    have hsub := eraseKey_sublist s.entries k
    have hnk := eraseKey_not_key hn k
    refine ⟨List.Nodup.sublist (keys_sublist hsub) hn, Nat.le_trans hsub.length_le hb, ?_⟩
    intro p hp
    have hne : p.1 ≠ k := fun e => hnk (List.mem_map.mpr ⟨p, hp, e⟩)
    simp only [hne, if_false]
    exact hst p (hsub.subset hp)
  | clear =>
    simp only [LRUCache.step, LRUCache.clear, track]
    exact ⟨by simp [keys], Nat.zero_le _, by intro p hp; cases hp⟩

theorem run_goodLRU (cfg : LRUCache.Cfg) (ops : List Op) : GoodLRU (LRUCache.run cfg ops) (lastAdd ops) ∧ (LRUCache.run cfg ops).cfg = cfg := by
  suffices h : ∀ (s : LRUCache.State) (f : String → Option Int), GoodLRU s f →
      GoodLRU (ops.foldl LRUCache.step s) (ops.foldl track f) ∧ (ops.foldl LRUCache.step s).cfg = s.cfg from
    h (LRUCache.init cfg) _ ⟨by simp [LRUCache.init, keys], Nat.zero_le _, by intro p hp; cases hp⟩
  induction ops with
  | nil => intro s f h; exact ⟨h, rfl⟩
  | cons o ops ih =>
    intro s f h
    have := ih _ _ (step_goodLRU s f o h)
    exact ⟨this.1, this.2.trans (step_cfg s o)⟩

/-- **C13 (B1)** For every history of Add / Delete / Clear at arbitrary times the cache never holds more
keys than configured, and no key twice. -/
theorem lru_size_bounded (cfg : LRUCache.Cfg) (ops : List Op) :
    LRUCache.size (LRUCache.run cfg ops) ≤ cfg.size ∧ (keys (LRUCache.run cfg ops).entries).Nodup := by
  obtain ⟨h, hc⟩ := run_goodLRU cfg ops
  exact ⟨by simpa [LRUCache.size, hc] using h.bounded, h.nodup⟩

/-- **C13 (B2)** `Has` never reports an expired key: if it answers true at time `now`, the key's last
`Add` (not followed by a Delete or Clear) happened at some `t` with `now ≤ t + TTL`. -/
theorem lru_has_sound (cfg : LRUCache.Cfg) (ops : List Op) (now : Int) (k : String)
    (h : LRUCache.has (LRUCache.run cfg ops) now k = true) :
    ∃ t, lastAdd ops k = some t ∧ now ≤ t + cfg.ttl := by
  obtain ⟨hg, hc⟩ := run_goodLRU cfg ops
  unfold LRUCache.has at h
  split at h
  · cases h
  · rename_i e he
    have hm := find_some_mem he
    have hs := hg.stamped _ hm
    refine ⟨e - cfg.ttl, by simpa [hc] using hs, ?_⟩
    have : ¬ now > e := by simpa using h
    omega

/-- times never run backwards along the history (`time.Now()` of a monotone clock) -/
def mono : Int → List Op → Prop
  | _, [] => True
  | T, .add t _ :: r => T ≤ t ∧ mono t r
  | T, _ :: r => mono T r

instance : ∀ (T : Int) (ops : List Op), Decidable (mono T ops)
  | _, [] => isTrue trivial
  | T, .add t k :: r => by unfold mono; exact @instDecidableAnd _ _ _ (instDecidableMono t r)
  | T, .delete _ :: r => by unfold mono; exact instDecidableMono T r
  | T, .clear :: r => by unfold mono; exact instDecidableMono T r
where instDecidableMono : ∀ (T : Int) (ops : List Op), Decidable (mono T ops)
  | _, [] => isTrue trivial
  | T, .add t k :: r => by unfold mono; exact @instDecidableAnd _ _ _ (instDecidableMono t r)
  | T, .delete _ :: r => by unfold mono; exact instDecidableMono T r
  | T, .clear :: r => by unfold mono; exact instDecidableMono T r

def SortedUpTo (s : LRUCache.State) (T : Int) : Prop :=
  s.entries.Pairwise (fun a b => a.2 ≤ b.2) ∧ ∀ p ∈ s.entries, p.2 ≤ T + s.cfg.ttl

theorem sorted_run (ops : List Op) : ∀ (s : LRUCache.State) (T : Int), SortedUpTo s T → mono T ops →
    (ops.foldl LRUCache.step s).entries.Pairwise (fun a b => a.2 ≤ b.2) := by
  induction ops with
  | nil => intro s T h _; exact h.1
  | cons o ops ih =>
    intro s T h hm
    cases o with
    | add now k =>
      obtain ⟨hT, hm'⟩ := hm
      refine ih _ now ?_ hm'
      have happ : ∀ (es : List (String × Int)), es.Sublist s.entries →
          (es ++ [(k, now + s.cfg.ttl)]).Pairwise (fun a b => a.2 ≤ b.2) ∧
          ∀ p ∈ es ++ [(k, now + s.cfg.ttl)], p.2 ≤ now + s.cfg.ttl := by
        intro es hsub
        refine ⟨?_, ?_⟩
        · rw [List.pairwise_append]
          refine ⟨h.1.sublist hsub, by simp, ?_⟩
          intro a ha b hb
          simp at hb; subst hb
          have := h.2 a (hsub.subset ha)
          simp only; omega
        · intro p hp
          rcases List.mem_append.mp hp with hp | hp
          · have := h.2 p (hsub.subset hp); omega
          · simp at hp; subst hp; simp
      simp only [LRUCache.step, LRUCache.add]
      split
      · exact happ _ (eraseKey_sublist _ _)
      · have := happ s.entries (List.Sublist.refl _)
        have hsub : (enforce s.cfg.size (live (s.entries ++ [(k, now + s.cfg.ttl)]) now)).Sublist (s.entries ++ [(k, now + s.cfg.ttl)]) :=
          (enforce_sublist _ _).trans (live_sublist _ _)
        exact ⟨this.1.sublist hsub, fun p hp => this.2 p (hsub.subset hp)⟩
    | delete k =>
      refine ih _ T ?_ hm
      have hsub := eraseKey_sublist s.entries k
      exact ⟨h.1.sublist hsub, fun p hp => h.2 p (hsub.subset hp)⟩
    | clear =>
      refine ih _ T ?_ hm
      exact ⟨by simp [LRUCache.step, LRUCache.clear], by intro p hp; simp [LRUCache.step, LRUCache.clear] at hp⟩

/-- **C13 (B3)** With a monotone clock the internal order is the order of last Add/refresh: expiry stamps
(= time of the last Add + TTL) ascend from the front. -/
theorem lru_order_by_recency (cfg : LRUCache.Cfg) (T0 : Int) (ops : List Op) (hm : mono T0 ops) :
    (LRUCache.run cfg ops).entries.Pairwise (fun a b => a.2 ≤ b.2) :=
  sorted_run ops (LRUCache.init cfg) T0 ⟨by simp [LRUCache.init], by intro p hp; simp [LRUCache.init] at hp⟩ hm

/-- **C13 (B4)** Eviction for size takes from the front only: adding a new key keeps a suffix of the
unexpired entries (with the new key last), and whenever the order is by recency every dropped key was
added or refreshed no later than every key that stays. -/
theorem lru_evicts_oldest_first (s : LRUCache.State) (now : Int) (k : String) (hnew : find s.entries k = none)
    (hs : s.entries.Pairwise (fun a b => a.2 ≤ b.2)) (hT : ∀ p ∈ s.entries, p.2 ≤ now + s.cfg.ttl) :
    let L := live (s.entries ++ [(k, now + s.cfg.ttl)]) now
    (∃ n, (LRUCache.add s now k).entries = L.drop n) ∧
    ∀ p ∈ L, p ∉ (LRUCache.add s now k).entries → ∀ q ∈ (LRUCache.add s now k).entries, p.2 ≤ q.2 := by
  intro L
  have hadd : (LRUCache.add s now k).entries = L.drop (L.length - s.cfg.size) := by
    simp [LRUCache.add, hnew, enforce, L]
  refine ⟨⟨_, hadd⟩, ?_⟩
  intro p hp hnp q hq
  rw [hadd] at hnp hq
  have hLs : L.Pairwise (fun a b => a.2 ≤ b.2) := by
    have : (s.entries ++ [(k, now + s.cfg.ttl)]).Pairwise (fun a b => a.2 ≤ b.2) := by
      rw [List.pairwise_append]
      refine ⟨hs, by simp, ?_⟩
      intro a ha b hb; simp at hb; subst hb; exact hT a ha
    exact this.sublist (live_sublist _ _)
  have hsplit := List.take_append_drop (L.length - s.cfg.size) L
  rw [← hsplit] at hp hLs
  rcases List.mem_append.mp hp with hp | hp
  · exact (List.pairwise_append.mp hLs).2.2 p hp q hq
  · exact absurd hp hnp

/-- time of the last `Add` of the history (the start time if there is none) -/
def lastT : Int → List Op → Int
  | T, [] => T
  | _, .add t _ :: r => lastT t r
  | T, _ :: r => lastT T r

theorem sorted_run_upTo (ops : List Op) : ∀ (s : LRUCache.State) (T : Int), SortedUpTo s T → mono T ops →
    SortedUpTo (ops.foldl LRUCache.step s) (lastT T ops) := by
  induction ops with
  | nil => intro s T h _; exact h
  | cons o ops ih =>
    intro s T h hm
    cases o with
    | add now k =>
      obtain ⟨hT, hm'⟩ := hm
      refine ih _ now ?_ hm'
      have hcfg : (LRUCache.step s (.add now k)).cfg = s.cfg := step_cfg s _
      have happ : ∀ (es : List (String × Int)), es.Sublist s.entries →
          (es ++ [(k, now + s.cfg.ttl)]).Pairwise (fun a b => a.2 ≤ b.2) ∧
          ∀ p ∈ es ++ [(k, now + s.cfg.ttl)], p.2 ≤ now + s.cfg.ttl := by
        intro es hsub
        refine ⟨?_, ?_⟩
        · rw [List.pairwise_append]
          refine ⟨h.1.sublist hsub, by simp, ?_⟩
          intro a ha b hb
          simp at hb; subst hb
          have := h.2 a (hsub.subset ha)
          simp only; omega
        · intro p hp
          rcases List.mem_append.mp hp with hp | hp
          · have := h.2 p (hsub.subset hp); omega
          · simp at hp; subst hp; simp
      unfold SortedUpTo
      rw [hcfg]
      simp only [LRUCache.step, LRUCache.add]
      split
      · exact happ _ (eraseKey_sublist _ _)
      · have := happ s.entries (List.Sublist.refl _)
        have hsub : (enforce s.cfg.size (live (s.entries ++ [(k, now + s.cfg.ttl)]) now)).Sublist (s.entries ++ [(k, now + s.cfg.ttl)]) :=
          (enforce_sublist _ _).trans (live_sublist _ _)
        exact ⟨this.1.sublist hsub, fun p hp => this.2 p (hsub.subset hp)⟩
    | delete k =>
      refine ih _ T ?_ hm
      have hsub := eraseKey_sublist s.entries k
      exact ⟨h.1.sublist hsub, fun p hp => h.2 p (hsub.subset hp)⟩
    | clear =>
      refine ih _ T ?_ hm
      exact ⟨by simp [LRUCache.step, LRUCache.clear], by intro p hp; simp [LRUCache.step, LRUCache.clear] at hp⟩

theorem mono_append (ops : List Op) (now : Int) (k : String) : ∀ (T : Int), mono T (ops ++ [.add now k]) →
    mono T ops ∧ lastT T ops ≤ now := by
  induction ops with
  | nil => intro T h; simp only [List.nil_append, mono] at h; exact ⟨trivial, h.1⟩
  | cons o ops ih =>
    intro T h
    cases o with
    | add t k' =>
      simp only [List.cons_append, mono] at h
      have := ih t h.2
      exact ⟨⟨h.1, this.1⟩, this.2⟩
    | delete k' => simp only [List.cons_append, mono] at h; exact ih T h
    | clear => simp only [List.cons_append, mono] at h; exact ih T h

/-- **C13 (B5)** "drops the least recently added or refreshed key first", for histories: after any history
with a monotone clock, adding a new key at a later time keeps a suffix of the unexpired entries, and every
key dropped for size was added or refreshed no later than every key that stays. -/
theorem lru_history_evicts_oldest (cfg : LRUCache.Cfg) (T0 : Int) (ops : List Op) (now : Int) (k : String)
    (hm : mono T0 (ops ++ [.add now k])) (hnew : find (LRUCache.run cfg ops).entries k = none) :
    let s := LRUCache.run cfg ops
    let L := live (s.entries ++ [(k, now + s.cfg.ttl)]) now
    (∃ n, (LRUCache.add s now k).entries = L.drop n) ∧
    ∀ p ∈ L, p ∉ (LRUCache.add s now k).entries → ∀ q ∈ (LRUCache.add s now k).entries, p.2 ≤ q.2 := by
  obtain ⟨hm1, hle⟩ := mono_append ops now k T0 hm
  have hs := sorted_run_upTo ops (LRUCache.init cfg) T0
    ⟨by simp [LRUCache.init], by intro p hp; simp [LRUCache.init] at hp⟩ hm1
  exact lru_evicts_oldest_first (LRUCache.run cfg ops) now k hnew hs.1
    (fun p hp => by
      have := hs.2 p hp
      have e : (List.foldl LRUCache.step (LRUCache.init cfg) ops).cfg.ttl = (LRUCache.run cfg ops).cfg.ttl := rfl
      rw [e] at this
      omega)

theorem mem_eraseKey_of_ne (es : List (String × Int)) (k : String) (p : String × Int) (hp : p ∈ es) (hne : p.1 ≠ k) :
    p ∈ eraseKey es k := by
  induction es with
  | nil => cases hp
  | cons x rest ih =>
    obtain ⟨k', e⟩ := x
    simp only [eraseKey]
    by_cases hk : k = k'
    · simp only [hk, if_true]
      cases hp with
      | head => exact absurd hk.symm hne
      | tail _ h => exact h
    · simp only [hk, if_false]
      cases hp with
      | head => exact List.mem_cons_self
      | tail _ h => exact List.mem_cons_of_mem _ (ih h)

/-- Delete removes exactly the named key and keeps the relative order (oldest first) of all other entries:
after any history, the entries after `Delete k` are a sublist of the entries before (same order), every entry of
another key is still there, and `k` is gone.  Together with `lru_history_evicts_oldest` (whose histories include
deletes) this fixes which key the next size eviction takes: the oldest remaining one. -/
theorem lru_delete_keeps_order (cfg : LRUCache.Cfg) (ops : List Op) (k : String) :
    let s := LRUCache.run cfg ops
    (LRUCache.delete s k).entries.Sublist s.entries ∧
    (∀ p ∈ s.entries, p.1 ≠ k → p ∈ (LRUCache.delete s k).entries) ∧
    find (LRUCache.delete s k).entries k = none ∧
    LRUCache.has (LRUCache.delete s k) 0 k = false := by
  have hg := (run_goodLRU cfg ops).1
  have hnk : k ∉ keys (eraseKey (LRUCache.run cfg ops).entries k) := eraseKey_not_key hg.nodup k
  have hfind : find (eraseKey (LRUCache.run cfg ops).entries k) k = none := by
    cases h : find (eraseKey (LRUCache.run cfg ops).entries k) k with
    | none => rfl
    | some e =>
      exact absurd (List.mem_map.mpr ⟨(k, e), find_some_mem h, rfl⟩) hnk
  refine ⟨eraseKey_sublist _ _, fun p hp hne => mem_eraseKey_of_ne _ _ _ hp hne, hfind, ?_⟩
  simp only [LRUCache.has, LRUCache.delete, hfind]

/-- non-vacuity, delete then evict: limit 3, `a b c` cached, `a` deleted, then `d` and `e` added: the eviction
takes `b` (oldest remaining), not `c`. -/
example : (LRUCache.run { size := 3, ttl := 1000 }
    [.add 0 "a", .add 1 "b", .add 2 "c", .delete "a", .add 3 "d", .add 4 "e"]).entries
    = [("c", 1002), ("d", 1003), ("e", 1004)] := by decide

/-- non-vacuity: a history with a refresh, an expiry and a size eviction -/
def demo : List Op := [.add 0 "a", .add 1 "b", .add 2 "a", .add 3 "c", .add 30 "d"]
example : mono 0 demo := by decide
example : (LRUCache.run { size := 2, ttl := 10 } demo).entries = [("d", 40)] := by decide
example : (LRUCache.run { size := 2, ttl := 100 } demo).entries = [("c", 103), ("d", 130)] := by decide
example : LRUCache.has (LRUCache.run { size := 2, ttl := 10 } [.add 0 "a"]) 10 "a" = true ∧
          LRUCache.has (LRUCache.run { size := 2, ttl := 10 } [.add 0 "a"]) 11 "a" = false := by decide
example : (msys 10).WFHist Mem.pre (msys 10).init [.reserve 4, .reserve 7, .release 4, .reserve 6] := by decide

end B

end KrakenModel.Spec.C13
