import KrakenModel.Model.IdCodec
import KrakenModel.Proof.C39
/-
  C39  Identifiers and metadata serialize and parse losslessly.
  Statements are about `Model.IdCodec`, tied by the correspondence check to core/digest.go,
  core/infohash.go, core/peer_id.go, lib/store/metadata, agentstorage/pieces.go and
  conn/handshaker.go.  Every statement is for all values / all input strings (no length bound).
-/
namespace KrakenModel.Spec.C39
open KrakenModel.IdCodec KrakenModel.Codec KrakenModel.Proof.C39

/-! ### hex -/

/-- decoding the hex of any byte string gives the bytes back -/
theorem hex_roundtrip (bs : Bytes) (h : ∀ b ∈ bs, b < 256) : hexDecode (hexEncode bs) = some bs :=
  hexDecode_hexEncode bs h

/-- hex decoding accepts exactly the even-length strings over [0-9a-fA-F] -/
theorem hex_accepts_exactly (s : List Char) :
    (hexDecode s).isSome = true ↔ s.length % 2 = 0 ∧ ∀ c ∈ s, isHex c = true := by
  rw [hexDecode_isSome_iff]; simp

/-! ### digests -/

/-- a digest is valid iff its hex part is 64 hexadecimal characters -/
def ValidDigest (d : Digest) : Prop := d.hex.length = 64 ∧ d.hex.all isHex = true

instance (d : Digest) : Decidable (ValidDigest d) := by unfold ValidDigest; exact inferInstance

/-- **C39 digest round trip**: parsing the printed form of any valid digest returns that digest -/
theorem digest_roundtrip (d : Digest) (hv : ValidDigest d) : parseSHA256Digest d.raw = .ok d :=
  parse_raw d ((validateSHA256_none_iff d.hex).mpr hv)

/-- **C39 digest language**: `ParseSHA256Digest` accepts exactly `sha256:` followed by 64
hexadecimal characters, and returns the digest whose hex part is those characters -/
theorem digest_accepts_exactly (raw : List Char) (d : Digest) :
    parseSHA256Digest raw = .ok d ↔ raw = sha256Prefix ++ d.hex ∧ ValidDigest d := by
  constructor
  · intro h
    obtain ⟨h1, h2⟩ := parse_ok_imp raw d h
    exact ⟨h1, (validateSHA256_none_iff d.hex).mp h2⟩
  · rintro ⟨h1, h2⟩
    rw [h1]; exact digest_roundtrip d h2

/-- `NewSHA256DigestFromHex` accepts exactly the 64-character hex strings -/
theorem digestFromHex_accepts_exactly (s : List Char) (d : Digest) :
    newSHA256DigestFromHex s = .ok d ↔ d.hex = s ∧ ValidDigest d := by
  unfold newSHA256DigestFromHex
  constructor
  · intro h
    split at h
    · cases h
    · rename_i hv; cases h; exact ⟨rfl, (validateSHA256_none_iff s).mp hv⟩
  · rintro ⟨rfl, hv⟩
    rw [(validateSHA256_none_iff d.hex).mpr hv]

/-- **C39 digest list**: a list of valid digests (nil, empty or not) survives JSON -/
theorem digestList_roundtrip (l : Option (List Digest)) (hv : ∀ ds, l = some ds → ∀ d ∈ ds, ValidDigest d) :
    parseDigestList (digestListJSON l) = some l := by
  cases l with
  | none => rfl
  | some ds =>
    cases ds with
    | nil => rfl
    | cons d ds =>
      have hv' : ∀ x ∈ d :: ds, validateSHA256 x.hex = none :=
        fun x hx => (validateSHA256_none_iff x.hex).mpr (hv _ rfl x hx)
      have hs := scanDigests_list d ds [] hv'
      have e : digestListJSON (some (d :: ds)) =
          '[' :: ('"' :: d.raw ++ ['"'] ++ (ds.flatMap fun x => ',' :: '"' :: x.raw ++ ['"']) ++ [']']) := rfl
      have h1 : ('[' :: ('"' :: d.raw ++ ['"'] ++ (ds.flatMap fun x => ',' :: '"' :: x.raw ++ ['"']) ++ [']']))
          ≠ ['n','u','l','l'] := by simp
      have h2 : ('[' :: ('"' :: d.raw ++ ['"'] ++ (ds.flatMap fun x => ',' :: '"' :: x.raw ++ ['"']) ++ [']']))
          ≠ ['[',']'] := by simp
      have hr : readDigestList (digestListJSON (some (d :: ds))) = some (some (d :: ds)) := by
        rw [e]; unfold readDigestList; rw [if_neg h1, if_neg h2]; simp only [hs, List.nil_append]
      unfold parseDigestList
      rw [hr]
      simp

/-- the model list parser never invents a list: it accepts exactly what `digestListJSON` prints -/
theorem digestList_sound (s : List Char) (l : Option (List Digest)) (h : parseDigestList s = some l) :
    digestListJSON l = s := by
  unfold parseDigestList at h
  split at h
  · split at h
    · rename_i hc; cases h; exact hc
    · cases h
  · cases h

/-! ### info hash, peer id -/

def Id20 (b : Bytes) : Prop := b.length = 20 ∧ ∀ x ∈ b, x < 256

/-- **C39 info hash round trip** -/
theorem infoHash_roundtrip (h : Bytes) (wf : Id20 h) : newInfoHashFromHex (hexEncode h) = .ok h := by
  have hl : (hexEncode h).length = 40 := by rw [hexEncode_length, wf.1]
  simp [newInfoHashFromHex, hl, hexDecode_hexEncode h wf.2, wf.1]

/-- `NewInfoHashFromHex` accepts exactly the 40-character hex strings (and yields 20 bytes) -/
theorem infoHash_accepts_exactly (s : List Char) :
    (∃ h, newInfoHashFromHex s = .ok h) ↔ s.length = 40 ∧ ∀ c ∈ s, isHex c = true := by
  unfold newInfoHashFromHex
  constructor
  · rintro ⟨h, hh⟩
    split at hh
    · cases hh
    · rename_i hl
      split at hh
      · cases hh
      · rename_i bs hd
        have := (hex_accepts_exactly s).mp (by rw [hd]; rfl)
        exact ⟨by omega, this.2⟩
  · rintro ⟨hl, hall⟩
    have hsome := (hex_accepts_exactly s).mpr ⟨by omega, hall⟩
    cases hd : hexDecode s with
    | none => rw [hd] at hsome; cases hsome
    | some bs =>
      have := (hexDecode_length s bs hd).1
      have hb : bs.length = 20 := by omega
      exact ⟨bs, by simp [hl, hb]⟩

theorem infoHash_parse_is20 (s : List Char) (h : Bytes) (hh : newInfoHashFromHex s = .ok h) : Id20 h := by
  unfold newInfoHashFromHex at hh
  split at hh
  · cases hh
  · split at hh
    · cases hh
    · rename_i bs hd
      split at hh
      · cases hh
      · rename_i hb; cases hh
        exact ⟨by omega, (hexDecode_length s _ hd).2⟩

/-- **C39 peer id round trip** -/
theorem peerID_roundtrip (p : Bytes) (wf : Id20 p) : newPeerID (hexEncode p) = .ok p := by
  simp [newPeerID, hexDecode_hexEncode p wf.2, wf.1]

/-- `NewPeerID` accepts exactly the 40-character hex strings -/
theorem peerID_accepts_exactly (s : List Char) :
    (∃ p, newPeerID s = .ok p) ↔ s.length = 40 ∧ ∀ c ∈ s, isHex c = true := by
  unfold newPeerID
  constructor
  · rintro ⟨p, hp⟩
    split at hp
    · cases hp
    · rename_i bs hd
      split at hp
      · cases hp
      · rename_i hb
        have := (hex_accepts_exactly s).mp (by rw [hd]; rfl)
        have hl := (hexDecode_length s bs hd).1
        exact ⟨by omega, this.2⟩
  · rintro ⟨hl, hall⟩
    have hsome := (hex_accepts_exactly s).mpr ⟨by omega, hall⟩
    cases hd : hexDecode s with
    | none => rw [hd] at hsome; cases hsome
    | some bs =>
      have := (hexDecode_length s bs hd).1
      have hb : bs.length = 20 := by omega
      exact ⟨bs, by simp [hb]⟩

/-! ### last access time -/

/-- **C39 access time round trip**: every int64 number of seconds serialises (no panic) into the
10-byte buffer and parses back to itself -/
theorem lat_roundtrip (unix : Int) (h1 : -(2^63 : Int) ≤ unix) (h2 : unix < 2^63) :
    ∃ b, latSerialize unix = .ok b ∧ b.length = 10 ∧ latDeserialize b = some unix := by
  have hz := zigzag_lt unix h1 h2
  have hlen : ∀ (fuel x : Nat), (putUvarintAux fuel x).length ≤ fuel := by
    intro fuel
    induction fuel with
    | zero => intro x; simp [putUvarintAux]
    | succ f ih =>
      intro x; simp only [putUvarintAux]; split
      · simp
      · have := ih (x / 128); simp only [List.length_cons]; omega
  have hl : (putUvarint (zigzag unix)).length ≤ 10 := hlen 10 _
  have hng : ¬ (putUvarint (zigzag unix)).length > latBufLen := by simp only [latBufLen]; omega
  refine ⟨putUvarint (zigzag unix) ++ List.replicate (latBufLen - (putUvarint (zigzag unix)).length) 0,
    by simp only [latSerialize, latSerializeBuf, hng, if_false], ?_, ?_⟩
  · simp only [List.length_append, List.length_replicate, latBufLen]; omega
  · obtain ⟨n, hn⟩ := uvarint_put 10 (zigzag unix) 0 0
      (List.replicate (latBufLen - (putUvarint (zigzag unix)).length) 0) (by omega) (by omega) (by simpa using hz)
    simp only [Nat.sub_self, Nat.zero_add, Nat.pow_zero, Nat.mul_one] at hn
    simp only [latDeserialize, uvarint, putUvarint] at hn ⊢
    rw [hn]
    simp [unzigzag_zigzag]

/-- files written with any buffer size that did not panic (in particular the 8-byte files written
before the repair) parse back to the time they were written with -/
theorem lat_any_buffer (buf : Nat) (unix : Int) (h1 : -(2^63 : Int) ≤ unix) (h2 : unix < 2^63) (b : Bytes)
    (h : latSerializeBuf buf unix = .ok b) : latDeserialize b = some unix := by
  have hz := zigzag_lt unix h1 h2
  unfold latSerializeBuf at h
  simp only at h
  split at h
  · cases h
  · cases h
    obtain ⟨n, hn⟩ := uvarint_put 10 (zigzag unix) 0 0
      (List.replicate (buf - (putUvarint (zigzag unix)).length) 0) (by omega) (by omega) (by simpa using hz)
    simp only [Nat.sub_self, Nat.zero_add, Nat.pow_zero, Nat.mul_one] at hn
    simp only [latDeserialize, uvarint, putUvarint] at hn ⊢
    rw [hn]
    simp [unzigzag_zigzag]

/-- the defect that was repaired: with the former 8-byte buffer the access time 2^55 s panicked -/
theorem lat_old_buffer_panics : latSerializeBuf 8 (2^55) = .panic := by decide

/-! ### persist flag -/

/-- **C39 persist round trip** -/
theorem persist_roundtrip (v : Bool) : parseBool (formatBool v) = some v := by cases v <;> decide

/-- `ParseBool` accepts exactly the twelve spellings of strconv -/
theorem persist_accepts_exactly (s : List Char) (v : Bool) :
    parseBool s = some v ↔
      (v = true ∧ s ∈ [['1'], ['t'], ['T'], ['T','R','U','E'], ['t','r','u','e'], ['T','r','u','e']]) ∨
      (v = false ∧ s ∈ [['0'], ['f'], ['F'], ['F','A','L','S','E'], ['f','a','l','s','e'], ['F','a','l','s','e']]) := by
  unfold parseBool
  constructor
  · intro h
    split at h
    · rename_i hc; cases h; left; simpa using hc
    · split at h
      · rename_i hc; cases h; right; simpa using hc
      · cases h
  · rintro (⟨rfl, hs⟩ | ⟨rfl, hs⟩)
    · have : s = ['1'] ∨ s = ['t'] ∨ s = ['T'] ∨ s = ['T','R','U','E'] ∨ s = ['t','r','u','e'] ∨ s = ['T','r','u','e'] := by
        simpa using hs
      simp [this]
    · have hf : s = ['0'] ∨ s = ['f'] ∨ s = ['F'] ∨ s = ['F','A','L','S','E'] ∨ s = ['f','a','l','s','e'] ∨ s = ['F','a','l','s','e'] := by
        simpa using hs
      have ht : ¬ (s = ['1'] ∨ s = ['t'] ∨ s = ['T'] ∨ s = ['T','R','U','E'] ∨ s = ['t','r','u','e'] ∨ s = ['T','r','u','e']) := by
        rcases hf with h | h | h | h | h | h <;> subst h <;> decide
      simp [ht, hf]

/-! ### piece status -/

/-- **C39 piece status round trip**: vectors over {empty, complete} (the only statuses the code ever
writes) are read back unchanged -/
theorem status_roundtrip (ps : List Status) (h : ∀ p ∈ ps, p ≠ .dirty) :
    statusDeserialize (statusSerialize ps) = ps := by
  induction ps with
  | nil => rfl
  | cons p ps ih =>
    have hp := h p (by simp)
    have := ih (fun x hx => h x (by simp [hx]))
    simp only [statusDeserialize, statusSerialize, List.map_cons, List.map_map] at this ⊢
    rw [this]
    cases p <;> simp_all [Status.toByte, statusOfByte]

/-- reading arbitrary bytes is total, keeps the length, and never yields `dirty` -/
theorem status_deserialize_total (b : Bytes) :
    (statusDeserialize b).length = b.length ∧ ∀ p ∈ statusDeserialize b, p ≠ .dirty := by
  refine ⟨by simp [statusDeserialize], ?_⟩
  intro p hp
  simp only [statusDeserialize, List.mem_map] at hp
  obtain ⟨x, _, rfl⟩ := hp
  unfold statusOfByte; split <;> simp

/-! ### handshake bitfield -/

/-- **C39 bitfield round trip**: the binary form of every bitset (any length) parses back to it;
trailing bytes are ignored -/
theorem bitset_roundtrip (b : BitSet) (wf : b.wf = true) (trailing : Bytes) :
    bitsetUnmarshal (bitsetMarshal b ++ trailing) = some b := by
  simp only [BitSet.wf, Bool.and_eq_true, decide_eq_true_eq, List.all_eq_true] at wf
  obtain ⟨⟨hlen, hw⟩, hall⟩ := wf
  have hnl : ¬ ((bitsetMarshal b ++ trailing).length < 8) := by
    simp only [bitsetMarshal, List.length_append, be64_length]; omega
  have ht : (bitsetMarshal b ++ trailing).take 8 = be64 b.length := by
    simp only [bitsetMarshal, List.append_assoc]
    rw [List.take_append_of_le_length (by simp [be64_length])]
    exact List.take_of_length_le (by simp [be64_length])
  have hd : (bitsetMarshal b ++ trailing).drop 8 = b.words.flatMap be64 ++ trailing := by
    simp only [bitsetMarshal, List.append_assoc]
    rw [List.drop_append_of_le_length (by simp [be64_length])]
    simp [be64_length]
  simp only [bitsetUnmarshal, hnl, if_false, ht, hd, fromBE_be64 b.length hlen, ← hw]
  rw [readWords_flatMap b.words trailing hall]
  rfl

/-- **C39 handshake round trip**: a handshake with well-formed parts survives the bitfield message -/
def GoodHandshake (h : Handshake) : Prop :=
  Id20 h.peerID ∧ Id20 h.infoHash ∧ ValidDigest h.digest ∧ h.bitfield.wf = true ∧
  ∀ pb ∈ h.remote, Id20 pb.1 ∧ pb.2.wf = true

theorem remote_roundtrip (r : List (Bytes × BitSet)) (h : ∀ pb ∈ r, Id20 pb.1 ∧ pb.2.wf = true) :
    remoteFromMsg (r.map fun (p, b) => (hexEncode p, bitsetMarshal b)) = .ok r := by
  induction r with
  | nil => rfl
  | cons pb rest ih =>
    obtain ⟨p, b⟩ := pb
    have ⟨hp, hb⟩ := h (p, b) (by simp)
    have hbs := bitset_roundtrip b hb []
    simp only [List.append_nil] at hbs
    simp only [List.map_cons, remoteFromMsg, peerID_roundtrip p hp, hbs]
    rw [ih (fun x hx => h x (by simp [hx]))]

theorem handshake_roundtrip (h : Handshake) (wf : GoodHandshake h) : fromMsg (toMsg h) = .ok h := by
  obtain ⟨hp, hi, hd, hb, hr⟩ := wf
  have hbs := bitset_roundtrip h.bitfield hb []
  simp only [List.append_nil] at hbs
  have hdg : newSHA256DigestFromHex h.digest.hex = .ok h.digest :=
    (digestFromHex_accepts_exactly _ _).mpr ⟨rfl, hd⟩
  simp only [fromMsg, toMsg, peerID_roundtrip _ hp, infoHash_roundtrip _ hi, hdg, hbs, remote_roundtrip _ hr]

/-! ### non-vacuity -/

set_option maxRecDepth 8000
def exHex : List Char := (List.replicate 31 ['a','B']).flatten ++ ['0','9']
def exDigest : Digest := { hex := exHex }
example : ValidDigest exDigest := by decide
example : parseSHA256Digest exDigest.raw = .ok exDigest := by decide
example : parseSHA256Digest exHex = .error .parts := by decide
example : parseSHA256Digest (sha256Prefix ++ exHex ++ ['0']) = .error .length := by decide
example : parseSHA256Digest (sha256Prefix ++ exHex.dropLast ++ ['g']) = .error .hex := by decide
example : parseSHA256Digest ('S' :: sha256Prefix.tail ++ exHex) = .error .algo := by decide
example : parseSHA256Digest (sha256Prefix ++ exHex ++ [':']) = .error .parts := by decide
example : parseDigestList (digestListJSON (some [exDigest, exDigest])) = some (some [exDigest, exDigest]) := by decide
example : hexDecode (hexEncode [0, 255, 16, 171]) = some [0, 255, 16, 171] := by decide
example : hexDecode ['A','f'] = some [175] ∧ hexDecode ['a'] = none ∧ hexDecode ['g','0'] = none := by decide
example : latSerialize (2^55) = .ok [128, 128, 128, 128, 128, 128, 128, 128, 1, 0] := by decide
example : latDeserialize [128, 128, 128, 128, 128, 128, 128, 128, 1, 0] = some (2^55) := by decide
example : latSerialize (-1) = .ok [1, 0, 0, 0, 0, 0, 0, 0, 0, 0] ∧ latDeserialize [1] = some (-1) := by decide
example : latSerialize (2^63 - 1) = .ok [254, 255, 255, 255, 255, 255, 255, 255, 255, 1] := by decide
example : latDeserialize [255, 255, 255, 255, 255, 255, 255, 255, 255, 2] = none ∧ latDeserialize [128] = none ∧ latDeserialize [] = none := by decide
example : statusDeserialize [0, 1, 2, 255] = [.empty, .complete, .empty, .empty] := by decide
example : statusSerialize [.dirty] = [2] ∧ statusDeserialize (statusSerialize [.dirty]) = [.empty] := by decide
def exBits : BitSet := { length := 70, words := [0x8000000000000001, 0x3f] }
example : exBits.wf = true := by decide
example : bitsetUnmarshal (bitsetMarshal exBits) = some exBits := by decide
example : bitsetUnmarshal ((bitsetMarshal exBits).dropLast) = none := by decide

end KrakenModel.Spec.C39
