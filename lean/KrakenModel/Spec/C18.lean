import KrakenModel.Proof.C18
/-
  C18  Idle timeouts follow real activity and never delete completed blobs.

  Statements are about `Model.TorrentIdle` (torrentAccessWatcher + the idle tests of
  preemptionTickEvent + removeTorrent's deletion rule), which the correspondence check ties to
  lib/torrent/scheduler and lib/torrent/scheduler/dispatch.  "Dropping" = idle preemption by the
  tick; "cancelling" = the RemoveTorrent API on an in-progress download.  Every theorem quantifies
  over all configurations (limits, piece counts), all histories `ops` of any length over any number
  of torrents, and all torrents `h`.
-/
namespace KrakenModel.Spec.C18
open KrakenModel.TorrentIdle KrakenModel.Proof.C18

/-- torrent `h` is held by the scheduler in `s` and no longer after operation `o` -/
def DroppedBy (cfg : Cfg) (s : State) (o : Op) (h : Hash) : Prop :=
  (s.tors h).present = true ∧ ((next cfg s o).tors h).present = false

instance (cfg : Cfg) (s : State) (o : Op) (h : Hash) : Decidable (DroppedBy cfg s o h) := by
  unfold DroppedBy; exact inferInstance

/-- The ghost fields are exactly the observable history: `serves` lists the times at which a piece
request of `h` was answered with a payload whose reader closed without error, `writes` the times at
which a delivered piece was accepted. -/
theorem ghost_is_history (cfg : Cfg) (ops : List Op) (h : Hash) :
    ((run cfg ops).tors h).serves = ((events cfg init ops).filterMap (serveOf h)).reverse ∧
    ((run cfg ops).tors h).writes = ((events cfg init ops).filterMap (writeOf h)).reverse := by
  have h1 := serves_events cfg ops init h
  have h2 := writes_events cfg ops init h
  simp only [init, List.append_nil] at h1 h2
  exact ⟨h1, h2⟩

/-- **C18 (1)** A completed torrent is dropped as idle by a tick at time `t` only if every piece it
ever served (reader closed successfully) was served at or before `t - SeederTTI`: no serve falls
in the window `(t - SeederTTI, t]`. -/
theorem seeder_drop_follows_activity (cfg : Cfg) (ops : List Op) (h : Hash)
    (hc : ((run cfg ops).tors h).complete = true) (hd : DroppedBy cfg (run cfg ops) .tick h) :
    ∀ x ∈ (events cfg init ops).filterMap (serveOf h), x + cfg.seederTTI ≤ (run cfg ops).now := by
  intro x hx
  have hg := run_good cfg ops h
  have hs : x ∈ ((run cfg ops).tors h).serves := by
    rw [(ghost_is_history cfg ops h).1]; simpa using hx
  exact seeder_drop_core cfg _ _ hg hd.1 hc hd.2 x hs

/-- **C18 (2)** An in-progress torrent is dropped as idle by a tick at time `t` only if every piece
it ever received (written successfully) arrived at or before `t - LeecherTTI`. -/
theorem leecher_drop_follows_activity (cfg : Cfg) (ops : List Op) (h : Hash)
    (hc : ((run cfg ops).tors h).complete = false) (hd : DroppedBy cfg (run cfg ops) .tick h) :
    ∀ x ∈ (events cfg init ops).filterMap (writeOf h), x + cfg.leecherTTI ≤ (run cfg ops).now := by
  intro x hx
  have hg := run_good cfg ops h
  have hs : x ∈ ((run cfg ops).tors h).writes := by
    rw [(ghost_is_history cfg ops h).2]; simpa using hx
  exact leecher_drop_core cfg _ _ hg hd.1 hc hd.2 x hs

/-- **C18 (3)** Exactness (the timeout is not vacuous, and the dispatcher's creation counts as the
first activity): a tick drops a held torrent *iff* it was created, and last served (if complete) /
last received (if in progress), at least the respective limit ago. -/
theorem idle_drop_exact (cfg : Cfg) (ops : List Op) (h : Hash)
    (hp : ((run cfg ops).tors h).present = true) :
    let s := run cfg ops
    let t := s.tors h
    DroppedBy cfg s .tick h ↔
      if t.complete then t.created + cfg.seederTTI ≤ s.now ∧ ∀ x ∈ t.serves, x + cfg.seederTTI ≤ s.now
      else t.created + cfg.leecherTTI ≤ s.now ∧ ∀ x ∈ t.writes, x + cfg.leecherTTI ≤ s.now := by
  intro s t
  have hg := run_good cfg ops h
  have := drop_iff_core cfg s.now t hg hp
  simp only [DroppedBy, next, step]
  constructor
  · intro hd; exact this.mp hd.2
  · intro hq; exact ⟨hp, this.mpr hq⟩

/-- **C18 (4)** Whatever operation makes the scheduler let go of an in-progress download (idle
drop by a tick, or cancellation through RemoveTorrent), its partial file is deleted. -/
theorem incomplete_removal_deletes_partial (cfg : Cfg) (ops : List Op) (o : Op) (h : Hash)
    (hc : ((run cfg ops).tors h).complete = false) (hd : DroppedBy cfg (run cfg ops) o h) :
    ((next cfg (run cfg ops) o).tors h).dl = false ∧ ((next cfg (run cfg ops) o).tors h).cached = false :=
  removal_deletes_partial cfg (run cfg ops) o h hd.1 hc hd.2

/-- **C18 (5)** Dropping a completed torrent as idle deletes nothing: the files of the torrent are
untouched, and the cached blob is still there afterwards. -/
theorem complete_idle_drop_keeps_blob (cfg : Cfg) (ops : List Op) (h : Hash)
    (hc : ((run cfg ops).tors h).complete = true) (hd : DroppedBy cfg (run cfg ops) .tick h) :
    let t := (run cfg ops).tors h
    let t' := (next cfg (run cfg ops) .tick).tors h
    t'.cached = true ∧ t'.dl = t.dl ∧ t'.pieces = t.pieces := by
  intro t t'
  have hg := run_good cfg ops h
  exact idle_drop_keeps cfg _ t hg hd.1 hc

/-- **C18 (6)** No operation other than the RemoveTorrent API on that very torrent ever deletes a
cached blob — in particular no tick, whatever the clock. -/
theorem cached_blob_survives (cfg : Cfg) (ops : List Op) (o : Op) (h : Hash) (ho : o ≠ .rm h)
    (hc : ((run cfg ops).tors h).cached = true) :
    ((next cfg (run cfg ops) o).tors h).cached = true :=
  cached_survives cfg (run cfg ops) o h (run_good cfg ops h) ho hc

/-- **C18 (7)** The scheduler lets go of a torrent only through a tick or RemoveTorrent. -/
theorem dropped_only_by_tick_or_rm (cfg : Cfg) (ops : List Op) (o : Op) (h : Hash)
    (hd : DroppedBy cfg (run cfg ops) o h) : o = .tick ∨ o = .rm h :=
  drop_only_tick_rm cfg (run cfg ops) o h hd.1 hd.2

-- Non-vacuity. Limits 10 (seeder) / 12 (leecher), 2 pieces.
private def c : Cfg := { seederTTI := 10, leecherTTI := 12, numPieces := 2 }

-- a seeder that serves at t=9 survives the tick at t=10 and is dropped at exactly t=19
example : ((run c [.new 0 2, .adv 9, .serve 0 1 true, .adv 1, .tick]).tors 0).present = true := by decide
example : ((run c [.new 0 2, .adv 9, .serve 0 1 true, .adv 1, .tick, .adv 8, .tick]).tors 0).present = true := by decide
example : DroppedBy c (run c [.new 0 2, .adv 9, .serve 0 1 true, .adv 1, .tick, .adv 9]) .tick 0 := by decide
example : ((run c [.new 0 2, .adv 9, .serve 0 1 true, .adv 10, .tick]).tors 0).cached = true := by decide
-- the history function sees that serve
example : (events c init [.new 0 2, .adv 9, .serve 0 1 true, .adv 10]).filterMap (serveOf 0) = [9] := by decide
-- a serve whose reader fails to close is not activity (and a seeder that serves nothing is dropped at 10)
example : DroppedBy c (run c [.new 0 2, .adv 9, .serve 0 1 false, .adv 1]) .tick 0 := by decide
-- a leecher receiving a piece at t=11 survives t=12, is dropped at t=23 and loses its partial file
example : ((run c [.new 0 0, .adv 11, .write 0 0 true, .adv 1, .tick]).tors 0).present = true := by decide
example : DroppedBy c (run c [.new 0 0, .adv 11, .write 0 0 true, .adv 12]) .tick 0 := by decide
example : ((run c [.new 0 0, .adv 11, .write 0 0 true]).tors 0).dl = true := by decide
example : ((run c [.new 0 0, .adv 11, .write 0 0 true, .adv 12, .tick]).tors 0).dl = false := by decide
-- the completion window: a download that took longer than the seeder limit completes at t=11 and is dropped as an
-- idle seeder by a tick that comes before its completion event — the finished blob stays in the cache
example : DroppedBy c (run c [.new 0 1, .adv 11, .write 0 1 true]) .tick 0 := by decide
example : ((run c [.new 0 1, .adv 11, .write 0 1 true, .tick, .notice 0]).tors 0).cached = true := by decide
-- a corrupted piece is not activity
example : DroppedBy c (run c [.new 0 0, .adv 11, .write 0 0 false, .adv 1]) .tick 0 := by decide

end KrakenModel.Spec.C18
