import KrakenModel.Proof.C18
/-
  C18  Idle timeouts follow real activity and never delete completed blobs.

  Statements are about `Model.TorrentIdle` (torrentAccessWatcher + the idle tests of
  preemptionTickEvent + removeTorrent's deletion rule), which the correspondence check ties to
  lib/torrent/scheduler and lib/torrent/scheduler/dispatch.  "Dropping" = idle preemption by the
  tick; "cancelling" = the RemoveTorrent API on an in-progress download.  Every theorem quantifies
  over all configurations (limits, piece counts), all histories `ops` of any length over any number
  of torrents, and all torrents `h`.  Histories range over download requests, connecting peers
  (controls without a local request), piece serves (reader closed with or without error, or payload
  lost because the connection is gone), piece writes, clock advances, ticks, RemoveTorrent, the
  completion notice, the store evicting a cached blob (incl. the eviction branch of newTorrentEvent
  that follows) and `other` (every remaining scheduler event).

  "Served" means: the dispatcher answered a peer's piece request with a payload and the payload's
  reader was closed without error — which conn.sendPiecePayload does whether or not the bytes reached
  the peer (egress limit refused, socket error); see the level note.
-/
namespace KrakenModel.Spec.C18
open KrakenModel.TorrentIdle KrakenModel.Proof.C18

/-- torrent `h` is held by the scheduler in `s` and no longer after operation `o` -/
def DroppedBy (cfg : Cfg) (s : State) (o : Op) (h : Hash) : Prop :=
  (s.tors h).present = true ∧ ((next cfg s o).tors h).present = false

instance (cfg : Cfg) (s : State) (o : Op) (h : Hash) : Decidable (DroppedBy cfg s o h) := by
  unfold DroppedBy; exact inferInstance

/-- The ghost fields are exactly the observable history: `serves` lists the times at which a piece
request of `h` was answered with a payload whose reader closed without error, `writes` the times at
which a delivered piece was accepted. -/
theorem ghost_is_history (cfg : Cfg) (ops : List Op) (h : Hash) :
    ((run cfg ops).tors h).serves = ((events cfg init ops).filterMap (serveOf h)).reverse ∧
    ((run cfg ops).tors h).writes = ((events cfg init ops).filterMap (writeOf h)).reverse := by
  have h1 := serves_events cfg ops init h
  have h2 := writes_events cfg ops init h
  simp only [init, List.append_nil] at h1 h2
  exact ⟨h1, h2⟩

/-- **C18 (1)** A completed torrent is dropped as idle by a tick at time `t` only if every piece it
ever served (reader closed successfully) was served at or before `t - SeederTTI`: no serve falls
in the window `(t - SeederTTI, t]`. -/
theorem seeder_drop_follows_activity (cfg : Cfg) (ops : List Op) (h : Hash)
    (hc : ((run cfg ops).tors h).complete = true) (hd : DroppedBy cfg (run cfg ops) .tick h) :
    ∀ x ∈ (events cfg init ops).filterMap (serveOf h), x + cfg.seederTTI ≤ (run cfg ops).now := by
  intro x hx
  have hg := run_good cfg ops h
  have hs : x ∈ ((run cfg ops).tors h).serves := by
    rw [(ghost_is_history cfg ops h).1]; simpa using hx
  exact seeder_drop_core cfg _ _ hg hd.1 hc hd.2 x hs

/-- **C18 (2)** An in-progress torrent is dropped as idle by a tick at time `t` only if every piece
it ever received (written successfully) arrived at or before `t - LeecherTTI`. -/
theorem leecher_drop_follows_activity (cfg : Cfg) (ops : List Op) (h : Hash)
    (hc : ((run cfg ops).tors h).complete = false) (hd : DroppedBy cfg (run cfg ops) .tick h) :
    ∀ x ∈ (events cfg init ops).filterMap (writeOf h), x + cfg.leecherTTI ≤ (run cfg ops).now := by
  intro x hx
  have hg := run_good cfg ops h
  have hs : x ∈ ((run cfg ops).tors h).writes := by
    rw [(ghost_is_history cfg ops h).2]; simpa using hx
  exact leecher_drop_core cfg _ _ hg hd.1 hc hd.2 x hs

/-- **C18 (3)** Exactness (the timeout is not vacuous, and the dispatcher's creation counts as the
first activity): a tick drops a held torrent *iff* it was created, and last served (if complete) /
last received (if in progress), at least the respective limit ago. -/
theorem idle_drop_exact (cfg : Cfg) (ops : List Op) (h : Hash)
    (hp : ((run cfg ops).tors h).present = true) :
    let s := run cfg ops
    let t := s.tors h
    DroppedBy cfg s .tick h ↔
      if t.complete then t.created + cfg.seederTTI ≤ s.now ∧ ∀ x ∈ t.serves, x + cfg.seederTTI ≤ s.now
      else t.created + cfg.leecherTTI ≤ s.now ∧ ∀ x ∈ t.writes, x + cfg.leecherTTI ≤ s.now := by
  intro s t
  have hg := run_good cfg ops h
  have := drop_iff_core cfg s.now t hg hp
  simp only [DroppedBy, next, step]
  constructor
  · intro hd; exact this.mp hd.2
  · intro hq; exact ⟨hp, this.mpr hq⟩

/-- **C18 (4)** Whatever operation makes the scheduler let go of an in-progress download (idle
drop by a tick, or cancellation through RemoveTorrent), its partial file is deleted. -/
theorem incomplete_removal_deletes_partial (cfg : Cfg) (ops : List Op) (o : Op) (h : Hash)
    (hc : ((run cfg ops).tors h).complete = false) (hd : DroppedBy cfg (run cfg ops) o h) :
    ((next cfg (run cfg ops) o).tors h).dl = false ∧ ((next cfg (run cfg ops) o).tors h).cached = false :=
  removal_deletes_partial cfg (run cfg ops) o h hd.1 hc hd.2

/-- **C18 (5)** Dropping a completed torrent as idle deletes nothing: the files of the torrent are
untouched (so a blob that is in the cache is still there afterwards). -/
theorem complete_idle_drop_keeps_blob (cfg : Cfg) (ops : List Op) (h : Hash)
    (hc : ((run cfg ops).tors h).complete = true) (hd : DroppedBy cfg (run cfg ops) .tick h) :
    let t := (run cfg ops).tors h
    let t' := (next cfg (run cfg ops) .tick).tors h
    t'.cached = t.cached ∧ t'.dl = t.dl ∧ t'.pieces = t.pieces := by
  intro t t'
  have hg := run_good cfg ops h
  exact idle_drop_keeps cfg _ t hg hd.1 hc

/-- **C18 (6)** No operation of the scheduler ever deletes a cached blob, except the RemoveTorrent API on
that very torrent — in particular no tick, whatever the clock, no shutdown, no eviction branch.
(`evict h` is the store's own cleanup, not the scheduler.) -/
theorem cached_blob_survives (cfg : Cfg) (ops : List Op) (o : Op) (h : Hash) (ho : o ≠ .rm h) (he : o ≠ .evict h)
    (hc : ((run cfg ops).tors h).cached = true) :
    ((next cfg (run cfg ops) o).tors h).cached = true :=
  cached_survives cfg (run cfg ops) o h (run_good cfg ops h) ho he hc

/-- **C18 (7)** The scheduler lets go of a torrent only through a tick or RemoveTorrent. -/
theorem dropped_only_by_tick_or_rm (cfg : Cfg) (ops : List Op) (o : Op) (h : Hash)
    (hd : DroppedBy cfg (run cfg ops) o h) : o = .tick ∨ o = .rm h :=
  drop_only_tick_rm cfg (run cfg ops) o h hd.1 hd.2

/-- **C18 (8)** A held torrent's control is replaced by a new one (its creation time changes) only by a
download request that finds the control of an evicted blob — the eviction branch of newTorrentEvent.
Together with (7): no other event (peers connecting, shutdown, announce events, closed connections, …)
drops or replaces a control. -/
theorem control_replaced_only_after_eviction (cfg : Cfg) (ops : List Op) (o : Op) (h : Hash)
    (hp : ((run cfg ops).tors h).present = true)
    (hr : ((next cfg (run cfg ops) o).tors h).created ≠ ((run cfg ops).tors h).created) :
    ∃ k, o = .new h k ∧ ((run cfg ops).tors h).complete = true ∧ ((run cfg ops).tors h).cached = false := by
  rw [created_step] at hr
  by_cases hcb : createsB cfg (run cfg ops) o h = true
  · cases o <;> simp only [createsB, Bool.false_eq_true] at hcb
    case new h' k =>
      simp [hp] at hcb
      exact ⟨k, by rw [hcb.1], hcb.2.1.1, hcb.2.1.2⟩
    case peer h' k => simp [hp] at hcb
  · simp [hcb] at hr

/-- **C18 (9)** The eviction branch deletes nothing that was there: the old control was complete, its blob
already gone; afterwards the torrent is held again, in progress, over the new download file. -/
theorem eviction_branch_restarts (cfg : Cfg) (ops : List Op) (h : Hash) (k : Nat)
    (hp : ((run cfg ops).tors h).present = true) (hc : ((run cfg ops).tors h).complete = true)
    (hca : ((run cfg ops).tors h).cached = false) (hk : k < cfg.numPieces) :
    let t' := (next cfg (run cfg ops) (.new h k)).tors h
    t'.present = true ∧ t'.complete = false ∧ t'.dl = true ∧ t'.created = (run cfg ops).now := by
  have hk' : ¬ cfg.numPieces ≤ k := by omega
  simp [next, step, upd_same, newTor, createTor, hp, hc, hca, hk']

/-- **C18 (10)** The creation time used by (3) is observable history: it is the time of the last operation
that created a control for `h` — a request or connecting peer that found none, or a request that found
the control of an evicted blob. -/
theorem created_is_history (cfg : Cfg) (ops : List Op) (h : Hash) :
    ((run cfg ops).tors h).created = createdHist cfg h init ops 0 := by
  have := created_runFrom cfg h ops init
  simpa [run, init] using this

-- Non-vacuity. Limits 10 (seeder) / 12 (leecher), 2 pieces.
private def c : Cfg := { seederTTI := 10, leecherTTI := 12, numPieces := 2 }

-- a seeder that serves at t=9 survives the tick at t=10 and is dropped at exactly t=19
example : ((run c [.new 0 2, .adv 9, .serve 0 1 true, .adv 1, .tick]).tors 0).present = true := by decide
example : ((run c [.new 0 2, .adv 9, .serve 0 1 true, .adv 1, .tick, .adv 8, .tick]).tors 0).present = true := by decide
example : DroppedBy c (run c [.new 0 2, .adv 9, .serve 0 1 true, .adv 1, .tick, .adv 9]) .tick 0 := by decide
example : ((run c [.new 0 2, .adv 9, .serve 0 1 true, .adv 10, .tick]).tors 0).cached = true := by decide
-- the history function sees that serve
example : (events c init [.new 0 2, .adv 9, .serve 0 1 true, .adv 10]).filterMap (serveOf 0) = [9] := by decide
-- a serve whose reader fails to close is not activity (and a seeder that serves nothing is dropped at 10)
example : DroppedBy c (run c [.new 0 2, .adv 9, .serve 0 1 false, .adv 1]) .tick 0 := by decide
-- a leecher receiving a piece at t=11 survives t=12, is dropped at t=23 and loses its partial file
example : ((run c [.new 0 0, .adv 11, .write 0 0 true, .adv 1, .tick]).tors 0).present = true := by decide
example : DroppedBy c (run c [.new 0 0, .adv 11, .write 0 0 true, .adv 12]) .tick 0 := by decide
example : ((run c [.new 0 0, .adv 11, .write 0 0 true]).tors 0).dl = true := by decide
example : ((run c [.new 0 0, .adv 11, .write 0 0 true, .adv 12, .tick]).tors 0).dl = false := by decide
-- the completion window: a download that took longer than the seeder limit completes at t=11 and is dropped as an
-- idle seeder by a tick that comes before its completion event — the finished blob stays in the cache
example : DroppedBy c (run c [.new 0 1, .adv 11, .write 0 1 true]) .tick 0 := by decide
example : ((run c [.new 0 1, .adv 11, .write 0 1 true, .tick, .notice 0]).tors 0).cached = true := by decide
-- a control created by a connecting peer (no local request) over a partial file is dropped as an idle leecher,
-- and its partial file is deleted
example : ((run c [.peer 0 1]).tors 0).dl = true := by decide
example : DroppedBy c (run c [.peer 0 1, .adv 12]) .tick 0 := by decide
example : ((run c [.peer 0 1, .adv 12, .tick]).tors 0).dl = false := by decide
-- eviction: the blob of a seeding torrent is evicted; the next request restarts the download at t=5
example : ((run c [.new 0 2, .adv 5, .evict 0, .new 0 0]).tors 0).complete = false := by decide
example : createdHist c 0 init [.new 0 2, .adv 5, .evict 0, .new 0 0] 0 = 5 := by decide
-- a payload that cannot be handed to the connection is not activity
example : DroppedBy c (run c [.new 0 2, .adv 9, .lost 0 1, .adv 1]) .tick 0 := by decide
-- a corrupted piece is not activity
example : DroppedBy c (run c [.new 0 0, .adv 11, .write 0 0 false, .adv 1]) .tick 0 := by decide

/- Below the event granularity (known finding idle-drop-deleted-completed-blob). `removeTorrent` is not one
   step with respect to the dispatcher's goroutine: it tests `!Complete()` (`dropDecided`), and later calls
   `DeleteTorrent`, which deletes the file from whichever directory holds it (`dropFinish`). A piece write that
   completes the blob in between is not noticed. -/

/-- first half of the idle drop of an in-progress torrent: the decision -/
def dropDecided (cfg : Cfg) (now : Nat) (t : Tor) : Bool := t.present && idleLeecher cfg now t

/-- second half: the control is forgotten and `DeleteTorrent` removes the file wherever it is -/
def dropFinish (t : Tor) : Tor := { t with present := false, dl := false, cached := false, pieces := [] }

/-- with no write in between, the two halves are the tick's step -/
theorem drop_halves_are_tick (cfg : Cfg) (now : Nat) (t : Tor) (hc : t.complete = false)
    (hd : dropDecided cfg now t = true) : tickTor cfg now t = dropFinish t := by
  simp only [dropDecided, Bool.and_eq_true] at hd
  simp [tickTor, removeTor, dropFinish, hd.1, hd.2, hc]

/-- **Refuted target (real code, known finding).** "An idle drop never deletes a completed blob" fails when the
last piece is written between the two halves: in a reachable state the drop of an idle download is decided, the
write then completes the blob (it is in the cache), and the second half deletes it. -/
theorem not_idle_drop_keeps_blob_under_racing_write :
    ¬ (∀ (cfg : Cfg) (ops : List Op) (h : Hash) (i : Nat),
        let s := run cfg ops
        dropDecided cfg s.now (s.tors h) = true →
        ((writeTor cfg s.now (s.tors h) i true).1).cached = true →
        (dropFinish (writeTor cfg s.now (s.tors h) i true).1).cached = true) := by
  intro hall
  have := hall c [.new 0 1, .adv 12] 0 1 (by decide) (by decide)
  simp [dropFinish] at this

end KrakenModel.Spec.C18
