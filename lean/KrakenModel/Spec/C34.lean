import KrakenModel.Model.HttpSend
import KrakenModel.Proof.C34
/-
  C34  HTTP retries resend the complete original request.

  Statements are about `Model.HttpSend` with `rewinds = true`, i.e. `httputil.Send` as it is after
  the repair (a fresh body from `req.GetBody` before every retry; a body that cannot be replayed
  ends the retries).  The correspondence check ties that model to utils/httputil.Send over real
  HTTP connections; what net/http does with the body reader of a re-used request is a modelled
  library behaviour (see the model's header) validated by the same check.

  Quantifiers: every method/URL/header set/body, every body class, every accepted and RetryCodes
  set, every backoff budget, every sequence of server outcomes (connection closed after the
  request was read, any status code).
-/
namespace KrakenModel.Spec.C34
open KrakenModel.HttpSend KrakenModel.Proof.C34

/-- **C34 (1)** Every attempt — retries and the plain-http fallback attempt of an https request
alike — puts exactly the original request on the wire (same method, URL, headers, complete body;
the fallback differs in the scheme only) and no attempt fails inside the client.  For every
configuration, body class, backoff budget and every sequence of server outcomes. -/
theorem every_attempt_is_original (cfg : Cfg) (h : cfg.rewinds = true) (script : List Outcome) :
    ∀ w ∈ (send cfg script).1, w = .sent (original cfg) ∨ w = .sent { original cfg with tls := false } := by
  exact (sendLoop_general cfg h cfg.bo script [] (by simp)).1

/-- **C34 (1b)** Where the attempts go: the wire history is a sequence of loop iterations, each of
them one attempt of the original request — original URL and scheme — optionally followed directly
by its plain-http fallback attempt.  So every retry of an https request is again an https attempt
to the original URL, and an http attempt only ever occurs as the fallback right behind an https
attempt (it never takes the place of a retry). -/
theorem retries_go_to_the_original_url (cfg : Cfg) (h : cfg.rewinds = true) (script : List Outcome) :
    Blocks cfg (send cfg script).1 :=
  sendLoop_blocks cfg h cfg.bo script [] Blocks.nil

/-- **C34 (2)** Success is only reported with an accepted status, and the attempt it answers (the
last one) carried the complete original request. -/
theorem success_is_honest (cfg : Cfg) (h : cfg.rewinds = true) (script : List Outcome) (c : Nat)
    (hok : (send cfg script).2 = .ok c) :
    cfg.accepted.contains c = true ∧
    ∃ w, (send cfg script).1.getLast? = some w ∧
      (w = .sent (original cfg) ∨ w = .sent { original cfg with tls := false }) := by
  obtain ⟨hall, hlen, _, o, ho⟩ := sendLoop_general cfg h cfg.bo script [] (by simp)
  constructor
  · have hres : (send cfg script).2 = final cfg o := ho
    rw [hres] at hok
    cases o with
    | status c' =>
      simp only [final] at hok
      split at hok
      · rename_i hacc
        have : c' = c := by simpa using hok
        subst this; exact hacc
      · simp at hok
    | net => simp [final] at hok
    | netAfter k => simp [final] at hok
    | refuse => simp [final] at hok
  · have hne : (send cfg script).1 ≠ [] := by
      intro he
      have : (send cfg script).1.length = 0 := by rw [he]; rfl
      have h1 : 0 + 1 ≤ (send cfg script).1.length := by simpa [send] using hlen
      omega
    obtain ⟨w, hw⟩ : ∃ w, (send cfg script).1.getLast? = some w := by
      cases hl : (send cfg script).1.getLast? with
      | none => exact absurd (List.getLast?_eq_none_iff.mp hl) hne
      | some w => exact ⟨w, rfl⟩
    exact ⟨w, hw, hall w (List.mem_of_getLast? hw)⟩

/-- **C34 (3)** Retrying stops when the backoff is exhausted: at least one attempt, at most
`bo + 1` loop iterations, i.e. at most `2·(bo + 1)` attempts when every https failure is followed
by its http fallback attempt, and at most `bo + 1` without the fallback. -/
theorem attempts_bounded (cfg : Cfg) (h : cfg.rewinds = true) (script : List Outcome) :
    1 ≤ (send cfg script).1.length ∧ (send cfg script).1.length ≤ 2 * (cfg.bo + 1) := by
  obtain ⟨_, h1, h2, _⟩ := sendLoop_general cfg h cfg.bo script [] (by simp)
  exact ⟨by simpa [send] using h1, by simpa [send] using h2⟩

/-- Shape of every run without the fallback (all the theorems below are read off this one):
`m ≥ 1` attempts, each puts exactly the original request on the wire. -/
theorem run_shape (cfg : Cfg) (h : cfg.rewinds = true) (hnf : (cfg.req.tls && cfg.fallback) = false)
    (script : List Outcome) :
    ∃ m, 1 ≤ m ∧ m ≤ cfg.bo + 1 ∧
      (send cfg script).1 = List.replicate m (.sent (original cfg)) ∧
      (send cfg script).2 = final cfg (script.getD (m - 1) .net) ∧
      (∀ i, i + 1 < m → wantsRetry cfg (script.getD i .net) = true) ∧
      (wantsRetry cfg (script.getD (m - 1) .net) = false ∨ m = cfg.bo + 1 ∨
        (cfg.kind = .plain ∧ cfg.plainReplays = false)) := by
  obtain ⟨m, h1, h2, h3, h4, h5, h6⟩ := sendLoop_shape cfg h hnf cfg.bo script []
  exact ⟨m, h1, h2, by simpa [send] using h3, h4, h5, h6⟩

theorem attempts_bounded_no_fallback (cfg : Cfg) (h : cfg.rewinds = true)
    (hnf : (cfg.req.tls && cfg.fallback) = false) (script : List Outcome) :
    (send cfg script).1.length ≤ cfg.bo + 1 := by
  obtain ⟨m, _, h2, hw, _⟩ := run_shape cfg h hnf script
  rw [hw]; simp; omega

/-- **C34 (4)** Only outcomes that ask for a retry are retried (a transport error, a retryable
status that is not accepted, an explicit RetryCodes status), and the result is that of the last
attempt.  (Stated for runs without the http fallback, where attempt `i` is answered by script
entry `i`.) -/
theorem only_retryable_outcomes_are_retried (cfg : Cfg) (h : cfg.rewinds = true)
    (hnf : (cfg.req.tls && cfg.fallback) = false) (script : List Outcome) :
    (∀ i, i + 1 < (send cfg script).1.length → wantsRetry cfg (script.getD i .net) = true) ∧
    (send cfg script).2 = final cfg (script.getD ((send cfg script).1.length - 1) .net) := by
  obtain ⟨m, _, _, hw, hr, hall, _⟩ := run_shape cfg h hnf script
  rw [hw, hr]; simp only [List.length_replicate]
  exact ⟨hall, trivial⟩

/-- **C34 (5)** The retries really happen: a run ends early only because the last outcome asks
for no retry or because the body cannot be replayed (a reader without `GetBody` that the
implementation does not make replayable). -/
theorem retries_until_done (cfg : Cfg) (h : cfg.rewinds = true)
    (hnf : (cfg.req.tls && cfg.fallback) = false) (script : List Outcome) :
    wantsRetry cfg (script.getD ((send cfg script).1.length - 1) .net) = false ∨
    (send cfg script).1.length = cfg.bo + 1 ∨ (cfg.kind = .plain ∧ cfg.plainReplays = false) := by
  obtain ⟨m, _, _, hw, _, _, hstop⟩ := run_shape cfg h hnf script
  rw [hw]; simpa using hstop

/-- **C34 (6)** A body that cannot be replayed is sent exactly once: no retry and no http fallback
attempt. -/
theorem plain_body_single_attempt (cfg : Cfg) (h : cfg.rewinds = true) (hk : cfg.kind = .plain)
    (hp : cfg.plainReplays = false) (script : List Outcome) : (send cfg script).1 = [.sent (original cfg)] := by
  have hnb : nextBody cfg = none := (nextBody_none cfg h).mpr ⟨hk, hp⟩
  unfold send sendLoop attempt
  simp only [transmit_initial, origAs_self, outcomeOf, hnb]
  cases cfg.bo <;> simp <;> (repeat' split) <;> rfl

/-- "Accepted status codes are never retried", full statement. -/
def accepted_never_retried_target : Prop :=
  ∀ (cfg : Cfg) (script : List Outcome), cfg.rewinds = true → (cfg.req.tls && cfg.fallback) = false →
    ∀ i c, i + 1 < (send cfg script).1.length → script.getD i .net = .status c →
      cfg.accepted.contains c = false

/-- It fails when a caller lists the same code under SendAcceptedCodes and RetryCodes: the
RetryCodes clause of the loop does not look at the accepted set. -/
theorem not_accepted_never_retried : ¬ accepted_never_retried_target := by
  intro h
  have := h { req := { method := "GET", url := "/", headers := [], body := [] }, kind := .none,
              accepted := [200, 404], extra := [404], bo := 1 } [.status 404, .status 200] rfl rfl 0 404
    (by decide) (by decide)
  exact absurd this (by decide)

/-- **C34 (7)** Accepted status codes are never retried, for every configuration in which no
accepted code is also a RetryCodes code. -/
theorem accepted_never_retried_partial (cfg : Cfg) (h : cfg.rewinds = true)
    (hnf : (cfg.req.tls && cfg.fallback) = false) (script : List Outcome)
    (hdisj : ∀ c, cfg.accepted.contains c = true → cfg.extra.contains c = false) :
    ∀ i c, i + 1 < (send cfg script).1.length → script.getD i .net = .status c →
      cfg.accepted.contains c = false := by
  intro i c hi ho
  have hw := (only_retryable_outcomes_are_retried cfg h hnf script).1 i hi
  rw [ho] at hw
  cases hacc : cfg.accepted.contains c with
  | false => rfl
  | true =>
    have he := hdisj c hacc
    simp only [wantsRetry, hacc, he, Bool.not_true, Bool.and_false, Bool.or_false] at hw
    exact absurd hw (by simp)

/-- The loop as it was before the repair (`rewinds = false`: the drained reader is sent again) does
not have properties (1), (2): a reader without `GetBody` is re-sent empty and the 200 that answers
the empty request is reported as success; an in-memory body makes the retry fail inside the client. -/
theorem unrepaired_loop_resends_drained_body :
    let req : Req := { method := "PUT", url := "/x", headers := [], body := [1, 2, 3] }
    (send { req := req, kind := .plain, bo := 1, rewinds := false } [.status 503, .status 200]) =
      ([.sent req, .sent { req with body := [] }], .ok 200) ∧
    (send { req := req, kind := .rewindable, bo := 1, rewinds := false } [.status 503, .status 200]) =
      ([.sent req, .localErr], .netErr) := by
  decide

/-- The https→http fallback as it was before its repair built a new request from the reader the
https attempt had drained: an in-memory body went out empty (Content-Length 0) and the 200 that
answered it was reported as success. -/
theorem unrepaired_fallback_resends_empty_body :
    let req : Req := { method := "PUT", url := "/x", headers := [], body := [1, 2, 3], tls := true }
    send { req := req, kind := .rewindable, fallback := true, rewinds := false } [.net, .status 200] =
      ([.sent req, .sent { req with body := [], tls := false }], .ok 200) := by
  decide

-- non-vacuity: the repaired fallback, and a body that cannot be replayed gets no fallback attempt
example : send { req := { method := "PUT", url := "/x", headers := [], body := [1, 2, 3], tls := true },
                 kind := .rewindable, fallback := true, bo := 1 } [.refuse, .status 503, .netAfter 1, .status 200] =
    ([.sent { method := "PUT", url := "/x", headers := [], body := [1, 2, 3], tls := true },
      .sent { method := "PUT", url := "/x", headers := [], body := [1, 2, 3], tls := false },
      .sent { method := "PUT", url := "/x", headers := [], body := [1, 2, 3], tls := true },
      .sent { method := "PUT", url := "/x", headers := [], body := [1, 2, 3], tls := false }], .ok 200) := by decide
example : send { req := { method := "PUT", url := "/x", headers := [], body := [1, 2, 3], tls := true },
                 kind := .plain, fallback := true, bo := 3 } [.net, .status 200] =
    ([.sent { method := "PUT", url := "/x", headers := [], body := [1, 2, 3], tls := true }], .netErr) := by decide

-- non-vacuity: runs with several attempts under the repaired loop
example : (send { req := { method := "POST", url := "/x", headers := [("X-A", "1")], body := [1, 2, 3] },
                  kind := .rewindable, bo := 3 } [.net, .status 503, .status 200, .status 500]) =
    (List.replicate 3 (.sent { method := "POST", url := "/x", headers := [("X-A", "1")], body := [1, 2, 3] }), .ok 200) := by decide
example : (send { req := { method := "POST", url := "/x", headers := [], body := [1, 2, 3] },
                  kind := .plain, bo := 3 } [.status 503, .status 200]).2 = .statusErr 503 := by decide
example : (send { req := { method := "GET", url := "/", headers := [], body := [] },
                  kind := .none, bo := 1 } [.net, .net, .status 200]) =
    (List.replicate 2 (.sent { method := "GET", url := "/", headers := [], body := [] }), .netErr) := by decide
example : (send { req := { method := "GET", url := "/", headers := [], body := [] },
                  kind := .none, accepted := [200, 503], bo := 5 } [.status 503, .status 200]).1.length = 1 := by decide

end KrakenModel.Spec.C34
