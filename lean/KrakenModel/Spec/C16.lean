import KrakenModel.Util.LTS
import KrakenModel.Model.ConnState
import KrakenModel.Proof.C16
/-
  C16  Connection limits and connection states are never violated.
  Statements are about `Model.ConnState`, which the correspondence check ties to
  lib/torrent/scheduler/connstate.State (public API, real `*conn.Conn`s, `clock.Mock`).
  Histories range over every sequence of State calls, clock advances and the event handlers of
  scheduler/events.go that use the State (announce result, conn closed, failed handshakes).
-/
namespace KrakenModel.Spec.C16
open KrakenModel KrakenModel.ConnState KrakenModel.Proof.C16

/-- the transition system of one `State` with configuration `cfg` (after `applyDefaults`) -/
def sys (cfg : Config) : Sys State Op := { init := {}, step := step cfg }

def isPending (s : State) (h : Hash) (p : Peer) : Prop := ⟨h, p, .pending⟩ ∈ s.conns
def isActive (s : State) (h : Hash) (p : Peer) : Prop := ∃ c, ⟨h, p, .active c⟩ ∈ s.conns

/-- `applyDefaults` yields a positive maximum for every non-negative configured value. -/
theorem defaults_max_pos (raw : Config) (h0 : 0 ≤ raw.max) : 1 ≤ raw.applyDefaults.max := by
  simp only [Config.applyDefaults]
  split <;> omega

/-- **C16 (1)** For every history and every torrent, pending + active connections never exceed
the configured maximum (any `Max ≥ 0`; `applyDefaults` turns 0 into 10). -/
theorem conn_limits (cfg : Config) (hmax : 0 ≤ cfg.max) (ops : List Op) (h : Hash) :
    (count ((sys cfg).run ops) h : Int) ≤ cfg.max :=
  Sys.run_inv (sys cfg) (WithinMax cfg) (by intro h; simpa [sys, count] using hmax)
    (fun s a hw => step_within cfg s a hw) ops h

/-- the count really is the number of (pending or active) peers of the torrent: keys are unique -/
theorem conn_keys_unique (cfg : Config) (ops : List Op) :
    (((sys cfg).run ops).conns.map (fun e => (e.hash, e.peer))).Nodup :=
  Sys.run_inv (sys cfg) KeysNodup (by simp [sys, KeysNodup]) (fun s a hn => step_keys cfg s a hn) ops

/-- **C16 (2)** For every history, a peer is never both pending and active for the same torrent
(nor active with two different connections). -/
theorem one_status (cfg : Config) (ops : List Op) (h : Hash) (p : Peer) :
    ¬ (isPending ((sys cfg).run ops) h p ∧ isActive ((sys cfg).run ops) h p) ∧
    ∀ c c', ⟨h, p, .active c⟩ ∈ ((sys cfg).run ops).conns → ⟨h, p, .active c'⟩ ∈ ((sys cfg).run ops).conns → c = c' := by
  have hn := conn_keys_unique cfg ops
  constructor
  · rintro ⟨hp, c, ha⟩
    have := eq_of_nodup_map key _ hn _ _ hp ha rfl
    simp at this
  · intro c c' h1 h2
    have := eq_of_nodup_map key _ hn _ _ h1 h2 rfl
    simpa using this

/-- **C16 (3)** `AddPending` answers `ErrTooManyMutualConns` exactly when the torrent has room, the
peer is new and more than `MaxMutualConnections` of the given neighbours are pending or active;
and whenever that many neighbours are connected the connection is refused and nothing changes. -/
theorem too_many_mutual_iff (cfg : Config) (s : State) (p : Peer) (h : Hash) (nbrs : List Peer) :
    (addPending cfg s p h nbrs).2 = .tooManyMutual ↔
      ((count s h : Int) ≠ cfg.max ∧ lookup s h p = none ∧ cfg.maxMutual < (numMutual s h nbrs : Int)) := by
  unfold addPending
  by_cases hc : (count s h : Int) = cfg.max
  · simp [hc]
  · cases hl : lookup s h p with
    | none =>
      by_cases hm : (numMutual s h nbrs : Int) > cfg.maxMutual
      · simp [hc, hm]
      · simp [hc, hm]
    | some st => cases st <;> simp [hc]

theorem mutual_refused (cfg : Config) (s : State) (p : Peer) (h : Hash) (nbrs : List Peer)
    (hm : cfg.maxMutual < (numMutual s h nbrs : Int)) :
    (addPending cfg s p h nbrs).2 ≠ .ok ∧ (addPending cfg s p h nbrs).1 = s := by
  unfold addPending
  by_cases hc : (count s h : Int) = cfg.max
  · simp [hc]
  · cases hl : lookup s h p with
    | none =>
      have hm' : (numMutual s h nbrs : Int) > cfg.maxMutual := hm
      simp [hc, hm']
    | some st => cases st <;> simp [hc]

/-- `numMutual` counts the neighbours that are pending or active for the torrent -/
theorem numMutual_spec (s : State) (h : Hash) (nbrs : List Peer) :
    numMutual s h nbrs = (nbrs.filter (fun q => decide (∃ e ∈ s.conns, e.hash = h ∧ e.peer = q))).length := by
  unfold numMutual
  congr 1
  apply List.filter_congr
  intro q _
  have := get_isSome_iff s h q
  by_cases hq : ∃ e ∈ s.conns, e.hash = h ∧ e.peer = q
  · simp [this.mpr hq, hq]
  · have h2 : (lookup s h q).isSome = false := by
      cases hx : (lookup s h q).isSome with
      | false => rfl
      | true => exact absurd (this.mp hx) hq
    simp [h2, hq]

/-- for a duplicate-free neighbour list (production lists are the keys of the handshake's
remote-bitfield map) the count is the number of distinct connected neighbours -/
theorem mutual_counts_distinct (s : State) (h : Hash) (nbrs : List Peer) (hn : nbrs.Nodup) :
    (nbrs.filter fun q => (lookup s h q).isSome).Nodup ∧
    numMutual s h nbrs = (nbrs.filter fun q => (lookup s h q).isSome).length :=
  ⟨List.Nodup.sublist List.filter_sublist hn, rfl⟩

/-- a successful `AddPending` is exactly: room, new peer, not too many mutual connections; it
makes the peer pending -/
theorem add_ok_iff (cfg : Config) (s : State) (p : Peer) (h : Hash) (nbrs : List Peer) :
    ((addPending cfg s p h nbrs).2 = .ok ↔
      ((count s h : Int) ≠ cfg.max ∧ lookup s h p = none ∧ (numMutual s h nbrs : Int) ≤ cfg.maxMutual)) ∧
    ((addPending cfg s p h nbrs).2 = .ok → lookup (addPending cfg s p h nbrs).1 h p = some .pending) := by
  unfold addPending
  by_cases hc : (count s h : Int) = cfg.max
  · simp [hc]
  · cases hl : lookup s h p with
    | none =>
      by_cases hm : (numMutual s h nbrs : Int) > cfg.maxMutual
      · simp [hc, hm]
      · simp [hc, hm]
        exact ⟨by omega, get_put_same s h p .pending⟩
    | some st => cases st <;> simp [hc]

/-- **C16 (4)** `DeleteActive(c)` never removes the entry of another connection `c'` — in
particular not of a newer connection to the same peer for the same torrent — … -/
theorem delete_active_identity (s : State) (c c' : Conn) (hne : c.id ≠ c'.id)
    (hc' : lookup s c'.hash c'.peer = some (.active c'.id)) :
    lookup (deleteActive s c) c'.hash c'.peer = some (.active c'.id) := by
  unfold deleteActive
  split
  · rename_i id hl
    split
    · exact hc'
    · rename_i hid
      have hid' : id = c.id := by simpa using hid
      by_cases hk : c'.hash = c.hash ∧ c'.peer = c.peer
      · rw [hk.1, hk.2, hl] at hc'
        simp at hc'
        exact absurd (hid'.symm.trans hc') hne
      · rw [get_del_other s c.hash c.peer c'.hash c'.peer hk]; exact hc'
  · exact hc'

/-- … and it removes (and frees the capacity of) the entry that holds `c` itself. -/
theorem delete_active_own (s : State) (c : Conn) (hc : lookup s c.hash c.peer = some (.active c.id)) :
    lookup (deleteActive s c) c.hash c.peer = none := by
  unfold deleteActive
  simp [hc, get_del_same]

/-- the operations that may remove the entry of connection `id`: `DeleteActive` and the
conn-closed event of that very connection -/
def removes (id : ConnId) : Op → Prop
  | .deleteActive c => c.id = id
  | .connClosed c => c.id = id
  | _ => False

theorem step_keeps_active (cfg : Config) (s : State) (o : Op) (h' : Hash) (p' : Peer) (x : ConnId)
    (hno : ¬ removes x o) (hl : lookup s h' p' = some (.active x)) :
    lookup (step cfg s o) h' p' = some (.active x) := by
  cases o with
  | addPending p h nbrs => exact addPending_keeps_active cfg s p h nbrs h' p' x hl
  | deletePending p h => exact deletePending_keeps_active s p h h' p' x hl
  | moveActive c => exact move_keeps_active s c h' p' x hl
  | deleteActive c => exact deleteActive_keeps_active s c h' p' x (by simpa [removes] using hno) hl
  | blacklist p h => simp only [step]; rw [lookup_of_conns (blacklistOp_conns cfg s p h)]; exact hl
  | clearBlacklist h => exact hl
  | advance d => exact hl
  | announceResult self h peers =>
    exact announceResult_inv cfg self h (fun s => lookup s h' p' = some (.active x))
      (fun s p hs => addPending_keeps_active cfg s p h [] h' p' x hs) peers s hl
  | connClosed c =>
    simp only [step, connClosed]
    rw [lookup_of_conns (blacklistOp_conns cfg _ _ _)]
    exact deleteActive_keeps_active s c h' p' x (by simpa [removes] using hno) hl
  | failedOutgoing p h =>
    simp only [step, failedOutgoing]
    rw [lookup_of_conns (blacklistOp_conns cfg _ _ _)]
    exact deletePending_keeps_active s p h h' p' x hl
  | complete h => exact hl

/-- **C16 (4b)** For every continuation of every history — any interleaving of State calls, clock
advances and event handlers — an active connection keeps its entry until `DeleteActive` or the
conn-closed event of that very connection: in particular a connection that replaced an older one
to the same peer is never removed on behalf of the older one (late `DeleteActive`/conn-closed of the
old connection, failed handshakes, announce results, … ). -/
theorem replaced_conn_survives (cfg : Config) (s : State) (c' : Conn)
    (hc' : lookup s c'.hash c'.peer = some (.active c'.id))
    (rest : List Op) (hrest : ∀ o ∈ rest, ¬ removes c'.id o) :
    lookup ((sys cfg).runFrom s rest) c'.hash c'.peer = some (.active c'.id) := by
  induction rest generalizing s with
  | nil => simpa [Sys.runFrom] using hc'
  | cons o os ih =>
    simp only [Sys.runFrom, List.foldl_cons]
    exact ih (step cfg s o) (step_keeps_active cfg s o _ _ _ (hrest o (by simp)) hc')
      (fun o ho => hrest o (List.mem_cons_of_mem _ ho))

/-- only `MovePendingToActive` of an open connection on a pending entry activates, and it
records that connection -/
theorem move_ok_iff (s : State) (c : Conn) :
    ((movePendingToActive s c).2 = .ok ↔ (c.closed = false ∧ lookup s c.hash c.peer = some .pending)) ∧
    ((movePendingToActive s c).2 = .ok →
      lookup (movePendingToActive s c).1 c.hash c.peer = some (.active c.id)) ∧
    ((movePendingToActive s c).2 ≠ .ok → (movePendingToActive s c).1 = s) := by
  unfold movePendingToActive
  split
  · rename_i hc; simp [hc]
  · rename_i hc
    split
    · rename_i hl; simp [hc]; exact hl
    · rename_i hl
      have hl' : lookup s c.hash c.peer = some .pending := by simpa using hl
      simp [hc, hl', get_put_same]

/-- **C16 (5a)** A peer is dialled (an outgoing handshake is started by an announce result)
only while it is not blacklisted for that torrent, never ourselves, and never for a completed torrent. -/
theorem dialled_not_blacklisted (cfg : Config) (s : State) (o : Op) (p : Peer) (h : Hash)
    (hd : (p, h) ∈ dialled cfg s o) : blacklisted s p h = false ∧ s.completed.contains h = false := by
  cases o with
  | announceResult self h' peers =>
    simp only [dialled, List.mem_map] at hd
    obtain ⟨q, hq, he⟩ := hd
    simp only [Prod.mk.injEq] at he
    obtain ⟨rfl, rfl⟩ := he
    have := (announceResult_dialled cfg self h' peers s).2.2 q hq
    exact ⟨this.2.2.1, this.2.2.2⟩
  | _ => simp [dialled] at hd

/-- one step keeps "(h,p) blacklisted at least until T" unless it is `ClearBlacklist(h)` or the
completion of `h` -/
theorem bl_step (cfg : Config) (h : Hash) (p : Peer) (T : Int) (s1 : State) (o : Op)
    (hno : o ≠ .clearBlacklist h) (hnc : o ≠ .complete h) (hT : T ≤ s1.now + cfg.blacklistDuration)
    (hb : BlUntil h p T s1) : BlUntil h p T (step cfg s1 o) ∧ s1.now ≤ (step cfg s1 o).now := by
  have hclear : ∀ g, g ≠ h → BlUntil h p T (clearBlacklist s1 g) := by
    intro g hg
    obtain ⟨⟨e, he, hk⟩, hall⟩ := hb
    simp only [clearBlacklist, BlUntil, List.mem_filter]
    refine ⟨⟨e, ⟨he, ?_⟩, hk⟩, fun e' he' hk' => hall e' he'.1 hk'⟩
    have := (bis_iff e h p).mp hk
    simp [this.1]; exact fun e => hg e.symm
  cases o with
  | addPending q g nbrs =>
    have := addPending_blacklist cfg s1 q g nbrs
    exact ⟨blUntil_of_blacklist_eq hb this.1, by simp only [step]; omega⟩
  | deletePending q g =>
    simp only [step, deletePending, del]; split <;> exact ⟨hb, Int.le_refl _⟩
  | moveActive c =>
    simp only [step, movePendingToActive, put]
    split
    · exact ⟨hb, Int.le_refl _⟩
    · split <;> exact ⟨hb, Int.le_refl _⟩
  | deleteActive c =>
    simp only [step, deleteActive, del]
    split
    · split <;> exact ⟨hb, Int.le_refl _⟩
    · exact ⟨hb, Int.le_refl _⟩
  | blacklist q g =>
    exact ⟨blUntil_blacklistOp q g hb hT, by simp only [step, blacklistOp_now]; exact Int.le_refl _⟩
  | clearBlacklist g =>
    have hg : g ≠ h := fun e => hno (by rw [e])
    exact ⟨hclear g hg, Int.le_refl _⟩
  | advance d => exact ⟨hb, by simp only [step]; omega⟩
  | announceResult self g peers =>
    have := announceResult_dialled cfg self g peers s1
    exact ⟨blUntil_of_blacklist_eq hb this.1, by simp only [step]; omega⟩
  | connClosed c =>
    have hda : (deleteActive s1 c).blacklist = s1.blacklist ∧ (deleteActive s1 c).now = s1.now := by
      simp only [deleteActive, del]
      split
      · split <;> exact ⟨rfl, rfl⟩
      · exact ⟨rfl, rfl⟩
    refine ⟨blUntil_blacklistOp _ _ (blUntil_of_blacklist_eq hb hda.1) (by rw [hda.2]; exact hT), ?_⟩
    simp only [step, connClosed, blacklistOp_now]; omega
  | failedOutgoing q g =>
    have hda : (deletePending s1 q g).blacklist = s1.blacklist ∧ (deletePending s1 q g).now = s1.now := by
      simp only [deletePending, del]
      split <;> exact ⟨rfl, rfl⟩
    refine ⟨blUntil_blacklistOp _ _ (blUntil_of_blacklist_eq hb hda.1) (by rw [hda.2]; exact hT), ?_⟩
    simp only [step, failedOutgoing, blacklistOp_now]; omega
  | complete g =>
    have hg : g ≠ h := fun e => hnc (by rw [e])
    have := hclear g hg
    exact ⟨by simpa [step, dispatcherComplete, BlUntil, clearBlacklist] using this, Int.le_refl _⟩

/-- a successful `Blacklist(p,h)` at `t₀` establishes "blacklisted until `t₀ + duration`" -/
theorem bl_established (cfg : Config) (hen : cfg.disableBlacklist = false) (s0 : State) (p : Peer) (h : Hash)
    (hok : (blacklistOp cfg s0 p h).2 = .ok) :
    BlUntil h p (s0.now + cfg.blacklistDuration) (step cfg s0 (.blacklist p h)) := by
  let T := s0.now + cfg.blacklistDuration
  have hset : BlUntil h p T (setB s0 h p T) := by
    unfold BlUntil setB
    refine ⟨⟨⟨h, p, T⟩, by simp, by simp [BEntry.is]⟩, ?_⟩
    intro e he hk
    simp only [List.mem_append, List.mem_filter, List.mem_singleton] at he
    rcases he with ⟨_, hf⟩ | rfl
    · simp [hk] at hf
    · exact Int.le_refl _
  simp only [step]
  unfold blacklistOp at hok ⊢
  simp only [hen] at hok ⊢
  cases hf : findB s0 h p with
  | none => simpa [hf] using hset
  | some e =>
    simp only [hf] at hok ⊢
    by_cases hl : e.live s0.now
    · simp [hl] at hok
    · simpa [hl] using hset

/-- **C16 (5b)** After `Blacklist(p,h)` succeeded at time `t₀`, the pair stays blacklisted in every
later state of every history without `ClearBlacklist(h)` and without the completion of `h` (which
clears the torrent's blacklist) while `now < t₀ + BlacklistDuration`. -/
theorem blacklist_lasts (cfg : Config) (hen : cfg.disableBlacklist = false) (s0 : State) (p : Peer) (h : Hash)
    (hok : (blacklistOp cfg s0 p h).2 = .ok) (rest : List Op)
    (hnc : ∀ o ∈ rest, o ≠ .clearBlacklist h ∧ o ≠ .complete h) :
    let s := (sys cfg).runFrom (step cfg s0 (.blacklist p h)) rest
    s.now < s0.now + cfg.blacklistDuration → blacklisted s p h = true := by
  intro s hnow
  have hinv : ∀ (ops : List Op) (s1 : State), (∀ o ∈ ops, o ≠ .clearBlacklist h ∧ o ≠ .complete h) →
      (BlUntil h p (s0.now + cfg.blacklistDuration) s1 ∧ s0.now ≤ s1.now) →
      (BlUntil h p (s0.now + cfg.blacklistDuration) ((sys cfg).runFrom s1 ops) ∧ s0.now ≤ ((sys cfg).runFrom s1 ops).now) := by
    intro ops
    induction ops with
    | nil => intro s1 _ h1; simpa [Sys.runFrom] using h1
    | cons o os ih =>
      intro s1 hno h1
      simp only [Sys.runFrom, List.foldl_cons]
      apply ih _ (fun o ho => hno o (List.mem_cons_of_mem _ ho))
      have := bl_step cfg h p _ s1 o (hno o (by simp)).1 (hno o (by simp)).2 (by omega) h1.1
      exact ⟨this.1, by show s0.now ≤ (step cfg s1 o).now; omega⟩
  have h0 := bl_established cfg hen s0 p h hok
  have hn0 : s0.now ≤ (step cfg s0 (.blacklist p h)).now := by simp only [step, blacklistOp_now]; omega
  exact blUntil_blacklisted (hinv rest _ hnc ⟨h0, hn0⟩).1 hnow

/-- **C16 (5)** Blacklisted peers are not dialled until their blacklist expires: after a successful
`Blacklist(p,h)` at `t₀`, no operation of any later history dials `p` for `h` while
`now < t₀ + BlacklistDuration` — also across the torrent's completion (`dispatcherCompleteEvent`
clears the torrent's blacklist, but a completed torrent opens no connections).  The only excluded
operation is a bare `State.ClearBlacklist(h)`, which no production code path performs. -/
theorem blacklisted_not_dialled (cfg : Config) (hen : cfg.disableBlacklist = false) (s0 : State) (p : Peer) (h : Hash)
    (hok : (blacklistOp cfg s0 p h).2 = .ok) (rest : List Op) (hnc : ∀ o ∈ rest, o ≠ .clearBlacklist h) (o : Op) :
    let s := (sys cfg).runFrom (step cfg s0 (.blacklist p h)) rest
    s.now < s0.now + cfg.blacklistDuration → (p, h) ∉ dialled cfg s o := by
  intro s hnow hd
  have hinv : ∀ (ops : List Op) (s1 : State), (∀ o ∈ ops, o ≠ .clearBlacklist h) →
      ((BlUntil h p (s0.now + cfg.blacklistDuration) s1 ∧ s0.now ≤ s1.now) ∨ h ∈ s1.completed) →
      ((BlUntil h p (s0.now + cfg.blacklistDuration) ((sys cfg).runFrom s1 ops) ∧ s0.now ≤ ((sys cfg).runFrom s1 ops).now) ∨
        h ∈ ((sys cfg).runFrom s1 ops).completed) := by
    intro ops
    induction ops with
    | nil => intro s1 _ h1; simpa [Sys.runFrom] using h1
    | cons o os ih =>
      intro s1 hno h1
      simp only [Sys.runFrom, List.foldl_cons]
      apply ih _ (fun o ho => hno o (List.mem_cons_of_mem _ ho))
      show (BlUntil h p _ (step cfg s1 o) ∧ s0.now ≤ (step cfg s1 o).now) ∨ h ∈ (step cfg s1 o).completed
      rcases h1 with ⟨hb, hn⟩ | hc
      · by_cases hco : o = .complete h
        · right; subst hco; simp [step, dispatcherComplete, clearBlacklist]
        · left
          have := bl_step cfg h p _ s1 o (hno o (by simp)) hco (by omega) hb
          exact ⟨this.1, by omega⟩
      · exact .inr (completed_mono cfg s1 o h hc)
  have h0 := bl_established cfg hen s0 p h hok
  have hn0 : s0.now ≤ (step cfg s0 (.blacklist p h)).now := by simp only [step, blacklistOp_now]; omega
  have h2 := dialled_not_blacklisted cfg s o p h hd
  rcases hinv rest _ hnc (.inl ⟨h0, hn0⟩) with ⟨hb, _⟩ | hc
  · have h1 := blUntil_blacklisted hb hnow
    rw [h1] at h2
    cases h2.1
  · have : s.completed.contains h = true := by simpa using hc
    rw [this] at h2
    cases h2.2

/-- the blacklist does expire: `Blacklisted` is exactly "an entry exists and `expiration > now`" -/
theorem blacklisted_iff (s : State) (p : Peer) (h : Hash) :
    blacklisted s p h = true ↔ ∃ e, findB s h p = some e ∧ s.now < e.expiration := by
  unfold blacklisted
  cases hf : findB s h p with
  | none => simp
  | some e => simp [BEntry.live]

/-- The hypothesis `0 ≤ Max` of `conn_limits` is necessary: a negative maximum is never reached. -/
theorem negative_max_unbounded :
    ¬ ((count ((sys ⟨-1, 5, false, 1⟩).run [.addPending 1 0 []]) 0 : Int) ≤ -1) := by decide

-- non-vacuity: a history that reaches the limit, replaces a connection and blacklists
def exCfg : Config := ⟨2, 1, false, 10⟩
def exOps : List Op :=
  [.addPending 1 0 [], .moveActive ⟨7, 0, 1, false⟩, .addPending 2 0 [1], .addPending 3 0 [],
   .deleteActive ⟨7, 0, 1, false⟩, .addPending 1 0 [], .moveActive ⟨8, 0, 1, false⟩,
   .deleteActive ⟨7, 0, 1, false⟩, .blacklist 3 0, .advance 9, .announceResult 9 0 [3, 4]]
example : count ((sys exCfg).run exOps) 0 = 2 := by decide
example : lookup ((sys exCfg).run exOps) 0 1 = some (.active 8) := by decide
example : (addPending exCfg ((sys exCfg).run (exOps.take 2)) 2 0 [1, 1]).2 = .tooManyMutual := by decide
example : (addPending exCfg ((sys exCfg).run (exOps.take 4)) 3 0 []).2 = .atCapacity := by decide
example : blacklisted ((sys exCfg).run (exOps.take 10)) 3 0 = true := by decide
example : dialled exCfg ((sys exCfg).run ((exOps.take 10) ++ [.deletePending 2 0])) (.announceResult 9 0 [3, 4]) = [(4, 0)] := by decide
example : dialled exCfg ((sys exCfg).run ((exOps.take 10) ++ [.deletePending 2 0, .advance 1])) (.announceResult 9 0 [3, 4]) = [(3, 0)] := by decide

-- completion: the blacklist of the torrent is cleared, and it does not dial any more
example : blacklisted ((sys exCfg).run ((exOps.take 10) ++ [.complete 0])) 3 0 = false := by decide
example : dialled exCfg ((sys exCfg).run ((exOps.take 10) ++ [.deletePending 2 0, .complete 0])) (.announceResult 9 0 [3, 4]) = [] := by decide
example : lookup ((sys exCfg).runFrom ((sys exCfg).run (exOps.take 7))
    [.connClosed ⟨7, 0, 1, false⟩, .failedOutgoing 1 0, .announceResult 9 0 [1, 2], .complete 0]) 0 1 = some (.active 8) := by decide

end KrakenModel.Spec.C16
