import KrakenModel.Util.LTS
import KrakenModel.Model.ConnState
import KrakenModel.Proof.C16
/-
  C16  Connection limits and connection states are never violated.
  Statements are about `Model.ConnState`, which the correspondence check ties to
  lib/torrent/scheduler/connstate.State (public API, real `*conn.Conn`s, `clock.Mock`).
  Histories range over every sequence of State calls, clock advances and the event handlers of
  scheduler/events.go that use the State (announce result, conn closed, failed handshakes).
-/
namespace KrakenModel.Spec.C16
open KrakenModel KrakenModel.ConnState KrakenModel.Proof.C16

/-- the transition system of one `State` with configuration `cfg` (after `applyDefaults`) -/
def sys (cfg : Config) : Sys State Op := { init := {}, step := step cfg }

def isPending (s : State) (h : Hash) (p : Peer) : Prop := ⟨h, p, .pending⟩ ∈ s.conns
def isActive (s : State) (h : Hash) (p : Peer) : Prop := ∃ c, ⟨h, p, .active c⟩ ∈ s.conns

/-- `applyDefaults` yields a positive maximum for every non-negative configured value. -/
theorem defaults_max_pos (raw : Config) (h0 : 0 ≤ raw.max) : 1 ≤ raw.applyDefaults.max := by
  simp only [Config.applyDefaults]
  split <;> omega

/-- **C16 (1)** For every history and every torrent, pending + active connections never exceed
the configured maximum (any `Max ≥ 0`; `applyDefaults` turns 0 into 10). -/
theorem conn_limits (cfg : Config) (hmax : 0 ≤ cfg.max) (ops : List Op) (h : Hash) :
    (count ((sys cfg).run ops) h : Int) ≤ cfg.max :=
  Sys.run_inv (sys cfg) (WithinMax cfg) (by intro h; simpa [sys, count] using hmax)
    (fun s a hw => step_within cfg s a hw) ops h

/-- the count really is the number of (pending or active) peers of the torrent: keys are unique -/
theorem conn_keys_unique (cfg : Config) (ops : List Op) :
    (((sys cfg).run ops).conns.map (fun e => (e.hash, e.peer))).Nodup :=
  Sys.run_inv (sys cfg) KeysNodup (by simp [sys, KeysNodup]) (fun s a hn => step_keys cfg s a hn) ops

/-- **C16 (2)** For every history, a peer is never both pending and active for the same torrent
(nor active with two different connections). -/
theorem one_status (cfg : Config) (ops : List Op) (h : Hash) (p : Peer) :
    ¬ (isPending ((sys cfg).run ops) h p ∧ isActive ((sys cfg).run ops) h p) ∧
    ∀ c c', ⟨h, p, .active c⟩ ∈ ((sys cfg).run ops).conns → ⟨h, p, .active c'⟩ ∈ ((sys cfg).run ops).conns → c = c' := by
  have hn := conn_keys_unique cfg ops
  constructor
  · rintro ⟨hp, c, ha⟩
    have := eq_of_nodup_map key _ hn _ _ hp ha rfl
    simp at this
  · intro c c' h1 h2
    have := eq_of_nodup_map key _ hn _ _ h1 h2 rfl
    simpa using this

/-- **C16 (3)** `AddPending` answers `ErrTooManyMutualConns` exactly when the torrent has room, the
peer is new and more than `MaxMutualConnections` of the given neighbours are pending or active;
and whenever that many neighbours are connected the connection is refused and nothing changes. -/
theorem too_many_mutual_iff (cfg : Config) (s : State) (p : Peer) (h : Hash) (nbrs : List Peer) :
    (addPending cfg s p h nbrs).2 = .tooManyMutual ↔
      ((count s h : Int) ≠ cfg.max ∧ lookup s h p = none ∧ cfg.maxMutual < (numMutual s h nbrs : Int)) := by
  unfold addPending
  by_cases hc : (count s h : Int) = cfg.max
  · simp [hc]
  · cases hl : lookup s h p with
    | none =>
      by_cases hm : (numMutual s h nbrs : Int) > cfg.maxMutual
      · simp [hc, hm]
      · simp [hc, hm]
    | some st => cases st <;> simp [hc]

theorem mutual_refused (cfg : Config) (s : State) (p : Peer) (h : Hash) (nbrs : List Peer)
    (hm : cfg.maxMutual < (numMutual s h nbrs : Int)) :
    (addPending cfg s p h nbrs).2 ≠ .ok ∧ (addPending cfg s p h nbrs).1 = s := by
  unfold addPending
  by_cases hc : (count s h : Int) = cfg.max
  · simp [hc]
  · cases hl : lookup s h p with
    | none =>
      have hm' : (numMutual s h nbrs : Int) > cfg.maxMutual := hm
      simp [hc, hm']
    | some st => cases st <;> simp [hc]

/-- `numMutual` counts the neighbours that are pending or active for the torrent -/
theorem numMutual_spec (s : State) (h : Hash) (nbrs : List Peer) :
    numMutual s h nbrs = (nbrs.filter (fun q => decide (∃ e ∈ s.conns, e.hash = h ∧ e.peer = q))).length := by
  unfold numMutual
  congr 1
  apply List.filter_congr
  intro q _
  have := get_isSome_iff s h q
  by_cases hq : ∃ e ∈ s.conns, e.hash = h ∧ e.peer = q
  · simp [this.mpr hq, hq]
  · have h2 : (lookup s h q).isSome = false := by
      cases hx : (lookup s h q).isSome with
      | false => rfl
      | true => exact absurd (this.mp hx) hq
    simp [h2, hq]

/-- a successful `AddPending` is exactly: room, new peer, not too many mutual connections; it
makes the peer pending -/
theorem add_ok_iff (cfg : Config) (s : State) (p : Peer) (h : Hash) (nbrs : List Peer) :
    ((addPending cfg s p h nbrs).2 = .ok ↔
      ((count s h : Int) ≠ cfg.max ∧ lookup s h p = none ∧ (numMutual s h nbrs : Int) ≤ cfg.maxMutual)) ∧
    ((addPending cfg s p h nbrs).2 = .ok → lookup (addPending cfg s p h nbrs).1 h p = some .pending) := by
  unfold addPending
  by_cases hc : (count s h : Int) = cfg.max
  · simp [hc]
  · cases hl : lookup s h p with
    | none =>
      by_cases hm : (numMutual s h nbrs : Int) > cfg.maxMutual
      · simp [hc, hm]
      · simp [hc, hm]
        exact ⟨by omega, get_put_same s h p .pending⟩
    | some st => cases st <;> simp [hc]

/-- **C16 (4)** `DeleteActive(c)` never removes the entry of another connection `c'` — in
particular not of a newer connection to the same peer for the same torrent — … -/
theorem delete_active_identity (s : State) (c c' : Conn) (hne : c.id ≠ c'.id)
    (hc' : lookup s c'.hash c'.peer = some (.active c'.id)) :
    lookup (deleteActive s c) c'.hash c'.peer = some (.active c'.id) := by
  unfold deleteActive
  split
  · rename_i id hl
    split
    · exact hc'
    · rename_i hid
      have hid' : id = c.id := by simpa using hid
      by_cases hk : c'.hash = c.hash ∧ c'.peer = c.peer
      · rw [hk.1, hk.2, hl] at hc'
        simp at hc'
        exact absurd (hid'.symm.trans hc') hne
      · rw [get_del_other s c.hash c.peer c'.hash c'.peer hk]; exact hc'
  · exact hc'

/-- … and it removes (and frees the capacity of) the entry that holds `c` itself. -/
theorem delete_active_own (s : State) (c : Conn) (hc : lookup s c.hash c.peer = some (.active c.id)) :
    lookup (deleteActive s c) c.hash c.peer = none := by
  unfold deleteActive
  simp [hc, get_del_same]

/-- For every history: a connection that replaced an older one stays active through any number of
`DeleteActive`/conn-closed events of other connections. -/
theorem replaced_conn_survives (cfg : Config) (s : State) (c' : Conn)
    (hc' : lookup s c'.hash c'.peer = some (.active c'.id))
    (olds : List Conn) (hold : ∀ c ∈ olds, c.id ≠ c'.id) :
    lookup ((sys cfg).runFrom s (olds.map Op.deleteActive)) c'.hash c'.peer = some (.active c'.id) := by
  induction olds generalizing s with
  | nil => simpa [Sys.runFrom] using hc'
  | cons c cs ih =>
    simp only [List.map_cons, Sys.runFrom, List.foldl_cons]
    exact ih (step cfg s (.deleteActive c)) (delete_active_identity s c c' (hold c (by simp)) hc')
      (fun c hc => hold c (List.mem_cons_of_mem _ hc))

/-- only `MovePendingToActive` of an open connection on a pending entry activates, and it
records that connection -/
theorem move_ok_iff (s : State) (c : Conn) :
    ((movePendingToActive s c).2 = .ok ↔ (c.closed = false ∧ lookup s c.hash c.peer = some .pending)) ∧
    ((movePendingToActive s c).2 = .ok →
      lookup (movePendingToActive s c).1 c.hash c.peer = some (.active c.id)) ∧
    ((movePendingToActive s c).2 ≠ .ok → (movePendingToActive s c).1 = s) := by
  unfold movePendingToActive
  split
  · rename_i hc; simp [hc]
  · rename_i hc
    split
    · rename_i hl; simp [hc]; exact hl
    · rename_i hl
      have hl' : lookup s c.hash c.peer = some .pending := by simpa using hl
      simp [hc, hl', get_put_same]

/-- **C16 (5a)** A peer is dialled (an outgoing handshake is started by an announce result)
only while it is not blacklisted for that torrent, and never ourselves. -/
theorem dialled_not_blacklisted (cfg : Config) (s : State) (o : Op) (p : Peer) (h : Hash)
    (hd : (p, h) ∈ dialled cfg s o) : blacklisted s p h = false := by
  cases o with
  | announceResult self h' peers =>
    simp only [dialled, announceResult, List.mem_map] at hd
    obtain ⟨q, hq, he⟩ := hd
    simp only [Prod.mk.injEq] at he
    obtain ⟨rfl, rfl⟩ := he
    rcases (announceLoop_dialled cfg self h' peers s []).2.2 q hq with hx | ⟨_, _, hb⟩
    · cases hx
    · exact hb
  | _ => simp [dialled] at hd

/-- **C16 (5b)** After `Blacklist(p,h)` succeeded at time `t₀`, the pair stays blacklisted in every
later state of every history without `ClearBlacklist(h)` while `now < t₀ + BlacklistDuration`. -/
theorem blacklist_lasts (cfg : Config) (hen : cfg.disableBlacklist = false) (s0 : State) (p : Peer) (h : Hash)
    (hok : (blacklistOp cfg s0 p h).2 = .ok) (rest : List Op) (hnc : ∀ o ∈ rest, o ≠ .clearBlacklist h) :
    let s := (sys cfg).runFrom (step cfg s0 (.blacklist p h)) rest
    s.now < s0.now + cfg.blacklistDuration → blacklisted s p h = true := by
  intro s hnow
  let T := s0.now + cfg.blacklistDuration
  -- invariant along `rest`
  have hinv : ∀ (ops : List Op) (s1 : State), (∀ o ∈ ops, o ≠ .clearBlacklist h) →
      (BlUntil h p T s1 ∧ s0.now ≤ s1.now) →
      (BlUntil h p T ((sys cfg).runFrom s1 ops) ∧ s0.now ≤ ((sys cfg).runFrom s1 ops).now) := by
    intro ops
    induction ops with
    | nil => intro s1 _ h1; simpa [Sys.runFrom] using h1
    | cons o os ih =>
      intro s1 hno h1
      simp only [Sys.runFrom, List.foldl_cons]
      apply ih _ (fun o ho => hno o (List.mem_cons_of_mem _ ho))
      have hT : T ≤ s1.now + cfg.blacklistDuration := by show s0.now + _ ≤ _; omega
      obtain ⟨hb, hn⟩ := h1
      show BlUntil h p T (step cfg s1 o) ∧ s0.now ≤ (step cfg s1 o).now
      cases o with
      | addPending q g nbrs =>
        have := addPending_blacklist cfg s1 q g nbrs
        exact ⟨blUntil_of_blacklist_eq hb this.1, by simp only [step]; omega⟩
      | deletePending q g =>
        simp only [step, deletePending, del]; split <;> exact ⟨hb, hn⟩
      | moveActive c =>
        simp only [step, movePendingToActive, put]
        split
        · exact ⟨hb, hn⟩
        · split <;> exact ⟨hb, hn⟩
      | deleteActive c =>
        simp only [step, deleteActive, del]
        split
        · split <;> exact ⟨hb, hn⟩
        · exact ⟨hb, hn⟩
      | blacklist q g =>
        exact ⟨blUntil_blacklistOp q g hb hT, by simp only [step, blacklistOp_now]; exact hn⟩
      | clearBlacklist g =>
        have hg : g ≠ h := fun e => hno (.clearBlacklist g) (by simp) (by rw [e])
        refine ⟨?_, hn⟩
        obtain ⟨⟨e, he, hk⟩, hall⟩ := hb
        simp only [step, clearBlacklist, BlUntil, List.mem_filter]
        refine ⟨⟨e, ⟨he, ?_⟩, hk⟩, fun e' he' hk' => hall e' he'.1 hk'⟩
        have := (bis_iff e h p).mp hk
        simp [this.1]; exact fun e => hg e.symm
      | advance d => exact ⟨hb, by simp only [step]; omega⟩
      | announceResult self g peers =>
        have := announceLoop_dialled cfg self g peers s1 []
        exact ⟨blUntil_of_blacklist_eq hb this.1, by simp only [step, announceResult]; omega⟩
      | connClosed c =>
        have hda : (deleteActive s1 c).blacklist = s1.blacklist ∧ (deleteActive s1 c).now = s1.now := by
          simp only [deleteActive, del]
          split
          · split <;> exact ⟨rfl, rfl⟩
          · exact ⟨rfl, rfl⟩
        refine ⟨blUntil_blacklistOp _ _ (blUntil_of_blacklist_eq hb hda.1) (by rw [hda.2]; exact hT), ?_⟩
        simp only [step, connClosed, blacklistOp_now]; omega
      | failedOutgoing q g =>
        have hda : (deletePending s1 q g).blacklist = s1.blacklist ∧ (deletePending s1 q g).now = s1.now := by
          simp only [deletePending, del]
          split <;> exact ⟨rfl, rfl⟩
        refine ⟨blUntil_blacklistOp _ _ (blUntil_of_blacklist_eq hb hda.1) (by rw [hda.2]; exact hT), ?_⟩
        simp only [step, failedOutgoing, blacklistOp_now]; omega
  -- the successful Blacklist call establishes it
  have h0 : BlUntil h p T (step cfg s0 (.blacklist p h)) ∧ s0.now ≤ (step cfg s0 (.blacklist p h)).now := by
    refine ⟨?_, by simp only [step, blacklistOp_now]; omega⟩
    have hset : BlUntil h p T (setB s0 h p T) := by
      unfold BlUntil setB
      refine ⟨⟨⟨h, p, T⟩, by simp, by simp [BEntry.is]⟩, ?_⟩
      intro e he hk
      simp only [List.mem_append, List.mem_filter, List.mem_singleton] at he
      rcases he with ⟨_, hf⟩ | rfl
      · simp [hk] at hf
      · exact Int.le_refl _
    simp only [step]
    unfold blacklistOp at hok ⊢
    simp only [hen] at hok ⊢
    cases hf : findB s0 h p with
    | none => simpa [hf] using hset
    | some e =>
      simp only [hf] at hok ⊢
      by_cases hl : e.live s0.now
      · simp [hl] at hok
      · simpa [hl] using hset
  exact blUntil_blacklisted (hinv rest _ hnc h0).1 hnow

/-- **C16 (5)** Blacklisted peers are not dialled until their blacklist expires: after a successful
`Blacklist(p,h)` at `t₀`, no operation of any later history (without `ClearBlacklist(h)`, i.e. the
torrent being removed) dials `p` for `h` while `now < t₀ + BlacklistDuration`. -/
theorem blacklisted_not_dialled (cfg : Config) (hen : cfg.disableBlacklist = false) (s0 : State) (p : Peer) (h : Hash)
    (hok : (blacklistOp cfg s0 p h).2 = .ok) (rest : List Op) (hnc : ∀ o ∈ rest, o ≠ .clearBlacklist h) (o : Op) :
    let s := (sys cfg).runFrom (step cfg s0 (.blacklist p h)) rest
    s.now < s0.now + cfg.blacklistDuration → (p, h) ∉ dialled cfg s o := by
  intro s hnow hd
  have h1 := blacklist_lasts cfg hen s0 p h hok rest hnc hnow
  have h2 := dialled_not_blacklisted cfg s o p h hd
  rw [h1] at h2
  cases h2

/-- the blacklist does expire: `Blacklisted` is exactly "an entry exists and `expiration > now`" -/
theorem blacklisted_iff (s : State) (p : Peer) (h : Hash) :
    blacklisted s p h = true ↔ ∃ e, findB s h p = some e ∧ s.now < e.expiration := by
  unfold blacklisted
  cases hf : findB s h p with
  | none => simp
  | some e => simp [BEntry.live]

/-- The hypothesis `0 ≤ Max` of `conn_limits` is necessary: a negative maximum is never reached. -/
theorem negative_max_unbounded :
    ¬ ((count ((sys ⟨-1, 5, false, 1⟩).run [.addPending 1 0 []]) 0 : Int) ≤ -1) := by decide

-- non-vacuity: a history that reaches the limit, replaces a connection and blacklists
def exCfg : Config := ⟨2, 1, false, 10⟩
def exOps : List Op :=
  [.addPending 1 0 [], .moveActive ⟨7, 0, 1, false⟩, .addPending 2 0 [1], .addPending 3 0 [],
   .deleteActive ⟨7, 0, 1, false⟩, .addPending 1 0 [], .moveActive ⟨8, 0, 1, false⟩,
   .deleteActive ⟨7, 0, 1, false⟩, .blacklist 3 0, .advance 9, .announceResult 9 0 [3, 4]]
example : count ((sys exCfg).run exOps) 0 = 2 := by decide
example : lookup ((sys exCfg).run exOps) 0 1 = some (.active 8) := by decide
example : (addPending exCfg ((sys exCfg).run (exOps.take 2)) 2 0 [1, 1]).2 = .tooManyMutual := by decide
example : (addPending exCfg ((sys exCfg).run (exOps.take 4)) 3 0 []).2 = .atCapacity := by decide
example : blacklisted ((sys exCfg).run (exOps.take 10)) 3 0 = true := by decide
example : dialled exCfg ((sys exCfg).run ((exOps.take 10) ++ [.deletePending 2 0])) (.announceResult 9 0 [3, 4]) = [(4, 0)] := by decide
example : dialled exCfg ((sys exCfg).run ((exOps.take 10) ++ [.deletePending 2 0, .advance 1])) (.announceResult 9 0 [3, 4]) = [(3, 0)] := by decide

end KrakenModel.Spec.C16
