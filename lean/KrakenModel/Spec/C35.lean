import KrakenModel.Model.Poll
import KrakenModel.Proof.C35
/-
  C35  A successful cluster blob download delivers the blob exactly once.

  Statements are about `Model.Poll` with `guarded = true`, i.e. `clusterClient.DownloadBlob` as it
  is after the repair (counting writer, rewind of a seekable destination before the next request,
  no further request once an unseekable destination holds body bytes).  The correspondence check
  ties that model to origin/blobclient (`ClusterClient.DownloadBlob`, `Poll`,
  `HTTPClient.DownloadBlob`) over real HTTP connections.

  Quantifiers: every blob, every initial destination (kind, contents, offset), every number of
  origins, every per-origin script of responses (connection closed, any status, 200 with a drop
  after any number of body bytes, 200 complete), every backoff budget.
-/
namespace KrakenModel.Spec.C35
open KrakenModel.Poll KrakenModel.Proof.C35

theorem mapNotFound_ok (r : Result) : mapNotFound r = .ok ↔ r = .ok := by
  unfold mapNotFound
  split <;> simp_all

/-- every close-delimited answer in the scripts carries the whole blob -/
def Honest (blobLen : Nat) (origins : Option (List (List Resp))) : Prop :=
  ∀ os, origins = some os → ∀ o ∈ os, ∀ r ∈ o, r.honest blobLen

/-- "success ⇒ the destination received the blob exactly once", for every script whatsoever. -/
def download_exactly_once_target : Prop :=
  ∀ (cfg : Cfg) (dst : Dst) (origins : Option (List (List Resp))), cfg.guarded = true →
    (download cfg dst origins).2 = .ok → (download cfg dst origins).1.dst = dst.write cfg.blob

/-- It fails for a response that is delimited only by the end of the connection (no Content-Length,
no chunked framing): a drop after 2 of 5 bytes is read as the end of the body, `io.Copy` returns nil
and the download reports success with 2 bytes.  HTTP gives the client no way to notice; only a
check of the received bytes against the requested digest would. -/
theorem not_download_exactly_once : ¬ download_exactly_once_target := by
  intro h
  have := h { blob := [1, 2, 3, 4, 5] } { kind := .plain, data := [] } (some [[.eof 2]]) rfl (by decide)
  exact absurd this (by decide)

/-- **C35 (1)** Exactly once (`_partial`: every script in which no close-delimited response is cut
short; responses with a Content-Length or chunked framing, closed connections and statuses are
unrestricted): whenever the download reports success, the destination is exactly
the initial destination with the blob written to it once (appended for an `io.Writer`; written
at the initial offset, nothing else touched, offset advanced by its length for a seekable one)
— whatever the origins did before the successful request. -/
theorem download_exactly_once_partial (cfg : Cfg) (hg : cfg.guarded = true) (dst : Dst)
    (origins : Option (List (List Resp))) (hh : Honest cfg.blob.length origins)
    (hok : (download cfg dst origins).2 = .ok) :
    (download cfg dst origins).1.dst = dst.write cfg.blob := by
  cases origins with
  | none => simp [download] at hok
  | some os =>
    simp only [download, hg, if_true] at hok ⊢
    exact pollFrom_good cfg hg dst os 0 { dst := dst } (good_init dst cfg.blob) (hh os rfl) ((mapNotFound_ok _).mp hok)

/-- what "written once" means for the two destination kinds -/
theorem written_once_plain (d : Dst) (h : d.kind = .plain) (blob : List Byte) :
    (d.write blob).data = d.data ++ blob := by
  rw [write_plain d h]

theorem written_once_seek (d : Dst) (h : d.kind = .seek) (blob : List Byte) (hb : blob ≠ []) :
    (d.write blob).data = writeAt d.data d.pos blob ∧ (d.write blob).pos = d.pos + blob.length := by
  rw [write_seek d h]; simp [ow, hb]

/-- **C35 (2)** If no origin ever delivers the whole blob, the call fails (also when the resolver
fails or resolves to no origin), for scripts whose close-delimited responses are complete (a
close-delimited response cut short is reported as success, see `not_download_exactly_once`).
Holds with and without the guard. -/
theorem download_fails_without_delivery (cfg : Cfg) (dst : Dst) (origins : List (List Resp))
    (hh : ∀ o ∈ origins, ∀ r ∈ o, r.honest cfg.blob.length)
    (hnone : ∀ o ∈ origins, ∀ r ∈ o, r.delivers cfg.blob.length = false) :
    (download cfg dst (some origins)).2 ≠ .ok := by
  intro hok
  have hpoll : (pollFrom cfg 0 origins { dst := dst }).2 = .ok := by
    simp only [download] at hok
    split at hok
    · exact (mapNotFound_ok _).mp hok
    · exact hok
  obtain ⟨o, ho, r, hr, hd⟩ := pollFrom_ok cfg origins 0 _ hh hpoll
  rw [hnone o ho r hr] at hd
  exact absurd hd (by simp)

theorem download_fails_without_origins (cfg : Cfg) (dst : Dst) :
    (download cfg dst none).2 = .resolveErr ∧ (download cfg dst (some [])).2 = .unavailable := by
  constructor
  · rfl
  · simp only [download, pollFrom]; split <;> rfl

/-- **C35 (3)** Shape of the request sequence (`trace` = origin index of every request): origins
are asked in resolver order and never revisited, only resolved origins are asked, and each is
asked at most `bo + 1` times (`bo` = backoff answers before `Stop`). -/
theorem requests_in_order (cfg : Cfg) (dst : Dst) (origins : List (List Resp)) :
    let t := (download cfg dst (some origins)).1.trace
    t.Pairwise (· ≤ ·) ∧ (∀ j ∈ t, j < origins.length) ∧ ∀ j, t.count j ≤ cfg.bo + 1 := by
  obtain ⟨t, h1, h2, h3, h4⟩ := pollFrom_trace cfg origins 0 { dst := dst }
  simp only [download]
  simp only [List.nil_append] at h1
  rw [h1]
  exact ⟨h2, fun j hj => by have := (h3 j hj).2; omega, h4⟩

/-- **C35 (4a)** Availability kept by the repair, seekable destination: if the origins before
some origin fail over (closed connection, 5xx, or a drop after any number of body bytes) and that
origin answers with the whole blob, the download succeeds — and by (1) holds the blob once. -/
theorem seekable_falls_through (cfg : Cfg) (hg : cfg.guarded = true) (dst : Dst) (hs : dst.kind = .seek)
    (pre : List (List Resp)) (o : List Resp) (post : List (List Resp))
    (hpre : ∀ s ∈ pre, FailsOver cfg.blob.length s) (ho : HeadDelivers cfg.blob.length o) :
    (download cfg dst (some (pre ++ o :: post))).2 = .ok := by
  simp only [download, hg, if_true, mapNotFound_ok]
  exact pollFrom_fallthrough cfg hg dst o post ho pre 0 { dst := dst } ⟨good_init dst cfg.blob, Or.inl hs⟩
    (fun s hm => Or.inl ⟨hs, hpre s hm⟩)

/-- **C35 (4b)** Any destination: failures that happen before a body byte arrives still fall
through to the next origin. -/
theorem clean_failures_fall_through (cfg : Cfg) (hg : cfg.guarded = true) (dst : Dst)
    (pre : List (List Resp)) (o : List Resp) (post : List (List Resp))
    (hpre : ∀ s ∈ pre, FailsClean cfg.blob.length s) (ho : HeadDelivers cfg.blob.length o) :
    (download cfg dst (some (pre ++ o :: post))).2 = .ok := by
  simp only [download, hg, if_true, mapNotFound_ok]
  exact pollFrom_fallthrough cfg hg dst o post ho pre 0 { dst := dst } ⟨good_init dst cfg.blob, Or.inr rfl⟩
    (fun s hm => Or.inr (hpre s hm))

/-- **C35 (4c)** An unseekable destination that received `0 < k < |blob|` body bytes from the
first origin: the download fails, no other origin is contacted and nothing more is written. -/
theorem unseekable_gives_up (cfg : Cfg) (hg : cfg.guarded = true) (dst : Dst) (hp : dst.kind = .plain)
    (k : Nat) (hk0 : 0 < k) (hk : k < cfg.blob.length) (rest : List Resp) (os : List (List Resp)) :
    download cfg dst (some ((.cut k false :: rest) :: os)) =
      ({ dst := dst.write (cfg.blob.take k), n := k, trace := [0] }, .unavailable) := by
  have h1 : prepare cfg { dst := dst } = some { dst := dst } := prepare_zero cfg _ rfl
  have h2 := pollFrom_gives_up cfg hg os 1
    { dst := dst.write (cfg.blob.take k), n := k, trace := [0] } (by simp [write_kind, hp]) hk0
  simp only [download, pollFrom, pollOrigin, h1, doRequest, request, hk, if_true, hg,
    Nat.zero_add, List.nil_append, h2, mapNotFound]

/-- **C35 (4d)** A streamed (chunked, no Content-Length) response that is dropped is a failure even
when every body byte had arrived; with a seekable destination the next origin's complete answer
still leaves exactly one copy (an instance of (1) + (4a) spelled out for the streaming origin). -/
theorem chunked_drop_is_failure (cfg : Cfg) (hg : cfg.guarded = true) (dst : Dst) (k : Nat) (rest : List Resp) :
    (download cfg dst (some [.cut k true :: rest])).2 = .unavailable := by
  have h1 : prepare cfg { dst := dst } = some { dst := dst } := prepare_zero cfg _ rfl
  simp only [download, pollFrom, pollOrigin, h1, doRequest, request, hg, if_true, mapNotFound]

/-- The request closure without the guard (the code before the repair: every request writes to the
same destination) does **not** have property (1): a drop after 2 of 5 bytes followed by a healthy
origin reports success with 7 bytes in the destination. -/
theorem unguarded_duplicates :
    let cfg : Cfg := { guarded := false, bo := 0, blob := [1, 2, 3, 4, 5] }
    let dst : Dst := { kind := .plain, data := [] }
    (download cfg dst (some [[.cut 2 false], [.full false]])).2 = .ok ∧
    (download cfg dst (some [[.cut 2 false], [.full false]])).1.dst.data = [1, 2, 1, 2, 3, 4, 5] := by
  decide

-- non-vacuity: the same fault script under the repaired closure
example : (download { blob := [1, 2, 3, 4, 5] } { kind := .seek, data := [9, 9, 9], pos := 1 }
    (some [[.status 202, .cut 2 false], [.netErr], [.cut 4 true], [.status 202, .full true]])).2 = .unavailable := by decide
example : (download { bo := 1, blob := [1, 2, 3, 4, 5] } { kind := .seek, data := [9, 9, 9], pos := 1 }
    (some [[.status 202, .cut 2 false], [.netErr], [.cut 4 true], [.status 202, .full true]])) =
    ({ dst := { kind := .seek, data := [9, 1, 2, 3, 4, 5], pos := 6 }, n := 5, trace := [0, 0, 1, 2, 3, 3] }, .ok) := by decide
example : (download { blob := [1, 2, 3, 4, 5] } { kind := .plain, data := [7] }
    (some [[.cut 2 false], [.full false]])) = ({ dst := { kind := .plain, data := [7, 1, 2] }, n := 2, trace := [0] }, .unavailable) := by decide
example : (download { blob := [1, 2, 3, 4, 5] } { kind := .plain, data := [7] }
    (some [[.status 503], [.cut 0 true], [.cut 5 false]])).1.dst.data = [7, 1, 2, 3, 4, 5] := by decide
example : (download { blob := [1, 2, 3] } { kind := .plain, data := [] } (some [[.status 404], [.full false]])).2 = .notFound := by decide

end KrakenModel.Spec.C35
