import KrakenModel.Model.PathModel
import KrakenModel.Proof.C11
/-
  C11  No client-supplied name makes a store touch files outside its directory.

  Everything is lexical (Go's filepath.Clean / Join, url.PathUnescape, the store's name check) and
  holds for ALL strings `name` / raw request segments `seg` and all absolute store directories `dir`
  (any characters, any length): dot segments, percent-encoded separators and names that are valid only
  after (single or double) unescaping are all just particular strings.
  `localNameOK` is the REPAIRED check of localFileEntryFactory.Create (fix commit in /repo);
  `oldLocalNameOK` is the check as it was, with the witness that it let ".." out.
-/
namespace KrakenModel.Spec.C11
open KrakenModel.PathModel KrakenModel.Proof.C11

theorem dataName_plain : Plain dataName := by
  refine ⟨⟨by decide, by decide, by decide⟩, ?_⟩
  unfold NoSlash; decide

/-- **C11 (1)** where an accepted name is stored: the name is a '/'-join of plain components
(non-empty, not "." or "..", no separator inside) and the data file's path is exactly the resolved
store directory, followed by those components, followed by "data". -/
theorem local_path_formula (dir name : Str) (hd : isRooted dir = true) (h : localNameOK name = true) :
    ∃ cs, cs ≠ [] ∧ (∀ c ∈ cs, Plain c) ∧ name = joinSlash cs ∧
      localPath dir name = '/' :: joinSlash (compsOf true dir ++ (cs ++ [dataName])) := by
  obtain ⟨cs, hne, hp, hn⟩ := nameOK_components name h
  refine ⟨cs, hne, hp, hn, ?_⟩
  unfold localPath
  have hdn : dataName = joinSlash [dataName] := rfl
  have hpd : ∀ c ∈ [dataName], Plain c := by intro c hc; simp at hc; rw [hc]; exact dataName_plain
  rw [hn]
  conv => lhs; rw [hdn]
  rw [join2_plain cs [dataName] hne (by simp) hp hpd]
  exact join_root_plain dir (cs ++ [dataName]) hd (by simp) (fun c hc => by
    rcases List.mem_append.mp hc with e | e
    · exact hp c e
    · exact hpd c e)

/-- **C11 (2)** every name the store accepts keeps the entry's data file strictly inside the store
directory — for all strings and all absolute directories. -/
theorem local_path_within (dir name : Str) (hd : isRooted dir = true) (h : localNameOK name = true) :
    Within dir (localPath dir name) := by
  obtain ⟨cs, hne, hp, _, hf⟩ := local_path_formula dir name hd h
  refine ⟨cs ++ [dataName], by simp, ?_⟩
  rw [hf]
  apply compsOf_root_join
  intro c hc
  rcases List.mem_append.mp hc with e | e
  · exact compsOf_true_plain dir c e
  · rcases List.mem_append.mp e with e' | e'
    · exact hp c e'
    · simp at e'; rw [e']; exact dataName_plain

/-- … and the entry's own directory `<dir>/<name>` (where sidecar files are created and which
`Delete` removes recursively) is strictly inside the store directory too. -/
theorem local_entry_dir_within (dir name : Str) (hd : isRooted dir = true) (h : localNameOK name = true) :
    Within dir (join [dir, name]) := by
  obtain ⟨cs, hne, hp, hn⟩ := nameOK_components name h
  refine ⟨cs, hne, ?_⟩
  rw [hn, join_root_plain dir cs hd hne hp]
  apply compsOf_root_join
  intro c hc
  rcases List.mem_append.mp hc with e | e
  · exact compsOf_true_plain dir c e
  · exact hp c e

/-- C11 (3) composition with the request layer.  This is `local_path_within` / `local_entry_dir_within`
repackaged: it holds for ANY function in place of `parseParam` (the decoded name is an arbitrary
string and (2) covers all strings), so it adds no proof content of its own; it is stated to make
explicit that no property of the decoding is relied upon.  What `parseParam` (net/http decoding,
chi routing on raw or decoded path, ParseParam's unescape) actually returns, and that a rejected
name is answered with an HTTP error, are established by the end-to-end replay, not by proof. -/
theorem request_contained (dir seg : Str) (hd : isRooted dir = true) :
    match parseParam seg with
    | none => True
    | some name => localNameOK name = false ∨
        (Within dir (localPath dir name) ∧ Within dir (join [dir, name])) := by
  cases hpp : parseParam seg with
  | none => trivial
  | some name =>
    cases hok : localNameOK name with
    | false => exact Or.inl hok
    | true => exact Or.inr ⟨local_path_within dir name hd hok, local_entry_dir_within dir name hd hok⟩

/-- two different accepted names never share a DATA FILE.  (Entry directories can nest: the directory of
entry `a/b` lies inside the directory of entry `a`, so deleting `a` removes `a/b` as well; this
theorem does not exclude that.) -/
theorem local_path_injective (dir n1 n2 : Str) (hd : isRooted dir = true)
    (h1 : localNameOK n1 = true) (h2 : localNameOK n2 = true)
    (he : localPath dir n1 = localPath dir n2) : n1 = n2 := by
  obtain ⟨c1, hne1, hp1, hn1, hf1⟩ := local_path_formula dir n1 hd h1
  obtain ⟨c2, hne2, hp2, hn2, hf2⟩ := local_path_formula dir n2 hd h2
  rw [hf1, hf2] at he
  have plain : ∀ (cs : List Str), (∀ c ∈ cs, Plain c) → ∀ c ∈ compsOf true dir ++ (cs ++ [dataName]), Plain c := by
    intro cs hp c hc
    rcases List.mem_append.mp hc with e | e
    · exact compsOf_true_plain dir c e
    · rcases List.mem_append.mp e with e' | e'
      · exact hp c e'
      · simp at e'; rw [e']; exact dataName_plain
  have e1 := compsOf_root_join _ (plain c1 hp1)
  have e2 := compsOf_root_join _ (plain c2 hp2)
  rw [he, e2] at e1
  have : c2 = c1 := by
    have := List.append_cancel_left e1
    exact List.append_cancel_right this
  rw [hn1, hn2, this]

/-! ### what the check rejects -/

theorem rejects_dot_segments :
    localNameOK dotdot = false ∧ localNameOK dot = false ∧ localNameOK [] = false ∧
    localNameOK ['.', '.', '/', 'a'] = false ∧ localNameOK ['a', '/', '.', '.', '/', 'b'] = false ∧
    localNameOK ['a', '/', '.', '.'] = false ∧ localNameOK ['/', 'a'] = false ∧
    localNameOK ['a', '/'] = false ∧ localNameOK ['a', '/', '/', 'b'] = false ∧
    localNameOK ['.', '/', 'a'] = false := by decide

/-- escaped and doubly escaped dot-dot segments arrive at the store as ".." and are rejected there -/
theorem escaped_dotdot_rejected :
    parseParam ['%', '2', 'E', '%', '2', 'e'] = some dotdot ∧
    parseParam ['%', '2', '5', '2', 'E', '%', '2', '5', '2', 'e'] = some dotdot ∧
    parseParam ['.', '.', '%', '2', 'F', 'x'] = some ['.', '.', '/', 'x'] ∧
    localNameOK dotdot = false ∧ localNameOK ['.', '.', '/', 'x'] = false := by decide

/-! ### the defect that was repaired (regression witness) -/

/-- The check as it was before the fix accepted "..", whose data file is `<parent of dir>/data`. -/
theorem old_check_let_dotdot_out :
    oldLocalNameOK dotdot = true ∧
    localPath ['/', 's', '/', 'c'] dotdot = ['/', 's', '/', 'd', 'a', 't', 'a'] ∧
    ¬ Within ['/', 's', '/', 'c'] (localPath ['/', 's', '/', 'c'] dotdot) := by decide

/-- "." was accepted as well: the entry directory is then the store directory itself. -/
theorem old_check_accepted_dot :
    oldLocalNameOK dot = true ∧ ¬ Within ['/', 's', '/', 'c'] (join [['/', 's', '/', 'c'], dot]) := by decide

/-! ### content-addressed names -/

theorem hex_plain (l : Str) (hne : l ≠ []) (hh : ∀ c ∈ l, isHex c = true) : Plain l := by
  have hdot : isHex '.' = false := by decide
  have hsl : isHex '/' = false := by decide
  refine ⟨⟨hne, ?_, ?_⟩, ?_⟩
  · intro e; have := hh '.' (by rw [e]; simp [dot]); rw [hdot] at this; cases this
  · intro e; have := hh '.' (by rw [e]; simp [dotdot]); rw [hdot] at this; cases this
  · intro e; have := hh '/' e; rw [hsl] at this; cases this

theorem join_nil_plain (cs : List Str) (hne : cs ≠ []) (hp : ∀ c ∈ cs, Plain c) :
    join [[], joinSlash cs] = joinSlash cs := by
  have n := joinSlash_ne_nil cs hne (fun c hc => (hp c hc).1)
  have e : (joinSlash cs).isEmpty = false := by cases hj : joinSlash cs <;> simp_all
  unfold join
  simp only [List.filter, List.isEmpty_nil, Bool.not_true, e, Bool.not_false, List.isEmpty_cons,
    Bool.false_eq_true, if_false, joinSlash]
  exact clean_join_plain cs hne hp

theorem join3_plain (a b c : List Str) (ha : a ≠ []) (hb : b ≠ []) (hc : c ≠ [])
    (pa : ∀ x ∈ a, Plain x) (pb : ∀ x ∈ b, Plain x) (pc : ∀ x ∈ c, Plain x) :
    join [joinSlash a, joinSlash b, joinSlash c] = joinSlash (a ++ (b ++ c)) := by
  have na := joinSlash_ne_nil a ha (fun x hx => (pa x hx).1)
  have nb := joinSlash_ne_nil b hb (fun x hx => (pb x hx).1)
  have nc := joinSlash_ne_nil c hc (fun x hx => (pc x hx).1)
  have ea : (joinSlash a).isEmpty = false := by cases hj : joinSlash a <;> simp_all
  have eb : (joinSlash b).isEmpty = false := by cases hj : joinSlash b <;> simp_all
  have ec : (joinSlash c).isEmpty = false := by cases hj : joinSlash c <;> simp_all
  unfold join
  simp only [List.filter, ea, eb, ec, Bool.not_false, List.isEmpty_cons, Bool.false_eq_true, if_false, joinSlash]
  rw [← joinSlash_append b c hb hc, ← joinSlash_append a (b ++ c) ha (by simp [hb])]
  exact clean_join_plain _ (by simp [ha]) (fun x hx => by
    rcases List.mem_append.mp hx with e | e
    · exact pa x e
    · rcases List.mem_append.mp e with e' | e'
      · exact pb x e'
      · exact pc x e')

/-- **C11 (4)** every valid SHA-256 hex name (what ParseDigest lets through) is stored strictly inside
the cache directory, under its two shard directories. -/
theorem cas_path_within (dir name : Str) (hd : isRooted dir = true) (h : validSHA256 name = true) :
    Within dir (casPath dir name) := by
  unfold validSHA256 at h
  simp only [Bool.and_eq_true, beq_iff_eq, List.all_eq_true] at h
  obtain ⟨hl, hh⟩ := h
  have hne : name ≠ [] := by intro e; rw [e] at hl; simp at hl
  let d0 := name.take 2
  let d1 := (name.drop 2).take 2
  have p0 : Plain d0 := hex_plain d0
    (by intro e; have := congrArg List.length e; simp [d0, List.length_take, hl] at this)
    (fun c hc => hh c (List.mem_of_mem_take hc))
  have p1 : Plain d1 := hex_plain d1
    (by intro e; have := congrArg List.length e; simp [d1, List.length_take, List.length_drop, hl] at this)
    (fun c hc => hh c (List.mem_of_mem_drop (List.mem_of_mem_take hc)))
  have pn : Plain name := hex_plain name hne hh
  have hrel : casRelPath name = joinSlash [d0, d1, name, dataName] := by
    unfold casRelPath
    have hr : List.range 2 = [0, 1] := by decide
    have h32 : name.length / 2 = 32 := by rw [hl]
    simp only [hr, List.filterMap_cons, List.filterMap_nil, h32, Nat.mul_zero, List.drop_zero, Nat.mul_one,
      show (0 < 32) = True by decide, show (1 < 32) = True by decide, if_true, List.foldl_cons, List.foldl_nil]
    have s0 : join [[], name.take 2] = joinSlash [d0] :=
      join_nil_plain [d0] (by simp) (by intro c hc; simp at hc; rw [hc]; exact p0)
    rw [s0]
    have s1 : join [joinSlash [d0], (name.drop 2).take 2] = joinSlash ([d0] ++ [d1]) :=
      join2_plain [d0] [d1] (by simp) (by simp) (by intro c hc; simp at hc; rw [hc]; exact p0)
        (by intro c hc; simp at hc; rw [hc]; exact p1)
    rw [s1]
    exact join3_plain ([d0] ++ [d1]) [name] [dataName] (by simp) (by simp) (by simp)
      (by intro c hc; simp at hc; rcases hc with e | e <;> (rw [e]; assumption))
      (by intro c hc; simp at hc; rw [hc]; exact pn)
      (by intro c hc; simp at hc; rw [hc]; exact dataName_plain)
  have pall : ∀ c ∈ [d0, d1, name, dataName], Plain c := by
    intro c hc
    simp at hc
    rcases hc with e | e | e | e <;> rw [e]
    · exact p0
    · exact p1
    · exact pn
    · exact dataName_plain
  unfold casPath
  rw [hrel, join_root_plain dir _ hd (by simp) pall]
  refine ⟨[d0, d1, name, dataName], by simp, ?_⟩
  apply compsOf_root_join
  intro c hc
  rcases List.mem_append.mp hc with e | e
  · exact compsOf_true_plain dir c e
  · exact pall c e

/-! ### non-vacuity -/
example : localNameOK ['r', 'e', 'p', 'o', '/', 'i', 'm', 'g', ':', 'v', '1'] = true := by decide
example : localPath ['/', 's', '/', 'c'] ['a', '/', 'b'] = ['/', 's', '/', 'c', '/', 'a', '/', 'b', '/', 'd', 'a', 't', 'a'] := by decide
example : Within ['/', 's', '/', 'c'] (localPath ['/', 's', '/', 'c', '/', '.', '.', '/', 'c', '/'] ['a']) := by decide
example : parseParam ['a', '%', '2', 'F', 'b'] = some ['a', '/', 'b'] := by decide
example : parseParam ['%', 'z'] = none := by decide
example : clean ['/', 'a', '/', '.', '.', '/', '.', '.', '/', 'b', '/', '/', 'c', '/', '.'] = ['/', 'b', '/', 'c'] := by decide

end KrakenModel.Spec.C11
