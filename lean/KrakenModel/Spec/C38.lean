import KrakenModel.Model.RegistryPaths
import KrakenModel.Proof.C38
/-
  C38  Registry path parsing recovers exactly the components it was built from.
  Statements are about `Model.RegistryPaths`, tied by the correspondence check to
  lib/dockerregistry/paths.go (GetRepo after the repair recorded in known/C38.json).

  A built path is `joinSlash (pre ++ "repositories" :: repo ++ <layout entry>)`, for EVERY storage prefix
  `pre` (any elements; in production ["", "docker", "registry", "v2"]), every repository (any number of
  elements of any length) and every tag / digest / upload id / hash algorithm / offset satisfying the
  validity conditions below, which are supersets of the Docker grammar.
-/
namespace KrakenModel.Spec.C38
open KrakenModel.RegistryPaths KrakenModel.Codec KrakenModel.Proof.C38

/-- storage prefix and repository elements -/
structure Ctx (pre repo : List Str) : Prop where
  pre_ok : nonEmptyPrefix pre = true                    -- something precedes "/repositories" (`^.+`)
  pre_nl : hasNewline (joinSlash pre) = false
  pre_norepo : sRepositories ∉ pre                      -- the prefix has no element "repositories"
  pre_noslash : ∀ c ∈ pre, '/' ∉ c
  pre_nomarker : ∀ c ∈ pre, isMarker c = false         -- nor an element starting with _manifests/_layers/_uploads
  repo_ne : repo ≠ []
  repo_elem : ∀ c ∈ repo, c ≠ [] ∧ '/' ∉ c ∧ isMarker c = false   -- no element starts with _manifests/_layers/_uploads
  repo_nl : hasNewline (joinSlash repo) = false

/-- the elements up to and including the repository -/
def repoDir (pre repo : List Str) : List Str := pre ++ sRepositories :: repo

def ValidTag (t : Str) : Prop := t ≠ [] ∧ '/' ∉ t ∧ hasNewline t = false
def ValidHex (h : Str) : Prop := lowerAlnum1 h = true ∧ digestOk h = true     -- 64 lower-case hex characters
def ValidUUID (u : Str) : Prop := u ≠ [] ∧ '/' ∉ u ∧ u ≠ sUploads
def ValidAlgo (a : Str) : Prop := alnum1 a = true
def ValidOffset (o : Str) : Prop := digits1 o = true

/-! ### facts about the repository directory -/

theorem joinSlash_repo_ne {pre repo : List Str} (c : Ctx pre repo) : joinSlash repo ≠ [] := by
  cases hr : repo with
  | nil => exact absurd hr c.repo_ne
  | cons x xs =>
    have hx := (c.repo_elem x (by rw [hr]; simp)).1
    show KrakenModel.NamePath.joinSlash (x :: xs) ≠ []
    rw [KrakenModel.Proof.C36.joinSlash_eq]
    cases x with
    | nil => exact absurd rfl hx
    | cons a as => simp

theorem repoDir_ok {pre repo : List Str} (c : Ctx pre repo) :
    nonEmptyPrefix (repoDir pre repo) = true ∧ hasNewline (joinSlash (repoDir pre repo)) = false := by
  have hpne : pre ≠ [] := by
    have := c.pre_ok
    simp only [nonEmptyPrefix, Bool.and_eq_true, Bool.not_eq_true', List.isEmpty_eq_false_iff] at this
    exact this.2
  refine ⟨nonEmptyPrefix_append pre _ c.pre_ok (by simp), ?_⟩
  unfold repoDir
  rw [hasNewline_join_append pre _ hpne (by simp), c.pre_nl, Bool.false_or]
  have : sRepositories :: repo = [sRepositories] ++ repo := rfl
  rw [this, hasNewline_join_append _ _ (by simp) c.repo_ne, c.repo_nl]
  decide

theorem noslash_elems : ∀ c ∈ [sRepositories, sManifests, sLayers, sUploads, sBlobs, sSha256, sTags, sRevisions, sCurrent,
    sIndex, sLink, sData, sStartedat, sHashstates], '/' ∉ c := by decide

theorem repoDir_noslash {pre repo : List Str} (c : Ctx pre repo) : ∀ x ∈ repoDir pre repo, '/' ∉ x := by
  intro x hx
  simp only [repoDir, List.mem_append, List.mem_cons] at hx
  rcases hx with h | h | h
  · exact c.pre_noslash x h
  · subst h; decide
  · exact (c.repo_elem x h).2.1

/-- splitting a built path gives back its elements -/
theorem split_built {pre repo : List Str} (c : Ctx pre repo) (tail : List Str) (ht : ∀ x ∈ tail, '/' ∉ x) :
    splitOn '/' (joinSlash (repoDir pre repo ++ tail)) = repoDir pre repo ++ tail :=
  split_comps _ (by simp [repoDir]) (fun x hx => by
    rcases List.mem_append.mp hx with h | h
    · exact repoDir_noslash c x h
    · exact ht x h)

/-! ### (1) GetRepo -/

/-- **C38 GetRepo**: for every path below a repository directory — whatever follows the first
`_manifests` / `_layers` / `_uploads` element — GetRepo returns exactly the repository -/
theorem getRepo_built {pre repo : List Str} (c : Ctx pre repo) (m : Str) (rest : List Str) (hm : isMarker m = true)
    (hns : ∀ x ∈ m :: rest, '/' ∉ x) :
    getRepo (joinSlash (repoDir pre repo ++ m :: rest)) = .ok (joinSlash repo) := by
  unfold getRepo
  rw [split_built c _ hns]
  have e : repoDir pre repo ++ m :: rest = pre ++ (sRepositories :: (repo ++ m :: rest)) := by simp [repoDir]
  rw [e, getRepoScan_skip pre c.pre_norepo]
  simp only [List.nil_append, getRepoScan, c.pre_ok, and_self, if_true]
  rw [firstMarker_skip repo (fun x hx => (c.repo_elem x hx).2.2)]
  have hj := joinSlash_repo_ne c
  have hre : repo.isEmpty = false := by cases hr : repo with | nil => exact absurd hr c.repo_ne | cons _ _ => rfl
  have hje : (joinSlash repo).isEmpty = false := by
    cases hq : joinSlash repo with | nil => exact absurd hq hj | cons _ _ => rfl
  simp [firstMarker, hm, hre, hje, c.pre_nl, c.repo_nl]

/-! ### (2) classification and the other extractors, per layout entry -/

theorem hasNewline_consts : hasNewline sCurrent = false ∧ hasNewline sLink = false ∧ hasNewline sIndex = false ∧
    hasNewline sSha256 = false ∧ hasNewline sTags = false ∧ hasNewline sRevisions = false := by decide

theorem lowerAlnum_no_newline (h : Str) (hh : lowerAlnum1 h = true) : hasNewline h = false := by
  simp only [lowerAlnum1, Bool.and_eq_true, List.all_eq_true] at hh
  cases hb : hasNewline h with
  | false => rfl
  | true =>
    exfalso
    simp only [hasNewline, KrakenModel.NamePath.hasNewline, List.any_eq_true, beq_iff_eq] at hb
    obtain ⟨x, hx, rfl⟩ := hb
    have := hh.2 _ hx
    revert this; decide

theorem validHex_facts (h : Str) (hv : ValidHex h) :
    '/' ∉ h ∧ hasNewline h = false ∧ h ≠ [] ∧ h ≠ sManifests ∧ h ≠ sUploads ∧ h ≠ sTags ∧ h ≠ sRevisions := by
  obtain ⟨h1, h2⟩ := hv
  have hall : ∀ x ∈ h, isLowerAlnum x = true := by
    simp only [lowerAlnum1, Bool.and_eq_true, List.all_eq_true] at h1; exact h1.2
  have hlen : h.length = 64 := by simp only [digestOk, Bool.and_eq_true, beq_iff_eq] at h2; exact h2.1
  refine ⟨fun hm => by have := hall _ hm; revert this; decide, lowerAlnum_no_newline h h1, ?_, ?_, ?_, ?_, ?_⟩
  all_goals (intro e; rw [e] at hlen; revert hlen; decide)

theorem alnum_ne_uploads (a : Str) (ha : alnum1 a = true) : a ≠ sUploads ∧ a ≠ sManifests ∧ '/' ∉ a ∧ a ≠ [] := by
  simp only [alnum1, Bool.and_eq_true, List.all_eq_true, Bool.not_eq_true', List.isEmpty_eq_false_iff] at ha
  refine ⟨?_, ?_, fun hm => by have := ha.2 _ hm; revert this; decide, ha.1⟩
  · intro e; subst e; have := ha.2 '_' (by decide); revert this; decide
  · intro e; subst e; have := ha.2 '_' (by decide); revert this; decide

theorem digits_facts (o : Str) (ho : digits1 o = true) : '/' ∉ o ∧ o ≠ [] := by
  simp only [digits1, Bool.and_eq_true, List.all_eq_true, Bool.not_eq_true', List.isEmpty_eq_false_iff] at ho
  exact ⟨fun hm => by have := ho.2 _ hm; revert this; decide, ho.1⟩

section entries
variable {pre repo : List Str} (c : Ctx pre repo)
include c

/-- `…/_manifests/tags` and `…/_manifests/revisions` -/
theorem parse_manifestsDir (st : Str) (hst : st = sTags ∨ st = sRevisions) :
    parsePath (joinSlash (repoDir pre repo ++ [sManifests, st])) = .ok (.manifests, st) := by
  obtain ⟨hp, hn⟩ := repoDir_ok c
  have hs := split_built c [sManifests, st] (by intro x hx; rcases hst with rfl | rfl <;> (revert x; decide))
  unfold parsePath matchManifests
  rw [hs, List.reverse_append]
  simp only [List.reverse_cons, List.reverse_nil, List.nil_append, List.cons_append]
  rcases hst with rfl | rfl <;>
    simp [matchManifestsScan, hp, hn, KrakenModel.NamePath.joinSlash, KrakenModel.NamePath.hasNewline]

/-- no element of the repository directory is `_manifests` or `_uploads`: the right-to-left scans pass over it -/
theorem repoDir_no_marker : ∀ x ∈ (repoDir pre repo).reverse, x ≠ sManifests ∧ x ≠ sUploads := by
  intro x hx
  simp only [repoDir, List.mem_reverse, List.mem_append, List.mem_cons] at hx
  rcases hx with h | h | h
  · exact ⟨(ne_of_not_marker (c.pre_nomarker x h)).1, (ne_of_not_marker (c.pre_nomarker x h)).2.1⟩
  · subst h; decide
  · exact ⟨(ne_of_not_marker (c.repo_elem x h).2.2).1, (ne_of_not_marker (c.repo_elem x h).2.2).2.1⟩

/-- `…/_manifests/tags/<tag>/current/link` -/
theorem tagCurrent_entry (tag : Str) (ht : ValidTag tag) :
    let p := joinSlash (repoDir pre repo ++ [sManifests, sTags, tag, sCurrent, sLink])
    parsePath p = .ok (.manifests, sTags) ∧ getManifestTag p = .ok (tag, true) := by
  obtain ⟨hp, hn⟩ := repoDir_ok c
  obtain ⟨ht1, ht2, ht3⟩ := ht
  have hte : tag.isEmpty = false := by cases tag with | nil => exact absurd rfl ht1 | cons _ _ => rfl
  have hs := split_built c [sManifests, sTags, tag, sCurrent, sLink] (by
    intro x hx; simp only [List.mem_cons, List.not_mem_nil, or_false] at hx
    rcases hx with rfl | rfl | rfl | rfl | rfl <;> first | exact ht2 | decide)
  intro p
  refine ⟨?_, ?_⟩
  · show parsePath (joinSlash _) = _
    unfold parsePath matchManifests
    rw [hs, List.reverse_append]
    simp only [List.reverse_cons, List.reverse_nil, List.nil_append, List.cons_append]
    have hnl : hasNewline (joinSlash [tag, sCurrent, sLink]) = false := by
      show hasNewline (tag ++ '/' :: (sCurrent ++ '/' :: sLink)) = false
      rw [hasNewline_append, ht3]; decide
    have hne : (joinSlash [tag, sCurrent]).isEmpty = false := by
      show (tag ++ '/' :: sCurrent).isEmpty = false
      cases tag <;> rfl
    simp [matchManifestsScan, hp, hn, hnl, hne, show sCurrent ≠ sTags ∧ sCurrent ≠ sRevisions ∧ sLink ≠ sTags ∧ sLink ≠ sRevisions
      ∧ sTags ≠ sManifests ∧ sCurrent ≠ sManifests ∧ sLink ≠ sManifests from by decide]
  · show getManifestTag (joinSlash _) = _
    unfold getManifestTag manifestTagRe
    rw [hs, List.reverse_append]
    simp [withPrefix, hp, hn, hte]

/-- `…/_manifests/tags/<tag>/index/sha256/<digest>/link` -/
theorem tagIndex_entry (tag h : Str) (ht : ValidTag tag) (hh : ValidHex h) :
    let p := joinSlash (repoDir pre repo ++ [sManifests, sTags, tag, sIndex, sSha256, h, sLink])
    parsePath p = .ok (.manifests, sTags) ∧ getManifestTag p = .ok (tag, false) ∧ getManifestDigest p = .ok h := by
  obtain ⟨hp, hn⟩ := repoDir_ok c
  obtain ⟨ht1, ht2, ht3⟩ := ht
  obtain ⟨hh1, hh2, hh3, hh4, hh5, hh6, hh7⟩ := validHex_facts h hh
  have hte : tag.isEmpty = false := by cases tag with | nil => exact absurd rfl ht1 | cons _ _ => rfl
  have hs := split_built c [sManifests, sTags, tag, sIndex, sSha256, h, sLink] (by
    intro x hx; simp only [List.mem_cons, List.not_mem_nil, or_false] at hx
    rcases hx with rfl | rfl | rfl | rfl | rfl | rfl | rfl <;> first | exact ht2 | exact hh1 | decide)
  intro p
  refine ⟨?_, ?_, ?_⟩
  · show parsePath (joinSlash _) = _
    unfold parsePath matchManifests
    rw [hs, List.reverse_append]
    simp only [List.reverse_cons, List.reverse_nil, List.nil_append, List.cons_append]
    have hnl : hasNewline (joinSlash [tag, sIndex, sSha256, h, sLink]) = false := by
      show hasNewline (tag ++ '/' :: (sIndex ++ '/' :: (sSha256 ++ '/' :: (h ++ '/' :: sLink)))) = false
      simp only [hasNewline_append, hasNewline_cons, ht3, hh2]; decide
    have hne : (joinSlash [tag, sIndex, sSha256, h]).isEmpty = false := by
      show (tag ++ '/' :: _).isEmpty = false
      cases tag <;> rfl
    simp [matchManifestsScan, hp, hn, hnl, hne, hh6, hh7, show sIndex ≠ sTags ∧ sIndex ≠ sRevisions ∧ sLink ≠ sTags ∧ sLink ≠ sRevisions
      ∧ sSha256 ≠ sTags ∧ sSha256 ≠ sRevisions ∧ sTags ≠ sManifests ∧ sIndex ≠ sManifests ∧ sLink ≠ sManifests ∧ sSha256 ≠ sManifests from by decide]
  · show getManifestTag (joinSlash _) = _
    unfold getManifestTag manifestTagRe
    rw [hs, List.reverse_append]
    have hcur : h ≠ sCurrent := by
      intro e; have := hh.2; rw [e] at this; revert this; decide
    simp [withPrefix, hp, hn, hte, hh.1, hcur]
  · show getManifestDigest (joinSlash _) = _
    unfold getManifestDigest manifestDigestRe
    rw [hs, List.reverse_append]
    have hnl : hasNewline (joinSlash [sTags, tag, sIndex]) = false := by
      show hasNewline (sTags ++ '/' :: (tag ++ '/' :: sIndex)) = false
      simp only [hasNewline_append, hasNewline_cons, ht3]; decide
    have hne : (joinSlash [tag]).isEmpty = false := by show tag.isEmpty = false; exact hte
    simp [manifestDigestScan, tagsIndexMid, toDigest, hp, hn, hh.1, hh.2, hnl, hne,
      show sIndex ≠ sManifests ∧ sTags ≠ sManifests ∧ [sIndex] ≠ [sRevisions] ∧ sIndex ≠ sTags from by decide]

/-- `…/_manifests/revisions/sha256/<digest>/link` -/
theorem revision_entry (h : Str) (hh : ValidHex h) :
    let p := joinSlash (repoDir pre repo ++ [sManifests, sRevisions, sSha256, h, sLink])
    parsePath p = .ok (.manifests, sRevisions) ∧ getManifestDigest p = .ok h := by
  obtain ⟨hp, hn⟩ := repoDir_ok c
  obtain ⟨hh1, hh2, hh3, hh4, hh5, hh6, hh7⟩ := validHex_facts h hh
  have hs := split_built c [sManifests, sRevisions, sSha256, h, sLink] (by
    intro x hx; simp only [List.mem_cons, List.not_mem_nil, or_false] at hx
    rcases hx with rfl | rfl | rfl | rfl | rfl <;> first | exact hh1 | decide)
  intro p
  refine ⟨?_, ?_⟩
  · show parsePath (joinSlash _) = _
    unfold parsePath matchManifests
    rw [hs, List.reverse_append]
    simp only [List.reverse_cons, List.reverse_nil, List.nil_append, List.cons_append]
    have hnl : hasNewline (joinSlash [sSha256, h, sLink]) = false := by
      show hasNewline (sSha256 ++ '/' :: (h ++ '/' :: sLink)) = false
      simp only [hasNewline_append, hasNewline_cons, hh2]; decide
    have hne : (joinSlash [sSha256, h]).isEmpty = false := rfl
    simp [matchManifestsScan, hp, hn, hnl, hne, hh6, hh7, show sLink ≠ sTags ∧ sLink ≠ sRevisions
      ∧ sRevisions ≠ sManifests ∧ sLink ≠ sManifests ∧ sSha256 ≠ sManifests from by decide]
  · show getManifestDigest (joinSlash _) = _
    unfold getManifestDigest manifestDigestRe
    rw [hs, List.reverse_append]
    simp [manifestDigestScan, toDigest, hp, hn, hh.1, hh.2, show sRevisions ≠ sManifests from by decide,
      show hasNewline (joinSlash [sRevisions]) = false from by decide]

/-- `…/_layers/sha256/<digest>/link` and `…/data` -/
theorem layer_entry (h l : Str) (hh : ValidHex h) (hl : l = sLink ∨ l = sData) :
    let p := joinSlash (repoDir pre repo ++ [sLayers, sSha256, h, l])
    parsePath p = .ok (.layers, l) ∧ getLayerDigest p = .ok h := by
  obtain ⟨hp, hn⟩ := repoDir_ok c
  obtain ⟨hh1, hh2, hh3, hh4, hh5, hh6, hh7⟩ := validHex_facts h hh
  have hs := split_built c [sLayers, sSha256, h, l] (by
    intro x hx; simp only [List.mem_cons, List.not_mem_nil, or_false] at hx
    rcases hl with rfl | rfl <;> rcases hx with rfl | rfl | rfl | rfl <;> first | exact hh1 | decide)
  have hnm := repoDir_no_marker c
  have hre : layerRe (joinSlash (repoDir pre repo ++ [sLayers, sSha256, h, l])) = .ok (h, l) := by
    unfold layerRe
    rw [hs, List.reverse_append]
    rcases hl with rfl | rfl <;> simp [withPrefix, hp, hn, hh.1]
  intro p
  refine ⟨?_, ?_⟩
  · show parsePath (joinSlash _) = _
    unfold parsePath
    have h1 : matchManifests (joinSlash (repoDir pre repo ++ [sLayers, sSha256, h, l])) = .noMatch := by
      unfold matchManifests
      rw [hs, List.reverse_append]
      simp only [List.reverse_cons, List.reverse_nil, List.nil_append, List.cons_append]
      rcases hl with rfl | rfl <;>
        simp [matchManifestsScan, matchManifestsScan_none _ _ (fun x hx => (hnm x hx).1),
          show sLink ≠ sTags ∧ sLink ≠ sRevisions ∧ sData ≠ sTags ∧ sData ≠ sRevisions ∧ sLayers ≠ sManifests ∧ sSha256 ≠ sManifests from by decide]
    have h2 : matchUploads (joinSlash (repoDir pre repo ++ [sLayers, sSha256, h, l])) = .noMatch := by
      unfold matchUploads
      rw [hs, List.reverse_append]
      simp only [List.reverse_cons, List.reverse_nil, List.nil_append, List.cons_append]
      simp [uploadScan, uploadTailLoose?, uploadScan_none _ _ _ (fun x hx => (hnm x hx).2),
        show sLayers ≠ sUploads ∧ sSha256 ≠ sUploads from by decide]
    rw [h1, h2, hre]
  · show getLayerDigest (joinSlash _) = _
    unfold getLayerDigest
    rw [hre]
    simp [toDigest, hh.2]

/-- `…/_uploads/<id>/data` and `…/startedat` -/
theorem uploadFile_entry (u d : Str) (hu : ValidUUID u) (hd : d = sData ∨ d = sStartedat) :
    let p := joinSlash (repoDir pre repo ++ [sUploads, u, d])
    parsePath p = .ok (.uploads, d) ∧ getUploadUUID p = .ok u := by
  obtain ⟨hp, hn⟩ := repoDir_ok c
  obtain ⟨hu1, hu2, hu3⟩ := hu
  have hue : u.isEmpty = false := by cases u with | nil => exact absurd rfl hu1 | cons _ _ => rfl
  have hs := split_built c [sUploads, u, d] (by
    intro x hx; simp only [List.mem_cons, List.not_mem_nil, or_false] at hx
    rcases hd with rfl | rfl <;> rcases hx with rfl | rfl | rfl <;> first | exact hu2 | decide)
  have hnm := repoDir_no_marker c
  intro p
  refine ⟨?_, ?_⟩
  · show parsePath (joinSlash _) = _
    unfold parsePath
    have h1 : matchManifests (joinSlash (repoDir pre repo ++ [sUploads, u, d])) = .noMatch := by
      unfold matchManifests
      rw [hs, List.reverse_append]
      simp only [List.reverse_cons, List.reverse_nil, List.nil_append, List.cons_append]
      rcases hd with rfl | rfl <;>
        simp [matchManifestsScan, matchManifestsScan_none _ _ (fun x hx => (hnm x hx).1),
          show sData ≠ sTags ∧ sData ≠ sRevisions ∧ sStartedat ≠ sTags ∧ sStartedat ≠ sRevisions ∧ sUploads ≠ sManifests from by decide]
    have h2 : matchUploads (joinSlash (repoDir pre repo ++ [sUploads, u, d])) = .ok d := by
      unfold matchUploads
      rw [hs, List.reverse_append]
      simp only [List.reverse_cons, List.reverse_nil, List.nil_append, List.cons_append]
      rcases hd with rfl | rfl <;>
        simp [uploadScan, uploadTailLoose?, hue, hp, hn, show sData ≠ sUploads ∧ sStartedat ≠ sUploads ∧ sStartedat ≠ sData from by decide]
    rw [h1, h2]
  · show getUploadUUID (joinSlash _) = _
    unfold getUploadUUID uploadRe
    rw [hs, List.reverse_append]
    simp only [List.reverse_cons, List.reverse_nil, List.nil_append, List.cons_append]
    rcases hd with rfl | rfl <;>
      simp [uploadScan, uploadTail?, hue, hp, hn, show sData ≠ sUploads ∧ sStartedat ≠ sUploads ∧ sStartedat ≠ sData from by decide]

/-- `…/_uploads/<id>/hashstates/<algorithm>` -/
theorem uploadHash_entry (u a : Str) (hu : ValidUUID u) (ha : ValidAlgo a) :
    let p := joinSlash (repoDir pre repo ++ [sUploads, u, sHashstates, a])
    parsePath p = .ok (.uploads, sHashstates) ∧ getUploadUUID p = .ok u := by
  obtain ⟨hp, hn⟩ := repoDir_ok c
  obtain ⟨hu1, hu2, hu3⟩ := hu
  obtain ⟨ha1, ha2, ha3, ha4⟩ := alnum_ne_uploads a ha
  have hue : u.isEmpty = false := by cases u with | nil => exact absurd rfl hu1 | cons _ _ => rfl
  have hae : a.isEmpty = false := by cases a with | nil => exact absurd rfl ha4 | cons _ _ => rfl
  have haa : alnum1 a = true := ha
  have hs := split_built c [sUploads, u, sHashstates, a] (by
    intro x hx; simp only [List.mem_cons, List.not_mem_nil, or_false] at hx
    rcases hx with rfl | rfl | rfl | rfl <;> first | exact hu2 | exact ha3 | decide)
  have hnm := repoDir_no_marker c
  have hconst : sHashstates ≠ sTags ∧ sHashstates ≠ sRevisions ∧ sHashstates ≠ sManifests ∧ sUploads ≠ sManifests ∧
      sHashstates ≠ sUploads ∧ sHashstates ≠ sData ∧ sHashstates ≠ sStartedat ∧ startsWith sHashstates sHashstates = true := by decide
  intro p
  refine ⟨?_, ?_⟩
  · show parsePath (joinSlash _) = _
    unfold parsePath
    have h1 : matchManifests (joinSlash (repoDir pre repo ++ [sUploads, u, sHashstates, a])) = .noMatch := by
      unfold matchManifests
      rw [hs, List.reverse_append]
      simp only [List.reverse_cons, List.reverse_nil, List.nil_append, List.cons_append]
      simp [matchManifestsScan, matchManifestsScan_none _ _ (fun x hx => (hnm x hx).1), hconst]
    have h2 : matchUploads (joinSlash (repoDir pre repo ++ [sUploads, u, sHashstates, a])) = .ok sHashstates := by
      unfold matchUploads
      rw [hs, List.reverse_append]
      simp only [List.reverse_cons, List.reverse_nil, List.nil_append, List.cons_append]
      simp [uploadScan, uploadTailLoose?, hashTail?, uploadTail?, hue, hae, hp, hn, hconst, hu3, haa]
    rw [h1, h2]
  · show getUploadUUID (joinSlash _) = _
    unfold getUploadUUID uploadRe
    rw [hs, List.reverse_append]
    simp only [List.reverse_cons, List.reverse_nil, List.nil_append, List.cons_append]
    simp [uploadScan, uploadTail?, hue, hae, hp, hn, hconst, hu3, haa]

/-- `…/_uploads/<id>/hashstates/<algorithm>/<offset>` -/
theorem uploadHashOffset_entry (u a o : Str) (hu : ValidUUID u) (ha : ValidAlgo a) (ho : ValidOffset o) :
    let p := joinSlash (repoDir pre repo ++ [sUploads, u, sHashstates, a, o])
    parsePath p = .ok (.uploads, sHashstates) ∧ getUploadUUID p = .ok u ∧ getUploadAlgoAndOffset p = .ok (a, o) := by
  obtain ⟨hp, hn⟩ := repoDir_ok c
  obtain ⟨hu1, hu2, hu3⟩ := hu
  obtain ⟨ha1, ha2, ha3, ha4⟩ := alnum_ne_uploads a ha
  obtain ⟨ho1, ho2⟩ := digits_facts o ho
  have hue : u.isEmpty = false := by cases u with | nil => exact absurd rfl hu1 | cons _ _ => rfl
  have hae : a.isEmpty = false := by cases a with | nil => exact absurd rfl ha4 | cons _ _ => rfl
  have hoe : o.isEmpty = false := by cases o with | nil => exact absurd rfl ho2 | cons _ _ => rfl
  have haa : alnum1 a = true := ha
  have hoo : digits1 o = true := ho
  have hs := split_built c [sUploads, u, sHashstates, a, o] (by
    intro x hx; simp only [List.mem_cons, List.not_mem_nil, or_false] at hx
    rcases hx with rfl | rfl | rfl | rfl | rfl <;> first | exact hu2 | exact ha3 | exact ho1 | decide)
  have hnm := repoDir_no_marker c
  have hconst : sHashstates ≠ sTags ∧ sHashstates ≠ sRevisions ∧ sHashstates ≠ sManifests ∧ sUploads ≠ sManifests ∧
      sHashstates ≠ sUploads ∧ sHashstates ≠ sData ∧ sHashstates ≠ sStartedat ∧ startsWith sHashstates sHashstates = true := by decide
  intro p
  refine ⟨?_, ?_, ?_⟩
  · show parsePath (joinSlash _) = _
    unfold parsePath
    have h1 : matchManifests (joinSlash (repoDir pre repo ++ [sUploads, u, sHashstates, a, o])) = .noMatch := by
      unfold matchManifests
      rw [hs, List.reverse_append]
      simp only [List.reverse_cons, List.reverse_nil, List.nil_append, List.cons_append]
      simp [matchManifestsScan, matchManifestsScan_none _ _ (fun x hx => (hnm x hx).1), hconst, ha2]
    have h2 : matchUploads (joinSlash (repoDir pre repo ++ [sUploads, u, sHashstates, a, o])) = .ok sHashstates := by
      unfold matchUploads
      rw [hs, List.reverse_append]
      simp only [List.reverse_cons, List.reverse_nil, List.nil_append, List.cons_append]
      simp [uploadScan, uploadTailLoose?, hashTail?, uploadTail?, hue, hae, hoe, hp, hn, hconst, ha1, hu3, haa, hoo]
    rw [h1, h2]
  · show getUploadUUID (joinSlash _) = _
    unfold getUploadUUID uploadRe
    rw [hs, List.reverse_append]
    simp only [List.reverse_cons, List.reverse_nil, List.nil_append, List.cons_append]
    simp [uploadScan, uploadTail?, hue, hae, hoe, hp, hn, hconst, ha1, hu3, haa, hoo]
  · show getUploadAlgoAndOffset (joinSlash _) = _
    unfold getUploadAlgoAndOffset
    rw [hs, List.reverse_append]
    simp [withPrefix, hp, hn, hue, haa, hoo]

end entries

/-- `<root>/blobs/sha256/<first two characters>/<digest>/data`, for every storage prefix -/
theorem blob_entry (pre : List Str) (hp : nonEmptyPrefix pre = true) (hn : hasNewline (joinSlash pre) = false)
    (hps : ∀ x ∈ pre, '/' ∉ x) (hpm : ∀ x ∈ pre, isMarker x = false) (h : Str) (hh : ValidHex h) :
    let p := joinSlash (pre ++ [sBlobs, sSha256, h.take 2, h, sData])
    parsePath p = .ok (.blobs, sData) ∧ getBlobDigest p = .ok h := by
  obtain ⟨hh1, hh2, hh3, hh4, hh5, hh6, hh7⟩ := validHex_facts h hh
  have hall : ∀ x ∈ h, isLowerAlnum x = true := by
    have := hh.1; simp only [lowerAlnum1, Bool.and_eq_true, List.all_eq_true] at this; exact this.2
  have hlen : h.length = 64 := by have := hh.2; simp only [digestOk, Bool.and_eq_true, beq_iff_eq] at this; exact this.1
  have ht2 : (h.take 2).length = 2 := by simp [hlen]
  have ht2a : (h.take 2).all isLowerAlnum = true := List.all_eq_true.mpr (fun x hx => hall x (List.mem_of_mem_take hx))
  have ht2s : '/' ∉ h.take 2 := fun hm => hh1 (List.mem_of_mem_take hm)
  have hs : splitOn '/' (joinSlash (pre ++ [sBlobs, sSha256, h.take 2, h, sData])) = pre ++ [sBlobs, sSha256, h.take 2, h, sData] :=
    split_comps _ (by simp) (fun x hx => by
      rcases List.mem_append.mp hx with hx | hx
      · exact hps x hx
      · simp only [List.mem_cons, List.not_mem_nil, or_false] at hx
        rcases hx with rfl | rfl | rfl | rfl | rfl <;> first | exact ht2s | exact hh1 | decide)
  have hnm : ∀ x ∈ pre.reverse, x ≠ sManifests ∧ x ≠ sUploads := fun x hx =>
    ⟨(ne_of_not_marker (hpm x (List.mem_reverse.mp hx))).1, (ne_of_not_marker (hpm x (List.mem_reverse.mp hx))).2.1⟩
  have ht2m : h.take 2 ≠ sManifests ∧ h.take 2 ≠ sUploads := by
    constructor <;> (intro e; rw [e] at ht2; revert ht2; decide)
  have hre : blobDigestRe (joinSlash (pre ++ [sBlobs, sSha256, h.take 2, h, sData])) = .ok h := by
    unfold blobDigestRe
    rw [hs, List.reverse_append]
    simp [withPrefix, hp, hn, hh.1, ht2a, hlen]
  intro p
  refine ⟨?_, ?_⟩
  · show parsePath (joinSlash _) = _
    unfold parsePath
    have h1 : matchManifests (joinSlash (pre ++ [sBlobs, sSha256, h.take 2, h, sData])) = .noMatch := by
      unfold matchManifests
      rw [hs, List.reverse_append]
      simp only [List.reverse_cons, List.reverse_nil, List.nil_append, List.cons_append]
      simp [matchManifestsScan, matchManifestsScan_none _ _ (fun x hx => (hnm x hx).1), hh4, ht2m.1,
        show sData ≠ sTags ∧ sData ≠ sRevisions ∧ sBlobs ≠ sManifests ∧ sSha256 ≠ sManifests from by decide]
    have h2 : matchUploads (joinSlash (pre ++ [sBlobs, sSha256, h.take 2, h, sData])) = .noMatch := by
      unfold matchUploads
      rw [hs, List.reverse_append]
      simp only [List.reverse_cons, List.reverse_nil, List.nil_append, List.cons_append]
      simp [uploadScan, uploadScan_none _ _ _ (fun x hx => (hnm x hx).2), hh5, ht2m.2,
        show sBlobs ≠ sUploads ∧ sSha256 ≠ sUploads from by decide]
    have h3 : layerRe (joinSlash (pre ++ [sBlobs, sSha256, h.take 2, h, sData])) = .noMatch := by
      unfold layerRe
      rw [hs, List.reverse_append]
      have : h.take 2 ≠ sSha256 := by intro e; rw [e] at ht2; revert ht2; decide
      simp [this]
    rw [h1, h2, h3, hre]
  · show getBlobDigest (joinSlash _) = _
    unfold getBlobDigest
    rw [hre]
    simp [toDigest, hh.2]

/-! ### (3) "paths that do not follow the layout are rejected"

`layoutKinds p` (Model/RegistryPaths.lean) lists the layout entries `p` is a well-formed instance of; it is the
storage layout itself, not a reading of the regexps.  Every built path is in the layout (`*_layout` theorems),
so the target below is not vacuous; the code does NOT satisfy it (known finding, see known/C38.json). -/

theorem goodRepoDir_repoDir {pre repo : List Str} (c : Ctx pre repo) (hlen : (joinSlash repo).length ≤ maxRepoLength) :
    goodRepoDir (repoDir pre repo) = true := by
  have htw : (repoDir pre repo).takeWhile (fun x => x != sRepositories) = pre := by
    unfold repoDir
    rw [List.takeWhile_append_of_pos (fun x hx => by
      have : x ≠ sRepositories := fun e => c.pre_norepo (e ▸ hx)
      simpa using this)]
    simp
  have hdw : (repoDir pre repo).dropWhile (fun x => x != sRepositories) = sRepositories :: repo := by
    unfold repoDir
    rw [List.dropWhile_append_of_pos (fun x hx => by
      have : x ≠ sRepositories := fun e => c.pre_norepo (e ▸ hx)
      simpa using this)]
    simp
  have hre : repo.isEmpty = false := by cases hr : repo with | nil => exact absurd hr c.repo_ne | cons _ _ => rfl
  simp only [goodRepoDir, htw, hdw, goodRoot, c.pre_ok, c.pre_nl, c.repo_nl, hre, Bool.not_false, Bool.and_true, Bool.true_and,
    Bool.and_eq_true, List.all_eq_true, Bool.not_eq_true', hlen, decide_true]
  refine ⟨fun x hx => c.pre_nomarker x hx, fun x hx => ?_⟩
  have := c.repo_elem x hx
  refine ⟨?_, this.2.2⟩
  cases x with | nil => exact absurd rfl this.1 | cons _ _ => rfl

theorem mem_layoutKinds (f : List Str → Option (PType × Str)) (hf : f ∈ layoutEntries) (p : Str) (r : PType × Str)
    (h : f (splitOn '/' p).reverse = some r) : r ∈ layoutKinds p :=
  List.mem_filterMap.mpr ⟨f, hf, h⟩

/-- a tag of the Docker grammar is in particular a valid tag in the sense of the accept-direction theorems -/
theorem validTagB_valid (t : Str) (h : validTagB t = true) : ValidTag t := by
  have hch : ∀ x, isTagChar x = true → x ≠ '/' ∧ x ≠ '\n' := by
    intro x hx; constructor <;> (intro e; subst e; revert hx; decide)
  cases t with
  | nil => simp [validTagB] at h
  | cons a as =>
    simp only [validTagB, Bool.and_eq_true, List.all_eq_true, decide_eq_true_eq] at h
    have ha : isTagChar a = true := by
      have := h.1.1; simp only [isTagFirst, Bool.or_eq_true] at this
      simp only [isTagChar, Bool.or_eq_true]
      rcases this with h1 | h1
      · exact Or.inl (Or.inl (Or.inl h1))
      · exact Or.inl (Or.inl (Or.inr h1))
    have hall : ∀ x ∈ a :: as, x ≠ '/' ∧ x ≠ '\n' := by
      intro x hx
      rcases List.mem_cons.mp hx with e | e
      · subst e; exact hch _ ha
      · exact hch _ (h.1.2 x e)
    refine ⟨by simp, fun hm => (hall _ hm).1 rfl, ?_⟩
    cases hb : hasNewline (a :: as) with
    | false => rfl
    | true =>
      exfalso
      simp only [hasNewline, KrakenModel.NamePath.hasNewline, List.any_eq_true, beq_iff_eq] at hb
      obtain ⟨x, hx, rfl⟩ := hb
      exact (hall _ hx).2 rfl

section layout
variable {pre repo : List Str} (c : Ctx pre repo) (hlen : (joinSlash repo).length ≤ maxRepoLength)
include c hlen

theorem manifestsDir_layout (st : Str) (hst : st = sTags ∨ st = sRevisions) :
    (PType.manifests, st) ∈ layoutKinds (joinSlash (repoDir pre repo ++ [sManifests, st])) := by
  have hs := split_built c [sManifests, st] (by intro x hx; rcases hst with rfl | rfl <;> (revert x; decide))
  apply mem_layoutKinds leManifestsDir (by simp [layoutEntries])
  rw [hs, List.reverse_append]
  simp [leManifestsDir, goodRepoDir_repoDir c hlen, hst]

theorem tagCurrent_layout (tag : Str) (htb : validTagB tag = true) :
    (PType.manifests, sTags) ∈ layoutKinds (joinSlash (repoDir pre repo ++ [sManifests, sTags, tag, sCurrent, sLink])) := by
  obtain ⟨ht1, ht2, ht3⟩ := validTagB_valid tag htb
  have hte : tag.isEmpty = false := by cases tag with | nil => exact absurd rfl ht1 | cons _ _ => rfl
  have hs := split_built c [sManifests, sTags, tag, sCurrent, sLink] (by
    intro x hx; simp only [List.mem_cons, List.not_mem_nil, or_false] at hx
    rcases hx with rfl | rfl | rfl | rfl | rfl <;> first | exact ht2 | decide)
  apply mem_layoutKinds leTagCurrent (by simp [layoutEntries])
  rw [hs, List.reverse_append]
  simp [leTagCurrent, goodRepoDir_repoDir c hlen, htb]

theorem tagIndex_layout (tag h : Str) (htb : validTagB tag = true) (hh : ValidHex h) :
    (PType.manifests, sTags) ∈ layoutKinds (joinSlash (repoDir pre repo ++ [sManifests, sTags, tag, sIndex, sSha256, h, sLink])) := by
  obtain ⟨ht1, ht2, ht3⟩ := validTagB_valid tag htb
  have hte : tag.isEmpty = false := by cases tag with | nil => exact absurd rfl ht1 | cons _ _ => rfl
  have hh1 := (validHex_facts h hh).1
  have hs := split_built c [sManifests, sTags, tag, sIndex, sSha256, h, sLink] (by
    intro x hx; simp only [List.mem_cons, List.not_mem_nil, or_false] at hx
    rcases hx with rfl | rfl | rfl | rfl | rfl | rfl | rfl <;> first | exact ht2 | exact hh1 | decide)
  apply mem_layoutKinds leTagIndex (by simp [layoutEntries])
  rw [hs, List.reverse_append]
  simp [leTagIndex, goodRepoDir_repoDir c hlen, htb, validHexB, hh.1, hh.2]

theorem revision_layout (h : Str) (hh : ValidHex h) :
    (PType.manifests, sRevisions) ∈ layoutKinds (joinSlash (repoDir pre repo ++ [sManifests, sRevisions, sSha256, h, sLink])) := by
  have hh1 := (validHex_facts h hh).1
  have hs := split_built c [sManifests, sRevisions, sSha256, h, sLink] (by
    intro x hx; simp only [List.mem_cons, List.not_mem_nil, or_false] at hx
    rcases hx with rfl | rfl | rfl | rfl | rfl <;> first | exact hh1 | decide)
  apply mem_layoutKinds leRevision (by simp [layoutEntries])
  rw [hs, List.reverse_append]
  simp [leRevision, goodRepoDir_repoDir c hlen, validHexB, hh.1, hh.2]

theorem layer_layout (h l : Str) (hh : ValidHex h) (hl : l = sLink ∨ l = sData) :
    (PType.layers, l) ∈ layoutKinds (joinSlash (repoDir pre repo ++ [sLayers, sSha256, h, l])) := by
  have hh1 := (validHex_facts h hh).1
  have hs := split_built c [sLayers, sSha256, h, l] (by
    intro x hx; simp only [List.mem_cons, List.not_mem_nil, or_false] at hx
    rcases hl with rfl | rfl <;> rcases hx with rfl | rfl | rfl | rfl <;> first | exact hh1 | decide)
  apply mem_layoutKinds leLayer (by simp [layoutEntries])
  rw [hs, List.reverse_append]
  simp [leLayer, goodRepoDir_repoDir c hlen, validHexB, hh.1, hh.2, hl]

theorem uploadFile_layout (u d : Str) (hu : ValidUUID u) (hub : validUUIDB u = true) (hd : d = sData ∨ d = sStartedat) :
    (PType.uploads, d) ∈ layoutKinds (joinSlash (repoDir pre repo ++ [sUploads, u, d])) := by
  obtain ⟨hu1, hu2, hu3⟩ := hu
  have hue : u.isEmpty = false := by cases u with | nil => exact absurd rfl hu1 | cons _ _ => rfl
  have hs := split_built c [sUploads, u, d] (by
    intro x hx; simp only [List.mem_cons, List.not_mem_nil, or_false] at hx
    rcases hd with rfl | rfl <;> rcases hx with rfl | rfl | rfl <;> first | exact hu2 | decide)
  apply mem_layoutKinds leUploadFile (by simp [layoutEntries])
  rw [hs, List.reverse_append]
  simp [leUploadFile, goodRepoDir_repoDir c hlen, hub, hd]

theorem uploadHash_layout (u a : Str) (hu : ValidUUID u) (hub : validUUIDB u = true) (ha : ValidAlgo a) :
    (PType.uploads, sHashstates) ∈ layoutKinds (joinSlash (repoDir pre repo ++ [sUploads, u, sHashstates, a])) := by
  obtain ⟨hu1, hu2, hu3⟩ := hu
  have haa : alnum1 a = true := ha
  have hue : u.isEmpty = false := by cases u with | nil => exact absurd rfl hu1 | cons _ _ => rfl
  have ha3 := (alnum_ne_uploads a ha).2.2.1
  have hs := split_built c [sUploads, u, sHashstates, a] (by
    intro x hx; simp only [List.mem_cons, List.not_mem_nil, or_false] at hx
    rcases hx with rfl | rfl | rfl | rfl <;> first | exact hu2 | exact ha3 | decide)
  apply mem_layoutKinds leUploadHash (by simp [layoutEntries])
  rw [hs, List.reverse_append]
  simp [leUploadHash, goodRepoDir_repoDir c hlen, hub, haa]

theorem uploadHashOffset_layout (u a o : Str) (hu : ValidUUID u) (hub : validUUIDB u = true) (ha : ValidAlgo a) (ho : ValidOffset o) :
    (PType.uploads, sHashstates) ∈ layoutKinds (joinSlash (repoDir pre repo ++ [sUploads, u, sHashstates, a, o])) := by
  obtain ⟨hu1, hu2, hu3⟩ := hu
  have haa : alnum1 a = true := ha
  have hoo : digits1 o = true := ho
  have hue : u.isEmpty = false := by cases u with | nil => exact absurd rfl hu1 | cons _ _ => rfl
  have ha3 := (alnum_ne_uploads a ha).2.2.1
  have ho1 := (digits_facts o ho).1
  have hs := split_built c [sUploads, u, sHashstates, a, o] (by
    intro x hx; simp only [List.mem_cons, List.not_mem_nil, or_false] at hx
    rcases hx with rfl | rfl | rfl | rfl | rfl <;> first | exact hu2 | exact ha3 | exact ho1 | decide)
  apply mem_layoutKinds leUploadHashOffset (by simp [layoutEntries])
  rw [hs, List.reverse_append]
  simp [leUploadHashOffset, goodRepoDir_repoDir c hlen, hub, haa, hoo]

end layout

theorem blob_layout (pre : List Str) (hp : nonEmptyPrefix pre = true) (hn : hasNewline (joinSlash pre) = false)
    (hps : ∀ x ∈ pre, '/' ∉ x) (hpm : ∀ x ∈ pre, isMarker x = false) (h : Str) (hh : ValidHex h) :
    (PType.blobs, sData) ∈ layoutKinds (joinSlash (pre ++ [sBlobs, sSha256, h.take 2, h, sData])) := by
  have hh1 := (validHex_facts h hh).1
  have ht2s : '/' ∉ h.take 2 := fun hm => hh1 (List.mem_of_mem_take hm)
  have hs : splitOn '/' (joinSlash (pre ++ [sBlobs, sSha256, h.take 2, h, sData])) = pre ++ [sBlobs, sSha256, h.take 2, h, sData] :=
    split_comps _ (by simp) (fun x hx => by
      rcases List.mem_append.mp hx with hx | hx
      · exact hps x hx
      · simp only [List.mem_cons, List.not_mem_nil, or_false] at hx
        rcases hx with rfl | rfl | rfl | rfl | rfl <;> first | exact ht2s | exact hh1 | decide)
  apply mem_layoutKinds leBlob (by simp [layoutEntries])
  rw [hs, List.reverse_append]
  have hall : pre.all (fun c => !isMarker c) = true := List.all_eq_true.mpr (fun x hx => by simp [hpm x hx])
  simp [leBlob, goodRoot, validHexB, hh.1, hh.2, hp, hn, hall]

/-- the full statement of the rejection clause: whatever ParsePath accepts is a well-formed instance of that
layout entry -/
def parse_only_built_target : Prop :=
  ∀ (p : Str) (r : PType × Str), parsePath p = .ok r → r ∈ layoutKinds p

def wBlob : Str := ['/','v','2','/','b','l','o','b','s','/','s','h','a','2','5','6','/','z','z','/','q','q','/','d','a','t','a']
def wManifest : Str := joinSlash [[], ['v','2'], sRepositories, ['r'], sManifests, sTags, ['t'], ['g','a','r','b','a','g','e'], ['e','x','t','r','a'], sLink]
def wNoRepo : Str := joinSlash [[], ['x'], sManifests, sTags]
def wLayer : Str := joinSlash [[], ['v','2'], sRepositories, ['r'], sLayers, sSha256, ['z','z','z'], sLink]
def wUpload : Str := joinSlash [[], ['x'], sUploads, ['u'], sData]

/-- ParsePath accepts paths outside the layout: a blob path whose shard directory is unrelated to a digest that is
not a digest; a tag link with arbitrary elements in the middle; a manifests directory under no repository; a layer
link with a three-character non-hexadecimal "digest"; an upload under no repository -/
theorem not_parse_only_built : ¬ parse_only_built_target := by
  intro h
  have := h wBlob (.blobs, sData) (by decide)
  revert this; decide

theorem nonlayout_witnesses :
    parsePath wBlob = .ok (.blobs, sData) ∧ layoutKinds wBlob = [] ∧
    parsePath wManifest = .ok (.manifests, sTags) ∧ layoutKinds wManifest = [] ∧
    parsePath wNoRepo = .ok (.manifests, sTags) ∧ layoutKinds wNoRepo = [] ∧
    parsePath wLayer = .ok (.layers, sLink) ∧ layoutKinds wLayer = [] ∧
    parsePath wUpload = .ok (.uploads, sData) ∧ layoutKinds wUpload = [] := by decide

/-! what ParsePath does guarantee about an accepted path -/

theorem manifestsScan_ok : ∀ (L after : List Str) (st : Str), matchManifestsScan L after = .ok st →
    sManifests ∈ L ∧ (st = sTags ∨ st = sRevisions) := by
  intro L
  induction L with
  | nil => intro after st h; cases after <;> simp [matchManifestsScan] at h
  | cons x xs ih =>
    intro after st h
    cases after with
    | nil =>
      simp only [matchManifestsScan] at h
      exact ⟨List.mem_cons_of_mem _ (ih _ _ h).1, (ih _ _ h).2⟩
    | cons s tail =>
      simp only [matchManifestsScan] at h
      split at h
      · rename_i hc
        split at h
        · cases h
        · cases h; exact ⟨by simp [hc.1], hc.2.1⟩
      · exact ⟨List.mem_cons_of_mem _ (ih _ _ h).1, (ih _ _ h).2⟩

theorem uploadScan_ok (accept : List Str → Option UploadTail) : ∀ (L after : List Str) (r : Str × UploadTail),
    uploadScan accept L after = .ok r → sUploads ∈ L := by
  intro L
  induction L with
  | nil => intro after r h; cases after <;> simp [uploadScan] at h
  | cons x xs ih =>
    intro after r h
    cases after with
    | nil => simp only [uploadScan] at h; exact List.mem_cons_of_mem _ (ih _ _ h)
    | cons u tail =>
      simp only [uploadScan] at h
      split at h
      · rename_i t ht
        split at h
        · exact List.mem_cons_of_mem _ (ih _ _ h)
        · split at h
          · cases h
          · split at ht
            · rename_i hc; simp [hc.1]
            · cases ht
      · exact List.mem_cons_of_mem _ (ih _ _ h)

/-- **C38 rejection, the part that holds**: an accepted path always carries the marker element of its kind and one
of the kind's subtypes; for layers and blobs the last elements have the entry's skeleton.  What is NOT checked by
the code (and makes the target false): a `repositories` element and a well-formed repository before the marker, the
length / hexadecimal alphabet of digests, the shard directory being the digest's first two characters, and the
elements between `tags/` and `/link`. -/
theorem parse_only_built_partial (p : Str) (k : PType) (st : Str) (h : parsePath p = .ok (k, st)) :
    (k = .manifests → sManifests ∈ splitOn '/' p ∧ (st = sTags ∨ st = sRevisions)) ∧
    (k = .uploads → sUploads ∈ splitOn '/' p ∧ (st = sData ∨ st = sStartedat ∨ st = sHashstates)) ∧
    (k = .layers → ∃ front hx, splitOn '/' p = front ++ [sLayers, sSha256, hx, st] ∧ lowerAlnum1 hx = true ∧ (st = sLink ∨ st = sData)) ∧
    (k = .blobs → ∃ front sh hx, splitOn '/' p = front ++ [sBlobs, sSha256, sh, hx, sData] ∧ st = sData ∧
        lowerAlnum1 hx = true ∧ sh.length = 2 ∧ sh.all isLowerAlnum = true) := by
  unfold parsePath at h
  cases hm : matchManifests p with
  | ok s =>
    rw [hm] at h; cases h
    obtain ⟨h1, h2⟩ := manifestsScan_ok _ _ _ hm
    exact ⟨fun _ => ⟨by simpa using h1, h2⟩, (fun e => nomatch e), (fun e => nomatch e), (fun e => nomatch e)⟩
  | unsupported => rw [hm] at h; cases h
  | noMatch =>
    rw [hm] at h
    cases hu : matchUploads p with
    | ok s =>
      rw [hu] at h; cases h
      refine ⟨(fun e => nomatch e), fun _ => ?_, (fun e => nomatch e), (fun e => nomatch e)⟩
      unfold matchUploads at hu
      cases hsc : uploadScan uploadTailLoose? (splitOn '/' p).reverse [] with
      | noMatch => rw [hsc] at hu; cases hu
      | unsupported => rw [hsc] at hu; cases hu
      | ok r =>
        have hmem := uploadScan_ok _ _ _ _ hsc
        rw [hsc] at hu
        obtain ⟨u, t⟩ := r
        refine ⟨by simpa using hmem, ?_⟩
        cases t with
        | data => cases hu; exact Or.inl rfl
        | startedat => cases hu; exact Or.inr (Or.inl rfl)
        | hashstates a o =>
          simp only at hu
          split at hu <;> first | (cases hu; exact Or.inr (Or.inr rfl)) | cases hu
    | unsupported => rw [hu] at h; cases h
    | noMatch =>
      rw [hu] at h
      cases hl : layerRe p with
      | ok r =>
        rw [hl] at h
        obtain ⟨hx, l⟩ := r
        cases h
        refine ⟨(fun e => nomatch e), (fun e => nomatch e), fun _ => ?_, (fun e => nomatch e)⟩
        unfold layerRe at hl
        split at hl
        · rename_i l' h' s m pre hrev
          split at hl
          · rename_i hc
            have hw : withPrefix pre.reverse (Res.ok (h', l')) = .ok (hx, st) := hl
            unfold withPrefix at hw
            split at hw
            · cases hw
            · split at hw
              · cases hw
              · cases hw
                refine ⟨pre.reverse, hx, ?_, hc.2.1, hc.1⟩
                have := congrArg List.reverse hrev
                simp only [List.reverse_reverse, List.reverse_cons] at this
                rw [this, hc.2.2.1, hc.2.2.2]; simp
          · cases hl
        · cases hl
      | unsupported => rw [hl] at h; cases h
      | noMatch =>
        rw [hl] at h
        cases hb : blobDigestRe p with
        | ok hx =>
          rw [hb] at h; cases h
          refine ⟨(fun e => nomatch e), (fun e => nomatch e), (fun e => nomatch e), fun _ => ?_⟩
          unfold blobDigestRe at hb
          split at hb
          · rename_i d h' sh s b pre hrev
            split at hb
            · rename_i hc
              have hw : withPrefix pre.reverse (Res.ok h') = .ok hx := hb
              unfold withPrefix at hw
              split at hw
              · cases hw
              · split at hw
                · cases hw
                · cases hw
                  refine ⟨pre.reverse, sh, hx, ?_, rfl, hc.2.1, hc.2.2.1, hc.2.2.2.1⟩
                  have := congrArg List.reverse hrev
                  simp only [List.reverse_reverse, List.reverse_cons] at this
                  rw [this, hc.1, hc.2.2.2.2.1, hc.2.2.2.2.2]; simp
            · cases hb
          · cases hb
        | unsupported => rw [hb] at h; cases h
        | noMatch => rw [hb] at h; cases h

/-! ### non-vacuity and the former behaviour -/

def exPre : List Str := [[], ['d','o','c','k','e','r'], ['r','e','g','i','s','t','r','y'], ['v','2']]
def exRepo : List Str := [['a'], sRepositories, ['b']]

/-- the former (greedy) GetRepo returned `b` for the valid repository `a/repositories/b` … -/
theorem old_getRepo_inner_repositories :
    getRepoOld (joinSlash (exPre ++ sRepositories :: exRepo ++ [sManifests, sTags])) = .ok ['b'] := by decide

/-- … and `<repo>/_manifests/tags` for a tag named `_uploads` -/
theorem old_getRepo_marker_tag :
    getRepoOld (joinSlash (exPre ++ [sRepositories, ['k']] ++ [sManifests, sTags, sUploads, sCurrent, sLink]))
      = .ok (joinSlash [['k'], sManifests, sTags]) := by decide

example : getRepo (joinSlash (exPre ++ sRepositories :: exRepo ++ [sManifests, sTags])) = .ok (joinSlash exRepo) := by decide
example : getRepo (joinSlash (exPre ++ [sRepositories, ['k']] ++ [sManifests, sTags, sUploads, sCurrent, sLink])) = .ok ['k'] := by decide

end KrakenModel.Spec.C38
