import KrakenModel.Util.LTS
import KrakenModel.Model.CAStoreMem
import KrakenModel.Model.OriginBlob
import KrakenModel.Proof.C01
/-
  C01  Content-addressed stores never serve bytes that do not hash to their name.

  Statements are about `Model.CAStoreMem` (lib/store.CAStore with the memory write-through cache, the
  drain queue and the TTL sweep), which the correspondence check ties to the real CAStore.  The hash
  `H` and the piece checksum `crc` are arbitrary functions: nothing below uses a property of SHA-256.
  Histories are unbounded lists of operations; a drain tick, a TTL sweep and the passing of time are
  operations themselves, so "every history" includes every timing of the background drain relative to
  the API calls.  Blob contents, claimed names, reserved sizes, piece lengths and the byte streams
  delivered by the backend (one per invocation of the write callback, possibly failing) are arbitrary.
-/
namespace KrakenModel.Spec.C01
open KrakenModel KrakenModel.CAStoreMem KrakenModel.Proof.C01
open KrakenModel.MemCache (MetaInfo Entry)

section
variable (H : Bytes → Name) (crc : Bytes → Nat)

/-- The property's predicate on a state: whatever is readable under `d` hashes to `d`, the reported
size is the length of those bytes, and metainfo served under `d` is the metainfo of content hashing to `d`. -/
def Served (s : State) : Prop :=
  ∀ d b, readable s d = some b →
    H b = d ∧ statSize s d = some b.length ∧ ∀ mi, metainfo s d = some mi → MIok H crc d mi

variable {H crc}

theorem served_of_good {s : State} (hg : GoodStore H crc s) : Served H crc s := by
  intro d b hr
  refine ⟨good_readable hg hr, ?_, ?_⟩
  · unfold readable at hr
    unfold statSize
    split at hr
    · cases hr; simp [Entry.size]
    · cases hc : KV.get s.cache d with
      | none => simp [hc] at hr
      | some f => simp [hc] at hr; subst hr; simp
  · intro mi hmi
    unfold readable at hr
    unfold metainfo at hmi
    split at hr
    · rename_i e he
      simp only [he] at hmi
      cases hmi
      have := hg.mem _ (memGet_mem he)
      exact ⟨e.data, this.1, this.2⟩
    · rename_i hn
      simp only [hn] at hmi
      cases hc : KV.get s.cache d with
      | none => simp [hc] at hmi
      | some f =>
        simp [hc] at hmi
        exact (hg.cache _ (KV.get_some_mem hc)).2 mi hmi

theorem run_cfg (cfg : Cfg) (ops : List Op) : (run H crc cfg ops).cfg = cfg := by
  suffices h : ∀ (s : State), (ops.foldl (step H crc) s).cfg = s.cfg from h (init cfg)
  induction ops with
  | nil => intro s; rfl
  | cons o ops ih => intro s; exact (ih _).trans (apply_cfg s o)

theorem run_good (cfg : Cfg) (hs : cfg.skipVerify = false) (ops : List Op) : GoodStore H crc (run H crc cfg ops) := by
  suffices h : ∀ (s : State), s.cfg.skipVerify = false → GoodStore H crc s → GoodStore H crc (ops.foldl (step H crc) s) from
    h (init cfg) hs (good_init cfg)
  induction ops with
  | nil => intro s _ hg; exact hg
  | cons o ops ih =>
    intro s hs' hg
    exact ih _ (by rw [show (step H crc s o).cfg = s.cfg from apply_cfg s o]; exact hs') (apply_good hs' hg o)

/-- **C01 (1)** For every configuration that does not switch hash verification off (memory cache on or
off, any capacity, any retry limit, any TTL) and every history of uploads, commits, direct cache
writes, write-through refreshes with arbitrary backend streams, metainfo generation, deletes, drain
ticks, TTL sweeps and clock advances: every byte string readable under a name hashes to that name,
the size reported for it is its length, and the metainfo served under the name was computed from
content hashing to the name. -/
theorem served_sound (cfg : Cfg) (hs : cfg.skipVerify = false) (ops : List Op) :
    Served H crc (run H crc cfg ops) :=
  served_of_good (run_good cfg hs ops)

/-- **C01 (1')** If the name `d` has a single preimage under `H` (no collision at `d`), the metainfo
served under `d` is exactly the metainfo of the bytes served under `d`. -/
theorem served_metainfo_exact (cfg : Cfg) (hs : cfg.skipVerify = false) (ops : List Op) (d : Name)
    (huniq : ∀ b b', H b = d → H b' = d → b = b') (b : Bytes) (mi : MetaInfo)
    (hr : readable (run H crc cfg ops) d = some b) (hm : metainfo (run H crc cfg ops) d = some mi) :
    mi = miOf crc d b mi.pieceLength := by
  obtain ⟨hb, _, hmi⟩ := served_sound (H := H) (crc := crc) cfg hs ops d b hr
  obtain ⟨b', hb', e⟩ := hmi mi hm
  rw [huniq b b' hb hb']
  exact e

/-- the write paths of the store -/
inductive Write where
  | commit (u : String)                                     -- client upload / internal transfer: MoveUploadFileToCache
  | createCache (bytes : Bytes)                             -- CreateCacheFile
  | writeBlob (size : Nat) (atts : List Attempt) (pl : Int) -- refresh from a backend: WriteBlobToCacheWithMetaInfo

def Write.toOp (name : Name) : Write → Op
  | .commit u => .commit u name
  | .createCache b => .createCache name b
  | .writeBlob size atts pl => .writeBlob name size atts pl

/-- none of the content the write may deliver hashes to `name` -/
def Write.mismatch (H : Bytes → Name) (s : State) (name : Name) : Write → Prop
  | .commit u => ∀ b, KV.get s.uploads u = some b → H b ≠ name
  | .createCache b => H b ≠ name
  | .writeBlob _ atts _ => ∀ a ∈ atts, a.fail = true ∨ H a.data ≠ name

/-- **C01 (2)** In every state, a write none of whose content hashes to the claimed name fails, and
what is visible (bytes, size, metainfo) under *any* name is unchanged — on every write path, with
the memory cache on or off, whatever the reservation size and however many times the callback runs. -/
theorem mismatch_invisible (s : State) (hs : s.cfg.skipVerify = false) (name : Name) (w : Write)
    (hm : w.mismatch H s name) :
    (apply H crc s (w.toOp name)).2 ≠ .ok ∧
    ∀ d, view (apply H crc s (w.toOp name)).1 d = view s d := by
  cases w with
  | commit u =>
    simp only [Write.toOp, apply, commitUpload]
    cases hu : KV.get s.uploads u with
    | none => exact ⟨by simp, fun d => rfl⟩
    | some b =>
      have hv := verifyOK_false_of_ne hs (hm b hu)
      simp only [hv]
      exact ⟨by simp, fun d => view_congr rfl rfl rfl d⟩
  | createCache b =>
    simp only [Write.toOp, apply, createCache]
    rcases writeCacheFile_mismatch (crc := crc) hs (att := some { data := b })
      (fun a ha => by cases ha; exact Or.inr hm) false 0 with h | h <;> rw [h] <;> exact ⟨by simp, fun d => rfl⟩
  | writeBlob size atts pl =>
    simp only [Write.toOp, apply, writeBlob]
    have h1 : ∀ a, atts.head? = some a → a.fail = true ∨ H a.data ≠ name := fun a ha => hm a (head?_mem ha)
    have h2 : ∀ a, (atts.drop 1).head? = some a → a.fail = true ∨ H a.data ≠ name := fun a ha => hm a (drop1_head?_mem ha)
    split
    · rw [addToMem_mismatch (s := reserved s size) hs h1]
      have hv : ∀ d, view (released (reserved s size) size) d = view s d := fun d =>
        view_congr (s := s) (s' := released (reserved s size) size) rfl
          (by simp [released, reserved, release_entries, tryReserve_entries]) rfl d
      rcases writeDisk_mismatch (crc := crc) (s := released (reserved s size) size) hs h2 size pl with h | h <;>
        rw [h] <;> exact ⟨by simp, hv⟩
    · rcases writeDisk_mismatch (crc := crc) hs h1 size pl with h | h <;> rw [h] <;> exact ⟨by simp, fun d => rfl⟩

/-- **C01 (1'')** Readers are not locked out while a write-through call runs.  At every state that exists
between the atomic steps of `WriteBlobToCacheWithMetaInfo` — after the reservation, after the entry was added
to the memory cache but not yet queued, after a failed attempt released its reservation, after the blob was
renamed into the cache directory but before its metainfo was written, … — whatever a concurrent reader can
read under any name hashes to that name.  (The model publishes an entry only after the digest check; moving
the `Add` before the check makes this theorem fail.) -/
theorem served_inside_write (s : State) (hs : s.cfg.skipVerify = false) (hg : GoodStore H crc s)
    (name : Name) (size : Nat) (atts : List Attempt) (pl : Int) :
    ∀ s' ∈ writeBlobTrace H crc s name size atts pl, Served H crc s' :=
  fun s' hm => served_of_good (writeBlobTrace_good hs hg name size atts pl s' hm)

/-- … for every reachable state in which the call starts -/
theorem served_inside_write_reachable (cfg : Cfg) (hs : cfg.skipVerify = false) (ops : List Op)
    (name : Name) (size : Nat) (atts : List Attempt) (pl : Int) :
    ∀ s' ∈ writeBlobTrace H crc (run H crc cfg ops) name size atts pl, Served H crc s' :=
  served_inside_write _ (by rw [run_cfg]; exact hs) (run_good cfg hs ops) name size atts pl

/-- the trace ends in the state the call returns with (or is empty when nothing changed) -/
theorem writeBlobTrace_last (s : State) (name : Name) (size : Nat) (atts : List Attempt) (pl : Int) :
    (s :: writeBlobTrace H crc s name size atts pl).getLast? = some (writeBlob H crc s name size atts pl).1 := by
  have hdisk : ∀ (s0 : State) (att : Option Attempt),
      (s0 :: diskTrace H crc s0 name size att pl).getLast? = some (writeDisk H crc s0 name size att pl).1 := by
    intro s0 att
    unfold diskTrace writeDisk writeCacheFile
    cases att with
    | none => simp
    | some a =>
      simp only
      by_cases hf : a.fail = true
      · simp [hf]
      · by_cases hv : verifyOK H s0.cfg name a.data = true
        · by_cases hu : usable s0 name = true
          · by_cases hl : a.data.length = size
            · simp [hf, hv, hl, hu]
            · simp [hf, hv, hl, hu]
          · simp [hf, hv, hu]
        · simp [hf, hv]
  unfold writeBlobTrace writeBlob
  split
  · cases hadd : addToMem H crc (reserved s size) name atts.head? size pl with
    | none =>
      simp only
      have := hdisk (released (reserved s size) size) (atts.drop 1).head?
      simp only [List.getLast?_cons_cons] at this ⊢
      exact this
    | some s2 =>
      cases hh : atts.head? with
      | none => rw [hh] at hadd; simp [addToMem] at hadd
      | some a => simp [List.getLast?_cons_cons]
  · exact hdisk s _

/-- **C01 (1d)** Readers that are held open stay sound: a reader opened under `n` after any history delivers
bytes hashing to `n` when it is finally read, whatever happened to the store in between (drain of the entry,
TTL removal, deletion of the file, refreshes of other blobs through the memory cache, …).  In the model a
reader *is* the bytes it was opened on (entries and cache files are never rewritten); the correspondence
harness keeps readers open across later operations and compares what they finally return. -/
theorem held_reader_sound (cfg : Cfg) (hs : cfg.skipVerify = false) (ops later : List Op) (n : Name) (r : Reader)
    (ho : openReader (run H crc cfg ops) n = some r) :
    H (r.readAll ((ops ++ later).foldl (step H crc) (init cfg))) = n ∧ r.name = n := by
  unfold openReader at ho
  cases hr : readable (run H crc cfg ops) n with
  | none => simp [hr] at ho
  | some b =>
    simp [hr] at ho
    subst ho
    exact ⟨(served_sound (H := H) (crc := crc) cfg hs ops n b hr).1, rfl⟩

/-- **C01 (3)** (the store is not vacuous) a direct cache write of content that does hash to a valid
name succeeds and makes content readable under the name (unless the disk refuses: `usable`). -/
theorem matching_write_served (s : State) (name : Name) (b : Bytes) (hv : validName name = true) (hb : H b = name)
    (hu : usable s name = true) :
    (apply H crc s (.createCache name b)).2 = .ok ∧
    ∃ b', readable (apply H crc s (.createCache name b)).1 name = some b' := by
  have hok : verifyOK H s.cfg name b = true := by simp [verifyOK, hv, hb]
  simp only [apply, createCache, writeCacheFile, hok, hu]
  refine ⟨by simp, ?_⟩
  simp only [Bool.false_eq_true, if_false, Bool.not_true]
  unfold readable
  split
  · exact ⟨_, rfl⟩
  · unfold ensureFile
    split
    · rename_i hh
      simp only [KV.has, Option.isSome_iff_exists] at hh
      obtain ⟨f, hf⟩ := hh
      exact ⟨f.data, by simp [hf]⟩
    · exact ⟨b, by simp [KV.get_put_self]⟩

/-- **C01 (4)** The same at the level of the origin's HTTP API: for every history of internal-transfer and
cluster uploads (start / patch / commit, in any interleaving of several uploads of the same or different
digests), blob GETs that refresh from a storage backend delivering arbitrary streams, and metainfo
overwrites, whatever the origin serves under a digest hashes to it (with size and metainfo as in (1)).
Each HTTP operation is a composition of store operations (`Model.OriginBlob`). -/
theorem origin_served (cfg : Cfg) (hs : cfg.skipVerify = false) (pl : Int) (ops : List OriginBlob.OOp) :
    Served H crc (OriginBlob.run H crc cfg pl ops).cas := by
  suffices h : ∀ (s : OriginBlob.State), GoodV H crc s.cas → GoodV H crc (ops.foldl (OriginBlob.step H crc) s).cas from
    served_of_good (h _ ⟨hs, good_init cfg⟩).2
  induction ops with
  | nil => intro s hg; exact hg
  | cons o ops ih => intro s hg; exact ih _ (origin_apply_good hg o)

end

/-! ### the precondition is necessary, and non-vacuity -/

/-- toy instances for the examples: a 64-hex-digit "hash" that separates `[1,2]` from everything else -/
def nA : Name := "36bbe50ed96841d10443bcb670d6554f0a34b761be67ec9c4a8ad2c0c44ca42c"
def n0 : Name := "0000000000000000000000000000000000000000000000000000000000000000"
def Ht (b : Bytes) : Name := if b = [1, 2] then nA else n0
def crct (b : Bytes) : Nat := b.sum

/-- With `SkipHashVerification` the store does serve content under a foreign name: the hypothesis of
`served_sound` cannot be dropped (this is configuration, outside the property). -/
theorem skip_config_serves_anything :
    readable (run Ht crct { skipVerify := true } [.createCache nA [9]]) nA = some [9] ∧ Ht [9] ≠ nA := by decide

-- a matching refresh through the memory cache is readable before the drain, after the drain and after
-- the TTL sweep; the bytes are the same at every point
example : readable (run Ht crct { memEnabled := true, maxSize := 10 } [.writeBlob nA 2 [{ data := [1, 2] }] 1]) nA = some [1, 2] := by decide
example : inMem (run Ht crct { memEnabled := true, maxSize := 10 } [.writeBlob nA 2 [{ data := [1, 2] }] 1]) nA = true := by decide
example : (let s := run Ht crct { memEnabled := true, maxSize := 10 } [.writeBlob nA 2 [{ data := [1, 2] }] 1, .drain]
    (readable s nA, inMem s nA, (metainfo s nA).map (·.sums))) = (some [1, 2], false, some [1, 2]) := by decide
-- a mismatching stream through the memory path is rejected and nothing is readable, whatever the drain does
example : (let s := run Ht crct { memEnabled := true, maxSize := 10 } [.writeBlob nA 2 [{ data := [7, 7] }, { data := [7, 7] }] 1, .drain]
    (readable s nA, inMem s nA)) = (none, false) := by decide
-- first stream corrupt, second (disk path) correct: served from disk
example : (let s := run Ht crct { memEnabled := true, maxSize := 10 } [.writeBlob nA 2 [{ data := [7, 7] }, { data := [1, 2] }] 1]
    (readable s nA, inMem s nA)) = (some [1, 2], false) := by decide
-- `Write.mismatch` is satisfiable and `mismatch_invisible` talks about a real failure
example : Write.mismatch Ht (init {}) nA (.writeBlob 2 [{ data := [7, 7] }] 1) := by
  intro a ha; simp at ha; subst ha; right; decide

-- HTTP level: an internal transfer in two out-of-order chunks is served after the commit; a refresh whose
-- first stream is corrupt is served from the retry; a corrupt-only refresh leaves nothing and is remembered
def uploadTwoChunks : List OriginBlob.OOp :=
  [.start .transfer nA "u", .patch .transfer nA "u" 1 [2], .patch .transfer nA "u" 0 [1], .commit .transfer nA "u"]
example : (let s := OriginBlob.run Ht crct {} 1 uploadTwoChunks
    (readable s.cas nA, (metainfo s.cas nA).map (·.sums))) = (some [1, 2], some [1, 2]) := by decide
example : (let s := OriginBlob.run Ht crct { memEnabled := true, maxSize := 9 } 1 [.fetch nA (some 2) [{ data := [3] }, { data := [1, 2] }]]
    (readable s.cas nA, inMem s.cas nA)) = (some [1, 2], false) := by decide
example : (let s := OriginBlob.run Ht crct { memEnabled := true, maxSize := 9 } 1 [.fetch nA (some 2) [{ data := [3] }, { data := [3] }]]
    (readable s.cas nA, s.failed)) = (none, [nA]) := by decide

end KrakenModel.Spec.C01

