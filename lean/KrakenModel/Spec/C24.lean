import KrakenModel.Util.LTS
import KrakenModel.Model.PassiveHealth
import KrakenModel.Proof.C24
/-
  C24  Passive health filtering follows its failure-window rule.
  Statements are about `Model.PassiveHealth`, which the correspondence check ties to
  lib/healthcheck (`NewPassiveFilter` / `NewPassive`, public API, `clock.Mock`).
  A timeline is any sequence of `Failed(h)`, `Run(addrs)`, `Passive.Resolve` and clock advances
  (monotone clock).  The rule (`shouldFilter`, Model/PassiveHealth.lean) is stated over the ghost
  log of every recorded failure: a host is filtered out at time `now` iff some failure `tf` of it
  with `now − tf ≤ FailTimeout` has at least `Fails` recorded failures `t ≤ tf`, `tf − t ≤ FailTimeout`.
-/
namespace KrakenModel.Spec.C24
open KrakenModel KrakenModel.PassiveHealth KrakenModel.Proof.C24

def sys (cfg : Config) : Sys State Op := { init := {}, step := step cfg }

/-- the per-host invariant holds along every timeline -/
theorem good_run (cfg : Config) (hw : 0 ≤ cfg.failTimeout) (ops : List Op) : GoodState cfg ((sys cfg).run ops) :=
  Sys.run_inv (sys cfg) (GoodState cfg) (fun _ => hinv_init cfg 0) (fun s o hg => good_step cfg hw s o hg) ops

/-- **C24 (1)** For every timeline of failures, runs and clock advances over any hosts and every
`Fails`, `FailTimeout ≥ 0`: `Run` removes a listed host exactly when the failure-window rule holds
for it at that moment. -/
theorem filtered_iff_rule (cfg : Config) (hw : 0 ≤ cfg.failTimeout) (ops : List Op) (addrs : List Host) (h : Host)
    (hm : h ∈ addrs) :
    let s := (sys cfg).run ops
    h ∉ (runF cfg s addrs).2 ↔ shouldFilter cfg s.log s.now h = true := by
  intro s
  have hg := good_run cfg hw ops h
  have key : filteredRec cfg s.now (s.recs h) = true ↔ shouldFilter cfg s.log s.now h = true :=
    Proof.C24.filtered_iff_rule hg
  have hmem : h ∈ (runF cfg s addrs).2 ↔ filteredRec cfg s.now (s.recs h) = false := by
    simp [runF, List.mem_filter, hm]
  rw [hmem]
  constructor
  · intro hf
    apply key.mp
    cases hx : filteredRec cfg s.now (s.recs h) with
    | true => rfl
    | false => exact absurd hx hf
  · intro hr hf
    rw [key.mpr hr] at hf
    cases hf

/-- the rule spelled out with quantifiers -/
theorem rule_spelled_out (cfg : Config) (log : List (Host × Int)) (now : Int) (h : Host) :
    shouldFilter cfg log now h = true ↔
      ∃ tf ∈ failTimes log h, now - tf ≤ cfg.failTimeout ∧
        (((failTimes log h).filter fun t => t ≤ tf ∧ tf - t ≤ cfg.failTimeout).length : Int) ≥ cfg.fails := by
  have hfun : ∀ tf : Int, (fun t : Int => decide (t ≤ tf) && decide (tf - t ≤ cfg.failTimeout)) =
      (fun t : Int => decide (t ≤ tf ∧ tf - t ≤ cfg.failTimeout)) := by
    intro tf; funext t; simp [Bool.decide_and]
  simp only [shouldFilter, List.any_eq_true, Bool.and_eq_true, decide_eq_true_eq, qual, windowCount, hfun]

/-- `Run` returns listed hosts only, and hosts without any recorded failure are never removed -/
theorem run_sound (cfg : Config) (s : State) (addrs : List Host) :
    (∀ h ∈ (runF cfg s addrs).2, h ∈ addrs) ∧
    (∀ h ∈ addrs, (s.recs h).unhealthy = none → h ∈ (runF cfg s addrs).2) := by
  constructor
  · intro h hh
    simp only [runF, List.mem_filter] at hh
    exact hh.1
  · intro h hm hn
    simp [runF, List.mem_filter, hm, filteredRec, hn]

/-- **C24 (2)** A passively checked host list never resolves to an empty set while it has hosts,
resolves to listed hosts only, and is exactly `Run`'s answer whenever that is non-empty. -/
theorem resolve_nonempty (cfg : Config) (s : State) (addrs : List Host) :
    (addrs ≠ [] → (resolve cfg s addrs).2 ≠ []) ∧
    (∀ h ∈ (resolve cfg s addrs).2, h ∈ addrs) ∧
    ((runF cfg s addrs).2 ≠ [] → (resolve cfg s addrs).2 = (runF cfg s addrs).2) := by
  simp only [resolve]
  cases hx : (runF cfg s addrs).2 with
  | nil =>
    simp only [List.isEmpty_nil, if_true]
    exact ⟨fun h => h, fun h hh => hh, fun h => absurd rfl h⟩
  | cons a l =>
    simp only [List.isEmpty_cons]
    refine ⟨fun _ => by simp, ?_, fun _ => rfl⟩
    intro h hh
    have := (run_sound cfg s addrs).1 h (by rw [hx]; exact hh)
    exact this

/-- For every timeline: `Resolve` of a non-empty list is non-empty. -/
theorem resolve_nonempty_hist (cfg : Config) (ops : List Op) (addrs : List Host) (hne : addrs ≠ []) :
    (resolve cfg ((sys cfg).run ops) addrs).2 ≠ [] :=
  (resolve_nonempty cfg _ addrs).1 hne

-- non-vacuity: the rule and the filter on concrete timelines (Fails = 3, FailTimeout = 10)
def exCfg : Config := ⟨3, 10⟩
example : (runF exCfg ((sys exCfg).run [.failed 0, .failed 0, .advance 10, .failed 0]) [0, 1]).2 = [1] := by decide
example : (runF exCfg ((sys exCfg).run [.failed 0, .failed 0, .advance 11, .failed 0]) [0, 1]).2 = [0, 1] := by decide
example : shouldFilter exCfg ((sys exCfg).run [.failed 0, .failed 0, .advance 10, .failed 0]).log 10 0 = true := by decide
example : shouldFilter exCfg ((sys exCfg).run [.failed 0, .failed 0, .advance 10, .failed 0]).log 20 0 = true := by decide
example : shouldFilter exCfg ((sys exCfg).run [.failed 0, .failed 0, .advance 10, .failed 0]).log 21 0 = false := by decide
example : (runF exCfg ((sys exCfg).run [.failed 0, .failed 0, .failed 0, .advance 11, .failed 0, .advance 1, .failed 0,
    .run [0, 1], .advance 1, .failed 0]) [0, 1]).2 = [1] := by decide
example : (resolve ⟨1, 10⟩ ((sys ⟨1, 10⟩).run [.failed 0, .failed 1]) [0, 1]).2 = [0, 1] := by decide
example : (runF ⟨1, 10⟩ ((sys ⟨1, 10⟩).run [.failed 0, .failed 1]) [0, 1]).2 = [] := by decide

end KrakenModel.Spec.C24
