import KrakenModel.Util.LTS
import KrakenModel.Model.AnnounceQueue
/-
  C20  The announce queue holds each torrent once and serves them in order.
  Statements are about `Model.AnnounceQueue`, which the correspondence check ties to
  lib/torrent/scheduler/announcequeue.QueueImpl.
-/
namespace KrakenModel.Spec.C20
open KrakenModel KrakenModel.AnnounceQueue

def sys : Sys State Op := { init := init, step := step }

/-- every torrent at most once across ready list and pending set -/
def GoodQ (s : State) : Prop := (s.ready ++ s.pending).Nodup

instance (s : State) : Decidable (GoodQ s) := by unfold GoodQ; exact inferInstance

theorem good_init : GoodQ init := by simp [GoodQ, init]

theorem step_good (s : State) (o : Op) (hg : GoodQ s) (hp : pre s o) : GoodQ (step s o) := by
  unfold GoodQ at *
  have hg' := List.nodup_append.mp hg
  obtain ⟨hr, hpd, hdisj⟩ := hg'
  cases o with
  | add h =>
    obtain ⟨h1, h2⟩ := hp
    simp only [step, add]
    rw [List.nodup_append]
    refine ⟨?_, hpd, ?_⟩
    · rw [List.nodup_append]
      refine ⟨hr, by simp, ?_⟩
      intro a ha b hb; simp at hb; subst hb; intro e; subst e; exact h1 ha
    · intro a ha b hb
      rcases List.mem_append.mp ha with ha | ha
      · exact hdisj a ha b hb
      · simp at ha; subst ha; intro e; subst e; exact h2 hb
  | next =>
    simp only [step, next]
    cases hrd : s.ready with
    | nil => simpa [hrd] using hpd
    | cons h rest =>
      rw [hrd] at hr hdisj
      have hr' := List.nodup_cons.mp hr
      have hnp : h ∉ s.pending := fun hm => hdisj h (by simp) h hm rfl
      simp only [hnp, if_false]
      rw [List.nodup_append]
      refine ⟨hr'.2, List.nodup_cons.mpr ⟨hnp, hpd⟩, ?_⟩
      intro a ha b hb
      rcases List.mem_cons.mp hb with hb | hb
      · subst hb; intro e; subst e; exact hr'.1 ha
      · exact hdisj a (List.mem_cons_of_mem _ ha) b hb
  | ready h =>
    simp only [step, AnnounceQueue.ready]
    split
    · rename_i hm
      rw [List.nodup_append]
      refine ⟨?_, hpd.erase h, ?_⟩
      · rw [List.nodup_append]
        refine ⟨hr, by simp, ?_⟩
        intro a ha b hb; simp at hb; subst hb; intro e; subst e; exact hdisj a ha a hm rfl
      · intro a ha b hb
        have hb' := List.mem_of_mem_erase hb
        rcases List.mem_append.mp ha with ha | ha
        · exact hdisj a ha b hb'
        · simp at ha; subst ha; intro e; subst e
          exact (List.Nodup.mem_erase_iff hpd).mp hb |>.1 rfl
    · exact List.nodup_append.mpr ⟨hr, hpd, hdisj⟩
  | eject h =>
    simp only [step, eject]
    rw [List.nodup_append]
    refine ⟨hr.erase h, hpd.erase h, ?_⟩
    intro a ha b hb
    exact hdisj a (List.mem_of_mem_erase ha) b (List.mem_of_mem_erase hb)

/-- **C20 (1)** For every history that respects the documented precondition of `Add`, no torrent
appears twice in the ready list, twice in pending, or in both. -/
theorem queue_nodup (ops : List Op) (hw : sys.WFHist pre sys.init ops) : GoodQ (sys.run ops) :=
  Sys.runFrom_inv_pre sys pre GoodQ (fun s a h hp => step_good s a h hp) ops sys.init good_init hw

/-- **C20 (2)** `Ready(h)` only re-queues a torrent that is pending. -/
theorem ready_only_pending (s : State) (h : Hash) (hn : h ∉ s.pending) : step s (.ready h) = s := by
  simp [step, AnnounceQueue.ready, hn]

theorem ready_requeues (s : State) (h : Hash) (hm : h ∈ s.pending) :
    (step s (.ready h)).ready = s.ready ++ [h] ∧ (step s (.ready h)).pending = s.pending.erase h := by
  simp [step, AnnounceQueue.ready, hm]

/-- **C20 (3)** After `Eject(h)` the torrent is in neither structure (in every good state, hence
after every history respecting the precondition). -/
theorem eject_gone (s : State) (h : Hash) (hg : GoodQ s) :
    h ∉ (step s (.eject h)).ready ∧ h ∉ (step s (.eject h)).pending := by
  unfold GoodQ at hg
  obtain ⟨hr, hpd, _⟩ := List.nodup_append.mp hg
  simp only [step, eject]
  exact ⟨fun hm => ((List.Nodup.mem_erase_iff hr).mp hm).1 rfl,
         fun hm => ((List.Nodup.mem_erase_iff hpd).mp hm).1 rfl⟩

theorem eject_gone_hist (ops : List Op) (hw : sys.WFHist pre sys.init ops) (h : Hash) :
    h ∉ (step (sys.run ops) (.eject h)).ready ∧ h ∉ (step (sys.run ops) (.eject h)).pending :=
  eject_gone _ h (queue_nodup ops hw)

/-- **C20 (4a)** `Next()` returns the front of the ready list and moves it to pending. -/
theorem next_is_front (s : State) :
    output s .next = s.ready.head? ∧
    (∀ h, output s .next = some h → h ∈ (step s .next).pending ∧ (step s .next).ready = s.ready.tail) := by
  cases hrd : s.ready with
  | nil => simp [output, next, hrd]
  | cons a rest =>
    refine ⟨by simp [output, next, hrd], ?_⟩
    intro h hh
    simp [output, next, hrd] at hh
    subst hh
    simp only [step, next, hrd]
    constructor
    · split <;> simp_all
    · simp

/-- **C20 (4b)** FIFO: every operation keeps the relative order of the torrents that stay in the
ready list, and new arrivals go to the back (at most one per operation). -/
theorem ready_order (s : State) (o : Op) :
    ∃ sfx, sfx.length ≤ 1 ∧
      (step s o).ready = (match o with
        | .next => s.ready.tail
        | .eject h => s.ready.erase h
        | _ => s.ready) ++ sfx := by
  cases o with
  | add h => exact ⟨[h], by simp, by simp [step, add]⟩
  | next =>
    refine ⟨[], by simp, ?_⟩
    cases hrd : s.ready <;> simp [step, next, hrd]
  | ready h =>
    by_cases hm : h ∈ s.pending
    · exact ⟨[h], by simp, by simp [step, AnnounceQueue.ready, hm]⟩
    · exact ⟨[], by simp, by simp [step, AnnounceQueue.ready, hm]⟩
  | eject h => exact ⟨[], by simp, by simp [step, eject]⟩

/-- Outside the precondition (`Add` of a queued torrent) the code does produce a duplicate; the
precondition is therefore necessary — it is discharged for the scheduler in C17's model. -/
theorem add_twice_dups : ¬ GoodQ (sys.run [.add 1, .add 1]) := by decide

-- non-vacuity: a non-trivial history satisfies the precondition and the invariant
example : sys.WFHist pre sys.init [.add 1, .add 2, .next, .ready 1, .eject 2, .add 2] := by decide
example : GoodQ (sys.run [.add 1, .add 2, .next, .ready 1, .eject 2, .add 2]) := by decide

end KrakenModel.Spec.C20
