import KrakenModel.Util.LTS
import KrakenModel.Model.AnnounceQueue
import KrakenModel.Model.SchedQueue
/-
  C20  The announce queue holds each torrent once and serves them in order.
  Statements are about `Model.AnnounceQueue`, which the correspondence check ties to
  lib/torrent/scheduler/announcequeue.QueueImpl.
-/
namespace KrakenModel.Spec.C20
open KrakenModel KrakenModel.AnnounceQueue

def sys : Sys State Op := { init := init, step := step }

/-- every torrent at most once across ready list and pending set -/
def GoodQ (s : State) : Prop := (s.ready ++ s.pending).Nodup

instance (s : State) : Decidable (GoodQ s) := by unfold GoodQ; exact inferInstance

theorem good_init : GoodQ init := by simp [GoodQ, init]

theorem step_good (s : State) (o : Op) (hg : GoodQ s) (hp : pre s o) : GoodQ (step s o) := by
  unfold GoodQ at *
  have hg' := List.nodup_append.mp hg
  obtain ⟨hr, hpd, hdisj⟩ := hg'
  cases o with
  | add h =>
    obtain ⟨h1, h2⟩ := hp
    simp only [step, add]
    rw [List.nodup_append]
    refine ⟨?_, hpd, ?_⟩
    · rw [List.nodup_append]
      refine ⟨hr, by simp, ?_⟩
      intro a ha b hb; simp at hb; subst hb; intro e; subst e; exact h1 ha
    · intro a ha b hb
      rcases List.mem_append.mp ha with ha | ha
      · exact hdisj a ha b hb
      · simp at ha; subst ha; intro e; subst e; exact h2 hb
  | next =>
    simp only [step, next]
    cases hrd : s.ready with
    | nil => simpa [hrd] using hpd
    | cons h rest =>
      rw [hrd] at hr hdisj
      have hr' := List.nodup_cons.mp hr
      have hnp : h ∉ s.pending := fun hm => hdisj h (by simp) h hm rfl
      simp only [hnp, if_false]
      rw [List.nodup_append]
      refine ⟨hr'.2, List.nodup_cons.mpr ⟨hnp, hpd⟩, ?_⟩
      intro a ha b hb
      rcases List.mem_cons.mp hb with hb | hb
      · subst hb; intro e; subst e; exact hr'.1 ha
      · exact hdisj a (List.mem_cons_of_mem _ ha) b hb
  | ready h =>
    simp only [step, AnnounceQueue.ready]
    split
    · rename_i hm
      rw [List.nodup_append]
      refine ⟨?_, hpd.erase h, ?_⟩
      · rw [List.nodup_append]
        refine ⟨hr, by simp, ?_⟩
        intro a ha b hb; simp at hb; subst hb; intro e; subst e; exact hdisj a ha a hm rfl
      · intro a ha b hb
        have hb' := List.mem_of_mem_erase hb
        rcases List.mem_append.mp ha with ha | ha
        · exact hdisj a ha b hb'
        · simp at ha; subst ha; intro e; subst e
          exact (List.Nodup.mem_erase_iff hpd).mp hb |>.1 rfl
    · exact List.nodup_append.mpr ⟨hr, hpd, hdisj⟩
  | eject h =>
    simp only [step, eject]
    rw [List.nodup_append]
    refine ⟨hr.erase h, hpd.erase h, ?_⟩
    intro a ha b hb
    exact hdisj a (List.mem_of_mem_erase ha) b (List.mem_of_mem_erase hb)

/-- **C20 (1)** For every history that respects the documented precondition of `Add`, no torrent
appears twice in the ready list, twice in pending, or in both. -/
theorem queue_nodup (ops : List Op) (hw : sys.WFHist pre sys.init ops) : GoodQ (sys.run ops) :=
  Sys.runFrom_inv_pre sys pre GoodQ (fun s a h hp => step_good s a h hp) ops sys.init good_init hw

/-- **C20 (2)** `Ready(h)` only re-queues a torrent that is pending. -/
theorem ready_only_pending (s : State) (h : Hash) (hn : h ∉ s.pending) : step s (.ready h) = s := by
  simp [step, AnnounceQueue.ready, hn]

theorem ready_requeues (s : State) (h : Hash) (hm : h ∈ s.pending) :
    (step s (.ready h)).ready = s.ready ++ [h] ∧ (step s (.ready h)).pending = s.pending.erase h := by
  simp [step, AnnounceQueue.ready, hm]

/-- **C20 (3)** After `Eject(h)` the torrent is in neither structure (in every good state, hence
after every history respecting the precondition). -/
theorem eject_gone (s : State) (h : Hash) (hg : GoodQ s) :
    h ∉ (step s (.eject h)).ready ∧ h ∉ (step s (.eject h)).pending := by
  unfold GoodQ at hg
  obtain ⟨hr, hpd, _⟩ := List.nodup_append.mp hg
  simp only [step, eject]
  exact ⟨fun hm => ((List.Nodup.mem_erase_iff hr).mp hm).1 rfl,
         fun hm => ((List.Nodup.mem_erase_iff hpd).mp hm).1 rfl⟩

theorem eject_gone_hist (ops : List Op) (hw : sys.WFHist pre sys.init ops) (h : Hash) :
    h ∉ (step (sys.run ops) (.eject h)).ready ∧ h ∉ (step (sys.run ops) (.eject h)).pending :=
  eject_gone _ h (queue_nodup ops hw)

/-- **C20 (4a)** `Next()` returns the front of the ready list and moves it to pending. -/
theorem next_is_front (s : State) :
    output s .next = s.ready.head? ∧
    (∀ h, output s .next = some h → h ∈ (step s .next).pending ∧ (step s .next).ready = s.ready.tail) := by
  cases hrd : s.ready with
  | nil => simp [output, next, hrd]
  | cons a rest =>
    refine ⟨by simp [output, next, hrd], ?_⟩
    intro h hh
    simp [output, next, hrd] at hh
    subst hh
    simp only [step, next, hrd]
    constructor
    · split <;> simp_all
    · simp

/-- **C20 (4b)** FIFO: every operation keeps the relative order of the torrents that stay in the
ready list, and new arrivals go to the back (at most one per operation). -/
theorem ready_order (s : State) (o : Op) :
    ∃ sfx, sfx.length ≤ 1 ∧
      (step s o).ready = (match o with
        | .next => s.ready.tail
        | .eject h => s.ready.erase h
        | _ => s.ready) ++ sfx := by
  cases o with
  | add h => exact ⟨[h], by simp, by simp [step, add]⟩
  | next =>
    refine ⟨[], by simp, ?_⟩
    cases hrd : s.ready <;> simp [step, next, hrd]
  | ready h =>
    by_cases hm : h ∈ s.pending
    · exact ⟨[h], by simp, by simp [step, AnnounceQueue.ready, hm]⟩
    · exact ⟨[], by simp, by simp [step, AnnounceQueue.ready, hm]⟩
  | eject h => exact ⟨[], by simp, by simp [step, eject]⟩

/-- Outside the precondition (`Add` of a queued torrent) the code does produce a duplicate; the
precondition is therefore necessary — it is discharged for the scheduler in C17's model. -/
theorem add_twice_dups : ¬ GoodQ (sys.run [.add 1, .add 1]) := by decide

-- non-vacuity: a non-trivial history satisfies the precondition and the invariant
example : sys.WFHist pre sys.init [.add 1, .add 2, .next, .ready 1, .eject 2, .add 2] := by decide
example : GoodQ (sys.run [.add 1, .add 2, .next, .ready 1, .eject 2, .add 2]) := by decide

end KrakenModel.Spec.C20

/-
  C20 at scheduler level: the precondition of `Add` is discharged for every schedule of scheduler events
  (Model.SchedQueue composed with Model.AnnounceQueue), so the uniqueness invariant holds for every
  scheduler history with no hypothesis.  `run true` is the scheduler as repaired by the `fix:` commit
  (removeTorrent always ejects), `run false` the scheduler as it was, for which uniqueness is refuted.
-/
namespace KrakenModel.Spec.C20
open KrakenModel KrakenModel.AnnounceQueue
open KrakenModel.SchedQueue (Action queueOps bookkeeping tickOps allOps setCtrl)

def isAdd : Op → Bool
  | .add _ => true
  | _ => false

/-- membership in the queue (ready list or pending set) -/
def Queued (q : AnnounceQueue.State) (h : Hash) : Prop := h ∈ q.ready ∨ h ∈ q.pending

theorem wfhist_append (xs ys : List Op) : ∀ q, sys.WFHist pre q (xs ++ ys) ↔
    sys.WFHist pre q xs ∧ sys.WFHist pre (sys.runFrom q xs) ys := by
  induction xs with
  | nil => intro q; simp [Sys.WFHist, Sys.runFrom]
  | cons x xs ih =>
    intro q
    simp only [List.cons_append, Sys.WFHist, Sys.runFrom, List.foldl_cons]
    have := ih (sys.step q x)
    simp only [Sys.runFrom] at this
    rw [this, and_assoc]

theorem pre_of_not_add (q : AnnounceQueue.State) (o : Op) (h : isAdd o = false) : pre q o := by
  cases o <;> simp_all [isAdd, pre]

theorem queued_step_sub (q : AnnounceQueue.State) (o : Op) (hn : isAdd o = false) (h : Hash)
    (hq : Queued (AnnounceQueue.step q o) h) : Queued q h := by
  unfold Queued at *
  cases o with
  | add x => simp [isAdd] at hn
  | next =>
    simp only [AnnounceQueue.step, next] at hq
    cases hr : q.ready with
    | nil => simpa [hr] using hq
    | cons a rest =>
      simp only [hr] at hq
      rcases hq with hq | hq
      · exact Or.inl (List.mem_cons_of_mem _ hq)
      · split at hq
        · exact Or.inr hq
        · rcases List.mem_cons.mp hq with e | e
          · subst e; exact Or.inl (by simp)
          · exact Or.inr e
  | ready x =>
    simp only [AnnounceQueue.step, AnnounceQueue.ready] at hq
    split at hq
    · rename_i hm
      rcases hq with hq | hq
      · rcases List.mem_append.mp hq with e | e
        · exact Or.inl e
        · simp at e; subst e; exact Or.inr hm
      · exact Or.inr (List.mem_of_mem_erase hq)
    · exact hq
  | eject x =>
    simp only [AnnounceQueue.step, eject] at hq
    rcases hq with hq | hq
    · exact Or.inl (List.mem_of_mem_erase hq)
    · exact Or.inr (List.mem_of_mem_erase hq)

/-- a list of queue operations without `Add` respects the precondition, keeps the queue good and adds
no member -/
theorem nonadd_ops (ops : List Op) (hn : ∀ o ∈ ops, isAdd o = false) : ∀ q, GoodQ q →
    sys.WFHist pre q ops ∧ GoodQ (sys.runFrom q ops) ∧ ∀ h, Queued (sys.runFrom q ops) h → Queued q h := by
  induction ops with
  | nil => intro q g; exact ⟨trivial, g, fun _ h => h⟩
  | cons o os ih =>
    intro q g
    have ho := hn o (by simp)
    have hp := pre_of_not_add q o ho
    have g' := step_good q o g hp
    obtain ⟨a, b, c⟩ := ih (fun o' h' => hn o' (List.mem_cons_of_mem _ h')) (AnnounceQueue.step q o) g'
    refine ⟨⟨hp, a⟩, b, ?_⟩
    intro h hq
    exact queued_step_sub q o ho h (c h hq)

theorem tickOps_nonadd (sat known : Hash → Bool) : ∀ (fuel : Nat) (q : AnnounceQueue.State) (sk : List Hash),
    ∀ o ∈ tickOps sat known fuel q sk, isAdd o = false := by
  intro fuel
  induction fuel with
  | zero => intro q sk o ho; simp [tickOps] at ho; obtain ⟨_, _, rfl⟩ := ho; rfl
  | succ n ih =>
    intro q sk o ho
    simp only [tickOps] at ho
    split at ho
    · simp at ho; rcases ho with rfl | ⟨_, _, rfl⟩ <;> rfl
    · split at ho
      · simp only [List.mem_cons] at ho
        rcases ho with rfl | ho
        · rfl
        · exact ih _ _ o ho
      · split at ho
        · simp only [List.mem_cons] at ho
          rcases ho with rfl | ho
          · rfl
          · exact ih _ _ o ho
        · simp at ho; rcases ho with rfl | ⟨_, _, rfl⟩ <;> rfl

/-- invariant of the scheduler's use of the queue: the queue is good and only torrents that have a
control are queued -/
def QInv (s : SchedQueue.State) : Prop := GoodQ s.q ∧ ∀ h, Queued s.q h → (s.ctrl h).isSome = true

theorem queueOps_nonadd (s : SchedQueue.State) (a : Action) (hreq : ∀ h c, a ≠ .request h c)
    (hinc : ∀ h c, a ≠ .incoming h c) : ∀ o ∈ queueOps true s a, isAdd o = false := by
  intro o ho
  cases a with
  | request h c => exact absurd rfl (hreq h c)
  | incoming h c => exact absurd rfl (hinc h c)
  | finish h => simp [queueOps] at ho
  | notice h g =>
    simp only [queueOps] at ho
    split at ho
    · split at ho
      · split at ho
        · simp at ho
        · simp at ho; subst ho; rfl
      · simp at ho; subst ho; rfl
    · simp at ho
  | remove h =>
    simp only [queueOps, SchedQueue.removeOps] at ho
    split at ho
    · split at ho
      · simp at ho; subst ho; rfl
      · simp at ho
    · simp at ho
  | announceTick sat => exact tickOps_nonadd _ _ _ _ _ o ho
  | announceResult h =>
    simp only [queueOps] at ho
    split at ho
    · simp at ho
    · split at ho
      · simp at ho; subst ho; rfl
      · simp at ho
  | announceErr h =>
    simp only [queueOps] at ho
    split at ho
    · simp at ho
    · simp at ho; subst ho; rfl

theorem step_q (rep : Bool) (s : SchedQueue.State) (a : Action) :
    (SchedQueue.step rep s a).q = sys.runFrom s.q (queueOps rep s a) := rfl

theorem step_ctrl (rep : Bool) (s : SchedQueue.State) (a : Action) :
    (SchedQueue.step rep s a).ctrl = (bookkeeping s a).ctrl := rfl

theorem addInflight_ctrl (s : SchedQueue.State) (h : Hash) : (SchedQueue.addInflight s h).ctrl = s.ctrl := rfl
theorem subInflight_ctrl (s : SchedQueue.State) (h : Hash) : (SchedQueue.subInflight s h).ctrl = s.ctrl := rfl

theorem addCtrl_ctrl (s : SchedQueue.State) (h : Hash) (d : Bool) (k : Hash) :
    (SchedQueue.addCtrl s h d).ctrl k = if k = h then some (s.nextGen, d) else s.ctrl k := by
  unfold SchedQueue.addCtrl; split <;> simp [setCtrl]

/-- adding `h` to a good queue that does not hold it -/
theorem add_step (q : AnnounceQueue.State) (h : Hash) (hg : GoodQ q) (hn : ¬ Queued q h) :
    pre q (.add h) ∧ GoodQ (AnnounceQueue.step q (.add h)) ∧
    ∀ k, Queued (AnnounceQueue.step q (.add h)) k → k = h ∨ Queued q k := by
  have hpre : pre q (.add h) := ⟨fun x => hn (Or.inl x), fun x => hn (Or.inr x)⟩
  refine ⟨hpre, step_good q (.add h) hg hpre, ?_⟩
  intro k hk
  simp only [Queued, AnnounceQueue.step, add] at hk ⊢
  rcases hk with hk | hk
  · rcases List.mem_append.mp hk with x | x
    · exact Or.inr (Or.inl x)
    · simp at x; exact Or.inl x
  · exact Or.inr (Or.inr hk)

/-- the bookkeeping of an action that is not a request / incoming / removal keeps every control -/
theorem ctrl_kept (s : SchedQueue.State) (a : Action) (hreq : ∀ h c, a ≠ .request h c)
    (hinc : ∀ h c, a ≠ .incoming h c) (hrem : ∀ h, a ≠ .remove h) (k : Hash)
    (hk : (s.ctrl k).isSome = true) : ((bookkeeping s a).ctrl k).isSome = true := by
  cases a with
  | request h c => exact absurd rfl (hreq h c)
  | incoming h c => exact absurd rfl (hinc h c)
  | remove h => exact absurd rfl (hrem h)
  | finish h =>
    simp only [bookkeeping]
    cases hc : s.ctrl h with
    | none => simpa using hk
    | some v =>
      obtain ⟨g, b⟩ := v
      cases b
      · by_cases e : k = h
        · simp [setCtrl, e]
        · simpa [setCtrl, e] using hk
      · simpa using hk
  | notice h g =>
    simp only [bookkeeping]
    split
    · split
      · split <;> simpa [addInflight_ctrl] using hk
      · simpa using hk
    · exact hk
  | announceTick sat =>
    simp only [bookkeeping]
    split <;> simpa [addInflight_ctrl] using hk
  | announceResult h => simpa [bookkeeping, subInflight_ctrl] using hk
  | announceErr h => simpa [bookkeeping, subInflight_ctrl] using hk

/-- one scheduler event: its queue calls respect the precondition of `Add`, and the invariant is kept -/
theorem sched_step (s : SchedQueue.State) (a : Action) (hi : QInv s) :
    sys.WFHist pre s.q (queueOps true s a) ∧ QInv (SchedQueue.step true s a) := by
  obtain ⟨hg, hm⟩ := hi
  -- adding a torrent that has no control: [add h]
  have addCase : ∀ (h : Hash) (a : Action) (b' : SchedQueue.State), s.ctrl h = none →
      queueOps true s a = [.add h] → (∀ k, (b'.ctrl k) = if k = h then some (s.nextGen, (b'.ctrl h).get!.2) else s.ctrl k) →
      (bookkeeping s a).ctrl = b'.ctrl →
      sys.WFHist pre s.q (queueOps true s a) ∧ QInv (SchedQueue.step true s a) := by
    intro h a b' hc hops hb hbk
    have hnq : ¬ Queued s.q h := fun hq => by have := hm h hq; simp [hc] at this
    obtain ⟨p1, p2, p3⟩ := add_step s.q h hg hnq
    refine ⟨by rw [hops]; exact ⟨p1, trivial⟩, ?_⟩
    simp only [QInv, step_q, step_ctrl, hops, Sys.runFrom, List.foldl_cons, List.foldl_nil, hbk]
    refine ⟨p2, ?_⟩
    intro k hk
    rw [hb k]
    by_cases e : k = h
    · simp [e]
    · simp only [e, if_false]
      rcases p3 k hk with x | x
      · exact absurd x e
      · exact hm k x
  cases a with
  | request h c =>
    cases hc : s.ctrl h with
    | none =>
      have hops : queueOps true s (.request h c) = [.add h] := by simp [queueOps, hc]
      cases c
      · apply addCase h _ (SchedQueue.addCtrl s h false) hc hops
        · intro k; rw [addCtrl_ctrl]; by_cases e : k = h <;> simp [e, addCtrl_ctrl]
        · simp [bookkeeping, hc, addInflight_ctrl]
      · apply addCase h _ (SchedQueue.addCtrl s h true) hc hops
        · intro k; rw [addCtrl_ctrl]; by_cases e : k = h <;> simp [e, addCtrl_ctrl]
        · simp [bookkeeping, hc]
    | some v =>
      obtain ⟨g, comp⟩ := v
      by_cases hev : (comp && !c) = true
      · -- evicted: removeTorrent (Eject) then addTorrent (Add)
        have hops : queueOps true s (.request h c) = [.eject h, .add h] := by
          simp [queueOps, hc, hev, SchedQueue.removeOps]
        have hgone := eject_gone s.q h hg
        have hg1 : GoodQ (AnnounceQueue.step s.q (.eject h)) := step_good s.q (.eject h) hg trivial
        have hnq : ¬ Queued (AnnounceQueue.step s.q (.eject h)) h := fun hq => by
          rcases hq with x | x
          · exact hgone.1 x
          · exact hgone.2 x
        obtain ⟨p1, p2, p3⟩ := add_step _ h hg1 hnq
        refine ⟨by rw [hops]; exact ⟨trivial, p1, trivial⟩, ?_⟩
        simp only [QInv, step_q, step_ctrl, hops, Sys.runFrom, List.foldl_cons, List.foldl_nil]
        refine ⟨p2, ?_⟩
        intro k hk
        have hb : (bookkeeping s (.request h c)).ctrl k = if k = h then some (s.nextGen, false) else s.ctrl k := by
          simp only [bookkeeping, hc, hev, if_true, addInflight_ctrl, addCtrl_ctrl]
        rw [hb]
        by_cases e : k = h
        · simp [e]
        · simp only [e, if_false]
          rcases p3 k hk with x | x
          · exact absurd x e
          · exact hm k (queued_step_sub s.q (.eject h) rfl k x)
      · have hops : queueOps true s (.request h c) = [] := by simp [queueOps, hc, hev]
        refine ⟨by rw [hops]; trivial, ?_⟩
        simp only [QInv, step_q, step_ctrl, hops, Sys.runFrom, List.foldl_nil]
        refine ⟨hg, ?_⟩
        intro k hk
        have hb : (bookkeeping s (.request h c)).ctrl = s.ctrl := by
          simp only [bookkeeping, hc, hev, Bool.false_eq_true, if_false]
          split <;> simp [addInflight_ctrl]
        rw [hb]; exact hm k hk
  | incoming h c =>
    cases hc : s.ctrl h with
    | none =>
      have hops : queueOps true s (.incoming h c) = [.add h] := by simp [queueOps, hc]
      apply addCase h _ (SchedQueue.addCtrl s h c) hc hops
      · intro k; rw [addCtrl_ctrl]; by_cases e : k = h <;> simp [e, addCtrl_ctrl]
      · simp [bookkeeping, hc]
    | some v =>
      have hops : queueOps true s (.incoming h c) = [] := by simp [queueOps, hc]
      refine ⟨by rw [hops]; trivial, ?_⟩
      simp only [QInv, step_q, step_ctrl, hops, Sys.runFrom, List.foldl_nil, bookkeeping, hc, Option.isSome_some, if_true]
      exact ⟨hg, hm⟩
  | remove h =>
    obtain ⟨w1, w2, w3⟩ := nonadd_ops (queueOps true s (.remove h))
      (queueOps_nonadd s (.remove h) (fun _ _ e => by cases e) (fun _ _ e => by cases e)) s.q hg
    refine ⟨w1, ?_⟩
    simp only [QInv, step_q, step_ctrl]
    refine ⟨w2, ?_⟩
    intro k hk
    have hold := hm k (w3 k hk)
    simp only [bookkeeping, setCtrl]
    by_cases e : k = h
    · subst e
      exfalso
      cases hc : s.ctrl k with
      | none => simp [hc] at hold
      | some v =>
        obtain ⟨g, b⟩ := v
        have hops : queueOps true s (.remove k) = [.eject k] := by simp [queueOps, hc, SchedQueue.removeOps]
        rw [hops] at hk
        simp only [Sys.runFrom, List.foldl_cons, List.foldl_nil] at hk
        have := eject_gone s.q k hg
        rcases hk with hk | hk
        · exact this.1 hk
        · exact this.2 hk
    · simpa [e] using hold
  | finish h =>
    have hn := queueOps_nonadd s (.finish h) (fun _ _ e => by cases e) (fun _ _ e => by cases e)
    obtain ⟨w1, w2, w3⟩ := nonadd_ops _ hn s.q hg
    exact ⟨w1, w2, fun k hk => by
      rw [step_ctrl]; exact ctrl_kept s _ (fun _ _ e => by cases e) (fun _ _ e => by cases e) (fun _ e => by cases e) k (hm k (w3 k hk))⟩
  | notice h g =>
    have hn := queueOps_nonadd s (.notice h g) (fun _ _ e => by cases e) (fun _ _ e => by cases e)
    obtain ⟨w1, w2, w3⟩ := nonadd_ops _ hn s.q hg
    exact ⟨w1, w2, fun k hk => by
      rw [step_ctrl]; exact ctrl_kept s _ (fun _ _ e => by cases e) (fun _ _ e => by cases e) (fun _ e => by cases e) k (hm k (w3 k hk))⟩
  | announceTick sat =>
    have hn := queueOps_nonadd s (.announceTick sat) (fun _ _ e => by cases e) (fun _ _ e => by cases e)
    obtain ⟨w1, w2, w3⟩ := nonadd_ops _ hn s.q hg
    exact ⟨w1, w2, fun k hk => by
      rw [step_ctrl]; exact ctrl_kept s _ (fun _ _ e => by cases e) (fun _ _ e => by cases e) (fun _ e => by cases e) k (hm k (w3 k hk))⟩
  | announceResult h =>
    have hn := queueOps_nonadd s (.announceResult h) (fun _ _ e => by cases e) (fun _ _ e => by cases e)
    obtain ⟨w1, w2, w3⟩ := nonadd_ops _ hn s.q hg
    exact ⟨w1, w2, fun k hk => by
      rw [step_ctrl]; exact ctrl_kept s _ (fun _ _ e => by cases e) (fun _ _ e => by cases e) (fun _ e => by cases e) k (hm k (w3 k hk))⟩
  | announceErr h =>
    have hn := queueOps_nonadd s (.announceErr h) (fun _ _ e => by cases e) (fun _ _ e => by cases e)
    obtain ⟨w1, w2, w3⟩ := nonadd_ops _ hn s.q hg
    exact ⟨w1, w2, fun k hk => by
      rw [step_ctrl]; exact ctrl_kept s _ (fun _ _ e => by cases e) (fun _ _ e => by cases e) (fun _ e => by cases e) k (hm k (w3 k hk))⟩

theorem qinv_init : QInv SchedQueue.init := by
  refine ⟨good_init, ?_⟩
  intro h hq; simp [SchedQueue.init, Queued] at hq

theorem sched_runFrom (sched : List Action) : ∀ s, QInv s →
    sys.WFHist pre s.q (allOps true s sched) ∧ QInv (SchedQueue.runFrom true s sched) ∧
    (SchedQueue.runFrom true s sched).q = sys.runFrom s.q (allOps true s sched) := by
  induction sched with
  | nil => intro s hi; exact ⟨trivial, hi, rfl⟩
  | cons a as ih =>
    intro s hi
    obtain ⟨h1, h2⟩ := sched_step s a hi
    obtain ⟨i1, i2, i3⟩ := ih (SchedQueue.step true s a) h2
    refine ⟨?_, i2, ?_⟩
    · simp only [allOps]
      rw [wfhist_append]
      exact ⟨h1, by rw [← step_q]; exact i1⟩
    · simp only [SchedQueue.runFrom, List.foldl_cons, allOps] at i3 ⊢
      rw [i3, step_q]
      simp [Sys.runFrom, List.foldl_append]

/-- **C20 (5)** For EVERY schedule of scheduler events (requests, completions and their asynchronous
events in any order, removals, announce ticks with any saturation, announce results and failures) the
queue operations the scheduler performs form a history that respects the precondition of `Add` at every
`Add` — and the scheduler's queue is the queue model run on exactly that history. -/
theorem sched_add_precondition (sched : List Action) :
    sys.WFHist pre sys.init (allOps true SchedQueue.init sched) ∧
    (SchedQueue.run true sched).q = sys.run (allOps true SchedQueue.init sched) := by
  obtain ⟨a, _, c⟩ := sched_runFrom sched SchedQueue.init qinv_init
  exact ⟨a, c⟩

/-- **C20 (6)** Hence uniqueness holds for every scheduler history, with no hypothesis. -/
theorem sched_queue_nodup (sched : List Action) : GoodQ (SchedQueue.run true sched).q := by
  rw [(sched_add_precondition sched).2]
  exact queue_nodup _ (sched_add_precondition sched).1

/-- **C20 (7)** Only torrents that have a torrent control are in the queue (ready or pending). -/
theorem sched_queued_have_controls (sched : List Action) (h : Hash)
    (hq : Queued (SchedQueue.run true sched).q h) : ((SchedQueue.run true sched).ctrl h).isSome = true :=
  (sched_runFrom sched SchedQueue.init qinv_init).2.1.2 h hq

/-- **C20 (8)** After a removal the torrent is in neither structure, whatever happened before. -/
theorem sched_removed_not_queued (sched : List Action) (h : Hash) :
    ¬ Queued (SchedQueue.step true (SchedQueue.run true sched) (.remove h)).q h := by
  intro hq
  have hi : QInv (SchedQueue.step true (SchedQueue.run true sched) (.remove h)) :=
    (sched_step _ _ (sched_runFrom sched SchedQueue.init qinv_init).2.1).2
  have := hi.2 h hq
  simp [step_ctrl, bookkeeping, setCtrl] at this

/-- the scheduler as it was: a complete torrent removed before its completion event stays queued, and a
new request queues it twice -/
theorem not_sched_queue_nodup_original :
    ¬ ∀ sched, GoodQ (SchedQueue.run false sched).q := by
  intro h
  have := h [.request 0 false, .finish 0, .remove 0, .request 0 false]
  revert this; decide

theorem not_sched_removed_not_queued_original :
    Queued (SchedQueue.step false (SchedQueue.run false [.request 0 false, .finish 0]) (.remove 0)).q 0 := by
  unfold Queued; decide

/-
  "A torrent becomes ready again only after its in-flight announce finished", at scheduler level.
  At queue level "announce in flight" IS the pending set, and the clause is `ready_only_pending` +
  `queue_nodup`.  The scheduler, however, also starts announces that bypass the queue (newTorrentEvent and
  dispatcherCompleteEvent announce immediately) and the results of those call `Ready` like any other, so
  with `inflight` counting every announce request that was really sent the clause is FALSE for the code:
  a torrent is waiting in the ready list while an announce for it is in flight.
-/
def sched_ready_no_inflight_target (rep : Bool) : Prop :=
  ∀ sched h, h ∈ (SchedQueue.run rep sched).q.ready → (SchedQueue.run rep sched).inflight h = 0

/-- known finding `ready-while-announce-in-flight`: a single download request — the torrent is Added (ready)
and announced directly at the same time -/
theorem not_sched_ready_no_inflight : ¬ sched_ready_no_inflight_target true := by
  intro h
  have := h [.request 0 false] 0 (by decide)
  revert this; decide

/-- … and an announce result that belongs to a direct announce makes a torrent ready again while the
announce started by the tick is still in flight -/
theorem not_sched_ready_no_inflight_tick :
    let s := SchedQueue.run true [.request 0 false, .announceTick [], .announceResult 0]
    0 ∈ s.q.ready ∧ s.inflight 0 = 1 := by decide

/-- what does hold for every schedule (the strongest statement the code satisfies): with the queue's own
notion of "in flight" (the pending set) a torrent is never both waiting and in flight, and an announce
result only ever re-queues a torrent that is pending -/
theorem sched_ready_no_inflight_partial (sched : List Action) (h : Hash)
    (hr : h ∈ (SchedQueue.run true sched).q.ready) : h ∉ (SchedQueue.run true sched).q.pending := by
  have hg := sched_queue_nodup sched
  unfold GoodQ at hg
  intro hp
  exact (List.nodup_append.mp hg).2.2 h hr h hp rfl

/-
  FIFO at history level (not a restatement of `next`): along any history that respects Add's precondition,
  let `arrivals` be the torrents in the order in which they entered the ready list (by `Add`, or by a
  `Ready` that found them pending), with an ejected torrent's unserved arrival struck out, and `served` the
  outputs of `Next` in order.  Then at every point  arrivals = served ++ ready list:  `Next` always hands
  out the oldest arrival that has not been served, nothing is served that did not arrive, nothing is
  skipped, and the ready list is exactly the unserved arrivals in arrival order.
-/
structure Fifo where
  served : List Hash := []
  arrivals : List Hash := []
  deriving Repr, DecidableEq

/-- the arrival / service log of one operation, given the queue state before it -/
def fifoStep (q : AnnounceQueue.State) (f : Fifo) : Op → Fifo
  | .add h => { f with arrivals := f.arrivals ++ [h] }
  | .next => match output q .next with
    | some h => { f with served := f.served ++ [h] }
    | none => f
  | .ready h => if h ∈ q.pending then { f with arrivals := f.arrivals ++ [h] } else f
  | .eject h => { f with arrivals := f.served ++ (f.arrivals.drop f.served.length).erase h }

def fifoRun : AnnounceQueue.State → Fifo → List Op → AnnounceQueue.State × Fifo
  | q, f, [] => (q, f)
  | q, f, o :: os => fifoRun (AnnounceQueue.step q o) (fifoStep q f o) os

theorem fifo_step (q : AnnounceQueue.State) (f : Fifo) (o : Op) (hinv : f.arrivals = f.served ++ q.ready) :
    (fifoStep q f o).arrivals = (fifoStep q f o).served ++ (AnnounceQueue.step q o).ready := by
  cases o with
  | add h => simp [fifoStep, AnnounceQueue.step, add, hinv]
  | next =>
    simp only [fifoStep, output, AnnounceQueue.step, next]
    cases hr : q.ready with
    | nil => simp [hr, hinv]
    | cons a rest => simp [hr, hinv]
  | ready h =>
    simp only [fifoStep, AnnounceQueue.step, AnnounceQueue.ready]
    split <;> simp [hinv]
  | eject h =>
    simp [fifoStep, AnnounceQueue.step, eject, hinv]

/-- **C20 (9)** history-level FIFO: for every history, arrivals = served ++ ready. -/
theorem fifo_history (ops : List Op) :
    let r := fifoRun init {} ops
    r.2.arrivals = r.2.served ++ r.1.ready ∧ r.1 = sys.run ops := by
  have key : ∀ (ops : List Op) (q : AnnounceQueue.State) (f : Fifo), f.arrivals = f.served ++ q.ready →
      (fifoRun q f ops).2.arrivals = (fifoRun q f ops).2.served ++ (fifoRun q f ops).1.ready ∧
      (fifoRun q f ops).1 = sys.runFrom q ops := by
    intro ops
    induction ops with
    | nil => intro q f h; exact ⟨h, rfl⟩
    | cons o os ih =>
      intro q f h
      have := ih (AnnounceQueue.step q o) (fifoStep q f o) (fifo_step q f o h)
      have e : sys.step q o = AnnounceQueue.step q o := rfl
      simp only [fifoRun, Sys.runFrom, List.foldl_cons, e] at this ⊢
      exact this
  exact key ops init {} (by simp [init])

/-- consequence: a torrent is served only after everything that arrived before it (and was not ejected) has
been served — the k-th `Next` result is the k-th live arrival. -/
theorem fifo_served_is_prefix (ops : List Op) :
    (fifoRun init {} ops).2.served = (fifoRun init {} ops).2.arrivals.take (fifoRun init {} ops).2.served.length := by
  have := (fifo_history ops).1
  rw [this]; simp

example : (fifoRun init {} [.add 1, .add 2, .next, .add 3, .ready 1, .next, .eject 3, .next]).2
    = { served := [1, 2, 1], arrivals := [1, 2, 1] } := by decide

-- non-vacuity: the same schedule on the repaired scheduler, and a tick with a saturated torrent
example : (SchedQueue.run true [.request 0 false, .finish 0, .remove 0, .request 0 false]).q.ready = [0] := by decide
example : allOps true SchedQueue.init [.request 0 false, .finish 0, .remove 0, .request 0 false, .notice 0 0]
    = [.add 0, .eject 0, .add 0] := by decide
example : allOps true SchedQueue.init [.request 0 false, .request 1 false, .announceTick [0], .announceResult 1]
    = [.add 0, .add 1, .next, .next, .ready 0, .ready 1] := by decide
example : (SchedQueue.run true [.request 0 false, .request 1 false, .announceTick [0], .announceResult 1]).q.ready = [0, 1] := by decide

end KrakenModel.Spec.C20
