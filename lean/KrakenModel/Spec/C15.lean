import KrakenModel.Util.LTS
import KrakenModel.Model.PieceRequest
import KrakenModel.Proof.C15
import KrakenModel.Proof.C15History
/-
  C15  Piece request bookkeeping respects pipeline limits and peer removal.
  Statements are about `Model.PieceRequest`, which the correspondence check ties to
  lib/torrent/scheduler/dispatch/piecerequest.Manager (public API, `clock.Mock`).
  Histories range over every sequence of ReservePieces (any candidate set, counters, endgame flag
  and any selection the policy contract admits), MarkUnsent, MarkInvalid, Clear, ClearPeer and
  clock advances.  `ClearPeer` is the repaired one (fix commit in /repo); the behaviour before the
  repair is `clearPeerOld`, refuted in `not_clear_peer_old`.
-/
namespace KrakenModel.Spec.C15
open KrakenModel KrakenModel.PieceRequest KrakenModel.Proof.C15

def sys (cfg : Config) : Sys State Op := { init := {}, step := step cfg }

/-- every `ReservePieces` call passes the peer's own kind (`isPeerOrigin` is a fixed attribute of a
connection in the dispatcher) -/
def pre (originOf : Peer → Bool) (_ : State) : Op → Prop
  | .reserve p origin _ _ _ _ => origin = originOf p
  | _ => True

instance (originOf : Peer → Bool) (s : State) (o : Op) : Decidable (pre originOf s o) := by
  cases o <;> simp only [pre] <;> exact inferInstance

/-- unexpired pending requests to peer `p`, over all pieces -/
def liveOfPeer (cfg : Config) (s : State) (p : Peer) : Nat := cnt cfg (fun _ q => q == p) s
/-- unexpired pending requests for piece `i`, over all peers -/
def liveOfPiece (cfg : Config) (s : State) (i : Piece) : Nat := cnt cfg (fun j _ => j == i) s
/-- unexpired pending requests for piece `i` to peer `p` -/
def liveOfPair (cfg : Config) (s : State) (i : Piece) (p : Peer) : Nat := cnt cfg (fun j q => j == i && q == p) s

def WithinPipeline (cfg : Config) (originOf : Peer → Bool) (s : State) : Prop :=
  LiveIndexed cfg s ∧ ∀ p, liveOfPeer cfg s p ≤ (limitOf cfg (originOf p)).toNat

/-- effect of the non-reserving operations on any live count: it can only shrink -/
theorem cnt_step_le (cfg : Config) (f : Piece → Peer → Bool) (s : State) (o : Op)
    (ho : ∀ p origin cands prio dup chosen, o ≠ .reserve p origin cands prio dup chosen) :
    cnt cfg f (step cfg s o) ≤ cnt cfg f s := by
  cases o with
  | reserve p origin cands prio dup chosen => exact absurd rfl (ho p origin cands prio dup chosen)
  | markUnsent p i =>
    simp only [step, markStatus, cnt]
    apply len_filter_map_le
    intro r _
    split <;> simp [live]
  | markInvalid p i =>
    simp only [step, markStatus, cnt]
    apply len_filter_map_le
    intro r _
    split <;> simp [live]
  | clear i =>
    simp only [step, clear, cnt]
    rw [List.filter_filter]
    apply len_filter_mono
    intro a _ h
    simp only [Bool.and_eq_true] at h
    simp [h.1.1, h.1.2]
  | clearPeer p =>
    simp only [step, clearPeer, cnt]
    rw [List.filter_filter]
    apply len_filter_mono
    intro a _ h
    simp only [Bool.and_eq_true] at h
    simp [h.1.1, h.1.2]
  | advance d =>
    simp only [step, cnt]
    apply len_filter_mono
    intro a _ h
    simp only [Bool.and_eq_true] at h ⊢
    exact ⟨h.1, live_mono cfg s.now d a h.2⟩

theorem liveIndexed_step_other (cfg : Config) (s : State) (o : Op) (hj : LiveIndexed cfg s)
    (ho : ∀ p origin cands prio dup chosen, o ≠ .reserve p origin cands prio dup chosen) :
    LiveIndexed cfg (step cfg s o) := by
  cases o with
  | reserve p origin cands prio dup chosen => exact absurd rfl (ho p origin cands prio dup chosen)
  | markUnsent p i =>
    intro r hr hl
    simp only [step, markStatus, List.mem_map] at hr hl
    obtain ⟨r0, hr0, rfl⟩ := hr
    split at hl
    · simp [live] at hl
    · rename_i hk; simp only [hk]; exact hj r0 hr0 hl
  | markInvalid p i =>
    intro r hr hl
    simp only [step, markStatus, List.mem_map] at hr hl
    obtain ⟨r0, hr0, rfl⟩ := hr
    split at hl
    · simp [live] at hl
    · rename_i hk; simp only [hk]; exact hj r0 hr0 hl
  | clear i =>
    intro r hr hl
    simp only [step, clear, List.mem_filter] at hr hl
    exact hj r hr.1 hl
  | clearPeer p =>
    intro r hr hl
    simp only [step, clearPeer, List.mem_filter] at hr hl
    exact hj r hr.1 hl
  | advance d =>
    intro r hr hl
    simp only [step] at hr hl
    exact hj r hr (live_mono cfg s.now d r hl)

/-- what an accepted reservation looks like -/
theorem reserve_cases (cfg : Config) (s : State) (p : Peer) (origin : Bool) (cands : List Piece) (prio : List Int)
    (dup : Bool) (chosen : List Piece) :
    (reserve cfg s p origin cands prio dup chosen).1 = s ∨
    ((reserve cfg s p origin cands prio dup chosen).1 = addAll s p chosen ∧
      0 < quota cfg s p origin ∧ chosen.Nodup ∧ (chosen.length : Int) ≤ quota cfg s p origin ∧
      ∀ i ∈ chosen, i ∈ cands ∧ validRequest cfg s p i dup = true) := by
  unfold reserve
  simp only
  split
  · exact .inl rfl
  · rename_i hq
    split
    · rename_i ha
      have hs := admissible_spec ha
      refine .inr ⟨rfl, by omega, hs.1, by omega, fun i hi => mem_validCands (hs.2.1 i hi)⟩
    · exact .inl rfl

theorem step_pipeline (cfg : Config) (originOf : Peer → Bool) (s : State) (o : Op)
    (hw : WithinPipeline cfg originOf s) (hp : pre originOf s o) : WithinPipeline cfg originOf (step cfg s o) := by
  by_cases ho : ∀ p origin cands prio dup chosen, o ≠ .reserve p origin cands prio dup chosen
  · exact ⟨liveIndexed_step_other cfg s o hw.1 ho,
      fun p => Nat.le_trans (cnt_step_le cfg _ s o ho) (hw.2 p)⟩
  · have : ∃ p origin cands prio dup chosen, o = .reserve p origin cands prio dup chosen := by
      cases o <;> simp at ho ⊢
    obtain ⟨p, origin, cands, prio, dup, chosen, rfl⟩ := this
    simp only [pre] at hp
    simp only [step]
    rcases reserve_cases cfg s p origin cands prio dup chosen with h | ⟨h, hq, hnd, hlen, hval⟩
    · rw [h]; exact hw
    · rw [h]
      refine ⟨liveIndexed_addAll chosen hnd s hw.1 (fun i hi => noLive_of_valid (hval i hi).2), ?_⟩
      intro p'
      have hc := cnt_addAll cfg (fun _ q => q == p') p chosen s
      have hold := hw.2 p'
      by_cases hpp : p = p'
      · subst hpp
        -- the peer's live requests are all indexed, so the quota was computed from the true count
        have heq : liveOfPeer cfg s p = indexedLive cfg s p := by
          simp only [liveOfPeer, cnt, indexedLive]
          congr 1
          apply filter_eq_of_mem
          intro r hr
          cases hl : live cfg s.now r with
          | false => simp
          | true => simp [hw.1 r hr hl]
        have hfl : (chosen.filter fun _ => p == p).length = chosen.length := by simp
        simp only [liveOfPeer] at hold heq ⊢
        rw [hfl] at hc
        simp only [quota, hp] at hlen hq
        omega
      · have hfl : (chosen.filter fun _ => p == p').length = 0 := by simp [hpp]
        simp only [liveOfPeer] at hold ⊢
        omega

/-- **C15 (1)** For every history (any selections the policy contract admits), a peer never has
more unexpired pending requests than its pipeline limit (agent or origin limit, by its kind). -/
theorem pipeline_limit (cfg : Config) (originOf : Peer → Bool) (ops : List Op)
    (hw : (sys cfg).WFHist (pre originOf) (sys cfg).init ops) (p : Peer) :
    liveOfPeer cfg ((sys cfg).run ops) p ≤ (limitOf cfg (originOf p)).toNat :=
  (Sys.runFrom_inv_pre (sys cfg) (pre originOf) (WithinPipeline cfg originOf)
    (fun s a h hp => step_pipeline cfg originOf s a h hp) ops (sys cfg).init
    ⟨by intro r hr; simp [sys] at hr, by intro p; simp [liveOfPeer, cnt, sys]⟩ hw).2 p

/-- **C15 (2a)** A reservation outside endgame only takes pieces without any unexpired pending
request, and a reservation in endgame only pieces the same peer has no unexpired request for. -/
theorem reserve_respects_outstanding (cfg : Config) (s : State) (p : Peer) (origin : Bool) (cands : List Piece)
    (prio : List Int) (dup : Bool) (chosen : List Piece)
    (hacc : (reserve cfg s p origin cands prio dup chosen).2 = .pieces chosen) (i : Piece) (hi : i ∈ chosen) :
    liveOfPair cfg s i p = 0 ∧ (dup = false → liveOfPiece cfg s i = 0) := by
  have hval : validRequest cfg s p i dup = true := by
    unfold reserve at hacc
    simp only at hacc
    split at hacc
    · simp at hacc; subst hacc; cases hi
    · split at hacc
      · rename_i ha
        exact (mem_validCands ((admissible_spec ha).2.1 i hi)).2
      · cases hacc
  constructor
  · simp only [liveOfPair, cnt, List.length_eq_zero_iff, List.filter_eq_nil_iff]
    intro r hr
    have := noLive_of_valid hval r hr
    simp only [Bool.and_eq_true, beq_iff_eq, not_and]
    intro ⟨h1, h2⟩
    simp [this h2 h1]
  · intro hd
    subst hd
    simp only [liveOfPiece, cnt, List.length_eq_zero_iff, List.filter_eq_nil_iff]
    intro r hr
    have := noLiveAny_of_valid hval r hr
    simp only [Bool.and_eq_true, beq_iff_eq, not_and]
    intro h1
    simp [this h1]

def noEndgame : Op → Prop
  | .reserve _ _ _ _ dup _ => dup = false
  | _ => True

theorem step_pair (cfg : Config) (s : State) (o : Op) (h : ∀ i p, liveOfPair cfg s i p ≤ 1) :
    ∀ i p, liveOfPair cfg (step cfg s o) i p ≤ 1 := by
  intro i' p'
  by_cases ho : ∀ p origin cands prio dup chosen, o ≠ .reserve p origin cands prio dup chosen
  · exact Nat.le_trans (cnt_step_le cfg _ s o ho) (h i' p')
  · have : ∃ p origin cands prio dup chosen, o = .reserve p origin cands prio dup chosen := by
      cases o <;> simp at ho ⊢
    obtain ⟨p, origin, cands, prio, dup, chosen, rfl⟩ := this
    simp only [step]
    rcases reserve_cases cfg s p origin cands prio dup chosen with hr | ⟨hr, _, hnd, _, hval⟩
    · rw [hr]; exact h i' p'
    · rw [hr]
      have hc := cnt_addAll cfg (fun j q => j == i' && q == p') p chosen s
      simp only [liveOfPair] at h ⊢
      by_cases hpp : p = p'
      · subst hpp
        have hfl : (chosen.filter fun i => i == i' && p == p) = chosen.filter (· == i') := by
          apply List.filter_congr; intro x _; simp
        rw [hfl] at hc
        have h1 : (chosen.filter (· == i')).length ≤ 1 := len_filter_eq_nodup chosen hnd i'
        by_cases hm : i' ∈ chosen
        · have h0 : cnt cfg (fun j q => j == i' && q == p) s = 0 := by
            simp only [cnt, List.length_eq_zero_iff, List.filter_eq_nil_iff]
            intro r hr
            have := noLive_of_valid (hval i' hm).2 r hr
            simp only [Bool.and_eq_true, beq_iff_eq, not_and]
            intro ⟨h1, h2⟩
            simp [this h2 h1]
          omega
        · have : chosen.filter (· == i') = [] := by
            rw [List.filter_eq_nil_iff]; intro x hx hxe
            have : x = i' := by simpa using hxe
            exact hm (this ▸ hx)
          rw [this] at hc
          have := h i' p
          simp at hc; omega
      · have hfl : (chosen.filter fun i => i == i' && p == p') = [] := by
          rw [List.filter_eq_nil_iff]; intro x _; simp [hpp]
        rw [hfl] at hc
        have := h i' p'
        simp at hc; omega

/-- **C15 (2b)** For every history, no piece ever has two unexpired pending requests to the same
peer (endgame or not) … -/
theorem no_duplicate_per_peer (cfg : Config) (ops : List Op) (i : Piece) (p : Peer) :
    liveOfPair cfg ((sys cfg).run ops) i p ≤ 1 :=
  Sys.run_inv (sys cfg) (fun s => ∀ i p, liveOfPair cfg s i p ≤ 1)
    (by intro i p; simp [liveOfPair, cnt, sys]) (fun s a h => step_pair cfg s a h) ops i p

theorem step_piece (cfg : Config) (s : State) (o : Op) (hne : noEndgame o) (h : ∀ i, liveOfPiece cfg s i ≤ 1) :
    ∀ i, liveOfPiece cfg (step cfg s o) i ≤ 1 := by
  intro i'
  by_cases ho : ∀ p origin cands prio dup chosen, o ≠ .reserve p origin cands prio dup chosen
  · exact Nat.le_trans (cnt_step_le cfg _ s o ho) (h i')
  · have : ∃ p origin cands prio dup chosen, o = .reserve p origin cands prio dup chosen := by
      cases o <;> simp at ho ⊢
    obtain ⟨p, origin, cands, prio, dup, chosen, rfl⟩ := this
    simp only [noEndgame] at hne
    subst hne
    simp only [step]
    rcases reserve_cases cfg s p origin cands prio false chosen with hr | ⟨hr, _, hnd, _, hval⟩
    · rw [hr]; exact h i'
    · rw [hr]
      have hc := cnt_addAll cfg (fun j _ => j == i') p chosen s
      simp only [liveOfPiece] at h ⊢
      have h1 : (chosen.filter (· == i')).length ≤ 1 := len_filter_eq_nodup chosen hnd i'
      by_cases hm : i' ∈ chosen
      · have h0 : cnt cfg (fun j _ => j == i') s = 0 := by
          simp only [cnt, List.length_eq_zero_iff, List.filter_eq_nil_iff]
          intro r hr
          have := noLiveAny_of_valid (hval i' hm).2 r hr
          simp only [Bool.and_eq_true, beq_iff_eq, not_and]
          intro h1
          simp [this h1]
        omega
      · have : chosen.filter (· == i') = [] := by
          rw [List.filter_eq_nil_iff]; intro x hx hxe
          have : x = i' := by simpa using hxe
          exact hm (this ▸ hx)
        rw [this] at hc
        have := h i'
        simp at hc; omega

/-- … and for every history without endgame reservations, no piece has two unexpired pending
requests at all. -/
theorem no_duplicate_outside_endgame (cfg : Config) (ops : List Op) (hne : ∀ o ∈ ops, noEndgame o) (i : Piece) :
    liveOfPiece cfg ((sys cfg).run ops) i ≤ 1 := by
  have : ∀ (ops : List Op) (s : State), (∀ o ∈ ops, noEndgame o) → (∀ i, liveOfPiece cfg s i ≤ 1) →
      ∀ i, liveOfPiece cfg ((sys cfg).runFrom s ops) i ≤ 1 := by
    intro ops
    induction ops with
    | nil => intro s _ h; simpa [Sys.runFrom] using h
    | cons o os ih =>
      intro s hno h
      simp only [Sys.runFrom, List.foldl_cons]
      exact ih _ (fun o ho => hno o (List.mem_cons_of_mem _ ho)) (step_piece cfg s o (hno o List.mem_cons_self) h)
  exact this ops (sys cfg).init hne (by intro i; simp [liveOfPiece, cnt, sys]) i

/-- endgame reservations of this history never include piece `i` -/
def noEndgameFor (i : Piece) : Op → Prop
  | .reserve _ _ _ _ dup chosen => dup = true → i ∉ chosen
  | _ => True

/-- **C15 (2c)** Per piece: for every history in which no endgame reservation took piece `i`
(other pieces may have been reserved in endgame at any time), piece `i` never has two unexpired
pending requests. -/
theorem no_duplicate_for_piece (cfg : Config) (ops : List Op) (i : Piece) (hne : ∀ o ∈ ops, noEndgameFor i o) :
    liveOfPiece cfg ((sys cfg).run ops) i ≤ 1 := by
  have hstep : ∀ (s : State) (o : Op), noEndgameFor i o → liveOfPiece cfg s i ≤ 1 → liveOfPiece cfg (step cfg s o) i ≤ 1 := by
    intro s o hno h
    by_cases ho : ∀ p origin cands prio dup chosen, o ≠ .reserve p origin cands prio dup chosen
    · exact Nat.le_trans (cnt_step_le cfg _ s o ho) h
    · have : ∃ p origin cands prio dup chosen, o = .reserve p origin cands prio dup chosen := by
        cases o <;> simp at ho ⊢
      obtain ⟨p, origin, cands, prio, dup, chosen, rfl⟩ := this
      simp only [noEndgameFor] at hno
      simp only [step]
      rcases reserve_cases cfg s p origin cands prio dup chosen with hr | ⟨hr, _, hnd, _, hval⟩
      · rw [hr]; exact h
      · rw [hr]
        have hc := cnt_addAll cfg (fun j _ => j == i) p chosen s
        simp only [liveOfPiece] at h ⊢
        have h1 : (chosen.filter (· == i)).length ≤ 1 := len_filter_eq_nodup chosen hnd i
        by_cases hm : i ∈ chosen
        · have hd : dup = false := by
            cases dup with
            | false => rfl
            | true => exact absurd hm (hno rfl)
          subst hd
          have h0 : cnt cfg (fun j _ => j == i) s = 0 := by
            simp only [cnt, List.length_eq_zero_iff, List.filter_eq_nil_iff]
            intro r hr
            have := noLiveAny_of_valid (hval i hm).2 r hr
            simp only [Bool.and_eq_true, beq_iff_eq, not_and]
            intro h1
            simp [this h1]
          omega
        · have : chosen.filter (· == i) = [] := by
            rw [List.filter_eq_nil_iff]; intro x hx hxe
            have : x = i := by simpa using hxe
            exact hm (this ▸ hx)
          rw [this] at hc
          simp at hc; omega
  have : ∀ (ops : List Op) (s : State), (∀ o ∈ ops, noEndgameFor i o) → liveOfPiece cfg s i ≤ 1 →
      liveOfPiece cfg ((sys cfg).runFrom s ops) i ≤ 1 := by
    intro ops
    induction ops with
    | nil => intro s _ h; simpa [Sys.runFrom] using h
    | cons o os ih =>
      intro s hno h
      simp only [Sys.runFrom, List.foldl_cons]
      exact ih _ (fun o ho => hno o (List.mem_cons_of_mem _ ho)) (hstep s o (hno o List.mem_cons_self) h)
  exact this ops (sys cfg).init hne (by simp [liveOfPiece, cnt, sys])

/-- what a report entry says about its request -/
theorem report_some {cfg : Config} {now : Int} {r : Req} {x : Piece × Peer × Status} (h : report cfg now r = some x) :
    x.1 = r.piece ∧ x.2.1 = r.peer ∧
    ((x.2.2 = .expired ∧ r.status = .pending ∧ expired cfg now r = true) ∨ (x.2.2 = r.status ∧ r.status ≠ .pending)) := by
  unfold report at h
  by_cases h1 : r.status = .pending
  · by_cases h2 : expired cfg now r = true
    · simp [h1, h2] at h; subst h; simp [h1, h2]
    · simp [h1, h2] at h
  · simp [h1] at h; subst h; simp [h1]

/-- **C15 (3)** After `ClearPeer(p)` no request of `p` is left — none is reported pending or failed —
and this stays so in every continuation until `p` is asked for pieces again. -/
theorem clear_peer_removes (cfg : Config) (s : State) (p : Peer) (rest : List Op)
    (hnr : ∀ o ∈ rest, ∀ origin cands prio dup chosen, o ≠ .reserve p origin cands prio dup chosen) :
    let s' := (sys cfg).runFrom (step cfg s (.clearPeer p)) rest
    (∀ r ∈ s'.reqs, r.peer ≠ p) ∧ pendingPieces s' p = [] ∧ ∀ x ∈ failed cfg s', x.2.1 ≠ p := by
  intro s'
  have hnone : ∀ r ∈ s'.reqs, r.peer ≠ p := by
    have : ∀ (ops : List Op) (s1 : State),
        (∀ o ∈ ops, ∀ origin cands prio dup chosen, o ≠ .reserve p origin cands prio dup chosen) →
        (∀ r ∈ s1.reqs, r.peer ≠ p) → ∀ r ∈ ((sys cfg).runFrom s1 ops).reqs, r.peer ≠ p := by
      intro ops
      induction ops with
      | nil => intro s1 _ h; simpa [Sys.runFrom] using h
      | cons o os ih =>
        intro s1 hno h
        simp only [Sys.runFrom, List.foldl_cons]
        apply ih _ (fun o ho => hno o (List.mem_cons_of_mem _ ho))
        show ∀ r ∈ (step cfg s1 o).reqs, r.peer ≠ p
        cases o with
        | reserve q origin cands prio dup chosen =>
          have hq : q ≠ p := fun e => hno _ List.mem_cons_self origin cands prio dup chosen (by rw [e])
          simp only [step]
          rcases reserve_cases cfg s1 q origin cands prio dup chosen with hr | ⟨hr, _⟩
          · rw [hr]; exact h
          · rw [hr]
            have : ∀ (ch : List Piece) (s2 : State), (∀ r ∈ s2.reqs, r.peer ≠ p) → ∀ r ∈ (addAll s2 q ch).reqs, r.peer ≠ p := by
              intro ch
              induction ch with
              | nil => intro s2 h2; simpa [addAll] using h2
              | cons i is ih2 =>
                intro s2 h2
                simp only [addAll, List.foldl_cons]
                apply ih2
                intro r hr
                rw [(addReq_reqs s2 q i).1] at hr
                rcases List.mem_append.mp hr with hr | hr
                · obtain ⟨r0, hr0, rfl⟩ := List.mem_map.mp hr
                  rw [(unindex_fields q i r0).2.1]; exact h2 r0 hr0
                · simp at hr; subst hr; exact hq
            exact this chosen s1 h
        | markUnsent q i =>
          intro r hr
          simp only [step, markStatus, List.mem_map] at hr
          obtain ⟨r0, hr0, rfl⟩ := hr
          split <;> exact h r0 hr0
        | markInvalid q i =>
          intro r hr
          simp only [step, markStatus, List.mem_map] at hr
          obtain ⟨r0, hr0, rfl⟩ := hr
          split <;> exact h r0 hr0
        | clear i => intro r hr; simp only [step, clear, List.mem_filter] at hr; exact h r hr.1
        | clearPeer q => intro r hr; simp only [step, clearPeer, List.mem_filter] at hr; exact h r hr.1
        | advance d => intro r hr; exact h r hr
    apply this rest _ hnr
    intro r hr
    simp only [step, clearPeer, List.mem_filter] at hr
    simpa using hr.2
  refine ⟨hnone, ?_, ?_⟩
  · have : (s'.reqs.filter fun r => r.indexed && r.peer == p && r.status == .pending) = [] := by
      rw [List.filter_eq_nil_iff]
      intro r hr
      have := hnone r hr
      simp [this]
    simp [pendingPieces, this]
  · intro x hx
    simp only [failed, List.mem_filterMap] at hx
    obtain ⟨r, hr, hrep⟩ := hx
    rw [(report_some hrep).2.1]; exact hnone r hr

/-- **C15 (4)** `Clear(i)` removes every request for piece `i` from both indexes. -/
theorem clear_removes (cfg : Config) (s : State) (i : Piece) :
    (∀ r ∈ (clear s i).reqs, r.piece ≠ i) ∧ (∀ p, i ∉ pendingPieces (clear s i) p) ∧
    ∀ x ∈ failed cfg (clear s i), x.1 ≠ i := by
  have hnone : ∀ r ∈ (clear s i).reqs, r.piece ≠ i := by
    intro r hr; simp only [clear, List.mem_filter] at hr; simpa using hr.2
  refine ⟨hnone, ?_, ?_⟩
  · intro p hm
    have hsub : ∀ (l : List Nat) (x : Nat), x ∈ l.foldr insertSorted [] → x ∈ l := by
      intro l
      induction l with
      | nil => intro x hx; simpa using hx
      | cons a l ih =>
        intro x hx
        simp only [List.foldr_cons] at hx
        have hins : ∀ (ys : List Nat), x ∈ insertSorted a ys → x = a ∨ x ∈ ys := by
          intro ys
          induction ys with
          | nil => intro h; simpa [insertSorted] using h
          | cons y ys ihy =>
            intro h
            simp only [insertSorted] at h
            split at h
            · simpa using h
            · rcases List.mem_cons.mp h with h | h
              · exact .inr (by simp [h])
              · rcases ihy h with h | h
                · exact .inl h
                · exact .inr (List.mem_cons_of_mem _ h)
        rcases hins _ hx with h | h
        · simp [h]
        · exact List.mem_cons_of_mem _ (ih x h)
    have := hsub _ _ hm
    simp only [List.mem_map, List.mem_filter] at this
    obtain ⟨r, ⟨hr, _⟩, hri⟩ := this
    exact hnone r hr hri
  · intro x hx
    simp only [failed, List.mem_filterMap] at hx
    obtain ⟨r, hr, hrep⟩ := hx
    rw [(report_some hrep).1]; exact hnone r hr

def StoredOk (s : State) : Prop := ∀ r ∈ s.reqs, r.status ≠ .expired

theorem stored_ok (cfg : Config) (ops : List Op) : StoredOk ((sys cfg).run ops) := by
  apply Sys.run_inv (sys cfg) StoredOk (by intro r hr; simp [sys] at hr)
  intro s o h
  cases o with
  | reserve q origin cands prio dup chosen =>
    show StoredOk (step cfg s _)
    simp only [step]
    rcases reserve_cases cfg s q origin cands prio dup chosen with hr | ⟨hr, _⟩
    · rw [hr]; exact h
    · rw [hr]
      have : ∀ (ch : List Piece) (s2 : State), StoredOk s2 → StoredOk (addAll s2 q ch) := by
        intro ch
        induction ch with
        | nil => intro s2 h2; simpa [addAll] using h2
        | cons i is ih2 =>
          intro s2 h2
          simp only [addAll, List.foldl_cons]
          apply ih2
          intro r hr
          rw [(addReq_reqs s2 q i).1] at hr
          rcases List.mem_append.mp hr with hr | hr
          · obtain ⟨r0, hr0, rfl⟩ := List.mem_map.mp hr
            rw [(unindex_fields q i r0).2.2.1]; exact h2 r0 hr0
          · simp at hr; subst hr; simp
      exact this chosen s h
  | markUnsent q i =>
    intro r hr
    simp only [sys, step, markStatus, List.mem_map] at hr
    obtain ⟨r0, hr0, rfl⟩ := hr
    split
    · simp
    · exact h r0 hr0
  | markInvalid q i =>
    intro r hr
    simp only [sys, step, markStatus, List.mem_map] at hr
    obtain ⟨r0, hr0, rfl⟩ := hr
    split
    · simp
    · exact h r0 hr0
  | clear i => intro r hr; simp only [sys, step, clear, List.mem_filter] at hr; exact h r hr.1
  | clearPeer q => intro r hr; simp only [sys, step, clearPeer, List.mem_filter] at hr; exact h r hr.1
  | advance d => intro r hr; exact h r hr

/-- **C15 (5)** For every history, `GetFailedRequests` lists exactly the requests still held that
expired (pending and past the timeout), were marked unsent, or were marked invalid — each with that
status, one entry per request — and no unexpired pending request. -/
theorem failed_exact (cfg : Config) (ops : List Op) :
    let s := (sys cfg).run ops
    failed cfg s = s.reqs.filterMap (fun r =>
      if r.status = .pending then (if expired cfg s.now r then some (r.piece, r.peer, .expired) else none)
      else some (r.piece, r.peer, r.status)) ∧
    ∀ x ∈ failed cfg s, x.2.2 = .expired ∨ x.2.2 = .unsent ∨ x.2.2 = .invalid := by
  intro s
  have hst := stored_ok cfg ops
  constructor
  · simp only [failed]
    congr 1
    funext r
    simp only [report]
    by_cases hp : r.status = .pending
    · by_cases he : expired cfg s.now r = true <;> simp [hp, he]
    · simp [hp]
  · intro x hx
    simp only [failed, List.mem_filterMap] at hx
    obtain ⟨r, hr, hrep⟩ := hx
    have hne := hst r hr
    rcases (report_some hrep).2.2 with ⟨h, _⟩ | ⟨h, hnp⟩
    · exact .inl h
    · rw [h]
      cases hs : r.status with
      | pending => exact absurd hs hnp
      | expired => exact absurd hs hne
      | unsent => exact .inr (.inl rfl)
      | invalid => exact .inr (.inr rfl)

/-- what `GetFailedRequests` says about a held request at time `now` -/
def reportP (cfg : Config) (now : Int) (x : PReq) : Option (Piece × Peer × Status) :=
  if x.2.2.2 = .pending then (if now > x.2.2.1 + cfg.timeout then some (x.1, x.2.1, .expired) else none)
  else some (x.1, x.2.1, x.2.2.2)

/-- **C15 (5)** History-level form of "the failed-request report lists exactly the requests that
expired, were not sent, or got an invalid reply": for every history, `GetFailedRequests` is — in
reservation order, one entry per request — exactly the list obtained from the history alone:
every piece a `ReservePieces` call reserved (`accepted`), unless a later `Clear` of that piece or
`ClearPeer` of that peer came after it (`cleared`), reported with the status of the last later
`MarkUnsent`/`MarkInvalid` for that peer and piece (`finalMark`), or as expired when none came and
the request's timeout has passed, and not at all while it is pending and unexpired. -/
theorem failed_is_history (cfg : Config) (ops : List Op) :
    failed cfg ((sys cfg).run ops) =
      (heldFrom cfg (sys cfg).init ops).filterMap (reportP cfg ((sys cfg).run ops).now) := by
  have h := runFrom_proj cfg ops (sys cfg).init
  have hrep : ∀ (now : Int) (r : Req), report cfg now r = reportP cfg now (proj r) := by
    intro now r
    simp only [report, reportP, proj, expired]
    by_cases hp : r.status = .pending
    · by_cases he : now > r.sentAt + cfg.timeout <;> simp [hp, he]
    · simp [hp]
  have hf : failed cfg ((sys cfg).run ops) =
      (((sys cfg).run ops).reqs.map proj).filterMap (reportP cfg ((sys cfg).run ops).now) := by
    simp only [failed, List.filterMap_map]
    apply filterMap_congr'
    intro r _
    exact hrep _ r
  rw [hf]
  have : ((sys cfg).run ops).reqs.map proj = heldFrom cfg (sys cfg).init ops := by
    have h' : (sys cfg).run ops = ops.foldl (step cfg) (sys cfg).init := rfl
    rw [h', h]
    simp [sys]
  rw [this]

/-- the clock at the end of a history is the sum of its advances -/
theorem now_is_advances (cfg : Config) (ops : List Op) :
    ((sys cfg).run ops).now = (ops.map fun o => match o with | .advance d => (d : Int) | _ => 0).sum := by
  have : ∀ (ops : List Op) (s : State),
      ((sys cfg).runFrom s ops).now = s.now + (ops.map fun o => match o with | .advance d => (d : Int) | _ => 0).sum := by
    intro ops
    induction ops with
    | nil => intro s; simp [Sys.runFrom]
    | cons o os ih =>
      intro s
      simp only [Sys.runFrom, List.foldl_cons, List.map_cons, List.sum_cons]
      have hn : (step cfg s o).now = s.now + (match o with | .advance d => (d : Int) | _ => 0) := by
        cases o with
        | reserve p origin cands prio dup chosen =>
          simp only [step]
          rcases reserve_cases cfg s p origin cands prio dup chosen with hr | ⟨hr, _⟩
          · rw [hr]; simp
          · rw [hr, addAll_now]; simp
        | markUnsent p i => simp [step, markStatus]
        | markInvalid p i => simp [step, markStatus]
        | clear i => simp [step, clear]
        | clearPeer p => simp [step, clearPeer]
        | advance d => simp [step]
      have := ih (step cfg s o)
      simp only [Sys.runFrom] at this
      show (List.foldl (step cfg) (step cfg s o) os).now = _
      have h2 : (List.foldl (sys cfg).step (step cfg s o) os).now = (List.foldl (step cfg) (step cfg s o) os).now := rfl
      rw [← h2, this, hn]; omega
  have := this ops (sys cfg).init
  simpa [Sys.run, Sys.runFrom, sys] using this

/-- marking reaches every held request of that peer and piece (also older duplicates) -/
theorem mark_reported (cfg : Config) (s : State) (p : Peer) (i : Piece) (r : Req) (hr : r ∈ s.reqs)
    (hp : r.peer = p) (hi : r.piece = i) :
    (i, p, Status.unsent) ∈ failed cfg (step cfg s (.markUnsent p i)) ∧
    (i, p, Status.invalid) ∈ failed cfg (step cfg s (.markInvalid p i)) := by
  constructor <;>
  · simp only [failed, step, markStatus, List.mem_filterMap, List.mem_map]
    refine ⟨_, ⟨r, hr, rfl⟩, ?_⟩
    simp [hp, hi, report]

/-- The behaviour before the repair: re-reserving a piece for the same peer after its request
expired leaves two requests of the peer for that piece, `ClearPeer` removed only one, and the
removed peer's request is reported failed later. -/
def witnessCfg : Config := ⟨.default, 5, 1, 1⟩
def witnessOps : List Op :=
  [.reserve 0 false [0] [0] false [0], .advance 6, .reserve 0 false [0] [0] false [0]]

theorem not_clear_peer_old :
    ¬ (∀ x ∈ failed witnessCfg ({ clearPeerOld ((sys witnessCfg).run witnessOps) 0 with now := 12 }), x.2.1 ≠ 0) := by
  decide

-- non-vacuity
example : heldFrom witnessCfg (sys witnessCfg).init (witnessOps ++ [.markUnsent 0 0, .reserve 1 false [0, 1] [0, 0] false [1], .clear 1]) =
    [(0, 0, 0, .unsent), (0, 0, 6, .unsent)] := by decide
example : (sys witnessCfg).WFHist (pre fun _ => false) (sys witnessCfg).init witnessOps := by decide
example : ((sys witnessCfg).run witnessOps).reqs.length = 2 := by decide
example : failed witnessCfg ((sys witnessCfg).run witnessOps) = [(0, 0, .expired)] := by decide
example : (clearPeer ((sys witnessCfg).run witnessOps) 0).reqs = [] := by decide
example : liveOfPeer witnessCfg ((sys witnessCfg).run witnessOps) 0 = 1 := by decide
example : (reserve ⟨.rarestFirst, 5, 2, 2⟩ {} 1 false [0, 1, 2] [3, 1, 2] false [1, 2]).2 = .pieces [1, 2] := by decide
example : (reserve ⟨.rarestFirst, 5, 2, 2⟩ {} 1 false [0, 1, 2] [3, 1, 2] false [0, 1]).2 = .inadmissible := by decide
example : liveOfPiece witnessCfg ((sys witnessCfg).run
    [.reserve 0 false [0] [0] false [0], .reserve 1 false [0] [0] true [0]]) 0 = 2 := by decide

end KrakenModel.Spec.C15
