import KrakenModel.Model.NamePath
import KrakenModel.Proof.C36Path
import KrakenModel.Proof.C36Re
/-
  C36  Backend name/path mapping round-trips for every name.
  Statements are about `Model.NamePath`, tied by the correspondence check to
  lib/backend/namepath/pather.go (after the two repairs recorded in known/C36.json).
  Strings are BYTE lists (one `Char` per byte), as Go's `len` and slicing see them.  The identity theorem
  is for every root byte string; the tag and sharded theorems are for every root whose base path is
  valid UTF-8 (regexp.MustCompile panics otherwise; configuration strings come from YAML) — any
  characters, any depth, with or without trailing slashes, "/", "", ".", "." / ".." elements, regexp
  metacharacters — and every valid name of the scheme (supersets of the Docker repository / tag grammar,
  of hex digests, and of clean relative paths).  One clause fails for the code and is a known finding:
  a blob name that starts with a two-byte UTF-8 character (`shard_roundtrip_target`, `not_shard_roundtrip`).
-/
namespace KrakenModel.Spec.C36
open KrakenModel.NamePath KrakenModel.Codec KrakenModel.Proof.C36

/-! ### from the Bool predicates to facts -/

theorem not_contains {s : List Char} {c : Char} (h : (!s.contains c) = true) : c ∉ s := by
  intro hm
  have : s.contains c = true := List.contains_iff_mem.mpr hm
  rw [this] at h; cases h

theorem no_newline {s : List Char} (h : (!hasNewline s) = true) : hasNewline s = false := by
  cases hs : hasNewline s with
  | false => rfl
  | true => rw [hs] at h; cases h

/-- the elements of a clean relative path are plain -/
theorem cleanRel_plain (s : List Char) (h : cleanRel s = true) : ∀ c ∈ splitOn '/' s, Plain c := by
  intro c hc
  have hp := List.all_eq_true.mp h c hc
  simp only [plainComp, Bool.and_eq_true, bne_iff_ne, ne_eq] at hp
  exact ⟨hp.1.1, hp.1.2, hp.2, splitOn_parts_no_sep '/' s c hc⟩

theorem cleanRel_ne_nil (s : List Char) (h : cleanRel s = true) : s ≠ [] := by
  intro hs; subst hs
  have := cleanRel_plain [] h [] (by simp [splitOn])
  exact this.1 rfl

/-! ### the base path is a rendered clean stack -/

theorem plain_append_good (r : Bool) (st q : List (List Char)) (h : GoodStack r st) (hq : ∀ c ∈ q, Plain c) :
    GoodStack r (st ++ q) := by
  obtain ⟨k, P, rfl, hP, hr⟩ := h
  exact ⟨k, P ++ q, by simp, fun c hc => by
    rcases List.mem_append.mp hc with hc | hc
    · exact hP c hc
    · exact hq c hc, hr⟩

/-- `path.Join(root, d₁/…/dₙ)` for plain `dᵢ` -/
theorem join_root (root : List Char) (q : List (List Char)) (hq : q ≠ []) (hpl : ∀ c ∈ q, Plain c) :
    ∃ r S, GoodStack r S ∧ S ≠ [] ∧ pathJoin [root, joinSlash q] = render r S ∧
      (root = [] → r = false ∧ S = q) ∧ (root ≠ [] → r = isRooted root ∧ S = stackOf root ++ q) := by
  have hj : joinSlash q ≠ [] := (joinSlash_head q hq (fun c hc => ⟨(hpl c hc).1, (hpl c hc).2.2.2⟩)).2
  by_cases hroot : root = []
  · subst hroot
    refine ⟨false, q, ⟨0, q, by simp, hpl, fun h => by cases h⟩, hq, ?_, fun _ => ⟨rfl, rfl⟩, fun h => absurd rfl h⟩
    simp only [pathJoin, List.filter_cons, ne_eq, not_true_eq_false, decide_false, Bool.false_eq_true, if_false,
      hj, not_false_eq_true, decide_true, if_true, List.filter_nil]
    rw [show joinSlash [joinSlash q] = joinSlash q from rfl, (pathClean_plain q hq hpl).1]
    simp [render, hq]
  · refine ⟨isRooted root, stackOf root ++ q, plain_append_good _ _ _ (stackOf_good root) hpl, by simp [hq], ?_,
      fun h => absurd h hroot, fun _ => ⟨rfl, rfl⟩⟩
    simp only [pathJoin, List.filter_cons, ne_eq, hroot, not_false_eq_true, decide_true, if_true, hj, List.filter_nil]
    rw [show joinSlash [root, joinSlash q] = root ++ '/' :: joinSlash q from rfl]
    exact pathClean_append_plain root hroot q hq hpl

/-- joining further plain elements onto a rendered clean stack appends them -/
theorem join_base (r : Bool) (S : List (List Char)) (hg : GoodStack r S) (hS : S ≠ [])
    (elems : List (List Char)) (he : elems ≠ []) (hne : ∀ e ∈ elems, e ≠ [])
    (q : List (List Char)) (hq : q ≠ []) (hpl : ∀ c ∈ q, Plain c) (hjoin : joinSlash elems = joinSlash q) :
    pathJoin (render r S :: elems) = render r S ++ '/' :: joinSlash q := by
  have hb : render r S ≠ [] := render_ne_nil r S hg
  have hf : (render r S :: elems).filter (fun e => e ≠ []) = render r S :: elems := by
    rw [List.filter_eq_self]
    intro e he'
    rcases List.mem_cons.mp he' with h | h
    · subst h; simpa using hb
    · simpa using hne e h
  simp only [pathJoin, hf]
  have : (render r S :: elems) ≠ [] := by simp
  simp only [this, if_false]
  rw [joinSlash_cons _ _ he, hjoin, pathClean_append_plain _ hb q hq hpl, isRooted_render r S hg,
    stackOf_render r S hg, render_append r S q hS hq]

def repositoriesComps : List (List Char) :=
  [['d','o','c','k','e','r'], ['r','e','g','i','s','t','r','y'], ['v','2'], ['r','e','p','o','s','i','t','o','r','i','e','s']]
def blobsComps : List (List Char) :=
  [['d','o','c','k','e','r'], ['r','e','g','i','s','t','r','y'], ['v','2'], ['b','l','o','b','s']]

theorem plain_of_decide (c : List Char) (h : (decide (c ≠ []) && decide (c ≠ dot) && decide (c ≠ dotdot) && !c.contains '/') = true) :
    Plain c := by
  simp only [Bool.and_eq_true, decide_eq_true_eq] at h
  exact ⟨h.1.1.1, h.1.1.2, h.1.2, not_contains h.2⟩

/-! ### (1) docker tags -/

/-- **C36 tags**: for every root and every valid `repo:tag`, the blob path is built and maps back to `repo:tag` -/
theorem tag_roundtrip (root repo tag : List Char) (hutf : validUTF8 (basePath .tag root) = true)
    (hr : validRepo repo = true) (ht : validTag tag = true) :
    ∃ bp, blobPath .tag root (repo ++ ':' :: tag) = .ok bp ∧
      nameFromBlobPath .tag root bp = .ok (repo ++ ':' :: tag) := by
  simp only [validRepo, Bool.and_eq_true] at hr
  obtain ⟨⟨hclean, hrc⟩, hrn⟩ := hr
  simp only [validTag, Bool.and_eq_true, bne_iff_ne, ne_eq] at ht
  obtain ⟨⟨⟨⟨⟨ht1, ht2⟩, ht3⟩, hts⟩, htc⟩, htn⟩ := ht
  have hrc' := not_contains hrc
  have htc' := not_contains htc
  have hts' := not_contains hts
  have hrne := cleanRel_ne_nil repo hclean
  have hsplit : splitOn ':' (repo ++ ':' :: tag) = [repo, tag] := by
    rw [splitOn_append ':' repo tag hrc', splitOn_of_not_mem ':' tag htc']
  -- the path
  obtain ⟨r, S, hg, hS, hbase, _, _⟩ := join_root root repositoriesComps (by decide)
    (fun c hc => plain_of_decide c (by revert c; decide))
  have hD : joinSlash repositoriesComps = repositoriesDir := rfl
  rw [hD] at hbase
  let q : List (List Char) := splitOn '/' repo ++ [['_','m','a','n','i','f','e','s','t','s'], ['t','a','g','s'], tag, ['c','u','r','r','e','n','t'], ['l','i','n','k']]
  have hqpl : ∀ c ∈ q, Plain c := by
    intro c hc
    rcases List.mem_append.mp hc with hc | hc
    · exact cleanRel_plain repo hclean c hc
    · simp only [List.mem_cons, List.not_mem_nil, or_false] at hc
      rcases hc with rfl | rfl | rfl | rfl | rfl
      · exact plain_of_decide _ (by decide)
      · exact plain_of_decide _ (by decide)
      · exact ⟨ht1, ht2, ht3, hts'⟩
      · exact plain_of_decide _ (by decide)
      · exact plain_of_decide _ (by decide)
  have hjoin : joinSlash [repo, manifestsTags, tag, currentLink] = joinSlash q := by
    have h1 : joinSlash q = joinSlash (splitOn '/' repo) ++ '/' :: joinSlash [['_','m','a','n','i','f','e','s','t','s'], ['t','a','g','s'], tag, ['c','u','r','r','e','n','t'], ['l','i','n','k']] :=
      joinSlash_append _ _ (splitOn_ne_nil _ _) (by simp)
    rw [h1, joinSlash_splitOn]
    simp [joinSlash, manifestsTags, currentLink]
  have hbp : pathJoin [basePath .tag root, repo, manifestsTags, tag, currentLink]
      = tagLit0 (basePath .tag root) ++ (repo ++ tagLit1 ++ tag ++ tagLit2) := by
    simp only [basePath]
    rw [hbase, join_base r S hg hS [repo, manifestsTags, tag, currentLink] (by simp)
      (by intro e he; simp only [List.mem_cons, List.not_mem_nil, or_false] at he
          rcases he with rfl | rfl | rfl | rfl
          · exact hrne
          · decide
          · exact ht1
          · decide)
      q (by simp [q]) hqpl hjoin, ← hjoin]
    simp [joinSlash, tagLit0, tagLit1, tagLit2, List.append_assoc]
  refine ⟨pathJoin [basePath .tag root, repo, manifestsTags, tag, currentLink],
    by simp only [blobPath, hsplit, hrne, ht1, if_false], ?_⟩
  rw [hbp]
  simp only [nameFromBlobPath, tagName, hutf, Bool.not_true, Bool.false_eq_true, if_false]
  have hf : (fun s => if isPrefixOf (tagLit0 (basePath .tag root)) s = true
        then twoGroups tagLit1 tagLit2 (s.drop (tagLit0 (basePath .tag root)).length) else none)
      (tagLit0 (basePath .tag root) ++ (repo ++ tagLit1 ++ tag ++ tagLit2)) = some (repo, tag) := by
    simp only [isPrefixOf_append, if_true, List.drop_left]
    exact twoGroups_tag repo tag hrne ht1 hts'
  rw [firstSuffix_of_some _ _ _ hf]
  simp [no_newline hrn, no_newline htn]

/-! ### (2) sharded blobs -/

/-- **C36 sharded blobs (the part that holds)**: for every root and every blob name whose first two bytes are
not one two-byte UTF-8 character — in particular every ASCII name and every hex digest -/
theorem shard_roundtrip (root name : List Char) (hutf : validUTF8 (basePath .shard root) = true)
    (hv : validShardName name = true) :
    ∃ bp, blobPath .shard root name = .ok bp ∧ nameFromBlobPath .shard root bp = .ok name := by
  simp only [validShardName, validShardNameBytes, Bool.and_eq_true, decide_eq_true_eq, bne_iff_ne, ne_eq] at hv
  obtain ⟨⟨⟨⟨hlen, hsl⟩, hnl⟩, hdd⟩, h2b0⟩ := hv
  have h2b : twoByteHead name = false := by
    cases hb : twoByteHead name with
    | false => rfl
    | true => rw [hb] at h2b0; cases h2b0
  have hsl' := not_contains hsl
  have hnn := no_newline hnl
  obtain ⟨a, b, rest, hname⟩ : ∃ a b rest, name = a :: b :: rest := by
    match name, hlen with
    | a :: b :: rest, _ => exact ⟨a, b, rest, rfl⟩
  have htake : name.take 2 = [a, b] := by rw [hname]; rfl
  have hnne : name ≠ [] := by rw [hname]; simp
  obtain ⟨r, S, hg, hS, hbase, _, _⟩ := join_root root blobsComps (by decide)
    (fun c hc => plain_of_decide c (by revert c; decide))
  have hD : joinSlash blobsComps = blobsDir := rfl
  rw [hD] at hbase
  let q : List (List Char) := [sha256Dir, [a, b], name, dataFile]
  have hqpl : ∀ c ∈ q, Plain c := by
    intro c hc
    simp only [q, List.mem_cons, List.not_mem_nil, or_false] at hc
    rcases hc with rfl | rfl | rfl | rfl
    · exact plain_of_decide _ (by decide)
    · refine ⟨by simp, by simp [dot], by rw [← htake]; exact hdd, ?_⟩
      intro hm; apply hsl'; rw [hname]
      simp only [List.mem_cons, List.not_mem_nil, or_false] at hm
      rcases hm with h | h
      · exact List.mem_cons.mpr (Or.inl h)
      · exact List.mem_cons_of_mem _ (List.mem_cons.mpr (Or.inl h))
    · refine ⟨hnne, ?_, ?_, hsl'⟩
      · intro h; rw [h] at hlen; simp [dot] at hlen
      · intro h; rw [h] at hlen; simp [dotdot] at hlen
    · exact plain_of_decide _ (by decide)
  have hbp : pathJoin [basePath .shard root, sha256Dir, name.take 2, name, dataFile]
      = shardLit0 (basePath .shard root) ++ (a :: b :: '/' :: (name ++ shardLit2)) := by
    simp only [basePath]
    rw [hbase, htake, join_base r S hg hS [sha256Dir, [a, b], name, dataFile] (by simp)
      (by intro e he; simp only [List.mem_cons, List.not_mem_nil, or_false] at he
          rcases he with rfl | rfl | rfl | rfl
          · decide
          · simp
          · exact hnne
          · decide)
      q (by simp [q]) hqpl rfl]
    simp [q, joinSlash, shardLit0, shardLit2, List.append_assoc]
  have hlt : ¬ (name.length ≤ 2) := by omega
  refine ⟨pathJoin [basePath .shard root, sha256Dir, name.take 2, name, dataFile],
    by simp only [blobPath, hlt, if_false], ?_⟩
  rw [hbp]
  simp only [nameFromBlobPath, shardName, hutf, Bool.not_true, Bool.false_eq_true, if_false]
  have h1 : a ≠ '\n' := by
    intro e; subst e
    have : hasNewline name = true := by rw [hname]; simp [hasNewline]
    rw [this] at hnn; cases hnn
  have h2 : b ≠ '\n' := by
    intro e; subst e
    have : hasNewline name = true := by rw [hname]; simp [hasNewline]
    rw [this] at hnn; cases hnn
  have h2b' : twoByteHead (a :: b :: '/' :: (name ++ shardLit2)) = false := by
    rw [hname] at h2b; simpa [twoByteHead] using h2b
  have hf : (fun s => if isPrefixOf (shardLit0 (basePath .shard root)) s = true then
        (match (dropRune (s.drop (shardLit0 (basePath .shard root)).length)).bind dropRune with
          | some ('/' :: r) => oneGroup shardLit2 r
          | _ => none) else none)
      (shardLit0 (basePath .shard root) ++ (a :: b :: '/' :: (name ++ shardLit2))) = some name := by
    simp only [isPrefixOf_append, if_true, List.drop_left, dropRune_two a b _ h2b' h1 h2]
    exact oneGroup_shard name hnne
  rw [firstSuffix_of_some _ _ _ hf]
  simp [hnn]

/-- the full statement for the sharded scheme: every name longer than two bytes without '/' or newline … -/
def shard_roundtrip_target : Prop :=
  ∀ (root name : List Char), validUTF8 (basePath .shard root) = true → validShardNameBytes name = true →
    ∃ bp, blobPath .shard root name = .ok bp ∧ nameFromBlobPath .shard root bp = .ok name

/-- … fails for a name that starts with a two-byte character ("éab" = C3 A9 61 62): `name[:2]` is one rune, the
inverse's `..` wants two (known finding shard-nonascii-name; no real blob name — a hex digest — is affected) -/
theorem not_shard_roundtrip : ¬ shard_roundtrip_target := by
  intro h
  obtain ⟨bp, h1, h2⟩ := h ['/', 'r'] [Char.ofNat 195, Char.ofNat 169, 'a', 'b'] (by decide) (by decide)
  have e : bp = pathJoin [basePath .shard ['/', 'r'], sha256Dir, [Char.ofNat 195, Char.ofNat 169], [Char.ofNat 195, Char.ofNat 169, 'a', 'b'], dataFile] := by
    have : blobPath .shard ['/', 'r'] [Char.ofNat 195, Char.ofNat 169, 'a', 'b'] = .ok (pathJoin [basePath .shard ['/', 'r'], sha256Dir, [Char.ofNat 195, Char.ofNat 169], [Char.ofNat 195, Char.ofNat 169, 'a', 'b'], dataFile]) := by decide
    rw [this] at h1; cases h1; rfl
  rw [e] at h2
  revert h2; decide

/-! ### (3) identity -/

/-- **C36 identity**: for every root — with or without trailing slashes, "/", "", "." — and every clean
relative name, the blob path maps back to the name -/
theorem ident_roundtrip (root name : List Char) (hv : validIdentName name = true) :
    ∃ bp, blobPath .ident root name = .ok bp ∧ nameFromBlobPath .ident root bp = .ok name := by
  have hpl := cleanRel_plain name hv
  have hq : splitOn '/' name ≠ [] := splitOn_ne_nil _ _
  have hjn : joinSlash (splitOn '/' name) = name := joinSlash_splitOn name
  refine ⟨_, rfl, ?_⟩
  simp only [nameFromBlobPath, identName]
  obtain ⟨r, S, hg, hS, hbase, h0, h1⟩ := join_root root (splitOn '/' name) hq hpl
  rw [hjn] at hbase
  rw [hbase]
  by_cases hroot : root = []
  · obtain ⟨hr, hS'⟩ := h0 hroot
    subst hroot; subst hr; subst hS'
    have hpre : identPrefix [] = [] := by decide
    rw [hpre]
    simp [render, hq, hjn, isPrefixOf]
  · obtain ⟨hr, hS'⟩ := h1 hroot
    have hjr : pathJoin [root] = render (isRooted root) (stackOf root) := by
      have hf : [root].filter (fun e => e ≠ []) = [root] := by simp [hroot]
      simp only [pathJoin, hf]
      rw [if_neg (by simp), show joinSlash [root] = root from rfl, pathClean_eq root hroot]
    have hgr := stackOf_good root
    subst hr; subst hS'
    by_cases hst : stackOf root = []
    · -- the cleaned root is "/" or "."
      rw [hst]
      simp only [List.nil_append]
      cases hro : isRooted root with
      | true =>
        have hpre : identPrefix root = ['/'] := by
          simp only [identPrefix, hjr, hst, hro, render, if_true, joinSlash]
          decide
        rw [hpre]
        simp [render, isPrefixOf, hjn]
      | false =>
        have hpre : identPrefix root = [] := by
          simp only [identPrefix, hjr, hst, hro, render, Bool.false_eq_true, if_false, if_true]
          simp
        rw [hpre]
        simp [render, hq, hjn, isPrefixOf]
    · -- the cleaned root ends in a non-empty element: prefix = cleaned root + "/"
      have hlast : (render (isRooted root) (stackOf root)).getLast? ≠ some '/' := by
        have hmem := good_mem _ _ hgr
        have hjl : ∀ (st : List (List Char)), st ≠ [] → (∀ c ∈ st, c ≠ [] ∧ '/' ∉ c) →
            (joinSlash st).getLast? ≠ some '/' ∧ joinSlash st ≠ [] := by
          intro st
          induction st with
          | nil => intro h; exact absurd rfl h
          | cons x xs ih =>
            intro _ hm
            obtain ⟨hx1, hx2⟩ := hm x (by simp)
            cases xs with
            | nil =>
              simp only [joinSlash]
              refine ⟨?_, hx1⟩
              intro hl
              exact hx2 (List.mem_of_getLast? hl)
            | cons y ys =>
              have := ih (by simp) (fun c hc => hm c (by simp [hc]))
              rw [joinSlash_cons x _ (by simp)]
              refine ⟨?_, by simp⟩
              rw [List.getLast?_append]
              cases hj : (joinSlash (y :: ys)).getLast? with
              | none => exact absurd (List.getLast?_eq_none_iff.mp hj) this.2
              | some c =>
                have hc : c ≠ '/' := fun e => this.1 (by rw [hj, e])
                simp [List.getLast?_cons, hj, hc]
        have := hjl (stackOf root) hst hmem
        cases hro : isRooted root with
        | true =>
          simp only [render, if_true]
          rw [List.getLast?_cons]
          cases hj : (joinSlash (stackOf root)).getLast? with
          | none => exact absurd (List.getLast?_eq_none_iff.mp hj) this.2
          | some c => simp only [Option.getD_some]; rw [← hj]; exact this.1
        | false => simp only [render, Bool.false_eq_true, if_false, hst]; exact this.1
      have hne : render (isRooted root) (stackOf root) ≠ [] := render_ne_nil _ _ hgr
      have hnd : render (isRooted root) (stackOf root) ≠ dot := by
        intro hd
        have h2 := stackOf_render _ _ hgr
        rw [hd] at h2
        have : stackOf dot = [] := by decide
        rw [this] at h2
        exact hst h2.symm
      have hpre : identPrefix root = render (isRooted root) (stackOf root) ++ ['/'] := by
        simp only [identPrefix, hjr, hne, hnd, or_self, if_false, hlast]
      rw [hpre, render_append _ _ _ hst hq, hjn]
      have e : render (isRooted root) (stackOf root) ++ '/' :: name = (render (isRooted root) (stackOf root) ++ ['/']) ++ name := by simp
      rw [e, isPrefixOf_append, List.drop_left]
      simp

/-! ### the two repaired defects, as they were -/

/-- the former identity inverse lost the first character for a root with a trailing slash, "/" or "" … -/
theorem old_ident_loses_first_char :
    identNameOld ['/','a','/'] ['/','a','/','x','y','z'] = .ok ['y','z'] ∧
    identNameOld ['/'] ['/','x','y','z'] = .ok ['y','z'] ∧
    identNameOld [] ['x','y','z'] = .ok ['y','z'] := by decide

/-- … and sliced out of range for an empty name -/
theorem old_ident_panics : identNameOld ['/','a'] ['/','a'] = .panic := by decide

/-! ### non-vacuity -/

def exRepo : List Char := ['l','i','b','/','u','b','u','n','t','u']
def exTag : List Char := ['v','1','.','2']
example : validRepo exRepo = true ∧ validTag exTag = true := by decide
example : validRepo ['a','/','/','b'] = false ∧ validRepo ['.','.','/','a'] = false ∧ validTag ['a','/','b'] = false := by decide
example : blobPath .tag ['/','r','/'] (exRepo ++ ':' :: exTag) = .ok
    (['/','r','/'] ++ repositoriesDir ++ '/' :: exRepo ++ '/' :: manifestsTags ++ '/' :: exTag ++ '/' :: currentLink) := by decide
example : nameFromBlobPath .tag ['/','r','/']
    (['/','r','/'] ++ repositoriesDir ++ '/' :: exRepo ++ '/' :: manifestsTags ++ '/' :: exTag ++ '/' :: currentLink)
    = .ok (exRepo ++ ':' :: exTag) := by decide
example : nameFromBlobPath .ident ['/','a','/','b','/'] ['/','a','/','b','/','x','y','z'] = .ok ['x','y','z'] := by decide
example : nameFromBlobPath .ident ['/'] ['/','x'] = .ok ['x'] ∧ nameFromBlobPath .ident [] ['x'] = .ok ['x'] := by decide
example : nameFromBlobPath .ident ['/','a'] ['/','b','/','x'] = .err := by decide
example : pathJoin [['/','a','/','.','/','b','/','.','.','/','c','/'], ['x']] = ['/','a','/','c','/','x'] := by decide
example : pathClean ['.','.','/','.','.','/','a','/','.','.'] = ['.','.','/','.','.'] ∧ pathClean ['/','.','.'] = ['/'] ∧ pathClean [] = ['.'] := by decide
example : nameFromBlobPath .shard ['/','r']
    (['/','r','/'] ++ blobsDir ++ ['/','s','h','a','2','5','6','/','a','b','/','a','b','c','d','/','d','a','t','a']) = .ok ['a','b','c','d'] := by decide

end KrakenModel.Spec.C36
