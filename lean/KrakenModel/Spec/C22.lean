import KrakenModel.Util.LTS
import KrakenModel.Model.Rendezvous
import KrakenModel.Proof.C22
/-
  C22  Rendezvous ordering is insertion-independent and minimally disruptive.

  `score : κ → ν → S` is an arbitrary function into an arbitrary linear order (the murmur3/sha256 +
  float arithmetic of `RendezvousHashNode.Score` is a parameter; the driver feeds Go's values).
  No sorting algorithm is assumed: the statements with an `out` argument speak about ANY list that
  is a descending-sorted permutation of the nodes — which is what the driver validates on every
  `GetOrderedNodes` result of the real code.  The only hypothesis is that the scores of the nodes
  for the key are pairwise distinct (`InjOn`); the driver reports every tie it meets.
-/
set_option linter.unusedSectionVars false
namespace KrakenModel.Spec.C22
open KrakenModel KrakenModel.Rendezvous KrakenModel.Proof.C22

section Generic
variable {κ ν S : Type} [DecidableEq ν] [LE S] [DecidableLE S] [Std.IsLinearOrder S]
variable (score : κ → ν → S)

/-- `out` is an acceptable result of sorting `nodes` descending by score for `key` -/
def IsOrdering (key : κ) (nodes out : List ν) : Prop :=
  out.Perm nodes ∧ SortedDesc (score key) out

/-- C22 (1, reference sort only) the model's own insertion sort `ordered` is a permutation of the
nodes sorted by descending score.  This is true by construction of `ordered` and says nothing about
Go's `sort.Sort`; the obligation on the implementation is `any_ordering_is_ordered` below, whose
hypothesis `IsOrdering` (sorted permutation) is what the driver checks on every real result, and
`sort_contract_is_sortedDesc`, which derives that hypothesis from sort.Sort's contract. -/
theorem ordered_perm_sorted (nodes : List ν) (key : κ) :
    IsOrdering score key nodes (ordered (score key) nodes) :=
  ⟨ordered_perm _ _, ordered_sorted _ _⟩

/-- `Less(i,j) := score i < score j` (RendezvousNodesByScore.Less) is a strict weak order whenever the
scores live in a linear order (no NaN): irreflexive, transitive, and incomparability (= equal score)
is transitive.  This is the precondition under which `sort.Sort` guarantees a sorted result. -/
theorem less_is_strict_weak_order (sc : ν → S) :
    let less := fun a b => ¬ sc b ≤ sc a
    (∀ a, ¬ less a a) ∧ (∀ a b c, less a b → less b c → less a c) ∧
    (∀ a b c, (¬ less a b ∧ ¬ less b a) → (¬ less b c ∧ ¬ less c b) → (¬ less a c ∧ ¬ less c a)) := by
  refine ⟨fun a h => h (le_rfl' _), ?_, ?_⟩
  · intro a b c h1 h2 h3
    have hab : sc a ≤ sc b := (le_tot (sc a) (sc b)).resolve_right h1
    exact h2 (le_tr h3 hab)
  · intro a b c ⟨h1, h2⟩ ⟨h3, h4⟩
    have ab : sc b ≤ sc a := Classical.not_not.mp h1
    have ba : sc a ≤ sc b := Classical.not_not.mp h2
    have bc : sc c ≤ sc b := Classical.not_not.mp h3
    have cb : sc b ≤ sc c := Classical.not_not.mp h4
    exact ⟨fun h => h (le_tr bc ab), fun h => h (le_tr ba cb)⟩

/-- The contract of `sort.Sort(sort.Reverse(byScore))` — no later element is `Less`-greater than an
earlier one under the reversed predicate, i.e. never `score out[i] < score out[j]` for `i < j` —
is exactly `SortedDesc`.  Together with "sort.Sort permutes its input" this is `IsOrdering`. -/
theorem sort_contract_is_sortedDesc (sc : ν → S) (out : List ν) :
    out.Pairwise (fun a b => ¬ (¬ sc b ≤ sc a)) ↔ SortedDesc sc out := by
  unfold SortedDesc
  constructor <;> intro h <;> refine h.imp ?_
  · intro a b hab; exact Classical.not_not.mp hab
  · intro a b hab h'; exact h' hab

/-- **C22 (2)** algorithm independence: whatever produced `out`, if it is a descending-sorted
permutation of the nodes and the scores are pairwise distinct, it is THE ordering. -/
theorem any_ordering_is_ordered (nodes out : List ν) (key : κ)
    (ho : IsOrdering score key nodes out) (inj : InjOn (score key) nodes) :
    out = ordered (score key) nodes :=
  sorted_perm_unique (score key) out _ (ho.1.trans (ordered_perm _ _).symm) ho.2 (ordered_sorted _ _)
    (injOn_perm _ ho.1.symm inj)

/-- **C22 (3)** insertion-order independence: two node lists with the same members (any order of
insertion) have the same ordering. -/
theorem ordered_unique (nodes nodes' : List ν) (key : κ) (hp : nodes.Perm nodes')
    (inj : InjOn (score key) nodes) :
    ordered (score key) nodes = ordered (score key) nodes' :=
  any_ordering_is_ordered score nodes' _ key
    ⟨(ordered_perm _ _).trans hp, ordered_sorted _ _⟩ (injOn_perm _ hp inj)

/-- (2)+(3) together, without mentioning the reference sort at all: any two acceptable outputs for
any two insertion orders of the same membership are equal. -/
theorem orderings_agree (nodes nodes' out out' : List ν) (key : κ) (hp : nodes.Perm nodes')
    (ho : IsOrdering score key nodes out) (ho' : IsOrdering score key nodes' out')
    (inj : InjOn (score key) nodes) : out = out' := by
  rw [any_ordering_is_ordered score nodes out key ho inj,
      any_ordering_is_ordered score nodes' out' key ho' (injOn_perm _ hp inj)]
  exact ordered_unique score nodes nodes' key hp inj

/-- **C22 (4)** removing a node only removes it from the key's list. -/
theorem remove_minimal (nodes : List ν) (key : κ) (n : ν) (inj : InjOn (score key) nodes) :
    ordered (score key) (nodes.erase n) = (ordered (score key) nodes).erase n := by
  symm
  apply any_ordering_is_ordered score (nodes.erase n) _ key
  · exact ⟨(ordered_perm _ _).erase n, sorted_erase _ _ _ (ordered_sorted _ _)⟩
  · exact injOn_sub _ (fun x hx => List.mem_of_mem_erase hx) inj

/-- (4) for arbitrary implementation outputs before and after the removal -/
theorem remove_minimal_any (nodes out out' : List ν) (key : κ) (n : ν)
    (ho : IsOrdering score key nodes out) (ho' : IsOrdering score key (nodes.erase n) out')
    (inj : InjOn (score key) nodes) : out' = out.erase n := by
  rw [any_ordering_is_ordered score nodes out key ho inj,
      any_ordering_is_ordered score _ out' key ho' (injOn_sub _ (fun x hx => List.mem_of_mem_erase hx) inj)]
  exact remove_minimal score nodes key n inj

/-- **C22 (5)** adding a node (Go appends it to `Nodes`) only inserts it: the old list is split in
two and the new node placed between, nothing else moves. -/
theorem add_minimal (nodes : List ν) (key : κ) (n : ν) (inj : InjOn (score key) (n :: nodes)) :
    ∃ pre suf, ordered (score key) nodes = pre ++ suf ∧
      ordered (score key) (nodes ++ [n]) = pre ++ n :: suf := by
  have hp : (n :: nodes).Perm (nodes ++ [n]) := by
    simpa using (List.perm_append_comm (l₁ := [n]) (l₂ := nodes))
  rw [← ordered_unique score (n :: nodes) (nodes ++ [n]) key hp inj, ordered_cons]
  exact insertDesc_split _ _ _

/-- (5) for arbitrary implementation outputs before and after the addition of a new node -/
theorem add_minimal_any (nodes out out' : List ν) (key : κ) (n : ν) (hn : n ∉ nodes)
    (ho : IsOrdering score key nodes out) (ho' : IsOrdering score key (nodes ++ [n]) out')
    (inj : InjOn (score key) (n :: nodes)) :
    out'.erase n = out ∧ ∃ pre suf, out = pre ++ suf ∧ out' = pre ++ n :: suf := by
  have hp : (n :: nodes).Perm (nodes ++ [n]) := by
    simpa using (List.perm_append_comm (l₁ := [n]) (l₂ := nodes))
  have injn : InjOn (score key) nodes := injOn_sub _ (fun x hx => List.mem_cons_of_mem _ hx) inj
  obtain ⟨pre, suf, h1, h2⟩ := add_minimal score nodes key n inj
  rw [any_ordering_is_ordered score nodes out key ho injn,
      any_ordering_is_ordered score _ out' key ho' (injOn_perm _ hp inj)]
  refine ⟨?_, pre, suf, h1, h2⟩
  rw [h2, h1]
  have hnp : n ∉ pre := fun h => hn ((ordered_perm (score key) nodes).mem_iff.mp (by rw [h1]; simp [h]))
  rw [List.erase_append_right _ hnp]; simp

/-- **C22 (6)** the general form of "relative order of all other nodes unchanged": for any two
memberships (duplicate-free) the nodes they have in common appear in the same relative order. -/
theorem common_nodes_same_order (a b outA outB : List ν) (key : κ) (hna : a.Nodup) (hnb : b.Nodup)
    (hoa : IsOrdering score key a outA) (hob : IsOrdering score key b outB)
    (inj : InjOn (score key) (a ++ b)) :
    outA.filter (· ∈ b) = outB.filter (· ∈ a) := by
  apply sorted_perm_unique (score key)
  · apply (List.perm_ext_iff_of_nodup ?_ ?_).mpr
    · intro x
      simp only [List.mem_filter, decide_eq_true_eq, hoa.1.mem_iff, hob.1.mem_iff]
      exact ⟨fun h => ⟨h.2, h.1⟩, fun h => ⟨h.2, h.1⟩⟩
    · exact (hoa.1.nodup_iff.mpr hna).filter _
    · exact (hob.1.nodup_iff.mpr hnb).filter _
  · exact sorted_filter _ _ _ hoa.2
  · exact sorted_filter _ _ _ hob.2
  · intro x hx y hy
    have hx' := hoa.1.mem_iff.mp (List.mem_filter.mp hx).1
    have hy' := hoa.1.mem_iff.mp (List.mem_filter.mp hy).1
    exact inj x (List.mem_append_left _ hx') y (List.mem_append_left _ hy')

/-- **C22 (7)** `GetOrderedNodes(key, k)` prefixes: a node outside the top `k` can leave without
changing the top `k`. -/
theorem top_k_stable (nodes : List ν) (key : κ) (n : ν) (k : Nat) (inj : InjOn (score key) nodes)
    (hn : n ∉ (ordered (score key) nodes).take k) :
    (ordered (score key) (nodes.erase n)).take k = (ordered (score key) nodes).take k := by
  rw [remove_minimal score nodes key n inj]
  generalize ordered (score key) nodes = l at hn
  induction l generalizing k with
  | nil => simp
  | cons x t ih =>
    cases k with
    | zero => simp
    | succ k =>
      have hx : x ≠ n := fun h => hn (by simp [h])
      have ht : n ∉ t.take k := fun h => hn (by simp [List.take_succ_cons, h])
      rw [List.erase_cons_tail (by simpa using hx), List.take_succ_cons, List.take_succ_cons, ih k ht]

/-- The full statement of the property without the distinct-scores hypothesis: any two acceptable
outputs for the same membership agree.  REFUTED (`not_order_independent`): the real code reaches
score ties — `lib/store.initCASVolumes` passes `Volume.Weight` unchecked, and a weight of 0 (the
zero value of an omitted `weight:`) makes every score `-0/log(s) = 0`; known finding
`order-dependent-nonpositive-weight`, replayed on every run against initCASVolumes. -/
def order_independent_target : Prop :=
  ∀ (sc : Nat → Int) (nodes nodes' out out' : List Nat), nodes.Perm nodes' →
    IsOrdering (fun (_ : Unit) => sc) () nodes out → IsOrdering (fun (_ : Unit) => sc) () nodes' out' → out = out'

theorem not_order_independent : ¬ order_independent_target := by
  intro h
  have := h (fun _ => 0) [1, 2] [1, 2] [1, 2] [2, 1] (List.Perm.refl _)
    ⟨List.Perm.refl _, by decide⟩ ⟨List.Perm.swap 1 2 [], by decide⟩
  exact absurd this (by decide)

/-- the strongest true form: order independence for every membership whose scores are pairwise distinct -/
theorem order_independent_partial (sc : Nat → Int) (nodes nodes' out out' : List Nat) (hp : nodes.Perm nodes')
    (ho : IsOrdering (fun (_ : Unit) => sc) () nodes out) (ho' : IsOrdering (fun (_ : Unit) => sc) () nodes' out')
    (inj : InjOn sc nodes) : out = out' :=
  orderings_agree (fun (_ : Unit) => sc) nodes nodes' out out' () hp ho ho' inj

/-- The hypothesis is necessary: with a score tie two different orderings are both acceptable, so
the result may depend on insertion order / the sort algorithm. -/
theorem tie_admits_two_orderings :
    IsOrdering (fun (_ : Unit) (_ : Nat) => (0 : Int)) () [1, 2] [1, 2] ∧
    IsOrdering (fun (_ : Unit) (_ : Nat) => (0 : Int)) () [1, 2] [2, 1] := by
  refine ⟨⟨List.Perm.refl _, by decide⟩, ⟨List.Perm.swap 1 2 [], by decide⟩⟩

end Generic

/-! ### The RendezvousHash object (AddNode / RemoveNode histories, GetOrderedNodes) -/

section Api
variable {κ S : Type} [LE S] [DecidableLE S] [Std.IsLinearOrder S] (score : κ → Node → S)

def sys : Sys State Op := { init := init, step := step }

/-- `GetOrderedNodes(key, n)` for `n ≥ 0` is the first `n` of the ordering (all of it when `n` is large). -/
theorem getOrdered_is_prefix (s : State) (key : κ) (n : Nat) :
    getOrderedNodes score s key (n : Int) = .ok ((ordered (score key) s.nodes).take n) := by
  unfold getOrderedNodes
  simp only []
  split
  · rename_i h
    have : (ordered (score key) s.nodes).length ≤ n := by omega
    rw [List.take_of_length_le this]
  · have : ¬ ((n : Int) < 0) := by omega
    simp [this]

/-- **C22 (3, API level)** every two histories of AddNode/RemoveNode (any lengths) that end with the
same membership give the same `GetOrderedNodes` result for every key with distinct scores and every `n`. -/
theorem getOrdered_history_independent (h1 h2 : List Op) (key : κ) (n : Int)
    (hp : (sys.run h1).nodes.Perm (sys.run h2).nodes)
    (inj : InjOn (score key) (sys.run h1).nodes) :
    getOrderedNodes score (sys.run h1) key n = getOrderedNodes score (sys.run h2) key n := by
  unfold getOrderedNodes
  rw [ordered_unique score _ _ key hp inj]

/-- `RemoveNode(label)` removes exactly the node carrying that label when labels are distinct. -/
theorem removeNode_erases (s : State) (nd : Node) (hm : nd ∈ s.nodes)
    (hl : (s.nodes.map (·.label)).Nodup) :
    (removeNode s nd.label).nodes = s.nodes.erase nd := by
  unfold removeNode
  simp only []
  generalize s.nodes = l at hm hl
  induction l with
  | nil => cases hm
  | cons x t ih =>
    have hl' : x.label ∉ t.map (·.label) ∧ (t.map (·.label)).Nodup := List.nodup_cons.mp hl
    by_cases hx : x = nd
    · subst hx; simp
    · have hmt : nd ∈ t := by
        rcases List.mem_cons.mp hm with h | h
        · exact absurd h.symm hx
        · exact h
      have hne : x.label ≠ nd.label := fun h => hl'.1 (by rw [h]; exact List.mem_map_of_mem hmt)
      rw [List.eraseP_cons_of_neg (by simpa using hne), List.erase_cons_tail (by simpa using hx),
        ih hmt hl'.2]

/-- **C22 (4, API level)** after `RemoveNode` every key's list is the old list without that node. -/
theorem removeNode_minimal (s : State) (nd : Node) (key : κ) (hm : nd ∈ s.nodes)
    (hl : (s.nodes.map (·.label)).Nodup) (inj : InjOn (score key) s.nodes) :
    ordered (score key) (removeNode s nd.label).nodes = (ordered (score key) s.nodes).erase nd := by
  rw [removeNode_erases s nd hm hl]
  exact remove_minimal score s.nodes key nd inj

/-- **C22 (5, API level)** after `AddNode` of a new node every key's list is the old list with the
node inserted at one place. -/
theorem addNode_minimal (s : State) (l : String) (w : Int) (key : κ)
    (inj : InjOn (score key) (⟨l, w⟩ :: s.nodes)) :
    ∃ pre suf, ordered (score key) s.nodes = pre ++ suf ∧
      ordered (score key) (addNode s l w).nodes = pre ++ ⟨l, w⟩ :: suf :=
  add_minimal score s.nodes key ⟨l, w⟩ inj

/-- negative `n` is the only way to make `GetOrderedNodes` panic (`nodes[:n]`) -/
theorem getOrdered_panics_iff (s : State) (key : κ) (n : Int) :
    getOrderedNodes score s key n = .panic ↔ n < 0 := by
  unfold getOrderedNodes
  simp only []
  constructor
  · intro h
    split at h
    · cases h
    · split at h
      · assumption
      · cases h
  · intro h
    have : ¬ (n ≥ ((ordered (score key) s.nodes).length : Int)) := by omega
    simp [this, h]

end Api

/-! ### non-vacuity -/

private def sc0 : Unit → Nat → Int := fun _ n => [30, 10, 50, 20, 40].getD n 0
instance {ν S : Type} [DecidableEq ν] [DecidableEq S] (sc : ν → S) (l : List ν) : Decidable (InjOn sc l) := by
  unfold InjOn; exact inferInstance

example : InjOn (sc0 ()) [0, 1, 2, 3, 4] := by decide
example : ordered (sc0 ()) [0, 1, 2, 3, 4] = [2, 4, 0, 3, 1] := by decide
example : ordered (sc0 ()) [4, 3, 2, 1, 0] = [2, 4, 0, 3, 1] := by decide
example : ordered (sc0 ()) ([0, 1, 2, 3, 4].erase 4) = [2, 0, 3, 1] := by decide
example : IsOrdering sc0 () [0, 1, 2] [2, 0, 1] := ⟨by decide, by decide⟩

private def scN : String → Node → Int := fun k n => (k.length : Int) * 7 + n.weight * 3 + n.label.length
example : getOrderedNodes scN (sys.run [.add "a" 1, .add "bb" 2, .add "ccc" 5, .remove "bb"]) "ab" 1
    = .ok [⟨"ccc", 5⟩] := by decide
example : getOrderedNodes scN (sys.run [.add "a" 1]) "ab" (-1) = .panic := by decide

end KrakenModel.Spec.C22
